/-
  C12 helper lemmas: datetime text form.
-/
import CedarGoProofs.Lemmas.C12Digits
import CedarGoProofs.Lemmas.C12Civil
import CedarGoProofs.Lemmas.C12Duration
namespace CedarGo.Scalars
open CedarGo

theorem expectCh_cons (c : Char) (s : List Char) : expectCh c (c :: s) = some s := by simp [expectCh]

theorem daysInMonth_le (y : Int) (m : Nat) : daysInMonth y m ≤ 31 := by
  unfold daysInMonth; split <;> (try split) <;> omega

/-- `hh:mm:ss.SSS` as the printer writes it -/
theorem dtTime_canon (hh mi ss ml : Nat) (rest : List Char) (h1 : hh ≤ 23) (h2 : mi ≤ 59) (h3 : ss ≤ 59) (h4 : ml ≤ 999) :
    dtTime (padL 2 hh ++ (':' :: (padL 2 mi ++ (':' :: (padL 2 ss ++ ('.' :: (padL 3 ml ++ rest))))))) =
      some (hh, mi, ss, ml, rest) := by
  unfold dtTime
  rw [takeUint_padL 2 hh 23 _ (by omega) (by omega) h1]
  simp only [expectCh_cons]
  rw [takeUint_padL 2 mi 59 _ (by omega) (by omega) h2]
  simp only [expectCh_cons]
  rw [takeUint_padL 2 ss 59 _ (by omega) (by omega) h3]
  simp only
  rw [takeUint_padL 3 ml 999 _ (by omega) (by omega) h4]

/-- `MM-DD` and the validity test, shared by both year formats -/
theorem dtMonthDay_canon (year : Int) (m d : Nat) (rest : List Char) (hv : validDate year m d) :
    dtMonthDay year (padL 2 m ++ ('-' :: (padL 2 d ++ rest))) = some (year, m, d, rest) := by
  obtain ⟨hm1, hm2, hd1, hd2⟩ := hv
  have hd31 := daysInMonth_le year m
  unfold dtMonthDay
  rw [takeUint_padL 2 m 12 _ (by omega) (by omega) hm2]
  simp only [expectCh_cons]
  rw [takeUint_padL 2 d 31 _ (by omega) (by omega) (by omega)]
  simp [hm1, hd1, hd2]

/-- years 0000–9999: four digits -/
theorem dtDate_canon4 (y : Int) (m d : Nat) (rest : List Char) (_hy : 0 ≤ y ∧ y ≤ 9999) (hv : validDate y m d) :
    dtDate (padL 4 y.toNat ++ ('-' :: (padL 2 m ++ ('-' :: (padL 2 d ++ rest))))) = some (y, m, d, rest) := by
  obtain ⟨c, r, e, hc⟩ := padL_head 4 y.toNat (by omega) (by omega)
  obtain ⟨s1, s2, s3⟩ := padL_spec 4 y.toNat (by omega) (by omega)
  rw [e] at s1 s2 s3 ⊢
  have hne := isDig_ne hc
  have hh : dtHeader ((c :: r) ++ ('-' :: (padL 2 m ++ ('-' :: (padL 2 d ++ rest))))) =
      some (1, 4, 9999, (c :: r) ++ ('-' :: (padL 2 m ++ ('-' :: (padL 2 d ++ rest))))) := by
    simp [dtHeader, hne.2.1, hne.2.2.1, hc]
  unfold dtDate
  rw [hh]
  simp only
  rw [takeUint_append (c :: r) _ 4 9999 s1 (by omega) s2 (by omega), s3]
  simp only [expectCh_cons]
  rw [show ((y.toNat : Nat) : Int) * 1 = y by omega]
  exact dtMonthDay_canon y m d rest hv

/-- other years: sign and nine digits -/
theorem dtDate_canon9 (y : Int) (m d : Nat) (rest : List Char) (_hy : y < 0 ∨ 9999 < y) (hb : y.natAbs ≤ 999999999)
    (hv : validDate y m d) :
    dtDate ((if y < 0 then '-' else '+') :: (padL 9 y.natAbs ++ ('-' :: (padL 2 m ++ ('-' :: (padL 2 d ++ rest)))))) =
      some (y, m, d, rest) := by
  unfold dtDate
  by_cases hneg : y < 0
  · simp only [hneg, if_true]
    have hh : dtHeader ('-' :: (padL 9 y.natAbs ++ ('-' :: (padL 2 m ++ ('-' :: (padL 2 d ++ rest)))))) =
        some (-1, 9, 999999999, padL 9 y.natAbs ++ ('-' :: (padL 2 m ++ ('-' :: (padL 2 d ++ rest))))) := by
      simp [dtHeader]
    rw [hh]
    simp only
    rw [takeUint_padL 9 y.natAbs 999999999 _ (by omega) (by omega) hb]
    simp only [expectCh_cons]
    rw [show ((y.natAbs : Nat) : Int) * -1 = y by omega]
    exact dtMonthDay_canon y m d rest hv
  · simp only [hneg, if_false]
    have hh : dtHeader ('+' :: (padL 9 y.natAbs ++ ('-' :: (padL 2 m ++ ('-' :: (padL 2 d ++ rest)))))) =
        some (1, 9, 999999999, padL 9 y.natAbs ++ ('-' :: (padL 2 m ++ ('-' :: (padL 2 d ++ rest))))) := by
      simp [dtHeader]
    rw [hh]
    simp only
    rw [takeUint_padL 9 y.natAbs 999999999 _ (by omega) (by omega) hb]
    simp only [expectCh_cons]
    rw [show ((y.natAbs : Nat) : Int) * 1 = y by omega]
    exact dtMonthDay_canon y m d rest hv


theorem maxDatetimeMs_eq : maxDatetimeMs = maxI64 := by decide
theorem minDatetimeMs_eq : minDatetimeMs = minI64 + 86400000 := by decide

/-- the final range test of `ParseDatetime` (with the constants as written in the Go source) -/
def rangeCheck (t : Int) : Except Err Int :=
  if t < minDatetimeMs || t > maxDatetimeMs then .error .extDatetime else .ok t

/-- `-MM-DDThh:mm:ss.SSSZ` as `Datetime.String` writes it -/
def tailText (m d hh mi ss ml : Nat) : List Char :=
  '-' :: (padL 2 m ++ ('-' :: (padL 2 d ++ ('T' :: (padL 2 hh ++ (':' :: (padL 2 mi ++ (':' :: (padL 2 ss ++ ('.' :: (padL 3 ml ++ ['Z'])))))))))))

def timeText (hh mi ss ml : Nat) : List Char :=
  padL 2 hh ++ (':' :: (padL 2 mi ++ (':' :: (padL 2 ss ++ ('.' :: (padL 3 ml ++ ['Z']))))))

theorem tailText_eq (m d hh mi ss ml : Nat) :
    tailText m d hh mi ss ml = '-' :: (padL 2 m ++ ('-' :: (padL 2 d ++ ('T' :: timeText hh mi ss ml)))) := rfl

/-- the text after the year parses back to its fields -/
theorem parse_after_date (y : Int) (m d hh mi ss ml : Nat) (pre : List Char)
    (hd : dtDate (pre ++ tailText m d hh mi ss ml) = some (y, m, d, 'T' :: timeText hh mi ss ml))
    (h1 : hh ≤ 23) (h2 : mi ≤ 59) (h3 : ss ≤ 59) (h4 : ml ≤ 999) :
    parseDatetimeL (pre ++ tailText m d hh mi ss ml) =
      rangeCheck (daysFromCivil y m d * 86400000 + (hh : Int) * 3600000 + (mi : Int) * 60000 + (ss : Int) * 1000 + (ml : Int)) := by
  unfold parseDatetimeL
  rw [hd]
  simp only [List.isEmpty_cons, Bool.false_eq_true, if_false, expectCh_cons]
  unfold timeText
  rw [dtTime_canon hh mi ss ml ['Z'] h1 h2 h3 h4]
  simp [dtOffset, rangeCheck]

/-- `Datetime.String` in terms of the civil date and the time-of-day fields -/
theorem printDatetimeL_eq (t y : Int) (m d : Nat) (hc : civilFromDays (t / 86400000) = (y, m, d)) :
    printDatetimeL t =
      (if 0 ≤ y ∧ y ≤ 9999 then padL 4 y.toNat else (if y < 0 then '-' else '+') :: padL 9 y.natAbs) ++
        tailText m d ((t - t / 86400000 * 86400000).toNat / 3600000) ((t - t / 86400000 * 86400000).toNat % 3600000 / 60000)
          ((t - t / 86400000 * 86400000).toNat % 60000 / 1000) ((t - t / 86400000 * 86400000).toNat % 1000) := by
  unfold printDatetimeL tailText
  simp only [hc]
  by_cases h : 0 ≤ y ∧ y ≤ 9999
  · simp [h]
  · have : (decide (0 ≤ y) && decide (y ≤ 9999)) = false := by simpa using h
    simp [this, h]

/-- print → parse for every `int64` instant: the value comes back iff it passes `ParseDatetime`'s range test -/
theorem parseDatetimeL_printDatetimeL (t : Int) (ht : InI64 t) :
    parseDatetimeL (printDatetimeL t) = rangeCheck t := by
  have hval := civilFromDays_valid (t / 86400000)
  have hinv := daysFromCivil_civilFromDays (t / 86400000)
  have hyb := civilFromDays_year_bounds (t / 86400000)
  rcases hc : civilFromDays (t / 86400000) with ⟨y, m, d⟩
  rw [hc] at hval hinv hyb
  simp only at hval hinv hyb
  unfold InI64 minI64 maxI64 at ht
  have hyabs : y.natAbs ≤ 999999999 := by omega
  rw [printDatetimeL_eq t y m d hc]
  have hr : 0 ≤ t - t / 86400000 * 86400000 ∧ t - t / 86400000 * 86400000 < 86400000 := by omega
  generalize hrem : (t - t / 86400000 * 86400000).toNat = rem
  have hrem' : (rem : Int) = t - t / 86400000 * 86400000 := by rw [← hrem]; omega
  have hfin : daysFromCivil y m d * 86400000 + ((rem / 3600000 : Nat) : Int) * 3600000 +
      ((rem % 3600000 / 60000 : Nat) : Int) * 60000 + ((rem % 60000 / 1000 : Nat) : Int) * 1000 + ((rem % 1000 : Nat) : Int) = t := by
    rw [hinv]; omega
  by_cases h : 0 ≤ y ∧ y ≤ 9999
  · simp only [h, and_self, if_true]
    rw [parse_after_date y m d _ _ _ _ _ (by
      rw [tailText_eq, dtDate_canon4 y m d _ h hval]) (by omega) (by omega) (by omega) (by omega), hfin]
  · simp only [h, if_false]
    rw [List.cons_append]
    rw [show ((if y < 0 then '-' else '+') :: (padL 9 y.natAbs ++ tailText m d (rem / 3600000) (rem % 3600000 / 60000) (rem % 60000 / 1000) (rem % 1000))) =
        [(if y < 0 then '-' else '+')] ++ padL 9 y.natAbs ++ tailText m d (rem / 3600000) (rem % 3600000 / 60000) (rem % 60000 / 1000) (rem % 1000) by simp]
    rw [parse_after_date y m d _ _ _ _ _ (by
      rw [tailText_eq]
      have := dtDate_canon9 y m d ('T' :: timeText (rem / 3600000) (rem % 3600000 / 60000) (rem % 60000 / 1000) (rem % 1000)) (by omega) hyabs hval
      simpa using this) (by omega) (by omega) (by omega) (by omega), hfin]


/-! ### canonical literals with every time-zone designator -/

/-- `Z` or `±hhmm` as text, with the offset in milliseconds it denotes -/
def tzText : Option (Bool × Nat × Nat) → List Char
  | none => ['Z']
  | some (neg, oh, om) => (if neg then '-' else '+') :: (padL 2 oh ++ padL 2 om)

def tzMillis : Option (Bool × Nat × Nat) → Int
  | none => 0
  | some (neg, oh, om) => if neg then -((((oh : Int) * 60 + (om : Int)) * 60000)) else (((oh : Int) * 60 + (om : Int)) * 60000)

theorem dtOffset_canon (tz : Option (Bool × Nat × Nat)) (h : ∀ neg oh om, tz = some (neg, oh, om) → oh ≤ 23 ∧ om ≤ 59) :
    dtOffset (tzText tz) = some (tzMillis tz, []) := by
  match tz, h with
  | none, _ => simp [tzText, tzMillis, dtOffset]
  | some (neg, oh, om), h =>
    obtain ⟨h1, h2⟩ := h neg oh om rfl
    have e2 := takeUint_padL 2 om 59 [] (by omega) (by omega) h2
    rw [List.append_nil] at e2
    have e1 := takeUint_padL 2 oh 23 (padL 2 om) (by omega) (by omega) h1
    cases neg with
    | true => simp [tzText, tzMillis, dtOffset, e1, e2]
    | false => simp [tzText, tzMillis, dtOffset, e1, e2]

theorem tzText_head (tz : Option (Bool × Nat × Nat)) : ∃ c r, tzText tz = c :: r ∧ c ≠ '.' := by
  match tz with
  | none => exact ⟨'Z', [], rfl, by decide⟩
  | some (true, oh, om) => exact ⟨'-', _, rfl, by decide⟩
  | some (false, oh, om) => exact ⟨'+', _, rfl, by decide⟩

/-- optional `.SSS` -/
def msText : Option Nat → List Char
  | none => []
  | some ml => '.' :: padL 3 ml

/-- `hh:mm:ss` with optional milliseconds, followed by a time-zone designator -/
theorem dtTime_canon_opt (hh mi ss : Nat) (ml : Option Nat) (tz : Option (Bool × Nat × Nat))
    (h1 : hh ≤ 23) (h2 : mi ≤ 59) (h3 : ss ≤ 59) (h4 : ∀ v, ml = some v → v ≤ 999) :
    dtTime (padL 2 hh ++ (':' :: (padL 2 mi ++ (':' :: (padL 2 ss ++ (msText ml ++ tzText tz)))))) =
      some (hh, mi, ss, ml.getD 0, tzText tz) := by
  unfold dtTime
  rw [takeUint_padL 2 hh 23 _ (by omega) (by omega) h1]
  simp only [expectCh_cons]
  rw [takeUint_padL 2 mi 59 _ (by omega) (by omega) h2]
  simp only [expectCh_cons]
  rw [takeUint_padL 2 ss 59 _ (by omega) (by omega) h3]
  simp only
  match ml, h4 with
  | some v, h4 =>
    have hv9 := h4 v rfl
    simp only [msText, List.cons_append]
    rw [takeUint_padL 3 v 999 _ (by omega) (by omega) hv9]
    simp
  | none, _ =>
    obtain ⟨c, r, e, hc⟩ := tzText_head tz
    simp only [msText, List.nil_append, e]
    split
    · rename_i heq; simp at heq; exact absurd heq.1 hc
    · simp

/-- the year as `ParseDatetime` reads it: four digits, or sign and nine digits (any year that fits) -/
def yearText (expanded : Bool) (y : Int) : List Char :=
  if expanded then (if y < 0 then '-' else '+') :: padL 9 y.natAbs else padL 4 y.toNat

theorem dtDate_yearText (expanded : Bool) (y : Int) (m d : Nat) (rest : List Char)
    (hy : if expanded then y.natAbs ≤ 999999999 else 0 ≤ y ∧ y ≤ 9999) (hv : validDate y m d) :
    dtDate (yearText expanded y ++ ('-' :: (padL 2 m ++ ('-' :: (padL 2 d ++ rest))))) = some (y, m, d, rest) := by
  cases expanded with
  | false =>
    simp only [Bool.false_eq_true, if_false] at hy
    simp only [yearText, Bool.false_eq_true, if_false]
    exact dtDate_canon4 y m d rest hy hv
  | true =>
    simp only [if_true] at hy
    simp only [yearText, if_true, List.cons_append]
    -- the expanded form is accepted for every year, including 0..9999
    unfold dtDate
    by_cases hneg : y < 0
    · simp only [hneg, if_true]
      have hh : dtHeader ('-' :: (padL 9 y.natAbs ++ ('-' :: (padL 2 m ++ ('-' :: (padL 2 d ++ rest)))))) =
          some (-1, 9, 999999999, padL 9 y.natAbs ++ ('-' :: (padL 2 m ++ ('-' :: (padL 2 d ++ rest))))) := by
        simp [dtHeader]
      rw [hh]
      simp only
      rw [takeUint_padL 9 y.natAbs 999999999 _ (by omega) (by omega) hy]
      simp only [expectCh_cons]
      rw [show ((y.natAbs : Nat) : Int) * -1 = y by omega]
      exact dtMonthDay_canon y m d rest hv
    · simp only [hneg, if_false]
      have hh : dtHeader ('+' :: (padL 9 y.natAbs ++ ('-' :: (padL 2 m ++ ('-' :: (padL 2 d ++ rest)))))) =
          some (1, 9, 999999999, padL 9 y.natAbs ++ ('-' :: (padL 2 m ++ ('-' :: (padL 2 d ++ rest))))) := by
        simp [dtHeader]
      rw [hh]
      simp only
      rw [takeUint_padL 9 y.natAbs 999999999 _ (by omega) (by omega) hy]
      simp only [expectCh_cons]
      rw [show ((y.natAbs : Nat) : Int) * 1 = y by omega]
      exact dtMonthDay_canon y m d rest hv

/-- every canonical date-time literal (both year formats, with or without milliseconds, `Z` or any `±hhmm` offset)
    parses to the exact instant, or is rejected exactly by the range test -/
theorem parseDatetimeL_canon (expanded : Bool) (y : Int) (m d hh mi ss : Nat) (ml : Option Nat) (tz : Option (Bool × Nat × Nat))
    (hy : if expanded then y.natAbs ≤ 999999999 else 0 ≤ y ∧ y ≤ 9999) (hv : validDate y m d)
    (h1 : hh ≤ 23) (h2 : mi ≤ 59) (h3 : ss ≤ 59) (h4 : ∀ v, ml = some v → v ≤ 999)
    (h5 : ∀ neg oh om, tz = some (neg, oh, om) → oh ≤ 23 ∧ om ≤ 59) :
    parseDatetimeL (yearText expanded y ++ ('-' :: (padL 2 m ++ ('-' :: (padL 2 d ++ ('T' ::
      (padL 2 hh ++ (':' :: (padL 2 mi ++ (':' :: (padL 2 ss ++ (msText ml ++ tzText tz))))))))))))  =
      rangeCheck (daysFromCivil y m d * 86400000 + (hh : Int) * 3600000 + (mi : Int) * 60000 + (ss : Int) * 1000 +
        ((ml.getD 0 : Nat) : Int) - tzMillis tz) := by
  unfold parseDatetimeL
  rw [dtDate_yearText expanded y m d _ hy hv]
  simp only [List.isEmpty_cons, Bool.false_eq_true, if_false, expectCh_cons]
  rw [dtTime_canon_opt hh mi ss ml tz h1 h2 h3 h4]
  simp only
  rw [dtOffset_canon tz h5]
  simp [rangeCheck]

/-- date-only literals: the day's midnight when it fits in `int64` milliseconds, an error otherwise (exact range
    test on this path, never a wrapped value) -/
theorem parseDatetimeL_dateonly (expanded : Bool) (y : Int) (m d : Nat)
    (hy : if expanded then y.natAbs ≤ 999999999 else 0 ≤ y ∧ y ≤ 9999) (hv : validDate y m d) :
    parseDatetimeL (yearText expanded y ++ ('-' :: (padL 2 m ++ ('-' :: (padL 2 d ++ []))))) =
      if InI64 (daysFromCivil y m d * 86400000) then .ok (daysFromCivil y m d * 86400000) else .error .extDatetime := by
  unfold parseDatetimeL
  rw [dtDate_yearText expanded y m d _ hy hv]
  simp only [List.isEmpty_nil, if_true]
  by_cases h : InI64 (daysFromCivil y m d * 86400000)
  · rw [if_pos h]
    unfold InI64 at h
    rw [if_neg (by simp; omega)]
  · rw [if_neg h]
    unfold InI64 at h
    rw [if_pos (by simp; omega)]

end CedarGo.Scalars
