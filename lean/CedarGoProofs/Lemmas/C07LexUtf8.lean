/-
  C07 ∘ C18 bridge, part 1: Go's `utf8.DecodeRune` (model `Lx.decodeRune`) inverts core's reference
  encoder `String.utf8EncodeChar`; consequences for `decodeAll`, `bytesToString` and the keyword table.
-/
import CedarGo.Model.Text.Layout
import CedarGoProofs.Lemmas.C18Utf8
namespace CedarGo.Text
open Lx

theorem char_valid (c : Char) : c.val.toNat < 0xD800 ∨ (0xE000 ≤ c.val.toNat ∧ c.val.toNat < 0x110000) := by
  have := c.valid
  simp only [UInt32.isValidChar, Nat.isValidChar] at this
  omega

theorem utf8Size_cases (c : Char) :
    (c.val.toNat ≤ 0x7f ∧ c.utf8Size = 1) ∨ (0x7f < c.val.toNat ∧ c.val.toNat ≤ 0x7ff ∧ c.utf8Size = 2) ∨
    (0x7ff < c.val.toNat ∧ c.val.toNat ≤ 0xffff ∧ c.utf8Size = 3) ∨ (0xffff < c.val.toNat ∧ c.utf8Size = 4) := by
  simp only [Char.utf8Size, UInt32.le_iff_toNat_le]
  simp only [UInt32.toNat_ofNatLT]
  split
  · left; omega
  · split
    · right; left; omega
    · split
      · right; right; left; omega
      · right; right; right; omega

theorem ofNat_toNat (n : Nat) (h : n < 256) : (UInt8.ofNat n).toNat = n := by
  simp [UInt8.toNat_ofNat']; omega

theorem ok1_mid (b0 b1 : Nat) (h0 : b0 ≠ 0xE0) (h1 : b0 ≠ 0xF0) (h2 : b0 ≠ 0xED) (h3 : b0 ≠ 0xF4) (hl : 0x80 ≤ b1) (hh : b1 ≤ 0xBF) :
    ok1 b0 b1 = true := by
  simp [ok1, acceptLo, acceptHi, h0, h1, h2, h3, hl, hh]

theorem ok1_of (b0 b1 : Nat) (h0 : b0 = 0xE0 → 0xA0 ≤ b1) (h1 : b0 = 0xF0 → 0x90 ≤ b1) (h2 : b0 = 0xED → b1 ≤ 0x9F)
    (h3 : b0 = 0xF4 → b1 ≤ 0x8F) (hl : 0x80 ≤ b1) (hh : b1 ≤ 0xBF) : ok1 b0 b1 = true := by
  have hlo : acceptLo b0 ≤ b1 := by unfold acceptLo; split <;> (try split) <;> omega
  have hhi : b1 ≤ acceptHi b0 := by unfold acceptHi; split <;> (try split) <;> omega
  simp [ok1, hlo, hhi]

theorem okc_of (b : Nat) (hl : 0x80 ≤ b) (hh : b ≤ 0xBF) : okc b = true := by simp [okc, hl, hh]

theorem decodeRune_enc (c : Char) (r : List UInt8) :
    decodeRune (String.utf8EncodeChar c ++ r) = (Int.ofNat c.toNat, c.utf8Size) := by
  have hv := char_valid c
  rcases utf8Size_cases c with ⟨h1, hs⟩ | ⟨h1, h2, hs⟩ | ⟨h1, h2, hs⟩ | ⟨h1, hs⟩
  · rw [hs]
    have : String.utf8EncodeChar c = [UInt8.ofNat c.val.toNat] := by
      simp only [String.utf8EncodeChar, if_pos h1]
    rw [this, List.singleton_append, decodeRune_ascii _ _ (by rw [ofNat_toNat _ (by omega)]; omega), ofNat_toNat _ (by omega)]
    rfl
  · rw [hs]
    have : String.utf8EncodeChar c = [UInt8.ofNat (c.val.toNat / 64 % 0x20 + 0xc0), UInt8.ofNat (c.val.toNat % 0x40 + 0x80)] := by
      simp only [String.utf8EncodeChar, if_neg (show ¬ c.val.toNat ≤ 0x7f by omega), if_pos h2]
    rw [this]
    simp only [List.cons_append, List.nil_append, decodeRune]
    rw [ofNat_toNat (c.val.toNat / 64 % 0x20 + 0xc0) (by omega)]
    have hb : 0xC2 ≤ c.val.toNat / 64 % 0x20 + 0xc0 ∧ c.val.toNat / 64 % 0x20 + 0xc0 < 0xE0 := by omega
    generalize hb0 : c.val.toNat / 64 % 0x20 + 0xc0 = b0 at hb
    have hsl : seqLen b0 = 2 := by simp only [seqLen]; repeat (split <;> try omega)
    rw [if_neg (by omega), if_pos hsl]
    simp only [dec2]
    rw [ofNat_toNat (c.val.toNat % 0x40 + 0x80) (by omega)]
    rw [if_pos (ok1_mid _ _ (by omega) (by omega) (by omega) (by omega) (by omega) (by omega))]
    congr 1
    show Int.ofNat _ = Int.ofNat _
    congr 1
    show _ = c.val.toNat
    omega
  · rw [hs]
    have : String.utf8EncodeChar c = [UInt8.ofNat (c.val.toNat / 4096 % 0x10 + 0xe0), UInt8.ofNat (c.val.toNat / 64 % 0x40 + 0x80), UInt8.ofNat (c.val.toNat % 0x40 + 0x80)] := by
      simp only [String.utf8EncodeChar, if_neg (show ¬ c.val.toNat ≤ 0x7f by omega), if_neg (show ¬ c.val.toNat ≤ 0x7ff by omega), if_pos h2]
    rw [this]
    simp only [List.cons_append, List.nil_append, decodeRune]
    rw [ofNat_toNat (c.val.toNat / 4096 % 0x10 + 0xe0) (by omega)]
    have hb : 0xE0 ≤ c.val.toNat / 4096 % 0x10 + 0xe0 ∧ c.val.toNat / 4096 % 0x10 + 0xe0 < 0xF0 := by omega
    have hsl : seqLen (c.val.toNat / 4096 % 0x10 + 0xe0) = 3 := by simp only [seqLen]; repeat (split <;> try omega)
    rw [if_neg (by omega), if_neg (by omega), if_pos hsl]
    simp only [dec3]
    rw [ofNat_toNat (c.val.toNat % 0x40 + 0x80) (by omega), ofNat_toNat (c.val.toNat / 64 % 0x40 + 0x80) (by omega)]
    have hok : ok1 (c.val.toNat / 4096 % 0x10 + 0xe0) (c.val.toNat / 64 % 0x40 + 0x80) = true := by
      apply ok1_of <;> omega
    rw [hok, okc_of _ (by omega) (by omega)]
    simp only [Bool.and_self, if_true]
    congr 1
    show Int.ofNat _ = Int.ofNat _
    congr 1
    show _ = c.val.toNat
    omega
  · rw [hs]
    have : String.utf8EncodeChar c = [UInt8.ofNat (c.val.toNat / 262144 % 0x08 + 0xf0), UInt8.ofNat (c.val.toNat / 4096 % 0x40 + 0x80), UInt8.ofNat (c.val.toNat / 64 % 0x40 + 0x80), UInt8.ofNat (c.val.toNat % 0x40 + 0x80)] := by
      simp only [String.utf8EncodeChar, if_neg (show ¬ c.val.toNat ≤ 0x7f by omega), if_neg (show ¬ c.val.toNat ≤ 0x7ff by omega), if_neg (show ¬ c.val.toNat ≤ 0xffff by omega)]
    rw [this]
    simp only [List.cons_append, List.nil_append, decodeRune]
    rw [ofNat_toNat (c.val.toNat / 262144 % 0x08 + 0xf0) (by omega)]
    have hb : 0xF0 ≤ c.val.toNat / 262144 % 0x08 + 0xf0 ∧ c.val.toNat / 262144 % 0x08 + 0xf0 < 0xF5 := by omega
    have hsl : seqLen (c.val.toNat / 262144 % 0x08 + 0xf0) = 4 := by simp only [seqLen]; repeat (split <;> try omega)
    rw [if_neg (by omega), if_neg (by omega), if_neg (by omega), if_pos hsl]
    simp only [dec4]
    rw [ofNat_toNat (c.val.toNat % 0x40 + 0x80) (by omega), ofNat_toNat (c.val.toNat / 64 % 0x40 + 0x80) (by omega),
      ofNat_toNat (c.val.toNat / 4096 % 0x40 + 0x80) (by omega)]
    have hok : ok1 (c.val.toNat / 262144 % 0x08 + 0xf0) (c.val.toNat / 4096 % 0x40 + 0x80) = true := by
      apply ok1_of <;> omega
    rw [hok, okc_of _ (by omega) (by omega), okc_of _ (by omega) (by omega)]
    simp only [Bool.and_self, if_true]
    congr 1
    show Int.ofNat _ = Int.ofNat _
    congr 1
    show _ = c.val.toNat
    omega

/-! ## `encChars` -/

theorem enc_ne_nil (c : Char) : String.utf8EncodeChar c ≠ [] := String.utf8EncodeChar_ne_nil

theorem encChars_nil : encChars [] = [] := rfl

theorem encChars_cons (c : Char) (cs : List Char) : encChars (c :: cs) = String.utf8EncodeChar c ++ encChars cs := by
  simp [encChars]

theorem encChars_append (xs ys : List Char) : encChars (xs ++ ys) = encChars xs ++ encChars ys := by
  simp [encChars]

theorem utf8Size_pos (c : Char) : 1 ≤ c.utf8Size := by
  rcases utf8Size_cases c with h | h | h | h <;> omega

theorem encChars_length_ge (cs : List Char) : cs.length ≤ (encChars cs).length := by
  induction cs with
  | nil => simp [encChars]
  | cons c cs ih =>
    have := utf8Size_pos c
    rw [encChars_cons, List.length_append, String.length_utf8EncodeChar, List.length_cons]; omega

theorem encChars_drop (c : Char) (cs : List Char) : (encChars (c :: cs)).drop c.utf8Size = encChars cs := by
  rw [encChars_cons, ← String.length_utf8EncodeChar c, List.drop_left]

theorem decodeAll_encChars (cs : List Char) :
    decodeAll (encChars cs) = cs.map (fun c => ((Int.ofNat c.toNat : Rune), c.utf8Size)) := by
  induction cs with
  | nil => rfl
  | cons c cs ih =>
    obtain ⟨b, bs, hb⟩ : ∃ b bs, encChars (c :: cs) = b :: bs := by
      rw [encChars_cons]
      cases h : String.utf8EncodeChar c with
      | nil => exact absurd h (enc_ne_nil c)
      | cons b bs => exact ⟨b, bs ++ encChars cs, rfl⟩
    have hd : decodeRune (b :: bs) = (Int.ofNat c.toNat, c.utf8Size) := by
      rw [← hb, encChars_cons, decodeRune_enc]
    rw [hb, decodeAll_cons, hd, ← hb]
    dsimp only
    rw [encChars_drop, ih]
    rfl

theorem bytesToString_encChars (cs : List Char) : bytesToString (encChars cs) = String.ofList cs := by
  unfold bytesToString
  rw [decodeAll_encChars, List.map_map]
  congr 1
  induction cs with
  | nil => rfl
  | cons c cs ih =>
    simp only [List.map_cons, Function.comp_apply, List.cons.injEq]
    refine ⟨?_, ih⟩
    show Char.ofNat (Int.toNat (Int.ofNat c.toNat)) = c
    simp

theorem bytesToString_strBytes (s : String) : bytesToString (strBytes s) = s := by
  unfold strBytes; rw [bytesToString_encChars, String.ofList_toList]

theorem encChars_injective {xs ys : List Char} (h : encChars xs = encChars ys) : xs = ys := by
  have := congrArg bytesToString h
  rw [bytesToString_encChars, bytesToString_encChars] at this
  exact String.ofList_injective this

/-- the keyword table of the lexer, spelled as character lists -/
theorem reservedKeywordBytes_eq : reservedKeywordBytes = reservedKeywords.map strBytes := by decide +kernel

theorem keyword_contains (cs : List Char) :
    reservedKeywordBytes.contains (encChars cs) = reservedKeywords.contains (String.ofList cs) := by
  rw [reservedKeywordBytes_eq]
  have key : ∀ ks : List String, (ks.map strBytes).contains (encChars cs) = ks.contains (String.ofList cs) := by
    intro ks
    induction ks with
    | nil => rfl
    | cons k ks ih =>
      simp only [List.map_cons, List.contains_cons, ih]
      congr 1
      by_cases hk : String.ofList cs = k
      · subst hk; simp [strBytes]
      · have : encChars cs ≠ strBytes k := by
          intro h; apply hk
          have := encChars_injective (h.trans rfl : encChars cs = encChars k.toList)
          rw [this, String.ofList_toList]
        rw [beq_eq_false_iff_ne.2 this, beq_eq_false_iff_ne.2 hk]
  exact key _

end CedarGo.Text
