/-
  C07 ∘ C18 bridge, part 2: the pure lexer's state (`Lx.PState`) seen as a cursor into a document that is
  the UTF-8 encoding of a character list: `cfg doc k ts pos X` = "look-ahead is the first character of `X`
  (EOF if `X = []`), which starts at byte offset `k`".  The five primitive operations act on such
  configurations by consuming one character of `X`.
-/
import CedarGoProofs.Lemmas.C07LexUtf8
namespace CedarGo.Text
open Lx

/-- byte length of a character list -/
def blen (cs : List Char) : Nat := (encChars cs).length

theorem blen_nil : blen [] = 0 := rfl
theorem blen_cons (c : Char) (cs : List Char) : blen (c :: cs) = c.utf8Size + blen cs := by
  simp [blen, encChars_cons, String.length_utf8EncodeChar]
theorem blen_append (xs ys : List Char) : blen (xs ++ ys) = blen xs + blen ys := by
  simp [blen, encChars_append]
theorem length_le_blen (cs : List Char) : cs.length ≤ blen cs := encChars_length_ge cs

/-- no NUL character -/
def NoNul (cs : List Char) : Prop := ∀ c ∈ cs, c.toNat ≠ 0

theorem NoNul.tail {c : Char} {cs : List Char} (h : NoNul (c :: cs)) : NoNul cs := fun x hx => h x (List.mem_cons_of_mem _ hx)
theorem NoNul.head {c : Char} {cs : List Char} (h : NoNul (c :: cs)) : c.toNat ≠ 0 := h c (List.mem_cons_self)
theorem NoNul.append_right {xs ys : List Char} (h : NoNul (xs ++ ys)) : NoNul ys := fun x hx => h x (List.mem_append_right _ hx)
theorem NoNul.append_left {xs ys : List Char} (h : NoNul (xs ++ ys)) : NoNul xs := fun x hx => h x (List.mem_append_left _ hx)
theorem NoNul.append {xs ys : List Char} (h1 : NoNul xs) (h2 : NoNul ys) : NoNul (xs ++ ys) := by
  intro x hx; rcases List.mem_append.1 hx with h | h
  · exact h1 x h
  · exact h2 x h
theorem NoNul.cons {c : Char} {cs : List Char} (h1 : c.toNat ≠ 0) (h2 : NoNul cs) : NoNul (c :: cs) := by
  intro x hx; rcases List.mem_cons.1 hx with rfl | h
  · exact h1
  · exact h2 x h

/-- an error-free state of the pure lexer whose unread input is the encoding of `cs` -/
def cur (doc : List UInt8) (off lcl : Nat) (ts : Option Nat) (pos : Pos) (cs : List Char) : PState :=
  { doc := doc, fails := false, rest := encChars cs, off := off, lastCharLen := lcl, tokStart := ts, position := pos, err := none }

/-- look-ahead + state: the look-ahead is the first character of `X`, which starts at offset `k` -/
def cfg (doc : List UInt8) (k : Nat) (ts : Option Nat) (pos : Pos) : List Char → Rune × PState
  | [] => (runeEOF, cur doc k 0 ts pos [])
  | c :: cs => (Int.ofNat c.toNat, cur doc (k + c.utf8Size) c.utf8Size ts pos cs)

theorem cfg_nil (doc k ts pos) : cfg doc k ts pos [] = (runeEOF, cur doc k 0 ts pos []) := rfl
theorem cfg_cons (doc k ts pos) (c : Char) (cs : List Char) :
    cfg doc k ts pos (c :: cs) = (Int.ofNat c.toNat, cur doc (k + c.utf8Size) c.utf8Size ts pos cs) := rfl

theorem cfg_fst_cons (doc k ts pos) (c : Char) (cs : List Char) : (cfg doc k ts pos (c :: cs)).1 = Int.ofNat c.toNat := rfl
theorem cfg_fst_nil (doc k ts pos) : (cfg doc k ts pos []).1 = runeEOF := rfl

/-- reading one character -/
theorem next_cur (doc : List UInt8) (off lcl : Nat) (ts : Option Nat) (pos : Pos) (c : Char) (cs : List Char) (hc : c.toNat ≠ 0) :
    PState.next (cur doc off lcl ts pos (c :: cs)) = (Int.ofNat c.toNat, cur doc (off + c.utf8Size) c.utf8Size ts pos cs) := by
  obtain ⟨b, bs, hb⟩ : ∃ b bs, encChars (c :: cs) = b :: bs := by
    rw [encChars_cons]
    cases h : String.utf8EncodeChar c with
    | nil => exact absurd h (enc_ne_nil c)
    | cons b bs => exact ⟨b, bs ++ encChars cs, rfl⟩
  have hd : decodeRune (b :: bs) = (Int.ofNat c.toNat, c.utf8Size) := by
    rw [← hb, encChars_cons, decodeRune_enc]
  have hdrop : (b :: bs).drop c.utf8Size = encChars cs := by rw [← hb, encChars_drop]
  have h1 : ¬ ((Int.ofNat c.toNat : Rune) == runeError && c.utf8Size == 1) = true := by
    simp only [Bool.and_eq_true, beq_iff_eq, not_and]
    intro h hs
    have h' : c.toNat = 0xFFFD := Int.ofNat.inj h
    rcases utf8Size_cases c with h | h | h | h <;> simp only [Char.toNat] at h' <;> omega
  have h2 : ¬ ((Int.ofNat c.toNat : Rune) == 0) = true := by
    simp only [beq_iff_eq]
    intro h; exact hc (Int.ofNat.inj h)
  simp only [PState.next, cur, hb, hd, hdrop, h1, h2, if_false, Bool.false_eq_true]

theorem next_cur_nil (doc : List UInt8) (off lcl : Nat) (ts : Option Nat) (pos : Pos) :
    PState.next (cur doc off lcl ts pos []) = (runeEOF, cur doc off 0 ts pos []) := by
  simp [PState.next, cur, encChars_nil]

/-- `next` on a configuration moves to the configuration of the tail -/
theorem next_cfg (doc : List UInt8) (k : Nat) (ts : Option Nat) (pos : Pos) (c : Char) (X : List Char) (hn : NoNul X) :
    pureSrc.next (cfg doc k ts pos (c :: X)).2 = cfg doc (k + c.utf8Size) ts pos X := by
  show PState.next _ = _
  cases X with
  | nil => rw [cfg_cons, next_cur_nil]; rfl
  | cons d X => rw [cfg_cons, next_cur _ _ _ _ _ _ _ hn.head]; rfl

theorem next_cfg_nil (doc : List UInt8) (k : Nat) (ts : Option Nat) (pos : Pos) :
    pureSrc.next (cfg doc k ts pos []).2 = cfg doc k ts pos [] := by
  show PState.next (cfg doc k ts pos []).2 = _
  rw [cfg_nil, next_cur_nil]

theorem tokKill_cfg (doc : List UInt8) (k : Nat) (ts : Option Nat) (pos : Pos) (X : List Char) :
    pureSrc.tokKill (cfg doc k ts pos X).2 = (cfg doc k none { pos with line := 0 } X).2 := by
  cases X <;> rfl

theorem tokMark_cfg (doc : List UInt8) (k : Nat) (ts : Option Nat) (pos : Pos) (X : List Char) :
    pureSrc.tokMark (cfg doc k ts pos X).2 = (cfg doc k (some k) (goPos doc k) X).2 := by
  cases X with
  | nil => rfl
  | cons c X =>
    simp only [cfg_cons, pureSrc, cur, Nat.add_sub_cancel]

theorem cfg_fst_indep (doc : List UInt8) (k k' : Nat) (ts ts' : Option Nat) (pos pos' : Pos) (X : List Char) :
    (cfg doc k ts pos X).1 = (cfg doc k' ts' pos' X).1 := by cases X <;> rfl

theorem err_cfg (doc : List UInt8) (k : Nat) (ts : Option Nat) (pos : Pos) (X : List Char) :
    pureSrc.err (cfg doc k ts pos X).2 = none := by cases X <;> rfl

theorem error_cfg_err (e : LexErr) (doc : List UInt8) (k : Nat) (ts : Option Nat) (pos : Pos) (X : List Char) :
    pureSrc.err (pureSrc.error e (cfg doc k ts pos X).2) = some e := by cases X <;> rfl

/-- end of a token that started at `st`: position and the bytes from `st` up to the look-ahead -/
theorem tokEnd_cfg (doc : List UInt8) (k st : Nat) (pos : Pos) (X : List Char) :
    pureSrc.tokEnd (cfg doc k (some st) pos X).2 = ((pos, (doc.drop st).take (k - st)), (cfg doc k (some st) pos X).2) := by
  cases X with
  | nil => rfl
  | cons c X =>
    simp only [cfg_cons, pureSrc, PState.tokEnd, cur, Nat.add_sub_cancel]

/-- the token text: `T` are the characters from `st` to the look-ahead -/
theorem take_drop_text (doc : List UInt8) (st : Nat) (T X : List Char) (h : doc.drop st = encChars (T ++ X)) :
    (doc.drop st).take (st + blen T - st) = encChars T := by
  rw [h, encChars_append, Nat.add_sub_cancel_left, blen, List.take_left]

theorem drop_advance (doc : List UInt8) (k : Nat) (T X : List Char) (h : doc.drop k = encChars (T ++ X)) :
    doc.drop (k + blen T) = encChars X := by
  rw [← List.drop_drop, h, encChars_append, blen, List.drop_left]

end CedarGo.Text
