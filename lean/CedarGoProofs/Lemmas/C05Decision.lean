/-
  C05: every result of the batch enumeration carries the decision and the reasons of the ordinary authorizer on the
  fully substituted request.

  Level by level: the residual policy set of level `i+1` is `doPartial` of level `i` against the level-`i` template; the
  final request is a completion of EVERY level's template (the successive single-variable substitutions `substMany`
  form a `Completion`, Lemmas/C06.lean), so C06's policy-level soundness (`partialPolicy_sound_gen`) applies at every
  level, and the authorizer only looks at which policies are satisfied.
-/
import CedarGoProofs.Lemmas.C05
import CedarGoProofs.Lemmas.C06Policy
import CedarGoProofs.Properties.C04
set_option linter.unusedSimpArgs false
set_option linter.unusedVariables false
namespace CedarGo

/-! ## single-variable substitution is a completion -/

mutual
theorem hasVar_of_hasUnknown (k : String) : ∀ r : Value, r.hasUnknown = false → r.hasVar k = false
  | .entity ty id, h => by
      simp only [Value.hasUnknown] at h
      simp [Value.hasVar, h]
  | .record kvs, h => by
      simp only [Value.hasUnknown] at h
      simp only [Value.hasVar]; exact hasVarKVs_of_hasUnknown k kvs h
  | .set xs, h => by
      simp only [Value.hasUnknown] at h
      simp only [Value.hasVar]; exact hasVarList_of_hasUnknown k xs h
  | .bool _, _ => rfl
  | .long _, _ => rfl
  | .str _, _ => rfl
  | .decimal _, _ => rfl
  | .datetime _, _ => rfl
  | .duration _, _ => rfl
  | .ip _, _ => rfl
theorem hasVarKVs_of_hasUnknown (k : String) :
    ∀ kvs : List (String × Value), Value.hasUnknownKVs kvs = false → Value.hasVarKVs k kvs = false
  | [], _ => rfl
  | (kk, x) :: rest, h => by
      simp only [Value.hasUnknownKVs, Bool.or_eq_false_iff] at h
      simp [Value.hasVarKVs, hasVar_of_hasUnknown k x h.1, hasVarKVs_of_hasUnknown k rest h.2]
theorem hasVarList_of_hasUnknown (k : String) :
    ∀ xs : List Value, Value.hasUnknownList xs = false → Value.hasVarList k xs = false
  | [], _ => rfl
  | x :: xs, h => by
      simp only [Value.hasUnknownList, Bool.or_eq_false_iff] at h
      simp [Value.hasVarList, hasVar_of_hasUnknown k x h.1, hasVarList_of_hasUnknown k xs h.2]
end

theorem kvGet_substKVs (k : String) (v : Value) (a : String) :
    ∀ kvs : List (String × Value), kvGet a (Value.substKVs k v kvs) = (kvGet a kvs).map (Value.subst k v)
  | [] => rfl
  | (kk, x) :: rest => by
      simp only [Value.substKVs, kvGet]
      split
      · rfl
      · exact kvGet_substKVs k v a rest

instance completion_subst (k : String) (v : Value) : Completion (Value.subst k v) where
  clean r h := subst_noop k v r (hasVar_of_hasUnknown k r h)
  record kvs := ⟨Value.substKVs k v kvs, by simp [Value.subst], fun a => kvGet_substKVs k v a kvs⟩
  set xs := by
    simp only [Value.subst]
    split
    · exact ⟨_, rfl⟩
    · exact ⟨_, rfl⟩

theorem completion_substMany : ∀ vals : List (String × Value), Completion (substMany vals)
  | [] => by
      have : substMany [] = id := by funext x; rfl
      rw [this]; exact completion_id
  | kv :: rest => by
      have : substMany (kv :: rest) = fun x => substMany rest (Value.subst kv.1 kv.2 x) := by
        funext x; simp [substMany]
      rw [this]
      exact Completion.comp (completion_subst kv.1 kv.2) (completion_substMany rest)

theorem substManyEnv_entities (vals : List (String × Value)) (env : Env) :
    (substManyEnv vals env).entities = env.entities := by
  induction vals generalizing env with
  | nil => rfl
  | cons kv rest ih =>
    have := ih (substEnv kv.1 kv.2 env)
    simpa [substManyEnv, substEnv] using this

theorem eval_var_substManyEnv (vals : List (String × Value)) (env : Env) (x : Var) :
    eval (.var x) (substManyEnv vals env) = .ok (substMany vals (envPart x env)) := by
  obtain ⟨a, b, c, d⟩ := substManyEnv_parts vals env
  cases x <;> simp [eval, envPart, a, b, c, d]

/-! ## the authorizer only looks at which policies are satisfied -/

/-- the reason a policy contributes, if it is satisfied and has the given effect -/
def hit (forbid : Bool) (env : Env) (ip : PolicyID × Policy) : Option (PolicyID × Position) :=
  if satisfied ip.2 env then
    match ip.2.effect with
    | .forbid => if forbid then some (ip.1, ip.2.position) else none
    | .permit => if forbid then none else some (ip.1, ip.2.position)
  else none

theorem authStep_hits (env : Env) (acc : Acc) (ip : PolicyID × Policy) :
    (authStep compile env acc ip).forbids = acc.forbids ++ (hit true env ip).toList ∧
    (authStep compile env acc ip).permits = acc.permits ++ (hit false env ip).toList := by
  unfold authStep hit satisfied
  rw [C04_compile_preserves]
  cases h : evalBool (policyToExpr ip.2) env with
  | error e => simp
  | ok b =>
    cases b
    · simp
    · cases he : ip.2.effect <;> exact ⟨by simp, by simp⟩

theorem foldl_authStep_hits (env : Env) : ∀ (ps : List (PolicyID × Policy)) (acc : Acc),
    (ps.foldl (authStep compile env) acc).forbids = acc.forbids ++ ps.filterMap (hit true env) ∧
    (ps.foldl (authStep compile env) acc).permits = acc.permits ++ ps.filterMap (hit false env)
  | [], acc => by simp
  | ip :: ps, acc => by
    obtain ⟨h1, h2⟩ := authStep_hits env acc ip
    obtain ⟨g1, g2⟩ := foldl_authStep_hits env ps (authStep compile env acc ip)
    simp only [List.foldl_cons, List.filterMap_cons]
    rw [g1, g2, h1, h2]
    cases hit true env ip <;> cases hit false env ip <;> simp

/-- decision and reasons as functions of the satisfied policies -/
theorem authorize_allow_reasons (ps : List (PolicyID × Policy)) (env : Env) :
    (authorize ps env).allow = ((ps.filterMap (hit true env)).isEmpty && !(ps.filterMap (hit false env)).isEmpty) ∧
    (authorize ps env).reasons =
      (if !(ps.filterMap (hit true env)).isEmpty then ps.filterMap (hit true env) else ps.filterMap (hit false env)) := by
  obtain ⟨h1, h2⟩ := foldl_authStep_hits env ps {}
  simp only [List.nil_append] at h1 h2
  unfold authorize authorizeWith
  simp only [h1, h2]
  generalize ps.filterMap (hit true env) = F
  generalize ps.filterMap (hit false env) = P
  cases F <;> cases P <;> simp

theorem partialPolicy_effect_position (envH : Env) (p r : Policy) (h : partialPolicy envH p = some r) :
    r.effect = p.effect ∧ r.position = p.position := by
  unfold partialPolicy at h
  split at h
  · cases h
  · split at h
    · cases h
    · split at h
      · cases h
      · split at h
        · cases h
        · cases h; exact ⟨rfl, rfl⟩

/-- one enumeration level: partially evaluating the policy set against the level's template does not change which
    policies are satisfied under a completion of that template -/
theorem hits_doPartial (γ : Value → Value) [Completion γ] (envH env : Env) (hent : envH.entities = env.entities)
    (hparts : ∀ x, eval (.var x) env = .ok (γ (envPart x envH))) (f : Bool) :
    ∀ ps : List (PolicyID × Policy), (ps.all fun ip => partialDomain envH ip.2) = true →
      (doPartial envH ps).filterMap (hit f env) = ps.filterMap (hit f env)
  | [], _ => rfl
  | ip :: ps, hd => by
    simp only [List.all_cons, Bool.and_eq_true] at hd
    have ih := hits_doPartial γ envH env hent hparts f ps hd.2
    have hs := partialPolicy_sound_gen γ envH env hent hparts ip.2 hd.1
    unfold doPartial at ih ⊢
    simp only [List.filterMap_cons]
    cases hp : partialPolicy envH ip.2 with
    | none =>
      rw [hp] at hs
      simp only [Option.map_none]
      have : hit f env ip = none := by simp [hit, hs]
      rw [this]; exact ih
    | some r =>
      rw [hp] at hs
      obtain ⟨he, hpos⟩ := partialPolicy_effect_position envH ip.2 r hp
      simp only [Option.map_some, List.filterMap_cons]
      have : hit f env (ip.1, r) = hit f env ip := by simp [hit, hs, he, hpos]
      rw [this, ih]

theorem authorize_doPartial (γ : Value → Value) [Completion γ] (envH env : Env) (hent : envH.entities = env.entities)
    (hparts : ∀ x, eval (.var x) env = .ok (γ (envPart x envH)))
    (ps : List (PolicyID × Policy)) (hd : (ps.all fun ip => partialDomain envH ip.2) = true) :
    (authorize (doPartial envH ps) env).allow = (authorize ps env).allow ∧
    (authorize (doPartial envH ps) env).reasons = (authorize ps env).reasons := by
  obtain ⟨a1, r1⟩ := authorize_allow_reasons (doPartial envH ps) env
  obtain ⟨a2, r2⟩ := authorize_allow_reasons ps env
  rw [a1, r1, a2, r2, hits_doPartial γ envH env hent hparts true ps hd, hits_doPartial γ envH env hent hparts false ps hd]
  exact ⟨rfl, rfl⟩

/-! ## the whole enumeration -/

/-- no ignore marker is met at any level of the enumeration (decidable; the ignore clause of the property only
    promises widening) -/
def runDomain : List (String × List Value) → Env → List (PolicyID × Policy) → Bool
  | [], _, _ => true
  | (k, vs) :: rest, env, ps =>
    (ps.all fun ip => partialDomain env ip.2) && vs.all fun v => runDomain rest (substEnv k v env) (doPartial env ps)

theorem leafResult_decision (env : Env) (ps : List (PolicyID × Policy)) (vals : List (String × Value)) (r : BResult)
    (h : leafResult env ps vals = some r) :
    r.allow = (authorize ps env).allow ∧ r.reasons = (authorize ps env).reasons := by
  unfold leafResult at h
  split at h
  · cases h; exact ⟨rfl, rfl⟩
  · cases h

theorem trace_decision (vars : List (String × List Value)) (env : Env) (ps : List (PolicyID × Policy))
    (vals : List (String × Value)) (hi : noIgnoredPart env = true)
    (hv : ∀ kv ∈ vars, ∀ v ∈ kv.2, v.isIgnore = false) (hd : runDomain vars env ps = true) :
    ∀ o ∈ trace vars env ps vals, ∃ σs, o.1 = vals ++ σs ∧ ∀ r, o.2 = some r →
      r.allow = (authorize ps (substManyEnv σs env)).allow ∧
      r.reasons = (authorize ps (substManyEnv σs env)).reasons := by
  induction vars generalizing env ps vals with
  | nil =>
    intro o ho
    simp only [trace, List.mem_singleton] at ho
    subst ho
    exact ⟨[], by simp, fun r hr => leafResult_decision _ _ _ _ hr⟩
  | cons kv rest ih =>
    obtain ⟨k, vs⟩ := kv
    intro o ho
    simp only [trace, List.mem_flatMap] at ho
    obtain ⟨v, hvmem, ho⟩ := ho
    have hvi : v.isIgnore = false := hv (k, vs) (by simp) v hvmem
    have henv : (if rest.isEmpty then fixIgnores env else env) = env := by
      split
      · exact fixIgnores_noop env hi
      · rfl
    rw [henv, cloneSubEnv_eq_substEnv] at ho
    simp only [runDomain, Bool.and_eq_true, List.all_eq_true] at hd
    obtain ⟨hlevel, hrest⟩ := hd
    have hlevel' : (ps.all fun ip => partialDomain env ip.2) = true := by
      simpa [List.all_eq_true] using hlevel
    obtain ⟨σs, h1, h2⟩ := ih (substEnv k v env) (doPartial env ps) (vals ++ [(k, v)])
      (noIgnoredPart_substEnv k v env hvi hi) (fun kv h => hv kv (by simp [h])) (hrest v hvmem) o ho
    refine ⟨(k, v) :: σs, by simp [h1], ?_⟩
    intro r hr
    obtain ⟨ha, hr'⟩ := h2 r hr
    have hL : substManyEnv σs (substEnv k v env) = substManyEnv ((k, v) :: σs) env := by simp [substManyEnv]
    rw [hL] at ha hr'
    haveI := completion_substMany ((k, v) :: σs)
    obtain ⟨e1, e2⟩ := authorize_doPartial (substMany ((k, v) :: σs)) env (substManyEnv ((k, v) :: σs) env)
      (substManyEnv_entities _ env).symm (eval_var_substManyEnv _ env) ps hlevel'
    exact ⟨ha.trans e1, hr'.trans e2⟩

end CedarGo
