/-
  C09: annotations, conditions and the whole policy document.
-/
import CedarGoProofs.Lemmas.C09e
namespace CedarGo.JsonModel
open CedarGo CedarGo.Scalars

/-! ### annotations -/

theorem mapKVR_annVal_fold : ∀ (anns : List (String × String)) (acc : List (String × J)) (acc' : List (String × String)),
    mapKVR annVal acc = .ok acc' →
    mapKVR annVal ((anns.map fun kv => (kv.1, J.str kv.2)).foldl (fun a kv => insKV kv.1 kv.2 a) acc)
      = .ok (anns.foldl (fun a kv => insKV kv.1 kv.2 a) acc')
  | [], acc, acc', h => by simpa using h
  | (k, v) :: anns, acc, acc', h => by
    simp only [List.map, List.foldl]
    exact mapKVR_annVal_fold anns _ _ (mapKVR_insKV annVal k (.str v) v (by simp [annVal]) acc acc' h)

theorem mapKVR_annVal_sortKV (anns : List (String × String)) :
    mapKVR annVal (sortKV (anns.map fun kv => (kv.1, J.str kv.2))) = .ok (sortKV anns) := by
  simp only [sortKV]; exact mapKVR_annVal_fold anns [] [] rfl

/-! ### conditions -/

def kindStr (w : Bool) : String := if w then "when" else "unless"

theorem decodeCond_condToJ (c : Bool × Expr) (hr : renderableE c.2 = true) :
    decodeCond (condToJ c) = .ok (kindStr c.1, embed c.2) := by
  have h := (expr_roundtrip c.2 hr).1
  simp [decodeCond, condToJ, strField, nodeField, findField, List.filter, h, kindStr]

theorem mapMR_decodeCond : ∀ (cs : List (Bool × Expr)), cs.all (fun c => renderableE c.2) = true →
    mapMR decodeCond (cs.map condToJ) = .ok (cs.map fun c => (kindStr c.1, embed c.2))
  | [], _ => rfl
  | c :: cs, h => by
    simp only [List.all_cons, Bool.and_eq_true] at h
    simp only [List.map, mapMR, decodeCond_condToJ c h.1, mapMR_decodeCond cs h.2]

theorem condsToExprs_embed : ∀ (cs : List (Bool × Expr)), cs.all (fun c => renderableE c.2) = true →
    condsToExprs (cs.map fun c => (kindStr c.1, embed c.2)) = .ok (cs.map fun c => (c.1, normE c.2))
  | [], _ => rfl
  | c :: cs, h => by
    simp only [List.all_cons, Bool.and_eq_true] at h
    obtain ⟨w, e⟩ := c
    have h1 := (expr_roundtrip e h.1).2
    have ih := condsToExprs_embed cs h.2
    simp only [kindStr] at ih
    cases w <;> simp [List.map, condsToExprs, h1, kindStr, ih]

/-! ### the document -/

theorem effectOf_effStr (e : Effect) : effectOf (effStr e) = .ok e := by
  cases e <;> simp [effectOf, effStr]

/-- `fromJ` on an object whose six fields decode as stated -/
theorem fromJ_of (kvs : List (String × J)) (p : Policy) (hr : renderableP p = true)
    (h_anns : decodeAnns kvs = .ok (sortKV p.annotations))
    (h_eff : strField kvs "effect" = .ok (effStr p.effect))
    (h_pr : findField kvs "principal" = .one (scopeToJ p.principal))
    (h_ac : findField kvs "action" = .one (scopeToJ p.action))
    (h_re : findField kvs "resource" = .one (scopeToJ p.resource))
    (h_conds : decodeConds kvs = .ok (p.conditions.map fun c => (kindStr c.1, embed c.2))) :
    fromJ (.obj kvs) = .ok (normP p) := by
  simp only [renderableP, Bool.and_eq_true] at hr
  simp only [fromJ, bind, Except.bind, h_anns, h_eff, decodeScope_of _ _ _ h_pr, decodeScope_of _ _ _ h_ac,
    decodeScope_of _ _ _ h_re, h_conds, effectOf_effStr, scopeToPR_struct _ hr.1.1.1, scopeToAction_struct _ hr.1.1.2,
    scopeToPR_struct _ hr.1.2, condsToExprs_embed _ hr.2, normP]

theorem toJ_eq (p : Policy) : toJ p = .obj
    ((if p.conditions.isEmpty then id else insKV "conditions" (J.arr (p.conditions.map condToJ)))
      ((if p.annotations.isEmpty then id else
          insKV "annotations" (jObjOfPairs (p.annotations.map fun kv => (kv.1, J.str kv.2))))
        [("action", scopeToJ p.action), ("effect", .str (effStr p.effect)), ("principal", scopeToJ p.principal),
         ("resource", scopeToJ p.resource)])) := by
  cases hc : p.conditions.isEmpty <;> cases ha : p.annotations.isEmpty <;> simp [toJ, hc, ha, jInsert]

theorem json_roundtrip (p : Policy) (hr : renderableP p = true) : fromJ (toJ p) = .ok (normP p) := by
  have l1 : ("annotations" < "action") = False := by decide
  have l2 : ("annotations" == "action") = false := by decide
  have l3 : ("annotations" < "effect") = True := by decide
  have l4 : ("conditions" < "action") = False := by decide
  have l5 : ("conditions" == "action") = false := by decide
  have l6 : ("conditions" < "effect") = True := by decide
  have l7 : ("conditions" < "annotations") = False := by decide
  have l8 : ("conditions" == "annotations") = false := by decide
  have hall : p.conditions.all (fun c => renderableE c.2) = true := by
    simp only [renderableP, Bool.and_eq_true] at hr; exact hr.2
  rw [toJ_eq]
  apply fromJ_of _ p hr
  · -- annotations
    cases ha : p.annotations.isEmpty <;> cases hc : p.conditions.isEmpty <;>
      simp [decodeAnns, findField, List.filter, insKV, l1, l2, l3, l4, l5, l6, l7, l8, jObjOfPairs, mapKVR_annVal_sortKV]
    all_goals (have : p.annotations = [] := by cases h : p.annotations <;> simp_all)
    all_goals simp [this, sortKV]
  · cases ha : p.annotations.isEmpty <;> cases hc : p.conditions.isEmpty <;>
      simp [strField, findField, List.filter, insKV, l1, l2, l3, l4, l5, l6, l7, l8]
  · cases ha : p.annotations.isEmpty <;> cases hc : p.conditions.isEmpty <;>
      simp [findField, List.filter, insKV, l1, l2, l3, l4, l5, l6, l7, l8]
  · cases ha : p.annotations.isEmpty <;> cases hc : p.conditions.isEmpty <;>
      simp [findField, List.filter, insKV, l1, l2, l3, l4, l5, l6, l7, l8]
  · cases ha : p.annotations.isEmpty <;> cases hc : p.conditions.isEmpty <;>
      simp [findField, List.filter, insKV, l1, l2, l3, l4, l5, l6, l7, l8]
  · -- conditions
    cases ha : p.annotations.isEmpty <;> cases hc : p.conditions.isEmpty <;>
      simp [decodeConds, findField, List.filter, insKV, l1, l2, l3, l4, l5, l6, l7, l8, mapMR_decodeCond _ hall]
    all_goals (have : p.conditions = [] := by cases h : p.conditions <;> simp_all)
    all_goals simp [this]

end CedarGo.JsonModel
