/-
  C07 ∘ C18 bridge, part 14: small facts used directly by the property theorems.
-/
import CedarGoProofs.Lemmas.C07LexFinal
namespace CedarGo.Text
open CedarGo Lx

/-- decidable equality of lexer results (for the `decide +kernel` examples) -/
instance instDecEqExceptC07Lex {ε α : Type} [DecidableEq ε] [DecidableEq α] : DecidableEq (Except ε α)
  | .ok a, .ok b => if h : a = b then isTrue (by rw [h]) else isFalse (by intro e; cases e; exact h rfl)
  | .error a, .error b => if h : a = b then isTrue (by rw [h]) else isFalse (by intro e; cases e; exact h rfl)
  | .ok _, .error _ => isFalse (by intro e; cases e)
  | .error _, .ok _ => isFalse (by intro e; cases e)

theorem sepChars_mono {Z : List Char} (h : SepChars false Z) : SepChars true Z := by
  generalize hf : false = fin at h
  induction h with
  | nil => exact .nil true
  | ws fin c cs hc _ ih => exact .ws true c cs hc (ih hf)
  | line fin body cs hb _ ih => exact .line true body cs hb (ih hf)
  | lineEnd body hb => exact .lineEnd body hb
  | block fin body cs hb _ ih => exact .block true body cs hb (ih hf)

theorem renderPolicy_ne_nil (full : Bool) (p : Policy) : renderPolicy full p ≠ [] := by
  unfold renderPolicy
  intro h
  have := congrArg List.length h
  simp at this

theorem stripPos_eq_of_class (t u : Token) (h : (t.ty, t.text) = (u.ty, u.text)) : stripPos t = stripPos u := by
  cases t; cases u; simp_all [stripPos]

theorem map_stripPos_of_classes : ∀ (xs ys : List Token),
    xs.map (fun t => (t.ty, t.text)) = ys.map (fun t => (t.ty, t.text)) → xs.map stripPos = ys.map stripPos
  | [], [], _ => rfl
  | [], _ :: _, h => by simp at h
  | _ :: _, [], h => by simp at h
  | x :: xs, y :: ys, h => by
    simp only [List.map_cons, List.cons.injEq] at h ⊢
    exact ⟨stripPos_eq_of_class x y h.1, map_stripPos_of_classes xs ys h.2⟩

theorem separated_space {t₁ : Token} (h : Lexable t₁) (t₂ : Token) : Separated t₁ " " t₂ := by
  refine ⟨isSeparator_space false, ?_⟩
  rw [space_toList]
  exact sepOK_space h

/-- position of the first token handed to the parser -/
theorem peek_placedToks (doc : List UInt8) (k : Nat) (sep : String) (seps : Layout) (t : Token) (ts : List Token) :
    peek (placedToks doc k (sep :: seps) (t :: ts)) = ⟨t.ty, goPos doc (k + (strBytes sep).length), t.text⟩ := rfl

theorem lexable_text_ne_nil {t : Token} (h : Lexable t) : t.text.toList ≠ [] := lexChars_ne_nil h

theorem admissible_of_pairs : ∀ (ts : List Token) (lay : Layout), AdmissiblePairs lay ts → Admissible lay ts
  | [], [], h => by simp [AdmissiblePairs] at h
  | [], [sep], h => h
  | [], _ :: _ :: _, h => by simp [AdmissiblePairs] at h
  | [t], [], h => by simp [AdmissiblePairs] at h
  | [t], [_], h => by simp [AdmissiblePairs] at h
  | [t], [s0, s1], h => by
    simp only [AdmissiblePairs] at h
    obtain ⟨h0, ht, h1, hs⟩ := h
    exact ⟨h0, ht, by simpa [renderChars] using hs, h1⟩
  | [t], _ :: _ :: _ :: _, h => by simp [AdmissiblePairs] at h
  | t1 :: t2 :: ts, [], h => by simp [AdmissiblePairs] at h
  | t1 :: t2 :: ts, [_], h => by simp [AdmissiblePairs] at h
  | t1 :: t2 :: ts, s0 :: s1 :: seps, h => by
    simp only [AdmissiblePairs] at h
    obtain ⟨h0, ht, ⟨hs1, hsep⟩, hrest⟩ := h
    have hadm := admissible_of_pairs (t2 :: ts) (s1 :: seps) hrest
    refine ⟨h0, ht, ?_, hadm⟩
    have ht2 : t2.text.toList ≠ [] := by
      match seps, ts, hadm with
      | _ :: _, _, hadm => exact lexable_text_ne_nil hadm.2.1
      | [], _, hadm => simp [Admissible] at hadm
    have e : (renderChars (s1 :: seps) (t2 :: ts)).head? = (s1.toList ++ t2.text.toList).head? := by
      simp only [renderChars]
      cases h1 : s1.toList with
      | cons c cs => rfl
      | nil =>
        cases h2 : t2.text.toList with
        | nil => exact absurd h2 ht2
        | cons c cs => rfl
    rw [e]; exact hsep

theorem isSeparatorBytes_iff (fin : Bool) (bs : List UInt8) :
    IsSeparatorBytes fin bs ↔ ∃ s : String, bs = strBytes s ∧ IsSeparator fin s := by
  constructor
  · rintro ⟨cs, rfl, h⟩
    exact ⟨String.ofList cs, by simp [strBytes, String.toList_ofList], by simpa [IsSeparator, String.toList_ofList] using h⟩
  · rintro ⟨s, rfl, h⟩
    exact ⟨s.toList, rfl, h⟩

theorem posOf_zero (doc : List UInt8) : posOf doc 0 = ⟨0, 1, 1⟩ := by
  simp [posOf, lastLine, decodeAll_nil]

end CedarGo.Text
