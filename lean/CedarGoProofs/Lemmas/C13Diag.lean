/-
  Helper lemmas for C13 (Diagnostic / Decision JSON): field look-ups on the encodings, element round trips.
-/
import CedarGoProofs.Lemmas.C13
import CedarGo.Model.Json.Diagnostic
namespace CedarGo.JsonModel
open CedarGo

/-- the three numbers of a `Position` are Go `int`s (64 bit) -/
def PositionM.InRange (p : PositionM) : Prop := InI64 p.offset ∧ InI64 p.line ∧ InI64 p.column
instance (p : PositionM) : Decidable p.InRange := by unfold PositionM.InRange; infer_instance

def sliceAll {α} (P : α → Prop) : Option (List α) → Prop
  | none => True
  | some l => ∀ x ∈ l, P x

/-- every position of the diagnostic holds Go `int`s -/
def DiagnosticM.InRange (d : DiagnosticM) : Prop :=
  sliceAll (fun (r : ReasonM) => r.position.InRange) d.reasons ∧ sliceAll (fun (e : DiagErrorM) => e.position.InRange) d.errors

theorem intField_of (kvs : List (String × J)) (f : String) (m : Int) (hf : findField kvs f = .one (.num m 0)) (h : InI64 m) :
    intField kvs f = .ok m := by
  simp [intField, hf, h]

theorem strField_of (kvs : List (String × J)) (f s : String) (hf : findField kvs f = .one (.str s)) : strField kvs f = .ok s := by
  simp [strField, hf]

theorem decodePositionObj_encode (p : PositionM) (h : p.InRange) :
    decodePositionObj [("column", .num p.column 0), ("filename", .str p.filename), ("line", .num p.line 0), ("offset", .num p.offset 0)] = .ok p := by
  obtain ⟨ho, hl, hc⟩ := h
  have k1 : keyMatches "column" "filename" = false := by decide +kernel
  have k2 : keyMatches "filename" "filename" = true := by decide +kernel
  have k3 : keyMatches "line" "filename" = false := by decide +kernel
  have k4 : keyMatches "offset" "filename" = false := by decide +kernel
  have k5 : keyMatches "column" "offset" = false := by decide +kernel
  have k6 : keyMatches "filename" "offset" = false := by decide +kernel
  have k7 : keyMatches "line" "offset" = false := by decide +kernel
  have k8 : keyMatches "offset" "offset" = true := by decide +kernel
  have k9 : keyMatches "column" "line" = false := by decide +kernel
  have k10 : keyMatches "filename" "line" = false := by decide +kernel
  have k11 : keyMatches "line" "line" = true := by decide +kernel
  have k12 : keyMatches "offset" "line" = false := by decide +kernel
  have k13 : keyMatches "column" "column" = true := by decide +kernel
  have k14 : keyMatches "filename" "column" = false := by decide +kernel
  have k15 : keyMatches "line" "column" = false := by decide +kernel
  have k16 : keyMatches "offset" "column" = false := by decide +kernel
  have f1 : ∀ (c f l o : J), findField [("column", c), ("filename", f), ("line", l), ("offset", o)] "filename" = .one f := by
    intros; simp [findField, List.filter, k1, k2, k3, k4]
  have f2 : ∀ (c f l o : J), findField [("column", c), ("filename", f), ("line", l), ("offset", o)] "offset" = .one o := by
    intros; simp [findField, List.filter, k5, k6, k7, k8]
  have f3 : ∀ (c f l o : J), findField [("column", c), ("filename", f), ("line", l), ("offset", o)] "line" = .one l := by
    intros; simp [findField, List.filter, k9, k10, k11, k12]
  have f4 : ∀ (c f l o : J), findField [("column", c), ("filename", f), ("line", l), ("offset", o)] "column" = .one c := by
    intros; simp [findField, List.filter, k13, k14, k15, k16]
  simp only [decodePositionObj, strField_of _ _ _ (f1 _ _ _ _), intField_of _ _ _ (f2 _ _ _ _) ho,
    intField_of _ _ _ (f3 _ _ _ _) hl, intField_of _ _ _ (f4 _ _ _ _) hc, bind, Except.bind]

theorem positionField_of (kvs : List (String × J)) (f : String) (p : PositionM) (hf : findField kvs f = .one (encodePosition p))
    (h : p.InRange) : positionField kvs f = .ok p := by
  simp only [positionField, hf, encodePosition]
  exact decodePositionObj_encode p h

theorem decodeReason_encode (r : ReasonM) (h : r.position.InRange) : decodeReason (encodeReason r) = .ok r := by
  have k1 : keyMatches "policy" "policy" = true := by decide +kernel
  have k2 : keyMatches "position" "policy" = false := by decide +kernel
  have k3 : keyMatches "policy" "position" = false := by decide +kernel
  have k4 : keyMatches "position" "position" = true := by decide +kernel
  have f1 : ∀ (a b : J), findField [("policy", a), ("position", b)] "policy" = .one a := by
    intros; simp [findField, List.filter, k1, k2]
  have f2 : ∀ (a b : J), findField [("policy", a), ("position", b)] "position" = .one b := by
    intros; simp [findField, List.filter, k3, k4]
  simp only [decodeReason, encodeReason, strField_of _ _ _ (f1 _ _), positionField_of _ _ _ (f2 _ _) h, bind, Except.bind]

theorem decodeDiagError_encode (e : DiagErrorM) (h : e.position.InRange) : decodeDiagError (encodeDiagError e) = .ok e := by
  have k1 : keyMatches "message" "policy" = false := by decide +kernel
  have k2 : keyMatches "policy" "policy" = true := by decide +kernel
  have k3 : keyMatches "position" "policy" = false := by decide +kernel
  have k4 : keyMatches "message" "position" = false := by decide +kernel
  have k5 : keyMatches "policy" "position" = false := by decide +kernel
  have k6 : keyMatches "position" "position" = true := by decide +kernel
  have k7 : keyMatches "message" "message" = true := by decide +kernel
  have k8 : keyMatches "policy" "message" = false := by decide +kernel
  have k9 : keyMatches "position" "message" = false := by decide +kernel
  have f1 : ∀ (m a b : J), findField [("message", m), ("policy", a), ("position", b)] "policy" = .one a := by
    intros; simp [findField, List.filter, k1, k2, k3]
  have f2 : ∀ (m a b : J), findField [("message", m), ("policy", a), ("position", b)] "position" = .one b := by
    intros; simp [findField, List.filter, k4, k5, k6]
  have f3 : ∀ (m a b : J), findField [("message", m), ("policy", a), ("position", b)] "message" = .one m := by
    intros; simp [findField, List.filter, k7, k8, k9]
  simp only [decodeDiagError, encodeDiagError, strField_of _ _ _ (f1 _ _ _), positionField_of _ _ _ (f2 _ _ _) h,
    strField_of _ _ _ (f3 _ _ _), bind, Except.bind]

theorem mapMR_map_ok {α} (dec : J → R α) (enc : α → J) : ∀ (l : List α), (∀ x ∈ l, dec (enc x) = .ok x) → mapMR dec (l.map enc) = .ok l
  | [], _ => rfl
  | x :: xs, h => by
    simp only [List.map, mapMR, h x (by simp), mapMR_map_ok dec enc xs (fun y hy => h y (by simp [hy]))]

/-- a slice member of the encoding decodes to the normalised slice -/
theorem sliceField_present {α} (kvs : List (String × J)) (f : String) (dec : J → R α) (enc : α → J) (x : α) (xs : List α)
    (hf : findField kvs f = .one (.arr ((x :: xs).map enc))) (h : ∀ y ∈ x :: xs, dec (enc y) = .ok y) :
    sliceField kvs f dec = .ok (some (x :: xs)) := by
  simp only [sliceField, hf, mapMR_map_ok dec enc (x :: xs) h, Except.map]

theorem sliceField_absent {α} (kvs : List (String × J)) (f : String) (dec : J → R α) (hf : findField kvs f = .absent) :
    sliceField kvs f dec = .ok none := by
  simp only [sliceField, hf]

theorem decodeDiagnostic_encode (d : DiagnosticM) (h : d.InRange) : decodeDiagnostic (encodeDiagnostic d) = .ok d.norm := by
  obtain ⟨rs, es⟩ := d
  obtain ⟨hr, he⟩ := h
  have k1 : keyMatches "errors" "reasons" = false := by decide +kernel
  have k2 : keyMatches "reasons" "reasons" = true := by decide +kernel
  have k3 : keyMatches "errors" "errors" = true := by decide +kernel
  have k4 : keyMatches "reasons" "errors" = false := by decide +kernel
  have f0 : ∀ f, findField [] f = .absent := by intro f; simp [findField]
  have fr2 : ∀ (a b : J), findField [("errors", a), ("reasons", b)] "reasons" = .one b := by
    intros; simp [findField, List.filter, k1, k2]
  have fe2 : ∀ (a b : J), findField [("errors", a), ("reasons", b)] "errors" = .one a := by
    intros; simp [findField, List.filter, k3, k4]
  have fr1 : ∀ (b : J), findField [("reasons", b)] "reasons" = .one b := by intros; simp [findField, List.filter, k2]
  have fr1' : ∀ (b : J), findField [("reasons", b)] "errors" = .absent := by intros; simp [findField, List.filter, k4]
  have fe1 : ∀ (a : J), findField [("errors", a)] "errors" = .one a := by intros; simp [findField, List.filter, k3]
  have fe1' : ∀ (a : J), findField [("errors", a)] "reasons" = .absent := by intros; simp [findField, List.filter, k1]
  have dr : ∀ (l : List ReasonM), (∀ x ∈ l, x.position.InRange) → ∀ y ∈ l, decodeReason (encodeReason y) = .ok y :=
    fun l hl y hy => decodeReason_encode y (hl y hy)
  have de : ∀ (l : List DiagErrorM), (∀ x ∈ l, x.position.InRange) → ∀ y ∈ l, decodeDiagError (encodeDiagError y) = .ok y :=
    fun l hl y hy => decodeDiagError_encode y (hl y hy)
  rcases rs with _ | _ | ⟨r, rs⟩ <;> rcases es with _ | _ | ⟨e, es⟩
  all_goals simp only [encodeDiagnostic, sliceMember, List.append_nil, List.nil_append, List.cons_append, decodeDiagnostic,
    DiagnosticM.norm, normSlice]
  · simp only [sliceField_absent _ _ _ (f0 _), bind, Except.bind]
  · simp only [sliceField_absent _ _ _ (f0 _), bind, Except.bind]
  · rw [sliceField_absent _ _ _ (fe1' _), sliceField_present _ _ _ _ e es (fe1 _) (de _ he)]; rfl
  · simp only [sliceField_absent _ _ _ (f0 _), bind, Except.bind]
  · simp only [sliceField_absent _ _ _ (f0 _), bind, Except.bind]
  · rw [sliceField_absent _ _ _ (fe1' _), sliceField_present _ _ _ _ e es (fe1 _) (de _ he)]; rfl
  · rw [sliceField_present _ _ _ _ r rs (fr1 _) (dr _ hr), sliceField_absent _ _ _ (fr1' _)]; rfl
  · rw [sliceField_present _ _ _ _ r rs (fr1 _) (dr _ hr), sliceField_absent _ _ _ (fr1' _)]; rfl
  · rw [sliceField_present _ _ _ _ r rs (fr2 _ _) (dr _ hr), sliceField_present _ _ _ _ e es (fe2 _ _) (de _ he)]; rfl

theorem norm_norm (d : DiagnosticM) : d.norm.norm = d.norm := by
  obtain ⟨rs, es⟩ := d
  rcases rs with _ | _ | ⟨r, rs⟩ <;> rcases es with _ | _ | ⟨e, es⟩ <;> rfl

theorem encodeDiagnostic_norm (d : DiagnosticM) : encodeDiagnostic d.norm = encodeDiagnostic d := by
  obtain ⟨rs, es⟩ := d
  rcases rs with _ | _ | ⟨r, rs⟩ <;> rcases es with _ | _ | ⟨e, es⟩ <;> rfl

end CedarGo.JsonModel
