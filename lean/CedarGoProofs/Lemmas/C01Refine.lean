/-
  Helper lemmas for C01: the refinement relation between the Go evaluator model and the specification
  evaluator, its congruence lemmas, and one lemma per operator / extension function relating the
  model's "convert operand, then compute" to the specification's `apply₁` / `apply₂` / `call`.
-/
import CedarGoProofs.Lemmas.C01RangeEval
import CedarGoProofs.Lemmas.C01Arith
import CedarGoProofs.Lemmas.C01Pattern
import CedarGoProofs.Lemmas.C03
import CedarGo.Spec.Evaluator
namespace CedarGo
open Scalars

/-- `impl` refines `spec`: the same result, except that where the specification reports some error
    the implementation may report a type error (or cedar-go's `unspecified` entity error) instead —
    which happens exactly when an ill-typed operand precedes a failing one, because cedar-go converts
    each operand before it evaluates the next while the specification evaluates all operands first. -/
def Refines {α : Type} (impl spec : Except Err α) : Prop :=
  impl = spec ∨ ((∃ k, spec = .error k) ∧ (impl = .error .type ∨ impl = .error .unspecified))

theorem Refines.rfl' {α : Type} {x : Except Err α} : Refines x x := .inl rfl
theorem Refines.of_eq {α : Type} {x y : Except Err α} (h : x = y) : Refines x y := .inl h

/-- a value of the specification is the value of the implementation -/
theorem Refines.ok_eq {α : Type} {x : Except Err α} {v : α} (h : Refines x (.ok v)) : x = .ok v := by
  rcases h with h | ⟨⟨k, hk⟩, _⟩
  · exact h
  · cases hk

theorem Refines.ok_iff {α : Type} {x s : Except Err α} (h : Refines x s) (v : α) : x = .ok v ↔ s = .ok v := by
  rcases h with h | ⟨⟨k, hk⟩, h | h⟩
  · rw [h]
  · rw [hk, h]; simp
  · rw [hk, h]; simp

theorem Refines.error_iff {α : Type} {x s : Except Err α} (h : Refines x s) : (∃ k, x = .error k) ↔ (∃ k, s = .error k) := by
  rcases h with h | ⟨⟨k, hk⟩, h | h⟩
  · rw [h]
  · rw [hk, h]; simp
  · rw [hk, h]; simp

/-- the implementation's error kind is the specification's unless it is `type` / `unspecified` -/
theorem Refines.eq_of_not_type {α : Type} {x s : Except Err α} (h : Refines x s)
    (h1 : x ≠ .error .type) (h2 : x ≠ .error .unspecified) : x = s := by
  rcases h with h | ⟨_, h | h⟩
  · exact h
  · exact absurd h h1
  · exact absurd h h2

namespace C01L

theorem ebind_bind {α β γ : Type} (x : Except Err α) (c : α → Except Err β) (f : β → Except Err γ) :
    (Except.bind x c >>= f) = (x >>= fun v => c v >>= f) := by
  cases x <;> rfl

/-- congruence: evaluate a sub-expression, then continue -/
theorem refines_bind {α β : Type} {x sx : Except Err α} {f g : α → Except Err β} (hx : Refines x sx)
    (hfg : ∀ v, x = .ok v → Refines (f v) (g v)) : Refines (x >>= f) (sx >>= g) := by
  rcases hx with h | ⟨⟨k, hk⟩, h | h⟩
  · subst h
    cases x with
    | error e => exact .inl rfl
    | ok v => exact hfg v rfl
  · subst hk; subst h; exact .inr ⟨⟨k, rfl⟩, .inl rfl⟩
  · subst hk; subst h; exact .inr ⟨⟨k, rfl⟩, .inr rfl⟩

/-- conversions fail only with `type` (or `unspecified`) -/
def ConvErr {α : Type} (c : Value → Except Err α) : Prop := ∀ v e, c v = .error e → e = .type ∨ e = .unspecified

theorem convErr_toBool : ConvErr toBool := by intro v e h; cases v <;> simp [toBool] at h <;> simp [h]
theorem convErr_toLong : ConvErr toLong := by intro v e h; cases v <;> simp [toLong] at h <;> simp [h]
theorem convErr_toStr : ConvErr toStr := by intro v e h; cases v <;> simp [toStr] at h <;> simp [h]
theorem convErr_toSet : ConvErr toSet := by intro v e h; cases v <;> simp [toSet] at h <;> simp [h]
theorem convErr_toEntity : ConvErr toEntity := by intro v e h; cases v <;> simp [toEntity] at h <;> simp [h]
theorem convErr_toComparable : ConvErr toComparable := by
  intro v e h; cases v <;> simp [toComparable] at h <;> simp [h]

theorem refines_err_left {α : Type} {e : Err} {s : Except Err α} (he : e = .type ∨ e = .unspecified)
    (hs : ∃ k, s = .error k) : Refines (.error e) s := by
  rcases he with rfl | rfl
  · exact .inr ⟨hs, .inl rfl⟩
  · exact .inr ⟨hs, .inr rfl⟩

/-- a refined error: the specification side is an error as well -/
theorem _root_.CedarGo.Refines.spec_err {α : Type} {e : Err} {s : Except Err α} (h : Refines (.error e) s) : ∃ k, s = .error k := by
  rcases h with h | ⟨hk, _⟩
  · exact ⟨e, h.symm⟩
  · exact hk

/-- unary operator: convert the operand, compute -/
theorem refines_un {α : Type} {x sx : Res} {conv : Value → Except Err α} {body : α → Res} {ap : Value → Res}
    (hx : Refines x sx) (hP : ∀ v, x = .ok v → Refines (conv v >>= body) (ap v)) :
    Refines (Except.bind x conv >>= body) (sx >>= ap) := by
  rw [ebind_bind]
  exact refines_bind hx hP

/-- binary operator, both operands converted: cedar-go converts the left operand BEFORE evaluating the right -/
theorem refines_bin11 {α β : Type} {x y sx sy : Res} {conv1 : Value → Except Err α} {conv2 : Value → Except Err β}
    {body : α → β → Res} {ap : Value → Value → Res} (hx : Refines x sx) (hy : Refines y sy) (hc : ConvErr conv1)
    (hP : ∀ v₁ v₂, x = .ok v₁ → y = .ok v₂ → Refines (conv1 v₁ >>= fun a => conv2 v₂ >>= fun b => body a b) (ap v₁ v₂)) :
    Refines (Except.bind x conv1 >>= fun a => Except.bind y conv2 >>= fun b => body a b)
      (sx >>= fun v₁ => sy >>= fun v₂ => ap v₁ v₂) := by
  rw [ebind_bind]
  apply refines_bind hx
  intro v₁ hv₁
  cases hc1 : conv1 v₁ with
  | error e =>
    apply refines_err_left (hc v₁ e hc1)
    rcases hy with h | ⟨⟨k, hk⟩, _⟩
    · subst h
      cases hy' : y with
      | error k => exact ⟨k, rfl⟩
      | ok v₂ =>
        have := hP v₁ v₂ hv₁ hy'
        rw [hc1] at this
        exact this.spec_err
    · subst hk; exact ⟨k, rfl⟩
  | ok a =>
    show Refines (Except.bind y conv2 >>= fun b => body a b) _
    rw [ebind_bind]
    apply refines_bind hy
    intro v₂ hv₂
    have := hP v₁ v₂ hv₁ hv₂
    rw [hc1] at this
    exact this

/-- binary operator, only the left operand converted -/
theorem refines_bin10 {α : Type} {x y sx sy : Res} {conv1 : Value → Except Err α}
    {body : α → Value → Res} {ap : Value → Value → Res} (hx : Refines x sx) (hy : Refines y sy) (hc : ConvErr conv1)
    (hP : ∀ v₁ v₂, x = .ok v₁ → y = .ok v₂ → Refines (conv1 v₁ >>= fun a => body a v₂) (ap v₁ v₂)) :
    Refines (Except.bind x conv1 >>= fun a => y >>= fun b => body a b)
      (sx >>= fun v₁ => sy >>= fun v₂ => ap v₁ v₂) := by
  rw [ebind_bind]
  apply refines_bind hx
  intro v₁ hv₁
  cases hc1 : conv1 v₁ with
  | error e =>
    apply refines_err_left (hc v₁ e hc1)
    rcases hy with h | ⟨⟨k, hk⟩, _⟩
    · subst h
      cases hy' : y with
      | error k => exact ⟨k, rfl⟩
      | ok v₂ =>
        have := hP v₁ v₂ hv₁ hy'
        rw [hc1] at this
        exact this.spec_err
    · subst hk; exact ⟨k, rfl⟩
  | ok a =>
    show Refines (y >>= fun b => body a b) _
    apply refines_bind hy
    intro v₂ hv₂
    have := hP v₁ v₂ hv₁ hv₂
    rw [hc1] at this
    exact this

/-- binary operator on unconverted values -/
theorem refines_bin00 {x y sx sy : Res} {body : Value → Value → Res} {ap : Value → Value → Res}
    (hx : Refines x sx) (hy : Refines y sy)
    (hP : ∀ v₁ v₂, x = .ok v₁ → y = .ok v₂ → Refines (body v₁ v₂) (ap v₁ v₂)) :
    Refines (x >>= fun a => y >>= fun b => body a b) (sx >>= fun v₁ => sy >>= fun v₂ => ap v₁ v₂) :=
  refines_bind hx (fun v₁ h₁ => refines_bind hy (fun v₂ h₂ => hP v₁ v₂ h₁ h₂))

end C01L
end CedarGo
