/-
  C01 — property theorems (only `theorem C01_*` statements and non-vacuity examples live here;
  helper lemmas go to CedarGoProofs/Lemmas/).
-/
import CedarGo.Model.Fold
namespace CedarGo

end CedarGo
