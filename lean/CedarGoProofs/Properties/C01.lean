/-
  C01 — Expression evaluation follows the Cedar language semantics.

  `eval` (CedarGo/Model/Eval.lean) is the transcription of the Go evaluator, tied to the Go code by the
  correspondence check; `Spec.evaluate` (CedarGo/Spec/Evaluator.lean) is the transcription of the Cedar
  specification's `evaluate`.  This file states what is proved about the two:

  (1) the Go overflow checks (`+`, `-`, `*`, unary `-`), transcribed with two's-complement `wrap`,
      are exact for ALL int64 operand pairs;
  (2) comparison is total on like kinds and a type error otherwise;
  (3) the greedy leftmost chunk matcher of types/pattern.go decides exactly the specification's
      backtracking `wildcardMatch` on every pattern `types.NewPattern` can build;
  (4) evaluation preserves the 64-bit range invariant;
  (5) REFINEMENT: for every expression, store and request (in-range literals and store, well-formed
      patterns) the Go evaluator returns exactly the value the specification defines, and fails exactly
      when the specification fails (`C01_eval_refines_spec`, no further hypothesis);
  (6) `toDate` / `toTime`: the Go computation (truncated `%` lifted into `[0, day)`, then
      `checkedSubI64`) IS the specification's floor on every 64-bit datetime, overflow error included
      (`C01_goDates_eq_spec`).  Before the repair of the known finding `todate-totime-negative-truncation`
      the Go code truncated toward zero; the three witnesses of that defect are kept as regression examples;
  (7) the regenerated extension table of the Go source equals the model's.

  The refinement relation `Refines impl spec` is: `impl = spec`, or `spec` is an error and `impl` is a
  type error (or cedar-go's `unspecified`-entity error).  The second alternative is needed because the
  error KIND can differ when two operands are both faulty: the specification evaluates all operands of an
  operator before it applies it, cedar-go converts each operand as soon as it is evaluated
  (`true + (9223372036854775807 + 1)`: specification `overflow`, cedar-go `type` — `C01_error_kind_may_differ`).
  Values, and whether evaluation fails, never differ (`C01_eval_ok_iff_spec_ok`, `C01_eval_error_iff_spec_error`).
-/
import CedarGo.Model.Fold
import CedarGo.Generated.Facts
import CedarGoProofs.Lemmas.C01Main
namespace CedarGo
open Spec (evaluateWith wildcardMatchElems PatElem)
open C01L

/-! ### (1) Checked arithmetic -/

/-- `checkedAddI64`: reports success exactly when the mathematical sum fits, and then returns it. -/
theorem C01_checkedAdd_spec (l r : Int) (hl : InI64 l) (hr : InI64 r) :
    ((checkedAdd l r).2 = true ↔ InI64 (l + r)) ∧ ((checkedAdd l r).2 = true → (checkedAdd l r).1 = l + r) :=
  checkedAdd_spec l r hl hr

theorem C01_checkedSub_spec (l r : Int) (hl : InI64 l) (hr : InI64 r) :
    ((checkedSub l r).2 = true ↔ InI64 (l - r)) ∧ ((checkedSub l r).2 = true → (checkedSub l r).1 = l - r) :=
  checkedSub_spec l r hl hr

/-- `checkedMulI64` (wrapped product, sign test, `res / lhs != rhs` with truncated division): reports
    success exactly when the mathematical product fits, and then returns it. -/
theorem C01_checkedMul_spec (l r : Int) (hl : InI64 l) (hr : InI64 r) :
    ((checkedMul l r).2 = true ↔ InI64 (l * r)) ∧ ((checkedMul l r).2 = true → (checkedMul l r).1 = l * r) :=
  checkedMul_spec l r hl hr

theorem C01_checkedNeg_spec (a : Int) (ha : InI64 a) :
    ((checkedNeg a).2 = true ↔ InI64 (-a)) ∧ ((checkedNeg a).2 = true → (checkedNeg a).1 = -a) :=
  checkedNeg_spec a ha

/-! ### (2) Comparison -/

/-- `<`/`<=`/`>`/`>=`: defined exactly on two longs, two datetimes or two durations (agreeing with the
    integer order), `none` (⇒ type error) on every other pair. -/
theorem C01_compare_total (a b : Value) :
    (cmpLT a b).isSome = (cmpLE a b).isSome ∧
    ((cmpLT a b).isSome = true ↔
      (∃ x y, a = .long x ∧ b = .long y) ∨ (∃ x y, a = .datetime x ∧ b = .datetime y) ∨ (∃ x y, a = .duration x ∧ b = .duration y)) := by
  cases a <;> cases b <;> simp [cmpLT, cmpLE]

theorem C01_compare_order (x y : Int) :
    cmpLT (.long x) (.long y) = some (decide (x < y)) ∧ cmpLE (.long x) (.long y) = some (decide (x ≤ y)) ∧
    cmpLT (.datetime x) (.datetime y) = some (decide (x < y)) ∧ cmpLE (.duration x) (.duration y) = some (decide (x ≤ y)) := by
  simp [cmpLT, cmpLE]

/-! ### (3) `like` -/

/-- The greedy leftmost chunk matcher of `types.Pattern.Match` equals the specification's backtracking
    `wildcardMatch`, for every pattern `types.NewPattern` can build (`WFPattern`: only the first component
    may lack a wildcard, only the last may have an empty literal) and every byte string.
    (Bytes vs characters: see the remark at `Spec.wildcardMatch`.) -/
theorem C01_patternMatch_spec (p : Pattern) (s : List UInt8) (hp : WFPattern p) :
    matchComps p s = Spec.wildcardMatch p s :=
  matchComps_eq_wildcardMatch p s hp

/-- without `WFPattern` the greedy matcher is wrong (it answers `true` at a bare wildcard component
    whatever follows): the hypothesis is needed, and it is exactly what `NewPattern` establishes -/
theorem C01_patternMatch_needs_wf :
    ∃ (p : Pattern) (s : List UInt8), matchComps p s ≠ Spec.wildcardMatch p s :=
  ⟨[⟨true, []⟩, ⟨true, [1]⟩], [2], by decide +kernel⟩

/-- `Spec.wildcardMatchElems` satisfies the defining equations of the specification's `wildcardMatch` -/
theorem C01_wildcardMatch_equations (ps : List PatElem) (p c : UInt8) (cs : List UInt8) :
    wildcardMatchElems [] [] = true ∧ wildcardMatchElems [] (c :: cs) = false ∧
    wildcardMatchElems (.star :: ps) [] = wildcardMatchElems ps [] ∧
    wildcardMatchElems (.star :: ps) (c :: cs) = (wildcardMatchElems ps (c :: cs) || wildcardMatchElems (.star :: ps) cs) ∧
    wildcardMatchElems (.justChar p :: ps) [] = false ∧
    wildcardMatchElems (.justChar p :: ps) (c :: cs) = (p == c && wildcardMatchElems ps cs) := by
  simp [wildcardMatchElems, Spec.starMatch]

/-! ### (4) Range invariant -/

/-- In-range literals, request and store ⇒ every value the evaluator produces is in range
    (all longs, decimals, datetimes and durations inside it are 64-bit). -/
theorem C01_eval_preserves_range (e : Expr) (env : Env) (v : Value) (hwf : env.WF) (hl : e.LitsWF)
    (h : eval e env = .ok v) : v.WF :=
  eval_wf e env v hwf hl h

/-! ### (5) Refinement -/

/-- **Refinement against the Cedar specification**, full strength: for EVERY expression and environment
    (in-range literals and store, `NewPattern`-shaped patterns) the Go evaluator returns the value the
    specification's `evaluate` defines and reports an error exactly when the specification fails.
    No hypothesis about `toDate` / `toTime` any more: the repaired Go code floors, as the specification does. -/
theorem C01_eval_refines_spec (e : Expr) (env : Env) (hwf : env.WF) (hl : e.LitsWF) (hp : e.PatternsWF) :
    Refines (eval e env) (Spec.evaluate e env) :=
  eval_refines_spec e env hwf hl hp

/-- The same against the specification in which `toDate` / `toTime` are replaced by the literal Go
    computation (`goDates`: `checkedSub t (millisSinceMidnight t)` / `millisSinceMidnight t`): the form in
    which the induction is carried out; `C01_goDates_eq_spec` bridges to the specification. -/
theorem C01_eval_refines_spec_modulo_toDate (e : Expr) (env : Env) (hwf : env.WF) (hl : e.LitsWF)
    (hp : e.PatternsWF) : Refines (eval e env) (evaluateWith goDates e env) :=
  eval_refines_goDates e env hwf hl hp

/-- The Go date projections are the specification's floor functions on EVERY 64-bit datetime: same
    midnight / same time of day in `[0, 86399999]`, and `toDate` reports `overflow` exactly when the
    floored instant `86400000 · ⌊t / 86400000⌋` is below the 64-bit range. -/
theorem C01_goDates_eq_spec (t : Int) (ht : InI64 t) :
    goDates.toDate t = Spec.floorDate t ∧ goDates.toTime t = Spec.floorTime t :=
  ⟨goToDate_eq t ht, goToTime_eq t⟩

/-- Go's `millisSinceMidnight` (truncated `%`, plus one day when negative) is the Euclidean remainder -/
theorem C01_millisSinceMidnight_spec (t : Int) :
    millisSinceMidnight t = t % 86400000 ∧ 0 ≤ millisSinceMidnight t ∧ millisSinceMidnight t < 86400000 := by
  rw [millisSinceMidnight_eq]; omega

/-- the evaluator yields exactly the values the specification defines … -/
theorem C01_eval_ok_iff_spec_ok (e : Expr) (env : Env) (hwf : env.WF) (hl : e.LitsWF) (hp : e.PatternsWF)
    (v : Value) : eval e env = .ok v ↔ Spec.evaluate e env = .ok v :=
  (eval_refines_spec e env hwf hl hp).ok_iff v

/-- … and reports an error exactly when the specification says evaluation fails -/
theorem C01_eval_error_iff_spec_error (e : Expr) (env : Env) (hwf : env.WF) (hl : e.LitsWF) (hp : e.PatternsWF) :
    (∃ k, eval e env = .error k) ↔ (∃ k, Spec.evaluate e env = .error k) :=
  (eval_refines_spec e env hwf hl hp).error_iff

/-- the error kind is the specification's as well, unless cedar-go reports `type` / `unspecified` -/
theorem C01_eval_eq_spec_unless_type_error (e : Expr) (env : Env) (hwf : env.WF) (hl : e.LitsWF) (hp : e.PatternsWF)
    (h1 : eval e env ≠ .error .type) (h2 : eval e env ≠ .error .unspecified) :
    eval e env = Spec.evaluate e env :=
  (eval_refines_spec e env hwf hl hp).eq_of_not_type h1 h2

/-- `Refines` cannot be strengthened to equality of error kinds: with two faulty operands cedar-go
    reports the left operand's type error, the specification the right operand's overflow. -/
theorem C01_error_kind_may_differ :
    ∃ (e : Expr) (env : Env), eval e env = .error .type ∧ Spec.evaluate e env = .error .overflow :=
  ⟨.binop .add (.lit (.bool true)) (.binop .add (.lit (.long maxI64)) (.lit (.long 1))), emptyEnv, by rfl, by
    simp [Spec.evaluate, evaluateWith, Spec.apply₂, Spec.intOrErr, bind, Except.bind, InI64, minI64, maxI64]⟩

/-- the specification's `e is T in r` is the desugaring `(e is T) && (e in r)` -/
theorem C01_spec_isIn_desugars (e : Expr) (ty : String) (r : Expr) (env : Env) :
    Spec.evaluate (.isIn e ty r) env = Spec.evaluate (.binop .and (.is e ty) (.binop .in_ e r)) env := by
  simp only [Spec.evaluate, evaluateWith]
  cases h : evaluateWith Spec.cedarDates e env with
  | error k => rfl
  | ok v =>
    cases h2 : evaluateWith Spec.cedarDates r env with
    | error k => cases h3 : Spec.applyIs ty v <;> simp [bind, Except.bind, h3]
    | ok w => cases h3 : Spec.applyIs ty v <;> simp [bind, Except.bind, h3]

/-! ### (6) Regression: the witnesses of the repaired defect `todate-totime-negative-truncation`

  Before the repair cedar-go computed `ms - ms % MillisPerDay` / `ms % MillisPerDay` with Go's truncating
  `%`; these three inputs were `C01_toDate_counterexample`, `C01_toTime_counterexample` and
  `C01_toDate_overflow_counterexample` (and the first one `C01_eval_refines_spec_counterexample`).  The
  model of the repaired code and the specification now agree on each of them; the harness oracle
  (harness/cmd/vh/c01_spec.go) still replays them on the Go code. -/

/-- `datetime(-1ms).toDate()` = 1969-12-31 (−86400000 ms) in both (was 1970-01-01 in cedar-go) -/
example :
    eval (.call "toDate" [.lit (.datetime (-1))]) emptyEnv = .ok (.datetime (-86400000)) ∧
    Spec.evaluate (.call "toDate" [.lit (.datetime (-1))]) emptyEnv = .ok (.datetime (-86400000)) :=
  ⟨by rfl, by
    simp [Spec.evaluate, evaluateWith, ofName_toDate, Spec.evaluateList, Spec.partialErrorName, Spec.ExtFun.arity,
      Spec.call, Spec.cedarDates, Spec.floorDate, bind, Except.bind, InI64, minI64, maxI64]⟩

/-- `datetime(-1ms).toTime()` = 86399999 ms in both (was −1 ms in cedar-go) -/
example :
    eval (.call "toTime" [.lit (.datetime (-1))]) emptyEnv = .ok (.duration 86399999) ∧
    Spec.evaluate (.call "toTime" [.lit (.datetime (-1))]) emptyEnv = .ok (.duration 86399999) :=
  ⟨by rfl, by
    simp [Spec.evaluate, evaluateWith, ofName_toTime, Spec.evaluateList, Spec.partialErrorName, Spec.ExtFun.arity,
      Spec.call, Spec.cedarDates, Spec.floorTime, bind, Except.bind]⟩

/-- `datetime(MinInt64 ms).toDate()` fails with `overflow` in both (cedar-go used to return
    −9223372036828800000 ms): the floored instant is below the 64-bit range -/
example :
    eval (.call "toDate" [.lit (.datetime minI64)]) emptyEnv = .error .overflow ∧
    Spec.evaluate (.call "toDate" [.lit (.datetime minI64)]) emptyEnv = .error .overflow :=
  ⟨by rfl, by
    simp [Spec.evaluate, evaluateWith, ofName_toDate, Spec.evaluateList, Spec.partialErrorName, Spec.ExtFun.arity,
      Spec.call, Spec.cedarDates, Spec.floorDate, bind, Except.bind, InI64, minI64, maxI64]⟩

/-- … while the first representable midnight and the last millisecond still succeed -/
example :
    eval (.call "toDate" [.lit (.datetime (-9223372036828800000))]) emptyEnv = .ok (.datetime (-9223372036828800000)) ∧
    eval (.call "toDate" [.lit (.datetime (-9223372036828800001))]) emptyEnv = .error .overflow ∧
    eval (.call "toDate" [.lit (.datetime maxI64)]) emptyEnv = .ok (.datetime 9223372036828800000) ∧
    eval (.call "toTime" [.lit (.datetime minI64)]) emptyEnv = .ok (.duration 60424192) := ⟨by rfl, by rfl, by rfl, by rfl⟩

/-- the former witness of `C01_eval_refines_spec_counterexample` satisfies every hypothesis of
    `C01_eval_refines_spec`, and the conclusion holds for it with EQUAL results -/
example :
    emptyEnv.WF ∧ (Expr.call "toDate" [.lit (.datetime (-1))]).LitsWF ∧ (Expr.call "toDate" [.lit (.datetime (-1))]).PatternsWF ∧
    eval (.call "toDate" [.lit (.datetime (-1))]) emptyEnv = Spec.evaluate (.call "toDate" [.lit (.datetime (-1))]) emptyEnv := by
  have hwf : emptyEnv.WF := ⟨by simp [emptyEnv, Value.WF], by simp [emptyEnv, Value.WF], by simp [emptyEnv, Value.WF],
      by simp [emptyEnv, Value.WF], by intro u d h; simp [emptyEnv, Entities.get] at h⟩
  have hl : (Expr.call "toDate" [.lit (.datetime (-1))]).LitsWF := by
    simp [Expr.LitsWF, Expr.All, Expr.AllL, litOK, Value.WF, InI64, minI64, maxI64]
  have hp : (Expr.call "toDate" [.lit (.datetime (-1))]).PatternsWF := by
    simp [Expr.PatternsWF, Expr.All, Expr.AllL, patOK]
  have hv : eval (.call "toDate" [.lit (.datetime (-1))]) emptyEnv = .ok (.datetime (-86400000)) := by rfl
  refine ⟨hwf, hl, hp, C01_eval_eq_spec_unless_type_error _ _ hwf hl hp ?_ ?_⟩ <;> rw [hv] <;> nofun

/-! ### (7) Tie to the source -/

/-- The extension table and the dispatch switch of the Go source (regenerated on every run, sorted by
    name) are the model's, and the time constants are the ones the model uses. -/
theorem C01_facts_extMap :
    (∀ x ∈ Facts.extMap, x ∈ extMap) ∧ (∀ x ∈ extMap, x ∈ Facts.extMap) ∧
    Facts.extMap.length = extMap.length ∧
    Facts.extDispatch = Facts.extMap.map (·.1) ∧
    Facts.intConsts.lookup "consts.MillisPerDay" = some 86400000 ∧
    Facts.intConsts.lookup "consts.MillisPerHour" = some 3600000 ∧
    Facts.intConsts.lookup "consts.MillisPerMinute" = some 60000 ∧
    Facts.intConsts.lookup "consts.MillisPerSecond" = some 1000 := by decide +kernel

/-- the specification's function enumeration names exactly the functions of the Go table, with the same arities -/
theorem C01_spec_extFuns_match_table :
    (Spec.ExtFun.all.map (fun f => (f.name, f.arity))).length = extMap.length ∧
    ∀ f ∈ Spec.ExtFun.all, ∃ m, (f.name, f.arity, m) ∈ extMap := by decide +kernel

/-! ### Non-vacuity -/

example : (checkedAdd maxI64 1).2 = false ∧ (checkedAdd (maxI64 - 1) 1) = (maxI64, true) := by decide +kernel
example : (checkedSub minI64 1).2 = false ∧ (checkedNeg minI64).2 = false := by decide +kernel
example : (checkedMul 3037000500 3037000500).2 = false ∧ checkedMul 3037000499 3037000499 = (9223372030926249001, true) ∧
    (checkedMul minI64 (-1)).2 = false := by decide +kernel

/-- patterns `"ab*c"`, `"*"`, `""` as `NewPattern` builds them are well-formed -/
example : WFPattern [⟨false, [97, 98]⟩, ⟨true, [99]⟩] ∧ WFPattern [⟨true, []⟩] ∧ WFPattern [⟨false, []⟩] ∧ WFPattern [] := by
  decide +kernel
example : matchComps [⟨false, [97, 98]⟩, ⟨true, [99]⟩] [97, 98, 99, 100, 99] = true ∧
    Spec.wildcardMatch [⟨false, [97, 98]⟩, ⟨true, [99]⟩] [97, 98, 99, 100, 99] = true := by decide +kernel

/-- the hypotheses of the refinement theorem are satisfiable by a non-trivial state: a store with a
    parent link, and an expression using `in`, arithmetic, `like`, attribute access and `toDate` on a
    NEGATIVE datetime that is not day-aligned (1969-12-31T23:59:59.999Z) -/
def c01ExEnv : Env :=
  ⟨[(("User", "a"), ⟨[("Group", "g")], [("n", .long 5)], []⟩)], .entity "User" "a", .entity "Action" "v",
    .entity "Doc" "d", .record [("s", .str "abc")]⟩

def c01ExExpr : Expr :=
  .binop .and (.binop .in_ (.var .principal) (.lit (.entity "Group" "g")))
    (.binop .and (.binop .lt (.binop .mul (.access (.var .principal) "n") (.lit (.long 3))) (.lit (.long 100)))
      (.binop .and (.like (.access (.var .context) "s") [⟨false, [97]⟩, ⟨true, []⟩])
        (.binop .eq (.call "toDate" [.lit (.datetime (-1))]) (.lit (.datetime (-86400000))))))

example : c01ExEnv.WF ∧ c01ExExpr.LitsWF ∧ c01ExExpr.PatternsWF ∧
    (match eval c01ExExpr c01ExEnv with | .ok (.bool true) => true | _ => false) = true := by
  refine ⟨⟨by simp [c01ExEnv, Value.WF], by simp [c01ExEnv, Value.WF], by simp [c01ExEnv, Value.WF],
      by simp [c01ExEnv, Value.WF, Value.WFKV], ?_⟩, ?_, ?_, by decide +kernel⟩
  · intro u d h
    simp only [c01ExEnv, Entities.get] at h
    split at h
    · cases h; simp [Value.WFKV, Value.WF, InI64, minI64, maxI64]
    · cases h
  · simp [c01ExExpr, Expr.LitsWF, Expr.All, Expr.AllL, litOK, Value.WF, InI64, minI64, maxI64]
  · simp [c01ExExpr, Expr.PatternsWF, Expr.All, Expr.AllL, patOK]
    decide +kernel

end CedarGo
