/-
  C01 — Expression evaluation follows the Cedar language semantics.
  This file: (1) the Go overflow checks, transcribed literally with two's-complement `wrap`, are
  exact for ALL operand pairs; (2) comparison is total on like kinds and a type error otherwise;
  (3) the regenerated extension table of the Go source equals the model's;
  (4) refinement of `Model.eval` against the specification evaluator: see C01 section of DESIGN.md
  (the specification-level evaluator and `C01_eval_refines_spec_partial` live in C01Spec.lean when present).
-/
import CedarGo.Model.Fold
import CedarGo.Generated.Facts
namespace CedarGo

theorem wrap_of_inI64 (x : Int) (h : InI64 x) : wrap x = x := by
  unfold wrap; unfold InI64 minI64 maxI64 at h; omega

theorem wrap_inI64 (x : Int) : InI64 (wrap x) := by
  unfold wrap InI64 minI64 maxI64; omega

/-- `checkedAddI64`: reports success exactly when the mathematical sum fits, and then returns it. -/
theorem C01_checkedAdd_spec (l r : Int) (hl : InI64 l) (hr : InI64 r) :
    ((checkedAdd l r).2 = true ↔ InI64 (l + r)) ∧ ((checkedAdd l r).2 = true → (checkedAdd l r).1 = l + r) := by
  unfold InI64 minI64 maxI64 at *
  simp only [checkedAdd, wrap]
  by_cases h1 : (l + r + 9223372036854775808) % 18446744073709551616 - 9223372036854775808 > l <;>
  by_cases h2 : r > 0 <;> simp [h1, h2] <;> omega

theorem C01_checkedSub_spec (l r : Int) (hl : InI64 l) (hr : InI64 r) :
    ((checkedSub l r).2 = true ↔ InI64 (l - r)) ∧ ((checkedSub l r).2 = true → (checkedSub l r).1 = l - r) := by
  unfold InI64 minI64 maxI64 at *
  simp only [checkedSub, wrap]
  by_cases h1 : (l - r + 9223372036854775808) % 18446744073709551616 - 9223372036854775808 > l <;>
  by_cases h2 : r < 0 <;> simp [h1, h2] <;> omega

theorem C01_checkedNeg_spec (a : Int) (ha : InI64 a) :
    ((checkedNeg a).2 = true ↔ InI64 (-a)) ∧ ((checkedNeg a).2 = true → (checkedNeg a).1 = -a) := by
  unfold InI64 minI64 maxI64 at *
  simp only [checkedNeg, minI64]
  by_cases h : a = -9223372036854775808 <;> simp [h] <;> omega

/-- `<`/`<=`/`>`/`>=`: defined exactly on two longs, two datetimes or two durations (agreeing with the
    integer order), `none` (⇒ type error) on every other pair. -/
theorem C01_compare_total (a b : Value) :
    (cmpLT a b).isSome = (cmpLE a b).isSome ∧
    ((cmpLT a b).isSome = true ↔
      (∃ x y, a = .long x ∧ b = .long y) ∨ (∃ x y, a = .datetime x ∧ b = .datetime y) ∨ (∃ x y, a = .duration x ∧ b = .duration y)) := by
  cases a <;> cases b <;> simp [cmpLT, cmpLE]

theorem C01_compare_order (x y : Int) :
    cmpLT (.long x) (.long y) = some (decide (x < y)) ∧ cmpLE (.long x) (.long y) = some (decide (x ≤ y)) ∧
    cmpLT (.datetime x) (.datetime y) = some (decide (x < y)) ∧ cmpLE (.duration x) (.duration y) = some (decide (x ≤ y)) := by
  simp [cmpLT, cmpLE]

/-- Tie to the source: the extension table and the dispatch switch of the Go source (regenerated on
    every run, sorted by name) are the model's, and the time constants are the ones the model uses. -/
theorem C01_facts_extMap :
    (∀ x ∈ Facts.extMap, x ∈ extMap) ∧ (∀ x ∈ extMap, x ∈ Facts.extMap) ∧
    Facts.extMap.length = extMap.length ∧
    Facts.extDispatch = Facts.extMap.map (·.1) ∧
    Facts.intConsts.lookup "consts.MillisPerDay" = some 86400000 ∧
    Facts.intConsts.lookup "consts.MillisPerHour" = some 3600000 ∧
    Facts.intConsts.lookup "consts.MillisPerMinute" = some 60000 ∧
    Facts.intConsts.lookup "consts.MillisPerSecond" = some 1000 := by decide +kernel

/-! ### Non-vacuity -/
example : (checkedAdd maxI64 1).2 = false ∧ (checkedAdd (maxI64 - 1) 1) = (maxI64, true) := by decide +kernel
example : (checkedSub minI64 1).2 = false ∧ (checkedNeg minI64).2 = false := by decide +kernel

end CedarGo
