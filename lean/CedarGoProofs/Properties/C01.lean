/-
  C01 — Expression evaluation follows the Cedar language semantics.

  `eval` (CedarGo/Model/Eval.lean) is the transcription of the Go evaluator, tied to the Go code by the
  correspondence check; `Spec.evaluate` (CedarGo/Spec/Evaluator.lean) is the transcription of the Cedar
  specification's `evaluate`.  This file states what is proved about the two:

  (1) the Go overflow checks (`+`, `-`, `*`, unary `-`), transcribed with two's-complement `wrap`,
      are exact for ALL int64 operand pairs;
  (2) comparison is total on like kinds and a type error otherwise;
  (3) the greedy leftmost chunk matcher of types/pattern.go decides exactly the specification's
      backtracking `wildcardMatch` on every pattern `types.NewPattern` can build;
  (4) evaluation preserves the 64-bit range invariant;
  (5) REFINEMENT: for every expression, store and request (in-range literals and store, well-formed
      patterns) the Go evaluator returns exactly the value the specification defines, and fails exactly
      when the specification fails — unconditionally for the specification instantiated with the Go
      `toDate`/`toTime`, and for the real specification whenever no `toDate`/`toTime` call is applied
      to a negative datetime that is not day-aligned;
  (6) that last hypothesis cannot be dropped: `toDate` / `toTime` on such datetimes is a genuine defect
      of cedar-go (Go `%` truncates, the specification floors) — counterexamples below;
  (7) the regenerated extension table of the Go source equals the model's.

  The refinement relation `Refines impl spec` is: `impl = spec`, or `spec` is an error and `impl` is a
  type error (or cedar-go's `unspecified`-entity error).  The second alternative is needed because the
  error KIND can differ when two operands are both faulty: the specification evaluates all operands of an
  operator before it applies it, cedar-go converts each operand as soon as it is evaluated
  (`true + (9223372036854775807 + 1)`: specification `overflow`, cedar-go `type` — `C01_error_kind_may_differ`).
  Values, and whether evaluation fails, never differ (`C01_eval_ok_iff_spec_ok`, `C01_eval_error_iff_spec_error`).
-/
import CedarGo.Model.Fold
import CedarGo.Generated.Facts
import CedarGoProofs.Lemmas.C01Main
namespace CedarGo
open Spec (evaluateWith wildcardMatchElems PatElem)
open C01L

/-! ### (1) Checked arithmetic -/

/-- `checkedAddI64`: reports success exactly when the mathematical sum fits, and then returns it. -/
theorem C01_checkedAdd_spec (l r : Int) (hl : InI64 l) (hr : InI64 r) :
    ((checkedAdd l r).2 = true ↔ InI64 (l + r)) ∧ ((checkedAdd l r).2 = true → (checkedAdd l r).1 = l + r) :=
  checkedAdd_spec l r hl hr

theorem C01_checkedSub_spec (l r : Int) (hl : InI64 l) (hr : InI64 r) :
    ((checkedSub l r).2 = true ↔ InI64 (l - r)) ∧ ((checkedSub l r).2 = true → (checkedSub l r).1 = l - r) :=
  checkedSub_spec l r hl hr

/-- `checkedMulI64` (wrapped product, sign test, `res / lhs != rhs` with truncated division): reports
    success exactly when the mathematical product fits, and then returns it. -/
theorem C01_checkedMul_spec (l r : Int) (hl : InI64 l) (hr : InI64 r) :
    ((checkedMul l r).2 = true ↔ InI64 (l * r)) ∧ ((checkedMul l r).2 = true → (checkedMul l r).1 = l * r) :=
  checkedMul_spec l r hl hr

theorem C01_checkedNeg_spec (a : Int) (ha : InI64 a) :
    ((checkedNeg a).2 = true ↔ InI64 (-a)) ∧ ((checkedNeg a).2 = true → (checkedNeg a).1 = -a) :=
  checkedNeg_spec a ha

/-! ### (2) Comparison -/

/-- `<`/`<=`/`>`/`>=`: defined exactly on two longs, two datetimes or two durations (agreeing with the
    integer order), `none` (⇒ type error) on every other pair. -/
theorem C01_compare_total (a b : Value) :
    (cmpLT a b).isSome = (cmpLE a b).isSome ∧
    ((cmpLT a b).isSome = true ↔
      (∃ x y, a = .long x ∧ b = .long y) ∨ (∃ x y, a = .datetime x ∧ b = .datetime y) ∨ (∃ x y, a = .duration x ∧ b = .duration y)) := by
  cases a <;> cases b <;> simp [cmpLT, cmpLE]

theorem C01_compare_order (x y : Int) :
    cmpLT (.long x) (.long y) = some (decide (x < y)) ∧ cmpLE (.long x) (.long y) = some (decide (x ≤ y)) ∧
    cmpLT (.datetime x) (.datetime y) = some (decide (x < y)) ∧ cmpLE (.duration x) (.duration y) = some (decide (x ≤ y)) := by
  simp [cmpLT, cmpLE]

/-! ### (3) `like` -/

/-- The greedy leftmost chunk matcher of `types.Pattern.Match` equals the specification's backtracking
    `wildcardMatch`, for every pattern `types.NewPattern` can build (`WFPattern`: only the first component
    may lack a wildcard, only the last may have an empty literal) and every byte string.
    (Bytes vs characters: see the remark at `Spec.wildcardMatch`.) -/
theorem C01_patternMatch_spec (p : Pattern) (s : List UInt8) (hp : WFPattern p) :
    matchComps p s = Spec.wildcardMatch p s :=
  matchComps_eq_wildcardMatch p s hp

/-- without `WFPattern` the greedy matcher is wrong (it answers `true` at a bare wildcard component
    whatever follows): the hypothesis is needed, and it is exactly what `NewPattern` establishes -/
theorem C01_patternMatch_needs_wf :
    ∃ (p : Pattern) (s : List UInt8), matchComps p s ≠ Spec.wildcardMatch p s :=
  ⟨[⟨true, []⟩, ⟨true, [1]⟩], [2], by decide +kernel⟩

/-- `Spec.wildcardMatchElems` satisfies the defining equations of the specification's `wildcardMatch` -/
theorem C01_wildcardMatch_equations (ps : List PatElem) (p c : UInt8) (cs : List UInt8) :
    wildcardMatchElems [] [] = true ∧ wildcardMatchElems [] (c :: cs) = false ∧
    wildcardMatchElems (.star :: ps) [] = wildcardMatchElems ps [] ∧
    wildcardMatchElems (.star :: ps) (c :: cs) = (wildcardMatchElems ps (c :: cs) || wildcardMatchElems (.star :: ps) cs) ∧
    wildcardMatchElems (.justChar p :: ps) [] = false ∧
    wildcardMatchElems (.justChar p :: ps) (c :: cs) = (p == c && wildcardMatchElems ps cs) := by
  simp [wildcardMatchElems, Spec.starMatch]

/-! ### (4) Range invariant -/

/-- In-range literals, request and store ⇒ every value the evaluator produces is in range
    (all longs, decimals, datetimes and durations inside it are 64-bit). -/
theorem C01_eval_preserves_range (e : Expr) (env : Env) (v : Value) (hwf : env.WF) (hl : e.LitsWF)
    (h : eval e env = .ok v) : v.WF :=
  eval_wf e env v hwf hl h

/-! ### (5) Refinement

  FULL STATEMENT (does not hold for the unchanged code, see (6)):
    `theorem C01_eval_refines_spec (e env) (hwf : env.WF) (hl : e.LitsWF) (hp : e.PatternsWF) :
        Refines (eval e env) (Spec.evaluate e env)`
-/

/-- The Go evaluator refines the specification in which ONLY `toDate` / `toTime` are replaced by what the Go
    code computes (`goDates`): every other construct — arithmetic, short-circuit operators, equality,
    ordering, sets, records, `like`, `has`, attribute and tag access, `is`, `in`, and all other decimal,
    ipaddr, datetime and duration functions — follows the specification, for every expression and environment. -/
theorem C01_eval_refines_spec_modulo_toDate (e : Expr) (env : Env) (hwf : env.WF) (hl : e.LitsWF)
    (hp : e.PatternsWF) : Refines (eval e env) (evaluateWith goDates e env) :=
  eval_refines_goDates e env hwf hl hp

/-- The Go date projections agree with the specification's EXACTLY on the datetimes that are
    non-negative or a whole number of days: the defect is confined to the complement. -/
theorem C01_goDates_agree_iff (t : Int) (ht : InI64 t) :
    (goDates.toDate t = Spec.floorDate t ↔ (0 ≤ t ∨ t % 86400000 = 0)) ∧
    (goDates.toTime t = Spec.floorTime t ↔ (0 ≤ t ∨ t % 86400000 = 0)) :=
  ⟨goToDate_eq_iff t ht, goToTime_eq_iff t⟩

/-- **Refinement against the Cedar specification** (partial: the hypothesis `hd` excludes exactly the
    known `toDate`/`toTime` defect — no `toDate`/`toTime` call in `e` has an argument that evaluates to a
    negative datetime that is not day-aligned).  Same value; an error exactly when the specification fails. -/
theorem C01_eval_refines_spec_partial (e : Expr) (env : Env) (hwf : env.WF) (hl : e.LitsWF) (hp : e.PatternsWF)
    (hd : e.ToDateSafe env) : Refines (eval e env) (Spec.evaluate e env) :=
  eval_refines_spec e env hwf hl hp hd

/-- syntactic corollary: expressions that do not mention `toDate` / `toTime` -/
theorem C01_eval_refines_spec_no_toDate (e : Expr) (env : Env) (hwf : env.WF) (hl : e.LitsWF) (hp : e.PatternsWF)
    (hd : e.NoToDateToTime) : Refines (eval e env) (Spec.evaluate e env) :=
  eval_refines_spec e env hwf hl hp (Expr.All_mono (fun x hx => safe_of_noDateCall env x hx) e hd)

/-- the evaluator yields exactly the values the specification defines … -/
theorem C01_eval_ok_iff_spec_ok (e : Expr) (env : Env) (hwf : env.WF) (hl : e.LitsWF) (hp : e.PatternsWF)
    (hd : e.ToDateSafe env) (v : Value) : eval e env = .ok v ↔ Spec.evaluate e env = .ok v :=
  (eval_refines_spec e env hwf hl hp hd).ok_iff v

/-- … and reports an error exactly when the specification says evaluation fails -/
theorem C01_eval_error_iff_spec_error (e : Expr) (env : Env) (hwf : env.WF) (hl : e.LitsWF) (hp : e.PatternsWF)
    (hd : e.ToDateSafe env) : (∃ k, eval e env = .error k) ↔ (∃ k, Spec.evaluate e env = .error k) :=
  (eval_refines_spec e env hwf hl hp hd).error_iff

/-- the error kind is the specification's as well, unless cedar-go reports `type` / `unspecified` -/
theorem C01_eval_eq_spec_unless_type_error (e : Expr) (env : Env) (hwf : env.WF) (hl : e.LitsWF) (hp : e.PatternsWF)
    (hd : e.ToDateSafe env) (h1 : eval e env ≠ .error .type) (h2 : eval e env ≠ .error .unspecified) :
    eval e env = Spec.evaluate e env :=
  (eval_refines_spec e env hwf hl hp hd).eq_of_not_type h1 h2

/-- `Refines` cannot be strengthened to equality of error kinds: with two faulty operands cedar-go
    reports the left operand's type error, the specification the right operand's overflow. -/
theorem C01_error_kind_may_differ :
    ∃ (e : Expr) (env : Env), eval e env = .error .type ∧ Spec.evaluate e env = .error .overflow :=
  ⟨.binop .add (.lit (.bool true)) (.binop .add (.lit (.long maxI64)) (.lit (.long 1))), emptyEnv, by rfl, by
    simp [Spec.evaluate, evaluateWith, Spec.apply₂, Spec.intOrErr, bind, Except.bind, InI64, minI64, maxI64]⟩

/-- the specification's `e is T in r` is the desugaring `(e is T) && (e in r)` -/
theorem C01_spec_isIn_desugars (e : Expr) (ty : String) (r : Expr) (env : Env) :
    Spec.evaluate (.isIn e ty r) env = Spec.evaluate (.binop .and (.is e ty) (.binop .in_ e r)) env := by
  simp only [Spec.evaluate, evaluateWith]
  cases h : evaluateWith Spec.cedarDates e env with
  | error k => rfl
  | ok v =>
    cases h2 : evaluateWith Spec.cedarDates r env with
    | error k => cases h3 : Spec.applyIs ty v <;> simp [bind, Except.bind, h3]
    | ok w => cases h3 : Spec.applyIs ty v <;> simp [bind, Except.bind, h3]

/-! ### (6) The known defect: `toDate` / `toTime` on negative, non-day-aligned datetimes -/

/-- `datetime(-1ms).toDate()`: cedar-go 1970-01-01 (0 ms), specification 1969-12-31 (−86400000 ms) -/
theorem C01_toDate_counterexample :
    eval (.call "toDate" [.lit (.datetime (-1))]) emptyEnv = .ok (.datetime 0) ∧
    Spec.evaluate (.call "toDate" [.lit (.datetime (-1))]) emptyEnv = .ok (.datetime (-86400000)) :=
  ⟨by rfl, by
    simp [Spec.evaluate, evaluateWith, ofName_toDate, Spec.evaluateList, Spec.partialErrorName, Spec.ExtFun.arity,
      Spec.call, Spec.cedarDates, Spec.floorDate, bind, Except.bind, InI64, minI64, maxI64]⟩

/-- `datetime(-1ms).toTime()`: cedar-go −1 ms, specification 86399999 ms -/
theorem C01_toTime_counterexample :
    eval (.call "toTime" [.lit (.datetime (-1))]) emptyEnv = .ok (.duration (-1)) ∧
    Spec.evaluate (.call "toTime" [.lit (.datetime (-1))]) emptyEnv = .ok (.duration 86399999) :=
  ⟨by rfl, by
    simp [Spec.evaluate, evaluateWith, ofName_toTime, Spec.evaluateList, Spec.partialErrorName, Spec.ExtFun.arity,
      Spec.call, Spec.cedarDates, Spec.floorTime, bind, Except.bind]⟩

/-- `datetime(MinInt64 ms).toDate()`: cedar-go returns a value, the specification fails (the floored
    instant is below the 64-bit range) -/
theorem C01_toDate_overflow_counterexample :
    eval (.call "toDate" [.lit (.datetime minI64)]) emptyEnv = .ok (.datetime (-9223372036828800000)) ∧
    Spec.evaluate (.call "toDate" [.lit (.datetime minI64)]) emptyEnv = .error .overflow :=
  ⟨by rfl, by
    simp [Spec.evaluate, evaluateWith, ofName_toDate, Spec.evaluateList, Spec.partialErrorName, Spec.ExtFun.arity,
      Spec.call, Spec.cedarDates, Spec.floorDate, bind, Except.bind, InI64, minI64, maxI64]⟩

/-- hence the full refinement statement fails on the unchanged code (all other hypotheses hold) -/
theorem C01_eval_refines_spec_counterexample :
    ∃ (e : Expr) (env : Env), env.WF ∧ e.LitsWF ∧ e.PatternsWF ∧ ¬ Refines (eval e env) (Spec.evaluate e env) := by
  refine ⟨.call "toDate" [.lit (.datetime (-1))], emptyEnv, ?_, ?_, ?_, ?_⟩
  · exact ⟨by simp [emptyEnv, Value.WF], by simp [emptyEnv, Value.WF], by simp [emptyEnv, Value.WF],
      by simp [emptyEnv, Value.WF], by intro u d h; simp [emptyEnv, Entities.get] at h⟩
  · simp [Expr.LitsWF, Expr.All, Expr.AllL, litOK, Value.WF, InI64, minI64, maxI64]
  · simp [Expr.PatternsWF, Expr.All, Expr.AllL, patOK]
  · rw [C01_toDate_counterexample.1, C01_toDate_counterexample.2]
    intro h
    rcases h with h | ⟨⟨k, hk⟩, _⟩
    · simp at h
    · cases hk

/-! ### (7) Tie to the source -/

/-- The extension table and the dispatch switch of the Go source (regenerated on every run, sorted by
    name) are the model's, and the time constants are the ones the model uses. -/
theorem C01_facts_extMap :
    (∀ x ∈ Facts.extMap, x ∈ extMap) ∧ (∀ x ∈ extMap, x ∈ Facts.extMap) ∧
    Facts.extMap.length = extMap.length ∧
    Facts.extDispatch = Facts.extMap.map (·.1) ∧
    Facts.intConsts.lookup "consts.MillisPerDay" = some 86400000 ∧
    Facts.intConsts.lookup "consts.MillisPerHour" = some 3600000 ∧
    Facts.intConsts.lookup "consts.MillisPerMinute" = some 60000 ∧
    Facts.intConsts.lookup "consts.MillisPerSecond" = some 1000 := by decide +kernel

/-- the specification's function enumeration names exactly the functions of the Go table, with the same arities -/
theorem C01_spec_extFuns_match_table :
    (Spec.ExtFun.all.map (fun f => (f.name, f.arity))).length = extMap.length ∧
    ∀ f ∈ Spec.ExtFun.all, ∃ m, (f.name, f.arity, m) ∈ extMap := by decide +kernel

/-! ### Non-vacuity -/

example : (checkedAdd maxI64 1).2 = false ∧ (checkedAdd (maxI64 - 1) 1) = (maxI64, true) := by decide +kernel
example : (checkedSub minI64 1).2 = false ∧ (checkedNeg minI64).2 = false := by decide +kernel
example : (checkedMul 3037000500 3037000500).2 = false ∧ checkedMul 3037000499 3037000499 = (9223372030926249001, true) ∧
    (checkedMul minI64 (-1)).2 = false := by decide +kernel

/-- patterns `"ab*c"`, `"*"`, `""` as `NewPattern` builds them are well-formed -/
example : WFPattern [⟨false, [97, 98]⟩, ⟨true, [99]⟩] ∧ WFPattern [⟨true, []⟩] ∧ WFPattern [⟨false, []⟩] ∧ WFPattern [] := by
  decide +kernel
example : matchComps [⟨false, [97, 98]⟩, ⟨true, [99]⟩] [97, 98, 99, 100, 99] = true ∧
    Spec.wildcardMatch [⟨false, [97, 98]⟩, ⟨true, [99]⟩] [97, 98, 99, 100, 99] = true := by decide +kernel

/-- the hypotheses of the refinement theorem are satisfiable by a non-trivial state: a store with a
    parent link, and an expression using `in`, arithmetic, `like`, attribute access and `toDate` on a
    non-negative datetime -/
def c01ExEnv : Env :=
  ⟨[(("User", "a"), ⟨[("Group", "g")], [("n", .long 5)], []⟩)], .entity "User" "a", .entity "Action" "v",
    .entity "Doc" "d", .record [("s", .str "abc")]⟩

def c01ExExpr : Expr :=
  .binop .and (.binop .in_ (.var .principal) (.lit (.entity "Group" "g")))
    (.binop .and (.binop .lt (.binop .mul (.access (.var .principal) "n") (.lit (.long 3))) (.lit (.long 100)))
      (.binop .and (.like (.access (.var .context) "s") [⟨false, [97]⟩, ⟨true, []⟩])
        (.binop .eq (.call "toDate" [.lit (.datetime 86400001)]) (.lit (.datetime 86400000)))))

example : c01ExEnv.WF ∧ c01ExExpr.LitsWF ∧ c01ExExpr.PatternsWF ∧ c01ExExpr.ToDateSafe c01ExEnv ∧
    (match eval c01ExExpr c01ExEnv with | .ok (.bool true) => true | _ => false) = true := by
  refine ⟨⟨by simp [c01ExEnv, Value.WF], by simp [c01ExEnv, Value.WF], by simp [c01ExEnv, Value.WF],
      by simp [c01ExEnv, Value.WF, Value.WFKV], ?_⟩, ?_, ?_, ?_, by decide +kernel⟩
  · intro u d h
    simp only [c01ExEnv, Entities.get] at h
    split at h
    · cases h; simp [Value.WFKV, Value.WF, InI64, minI64, maxI64]
    · cases h
  · simp [c01ExExpr, Expr.LitsWF, Expr.All, Expr.AllL, litOK, Value.WF, InI64, minI64, maxI64]
  · simp [c01ExExpr, Expr.PatternsWF, Expr.All, Expr.AllL, patOK]
    decide +kernel
  · simp only [c01ExExpr, Expr.ToDateSafe, Expr.All, Expr.AllL, toDateSafeNode, and_true, true_and]
    intro _ t ht
    have : t = 86400001 := by
      simp only [eval] at ht
      cases ht; rfl
    omega

end CedarGo
