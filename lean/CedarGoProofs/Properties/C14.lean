/-
  C14 — Results are deterministic functions of their inputs.

  Model (CedarGo/Model/Order.lean): every place where the Go code iterates a Go map takes the order in
  which the map yields its entries as an explicit list argument; "for every iteration order" is "for
  every permutation of that list" (`List.Perm`), "for every schedule of a whole policy" is `Resched`
  (the entries of every record literal, at every depth, listed in some other order).

  What holds in full: the decision, the reasons and the erroring policies of `Authorize` are independent
  of the order in which policies are yielded, of repetitions of a policy in the sequence, of the
  insertion order of the entity store, of the order in which parents / set members are enumerated, and of
  the schedule of every record literal; every encoder that sorts what it collected is canonical.
  What fails (genuine defects of the unchanged code, each with a `_counterexample`): WHICH error a record
  literal with several erroring entries reports; WHICH non-entity member the message of `in` names; the
  entry / annotation order of a policy decoded from JSON and printed as Cedar text.
-/
import CedarGoProofs.Lemmas.C14
import CedarGoProofs.Properties.C20
namespace CedarGo

/-! ### Authorization -/

/-- Policies yielded in another order (any `PolicyIterator`, any Go map order of a `PolicySet`): same
    decision; same reasons and same errors as multisets — each error with the failing policy's id,
    position and error kind. -/
theorem C14_authorize_order_indep (ps₁ ps₂ : List (PolicyID × Policy)) (env : Env) (hp : ps₁.Perm ps₂) :
    (authorize ps₁ env).allow = (authorize ps₂ env).allow ∧
    (authorize ps₁ env).reasons.Perm (authorize ps₂ env).reasons ∧
    (authorize ps₁ env).errors.Perm (authorize ps₂ env).errors :=
  C02_order_independent compile ps₁ ps₂ env hp

/-- …and of repetition: two sequences with the same members (a policy may be yielded any number of
    times) give the same decision, the same SET of reasons and the same SET of errors. -/
theorem C14_authorize_repetition_indep (ps₁ ps₂ : List (PolicyID × Policy)) (env : Env)
    (hm : ∀ ip, ip ∈ ps₁ ↔ ip ∈ ps₂) :
    (authorize ps₁ env).allow = (authorize ps₂ env).allow ∧
    (∀ r, r ∈ (authorize ps₁ env).reasons ↔ r ∈ (authorize ps₂ env).reasons) ∧
    (∀ e, e ∈ (authorize ps₁ env).errors ↔ e ∈ (authorize ps₂ env).errors) := by
  have hF : ∀ r, r ∈ satForbids compile env ps₁ ↔ r ∈ satForbids compile env ps₂ := by
    intro r; simp only [satForbids, List.mem_map, List.mem_filter, hm]
  have hP : ∀ r, r ∈ satPermits compile env ps₁ ↔ r ∈ satPermits compile env ps₂ := by
    intro r; simp only [satPermits, List.mem_map, List.mem_filter, hm]
  have hE : ∀ e, e ∈ errorsOf compile env ps₁ ↔ e ∈ errorsOf compile env ps₂ := by
    intro e; simp only [errorsOf, List.mem_filterMap, hm]
  have hFe : (satForbids compile env ps₁).isEmpty = (satForbids compile env ps₂).isEmpty := by
    cases h1 : satForbids compile env ps₁ with
    | nil =>
      cases h2 : satForbids compile env ps₂ with
      | nil => rfl
      | cons r rs => have := (hF r).mpr (by simp [h2]); simp [h1] at this
    | cons r rs =>
      cases h2 : satForbids compile env ps₂ with
      | nil => have := (hF r).mp (by simp [h1]); simp [h2] at this
      | cons r' rs' => rfl
  unfold authorize
  refine ⟨?_, ?_, ?_⟩
  · have h1 := C02_allow_iff compile ps₁ env
    have h2 := C02_allow_iff compile ps₂ env
    have e1 : (∃ ip ∈ ps₁, isPermit ip = true ∧ satBy compile env ip = true) ↔ (∃ ip ∈ ps₂, isPermit ip = true ∧ satBy compile env ip = true) := by
      constructor <;> rintro ⟨ip, hip, h⟩
      · exact ⟨ip, (hm ip).mp hip, h⟩
      · exact ⟨ip, (hm ip).mpr hip, h⟩
    have e2 : (∃ ip ∈ ps₁, isForbid ip = true ∧ satBy compile env ip = true) ↔ (∃ ip ∈ ps₂, isForbid ip = true ∧ satBy compile env ip = true) := by
      constructor <;> rintro ⟨ip, hip, h⟩
      · exact ⟨ip, (hm ip).mp hip, h⟩
      · exact ⟨ip, (hm ip).mpr hip, h⟩
    have h12 : (authorizeWith compile ps₁ env).allow = true ↔ (authorizeWith compile ps₂ env).allow = true := by
      rw [h1, h2, e1, e2]
    cases ha : (authorizeWith compile ps₁ env).allow <;> cases hb : (authorizeWith compile ps₂ env).allow <;> simp_all
  · intro r
    rw [C02_reasons_exact, C02_reasons_exact, hFe]
    split
    · exact hP r
    · exact hF r
  · intro e
    rw [C02_errors_exact, C02_errors_exact]; exact hE e

/-- The entity store is only read through `Get`: an `EntityMap` holding the same entities inserted in
    another order gives the very same result (decision, reasons, errors with their kinds). -/
theorem C14_authorize_entities_order_indep (ps : List (PolicyID × Policy)) (env : Env) (es' : Entities)
    (hp : env.entities.Perm es') (nd : (env.entities.map (·.1)).Nodup) :
    authorize ps { env with entities := es' } = authorize ps env := by
  have hs : SameStore env { env with entities := es' } :=
    ⟨rfl, rfl, rfl, rfl, fun u => Entities.get_perm hp nd u, hp.length_eq⟩
  have hb : ∀ p, evalBool (compile p) { env with entities := es' } = evalBool (compile p) env := by
    intro p; unfold evalBool; rw [eval_sameStore _ env _ hs]
  unfold authorize authorizeWith
  have : ∀ acc, ps.foldl (authStep compile { env with entities := es' }) acc = ps.foldl (authStep compile env) acc := by
    induction ps with
    | nil => intro acc; rfl
    | cons ip ps ih =>
      intro acc
      simp only [List.foldl_cons]
      have : authStep compile { env with entities := es' } acc ip = authStep compile env acc ip := by
        unfold authStep; rw [hb]
      rw [this, ih]
  rw [this]

/-- FULL statement (false today): `Resched e e' → eval e env = eval e' env`.
    Proved: two schedules of the same expression (every record literal's entries enumerated in any
    order, at every depth) give the same value, and one errors iff the other does.  Missing: the error
    KIND/message (see `C14_evalRecordLit_order_counterexample`). -/
theorem C14_eval_schedule_indep_partial (e e' : Expr) (env : Env) (h : Resched e e') :
    Res.sim (eval e env) (eval e' env) :=
  eval_resched e e' env h

/-- FULL statement (false today): the errors carry the same kinds/messages under every schedule.
    Proved: under any two schedules of the policies' record literals the decision, the reasons and the
    (id, position) of the erroring policies are identical. -/
theorem C14_authorize_schedule_indep_partial (ps ps' : List (PolicyID × Policy)) (env : Env)
    (h : ReschedPolicies ps ps') :
    (authorize ps env).allow = (authorize ps' env).allow ∧
    (authorize ps env).reasons = (authorize ps' env).reasons ∧
    (authorize ps env).errors.map (fun x => (x.1, x.2.1)) = (authorize ps' env).errors.map (fun x => (x.1, x.2.1)) := by
  obtain ⟨hF, hP, hE⟩ := authorize_resched ps ps' env h
  unfold authorize
  refine ⟨?_, ?_, ?_⟩
  · have a1 := C02_loop_exact compile ps env
    have a2 := C02_loop_exact compile ps' env
    simp only at a1 a2
    unfold authorizeWith
    simp only [a1.1, a1.2.1, a2.1, a2.2.1, hF, hP]
    split <;> (try split) <;> rfl
  · rw [C02_reasons_exact, C02_reasons_exact, hF, hP]
  · rw [C02_errors_exact, C02_errors_exact, hE]

/-! ### Record literals (`recordLiteralEval` ranges over a Go map) -/

/-- what `eval` does on a record literal is `evalRecordLitOrd` on its entry list -/
theorem C14_evalRecordLit_is_eval (kes : List (String × Expr)) (env : Env) :
    eval (.record kes) env = evalRecordLitOrd kes env := eval_record_eq_ord kes env

/-- FULL statement (false today): `kes₁.Perm kes₂ → evalRecordLitOrd kes₁ env = evalRecordLitOrd kes₂ env`.
    Proved: (1) one order errors iff the other does; (2) successful evaluations give the same record;
    (3) if all erroring entries fail with the same error kind (in particular if at most one entry
    errors) the two results are equal. -/
theorem C14_evalRecordLit_order_indep_partial (kes₁ kes₂ : List (String × Expr)) (env : Env)
    (hp : kes₁.Perm kes₂) (hk : (kes₁.map (·.1)).Nodup) :
    ((∃ e, evalRecordLitOrd kes₁ env = .error e) ↔ (∃ e, evalRecordLitOrd kes₂ env = .error e)) ∧
    (∀ v w, evalRecordLitOrd kes₁ env = .ok v → evalRecordLitOrd kes₂ env = .ok w → v = w) ∧
    ((∀ ke ∈ kes₁, ∀ ke' ∈ kes₁, ∀ e e', eval ke.2 env = .error e → eval ke'.2 env = .error e' → e = e') →
      evalRecordLitOrd kes₁ env = evalRecordLitOrd kes₂ env) :=
  evalRecordLitOrd_perm kes₁ kes₂ env hp hk

/-- `{a: 1 + "x", b: context.missing}`: a type error in one order, a missing-attribute error in the other. -/
theorem C14_evalRecordLit_order_counterexample :
    ∃ (kes₁ kes₂ : List (String × Expr)) (env : Env), kes₁.Perm kes₂ ∧ (kes₁.map (·.1)).Nodup ∧
      evalRecordLitOrd kes₁ env ≠ evalRecordLitOrd kes₂ env :=
  evalRecordLitOrd_perm_counterexample

/-! ### containsAll / containsAny / in -/

theorem C14_containsAll_is_eval (l r : Expr) (env : Env) :
    eval (.binop .containsAll l r) env =
      (do let s ← (eval l env).bind toSet; let t ← (eval r env).bind toSet; .ok (.bool (containsAllLoop s t))) :=
  eval_containsAll_eq_loop l r env

theorem C14_containsAny_is_eval (l r : Expr) (env : Env) :
    eval (.binop .containsAny l r) env =
      (do let s ← (eval l env).bind toSet; let t ← (eval r env).bind toSet; .ok (.bool (containsAnyLoop s t))) :=
  eval_containsAny_eq_loop l r env

/-- the early-exit loop over the right-hand set gives the same answer for every enumeration order of
    both sets -/
theorem C14_containsAll_order_indep (s s' t t' : List Value) (hs : s.Perm s') (ht : t.Perm t') :
    containsAllLoop s t = containsAllLoop s' t' := containsAllLoop_perm s s' t t' hs ht

theorem C14_containsAny_order_indep (s s' t t' : List Value) (hs : s.Perm s') (ht : t.Perm t') :
    containsAnyLoop s t = containsAnyLoop s' t' := containsAnyLoop_perm s s' t t' hs ht

/-- `a in [members]`: result and error kind are independent of the order in which the set yields its
    members (the converted members go into a hash set; `entityInSet` is an existential) -/
theorem C14_in_order_indep (env : Env) (a : UID) (xs xs' : List Value) (hp : xs.Perm xs') :
    doIn env a (.set xs) = doIn env a (.set xs') := doIn_set_perm env a xs xs' hp

/-- `in` does not depend on the order in which the parents of an entity are enumerated (both forms) -/
theorem C14_in_parent_order_indep (es es' : Entities)
    (h : ∀ u, (es.get u).isSome = (es'.get u).isSome ∧
      ∀ d d', es.get u = some d → es'.get u = some d' → ∀ p, p ∈ d.parents ↔ p ∈ d'.parents)
    (a : UID) :
    (∀ b, entityInOne es a b = entityInOne es' a b) ∧ (∀ S, entityInSet es a S = entityInSet es' a S) := by
  have h1 : ∀ x b, entityInOne es x b = entityInOne es' x b := fun x b => C03_parent_order_irrelevant es es' h x b
  have hR : ∀ x b, Reach es x b ↔ Reach es' x b := by
    intro x b
    rw [← C03_entityInOne_correct, ← C03_entityInOne_correct, h1]
  refine ⟨h1 a, fun S => ?_⟩
  obtain ⟨r, hr⟩ := C03_entityInSet_total es a S
  obtain ⟨r', hr'⟩ := C03_entityInSet_total es' a S
  have c1 := C03_entityInSet_correct es a S
  have c2 := C03_entityInSet_correct es' a S
  rw [hr] at c1; rw [hr'] at c2
  rw [hr, hr']
  have : r = true ↔ r' = true := by
    simp only [Option.some.injEq] at c1 c2
    rw [c1, c2]
    constructor <;> rintro ⟨b, hb, hx⟩
    · exact ⟨b, hb, (hR a b).mp hx⟩
    · exact ⟨b, hb, (hR a b).mpr hx⟩
  cases r <;> cases r' <;> simp_all

/-- FULL statement (false today): the error message of `a in [members]` is order-independent.
    Proved: it is when all non-entity members have the same type. -/
theorem C14_in_set_message_order_indep_partial (xs xs' : List Value) (hp : xs.Perm xs')
    (hsame : ∀ x ∈ xs, ∀ y ∈ xs, (∀ t i, x ≠ .entity t i) → (∀ t i, y ≠ .entity t i) → x.kind = y.kind) :
    inSetFirstBad xs = inSetFirstBad xs' := inSetFirstBad_perm_of_sameKind xs xs' hp hsame

/-- `principal in [1, "x"]`: the message says `got long` or `got string` depending on the order. -/
theorem C14_in_set_message_counterexample :
    ∃ xs xs' : List Value, xs.Perm xs' ∧ inSetFirstBad xs ≠ inSetFirstBad xs' :=
  inSetFirstBad_perm_counterexample

/-! ### Encoders -/

/-- An encoder that collects the keys of a Go map in iteration order, sorts them with a total,
    transitive, antisymmetric order and renders them produces the same output for every iteration order. -/
theorem C14_encoders_canonical {κ : Type} (le : κ → κ → Bool) (hle : LinOrd le) (render : κ → String)
    (keys₁ keys₂ : List κ) (hp : keys₁.Perm keys₂) :
    encodeSorted le render keys₁ = encodeSorted le render keys₂ := by
  unfold encodeSorted; rw [sortBy_eq_of_perm hle hp]

/-- string-keyed encoders: `PolicySet.MarshalCedar/JSON`, `Record.MarshalCedar/JSON`, `EntityMap.MarshalJSON`,
    schema printers -/
theorem C14_marshalByStringKey_canonical (render : String → String) (k₁ k₂ : List String) (hp : k₁.Perm k₂) :
    marshalByStringKey render k₁ = marshalByStringKey render k₂ :=
  C14_encoders_canonical strLe strLe_linOrd render k₁ k₂ hp

/-- `Set.MarshalCedar/JSON` (slot numbers) -/
theorem C14_marshalSet_canonical (render : Nat → String) (k₁ k₂ : List Nat) (hp : k₁.Perm k₂) :
    marshalSetOrd render k₁ = marshalSetOrd render k₂ :=
  C14_encoders_canonical natLe natLe_linOrd render k₁ k₂ hp

/-- `Entity.MarshalJSON` (parents by type, then id) -/
theorem C14_marshalParents_canonical (render : UID → String) (k₁ k₂ : List UID) (hp : k₁.Perm k₂) :
    marshalParentsOrd render k₁ = marshalParentsOrd render k₂ :=
  C14_encoders_canonical uidLe uidLe_linOrd render k₁ k₂ hp

/-- the generic sort is the one C20's policy-set model uses: `PolicySet.MarshalCedar` emits the ids in
    the same order whatever order the map yielded them in -/
theorem C14_marshal_policyset_canonical (s₁ s₂ : PS) (hp : s₁.Perm s₂) : s₁.ids = s₂.ids := by
  unfold PS.ids
  rw [sortIds_eq_sortBy, sortIds_eq_sortBy]
  exact sortBy_eq_of_perm strLe_linOrd (hp.map _)

/-! ### JSON decode → encode -/

/-- FULL statement (false today): `σ.Perm τ → cedarRecordKeyOrder (decodeRecordJsonOrd σ) = cedarRecordKeyOrder (decodeRecordJsonOrd τ)`.
    The JSON decoder ranges over a Go map; the Cedar text printed afterwards lists the entries in that order. -/
theorem C14_decode_encode_counterexample :
    ∃ σ τ : List (String × Expr), σ.Perm τ ∧ (σ.map (·.1)).Nodup ∧
      cedarRecordKeyOrder (decodeRecordJsonOrd σ) ≠ cedarRecordKeyOrder (decodeRecordJsonOrd τ) :=
  ⟨[("a", .lit (.long 1)), ("b", .lit (.long 2))], [("b", .lit (.long 2)), ("a", .lit (.long 1))],
    List.Perm.swap _ _ _, by decide, by decide⟩

/-- …and the same for annotations -/
theorem C14_decode_encode_annotations_counterexample :
    ∃ (p : Policy) (σ τ : List (String × String)), σ.Perm τ ∧ (σ.map (·.1)).Nodup ∧
      cedarAnnotationOrder (decodeAnnotationsOrd p σ) ≠ cedarAnnotationOrder (decodeAnnotationsOrd p τ) :=
  ⟨{ effect := .permit }, [("a", "1"), ("b", "2")], [("b", "2"), ("a", "1")], List.Perm.swap _ _ _, by decide, by decide⟩

/-- decode → `MarshalJSON` IS deterministic: the encoder puts the entries back into a Go map and
    `encoding/json` sorts map keys -/
theorem C14_decode_encode_json_deterministic (σ τ : List (String × Expr)) (hp : σ.Perm τ) :
    jsonRecordKeyOrder (decodeRecordJsonOrd σ) = jsonRecordKeyOrder (decodeRecordJsonOrd τ) := by
  unfold jsonRecordKeyOrder decodeRecordJsonOrd
  exact sortBy_eq_of_perm strLe_linOrd (hp.map _)

theorem C14_decode_encode_json_annotations_deterministic (p : Policy) (σ τ : List (String × String)) (hp : σ.Perm τ) :
    jsonAnnotationOrder (decodeAnnotationsOrd p σ) = jsonAnnotationOrder (decodeAnnotationsOrd p τ) := by
  unfold jsonAnnotationOrder decodeAnnotationsOrd
  exact sortBy_eq_of_perm strLe_linOrd (hp.map _)

/-- whatever order the decoder produced, the decoded record literal evaluates alike (up to which error) -/
theorem C14_decoded_record_evaluates_alike_partial (σ τ : List (String × Expr)) (env : Env) (hp : σ.Perm τ)
    (hk : (σ.map (·.1)).Nodup) :
    Res.sim (eval (decodeRecordJsonOrd σ) env) (eval (decodeRecordJsonOrd τ) env) :=
  evalRecord_perm_sim σ τ env hp hk

/-- FULL statement (false today): a set rebuilt from the same members in another order renders alike.
    `coerceSet` (decode of entity JSON with a schema) feeds `NewSet` in Go map order; two members with the
    same hash swap their slots, hence their place in the JSON text. -/
theorem C14_coerceSet_order_counterexample :
    ∃ σ τ : List (Nat × String), σ.Perm τ ∧ coerceSetOrd σ ≠ coerceSetOrd τ :=
  ⟨[(3, "{0.0001,0.0002}"), (3, "{0.0003}")], [(3, "{0.0003}"), (3, "{0.0001,0.0002}")], List.Perm.swap _ _ _, by decide +kernel⟩

/-- without collisions the rendering order is the hash order, whatever the insertion order (two members) -/
example : coerceSetOrd [(5, "a"), (3, "b")] = coerceSetOrd [(3, "b"), (5, "a")] := by decide +kernel

/-! ### Non-vacuity -/

-- a permuted, duplicate-free key list is sorted back to the same list
example : encodeSorted strLe id ["policy2", "policy10", "a"] = ["a", "policy10", "policy2"] := by decide +kernel
example : sortBy uidLe [("User", "b"), ("Group", "z"), ("User", "a")] = [("Group", "z"), ("User", "a"), ("User", "b")] := by decide +kernel
-- a record literal with one erroring entry satisfies the same-kind hypothesis (and the nodup one)
example : ((([("a", Expr.lit (.long 1)), ("b", .access (.var .context) "m")] : List (String × Expr)).map (·.1)).Nodup) := by decide
-- a schedule that really permutes
example : Resched (.record [("a", .lit (.long 1)), ("b", .lit (.long 2))]) (.record [("b", .lit (.long 2)), ("a", .lit (.long 1))]) := by
  simp only [Resched]
  exact ⟨[("a", .lit (.long 1)), ("b", .lit (.long 2))], _, rfl, by simp [ReschedKVs, Resched], List.Perm.swap _ _ _, by decide⟩
-- containsAll over a permuted pair of sets
example : containsAllLoop [.long 1, .long 2, .long 3] [.long 3, .long 1] = true := by decide +kernel
example : inSetFirstBad [.entity "A" "a", .long 1] = some "long" := by decide

end CedarGo
