/-
  C14 — Results are deterministic functions of their inputs.

  Model (CedarGo/Model/Order.lean): every place where the Go code iterates a Go map takes the order in
  which the map yields its entries as an explicit list argument; "for every iteration order" is "for
  every permutation of that list" (`List.Perm`), "for every schedule of a whole policy" is `Resched`
  (the entries of every record literal, at every depth, listed in some other order).

  What holds in full: the decision, the reasons and the erroring policies of `Authorize` — WITH their error kinds —
  are independent of the order in which policies are yielded, of repetitions of a policy in the sequence, of the
  insertion order of the entity store, of the order in which parents / set members are enumerated, and of the
  schedule of every record literal; every encoder that sorts what it collected is canonical; decoding a policy
  from JSON lists record entries and annotations by key.
  History.  Five genuine defects of the unchanged code had `_counterexample` theorems here: WHICH error a record
  literal with several erroring entries reports (`recordLiteralEval.Eval` ranged over a Go map), WHICH non-entity
  member the message of `in` names, the entry / annotation order of a policy decoded from JSON and printed as Cedar
  text, the slot order of colliding members of a schema-coerced set.  All five are repaired (the loops now visit
  sorted keys); the model functions sort, the `_partial` theorems are full, the counterexample inputs are
  regression `example`s.  A sixth defect of the set printers, found by C13's oracle (`set-hash-collision-order`: the
  members were written in ascending SLOT order although `NewSet`'s probing wraps around at 2^64, so a set holding e.g.
  `-1` and `decimal("-0.0001")` — both hash to 2^64-1 — came back from its own JSON with the two members swapped and
  marshalled differently), is repaired too: `Set.orderedSlots` lists the slots in probing order
  (`C14_setMarshal_rebuilds`, `C14_setMarshal_roundtrip_stable`).
  A later review found four more in `x/exp/batch` and `internal/eval` (all repaired): `batch.Authorize` sorted its
  variables by the NUMBER of values only, so that variables with equally many values were bound in Go map order — which
  operand's error a partially evaluated policy keeps, and the order of the callbacks, changed from call to call
  (`C14_batch_binding_order_canonical`, `C14_batchAuthorize_map_order_indep`); the unbound / unused-variable error named
  the first offender in map order (`C14_batch_unbound_unused_order_indep`); `cloneSub` rebuilt a substituted set in map
  order (`C14_cloneSub_set_order_indep`); the message of `getTag` on an unspecified entity printed the evaluator node
  of the tag expression, i.e. a heap address (no order parameter: the harness parses the same text again and again;
  the model never carried message texts).
-/
import CedarGoProofs.Lemmas.C14
import CedarGoProofs.Lemmas.C14SetOrder
import CedarGoProofs.Lemmas.C14Batch
import CedarGoProofs.Lemmas.C11Hash
import CedarGoProofs.Properties.C20
namespace CedarGo

/-! ### Authorization -/

/-- Policies yielded in another order (any `PolicyIterator`, any Go map order of a `PolicySet`): same
    decision; same reasons and same errors as multisets — each error with the failing policy's id,
    position and error kind. -/
theorem C14_authorize_order_indep (ps₁ ps₂ : List (PolicyID × Policy)) (env : Env) (hp : ps₁.Perm ps₂) :
    (authorize ps₁ env).allow = (authorize ps₂ env).allow ∧
    (authorize ps₁ env).reasons.Perm (authorize ps₂ env).reasons ∧
    (authorize ps₁ env).errors.Perm (authorize ps₂ env).errors :=
  C02_order_independent compile ps₁ ps₂ env hp

/-- …and of repetition: two sequences with the same members (a policy may be yielded any number of
    times) give the same decision, the same SET of reasons and the same SET of errors. -/
theorem C14_authorize_repetition_indep (ps₁ ps₂ : List (PolicyID × Policy)) (env : Env)
    (hm : ∀ ip, ip ∈ ps₁ ↔ ip ∈ ps₂) :
    (authorize ps₁ env).allow = (authorize ps₂ env).allow ∧
    (∀ r, r ∈ (authorize ps₁ env).reasons ↔ r ∈ (authorize ps₂ env).reasons) ∧
    (∀ e, e ∈ (authorize ps₁ env).errors ↔ e ∈ (authorize ps₂ env).errors) := by
  have hF : ∀ r, r ∈ satForbids compile env ps₁ ↔ r ∈ satForbids compile env ps₂ := by
    intro r; simp only [satForbids, List.mem_map, List.mem_filter, hm]
  have hP : ∀ r, r ∈ satPermits compile env ps₁ ↔ r ∈ satPermits compile env ps₂ := by
    intro r; simp only [satPermits, List.mem_map, List.mem_filter, hm]
  have hE : ∀ e, e ∈ errorsOf compile env ps₁ ↔ e ∈ errorsOf compile env ps₂ := by
    intro e; simp only [errorsOf, List.mem_filterMap, hm]
  have hFe : (satForbids compile env ps₁).isEmpty = (satForbids compile env ps₂).isEmpty := by
    cases h1 : satForbids compile env ps₁ with
    | nil =>
      cases h2 : satForbids compile env ps₂ with
      | nil => rfl
      | cons r rs => have := (hF r).mpr (by simp [h2]); simp [h1] at this
    | cons r rs =>
      cases h2 : satForbids compile env ps₂ with
      | nil => have := (hF r).mp (by simp [h1]); simp [h2] at this
      | cons r' rs' => rfl
  unfold authorize
  refine ⟨?_, ?_, ?_⟩
  · have h1 := C02_allow_iff compile ps₁ env
    have h2 := C02_allow_iff compile ps₂ env
    have e1 : (∃ ip ∈ ps₁, isPermit ip = true ∧ satBy compile env ip = true) ↔ (∃ ip ∈ ps₂, isPermit ip = true ∧ satBy compile env ip = true) := by
      constructor <;> rintro ⟨ip, hip, h⟩
      · exact ⟨ip, (hm ip).mp hip, h⟩
      · exact ⟨ip, (hm ip).mpr hip, h⟩
    have e2 : (∃ ip ∈ ps₁, isForbid ip = true ∧ satBy compile env ip = true) ↔ (∃ ip ∈ ps₂, isForbid ip = true ∧ satBy compile env ip = true) := by
      constructor <;> rintro ⟨ip, hip, h⟩
      · exact ⟨ip, (hm ip).mp hip, h⟩
      · exact ⟨ip, (hm ip).mpr hip, h⟩
    have h12 : (authorizeWith compile ps₁ env).allow = true ↔ (authorizeWith compile ps₂ env).allow = true := by
      rw [h1, h2, e1, e2]
    cases ha : (authorizeWith compile ps₁ env).allow <;> cases hb : (authorizeWith compile ps₂ env).allow <;> simp_all
  · intro r
    rw [C02_reasons_exact, C02_reasons_exact, hFe]
    split
    · exact hP r
    · exact hF r
  · intro e
    rw [C02_errors_exact, C02_errors_exact]; exact hE e

/-- The entity store is only read through `Get`: an `EntityMap` holding the same entities inserted in
    another order gives the very same result (decision, reasons, errors with their kinds). -/
theorem C14_authorize_entities_order_indep (ps : List (PolicyID × Policy)) (env : Env) (es' : Entities)
    (hp : env.entities.Perm es') (nd : (env.entities.map (·.1)).Nodup) :
    authorize ps { env with entities := es' } = authorize ps env := by
  have hs : SameStore env { env with entities := es' } :=
    ⟨rfl, rfl, rfl, rfl, fun u => Entities.get_perm hp nd u, hp.length_eq⟩
  have hb : ∀ p, evalBool (compile p) { env with entities := es' } = evalBool (compile p) env := by
    intro p; unfold evalBool; rw [eval_sameStore _ env _ hs]
  unfold authorize authorizeWith
  have : ∀ acc, ps.foldl (authStep compile { env with entities := es' }) acc = ps.foldl (authStep compile env) acc := by
    induction ps with
    | nil => intro acc; rfl
    | cons ip ps ih =>
      intro acc
      simp only [List.foldl_cons]
      have : authStep compile { env with entities := es' } acc ip = authStep compile env acc ip := by
        unfold authStep; rw [hb]
      rw [this, ih]
  rw [this]

/-- Two schedules of the same expression (every record literal's entries enumerated in any order, at every depth)
    give the same result: the same value or the same error kind.
    (Was `C14_eval_schedule_indep_partial`, "up to WHICH error", while `recordLiteralEval.Eval` ranged over a Go map.) -/
theorem C14_eval_schedule_indep (e e' : Expr) (env : Env) (h : Resched e e') :
    eval e env = eval e' env :=
  eval_resched e e' env h

/-- Under any two schedules of the policies' record literals the decision, the reasons and the errors — id, position
    AND error kind of every erroring policy — are identical.  (Was `C14_authorize_schedule_indep_partial`: ids only.) -/
theorem C14_authorize_schedule_indep (ps ps' : List (PolicyID × Policy)) (env : Env)
    (h : ReschedPolicies ps ps') :
    (authorize ps env).allow = (authorize ps' env).allow ∧
    (authorize ps env).reasons = (authorize ps' env).reasons ∧
    (authorize ps env).errors = (authorize ps' env).errors := by
  obtain ⟨hF, hP, hE⟩ := authorize_resched ps ps' env h
  unfold authorize
  refine ⟨?_, ?_, ?_⟩
  · have a1 := C02_loop_exact compile ps env
    have a2 := C02_loop_exact compile ps' env
    simp only at a1 a2
    unfold authorizeWith
    simp only [a1.1, a1.2.1, a2.1, a2.2.1, hF, hP]
    split <;> (try split) <;> rfl
  · rw [C02_reasons_exact, C02_reasons_exact, hF, hP]
  · rw [C02_errors_exact, C02_errors_exact, hE]

/-! ### Record literals (`recordLiteralEval` visits the keys of a Go map in sorted order) -/

/-- `canonKVs` — the order in which the shared model evaluates the entries of a record literal and lists the
    entries / annotations of a decoded JSON policy — is, on the entries of a Go map (distinct keys), the list
    sorted by key: the model of `for _, k := range slices.Sorted(maps.Keys(m))`, whatever order the map yields. -/
theorem C14_canonKVs_is_sort {α : Type} (entriesInMapOrder : List (String × α))
    (hk : (entriesInMapOrder.map (·.1)).Nodup) :
    canonKVs entriesInMapOrder = sortBy keyLe entriesInMapOrder :=
  canonKVs_eq_sortBy entriesInMapOrder hk

/-- what `eval` does on a record literal is `evalRecordLitOrd` on its entry list -/
theorem C14_evalRecordLit_is_eval (kes : List (String × Expr)) (env : Env) :
    eval (.record kes) env = evalRecordLitOrd kes env := eval_record_eq_ord kes env

/-- Whatever order the map yields its (distinct) keys in, the literal evaluates to the same result — the same
    record, or the same error (the error of the erroring entry with the least key).
    (Was `C14_evalRecordLit_order_indep_partial`: only error-ness, and equality when all erroring entries fail alike.) -/
theorem C14_evalRecordLit_order_indep (kes₁ kes₂ : List (String × Expr)) (env : Env)
    (hp : kes₁.Perm kes₂) (hk : (kes₁.map (·.1)).Nodup) :
    evalRecordLitOrd kes₁ env = evalRecordLitOrd kes₂ env :=
  evalRecordLitOrd_perm kes₁ kes₂ env hp hk

/-- regression (was `C14_evalRecordLit_order_counterexample`): `{a: 1 + "x", b: context.missing}` reported a type error
    in one order and a missing-attribute error in the other; now the entry with the least key decides, in both orders -/
example :
    (evalRecordLitOrd [("a", .binop .add (.lit (.long 1)) (.lit (.str "x"))), ("b", .access (.var .context) "missing")]
        { emptyEnv with context := .record [] }).toOption.isNone = true ∧
    (match evalRecordLitOrd [("a", .binop .add (.lit (.long 1)) (.lit (.str "x"))), ("b", .access (.var .context) "missing")]
        { emptyEnv with context := .record [] } with | .error e => some e | .ok _ => none) = some .type ∧
    (match evalRecordLitOrd [("b", .access (.var .context) "missing"), ("a", .binop .add (.lit (.long 1)) (.lit (.str "x")))]
        { emptyEnv with context := .record [] } with | .error e => some e | .ok _ => none) = some .type := by
  refine ⟨by decide +kernel, by decide +kernel, by decide +kernel⟩

/-! ### containsAll / containsAny / in -/

theorem C14_containsAll_is_eval (l r : Expr) (env : Env) :
    eval (.binop .containsAll l r) env =
      (do let s ← (eval l env).bind toSet; let t ← (eval r env).bind toSet; .ok (.bool (containsAllLoop s t))) :=
  eval_containsAll_eq_loop l r env

theorem C14_containsAny_is_eval (l r : Expr) (env : Env) :
    eval (.binop .containsAny l r) env =
      (do let s ← (eval l env).bind toSet; let t ← (eval r env).bind toSet; .ok (.bool (containsAnyLoop s t))) :=
  eval_containsAny_eq_loop l r env

/-- the early-exit loop over the right-hand set gives the same answer for every enumeration order of
    both sets -/
theorem C14_containsAll_order_indep (s s' t t' : List Value) (hs : s.Perm s') (ht : t.Perm t') :
    containsAllLoop s t = containsAllLoop s' t' := containsAllLoop_perm s s' t t' hs ht

theorem C14_containsAny_order_indep (s s' t t' : List Value) (hs : s.Perm s') (ht : t.Perm t') :
    containsAnyLoop s t = containsAnyLoop s' t' := containsAnyLoop_perm s s' t t' hs ht

/-- `a in [members]`: result and error kind are independent of the order in which the set yields its
    members (the converted members go into a hash set; `entityInSet` is an existential) -/
theorem C14_in_order_indep (env : Env) (a : UID) (xs xs' : List Value) (hp : xs.Perm xs') :
    doIn env a (.set xs) = doIn env a (.set xs') := doIn_set_perm env a xs xs' hp

/-- `in` does not depend on the order in which the parents of an entity are enumerated (both forms) -/
theorem C14_in_parent_order_indep (es es' : Entities)
    (h : ∀ u, (es.get u).isSome = (es'.get u).isSome ∧
      ∀ d d', es.get u = some d → es'.get u = some d' → ∀ p, p ∈ d.parents ↔ p ∈ d'.parents)
    (a : UID) :
    (∀ b, entityInOne es a b = entityInOne es' a b) ∧ (∀ S, entityInSet es a S = entityInSet es' a S) := by
  have h1 : ∀ x b, entityInOne es x b = entityInOne es' x b := fun x b => C03_parent_order_irrelevant es es' h x b
  have hR : ∀ x b, Reach es x b ↔ Reach es' x b := by
    intro x b
    rw [← C03_entityInOne_correct, ← C03_entityInOne_correct, h1]
  refine ⟨h1 a, fun S => ?_⟩
  obtain ⟨r, hr⟩ := C03_entityInSet_total es a S
  obtain ⟨r', hr'⟩ := C03_entityInSet_total es' a S
  have c1 := C03_entityInSet_correct es a S
  have c2 := C03_entityInSet_correct es' a S
  rw [hr] at c1; rw [hr'] at c2
  rw [hr, hr']
  have : r = true ↔ r' = true := by
    simp only [Option.some.injEq] at c1 c2
    rw [c1, c2]
    constructor <;> rintro ⟨b, hb, hx⟩
    · exact ⟨b, hb, (hR a b).mp hx⟩
    · exact ⟨b, hb, (hR a b).mpr hx⟩
  cases r <;> cases r' <;> simp_all

/-- The error message of `a in [members]` — the type name it mentions — is independent of the order in which the set
    yields its members: of the conversion errors the one that sorts first is reported.
    (Was `C14_in_set_message_order_indep_partial`, for members of one type only, plus a counterexample.) -/
theorem C14_in_set_message_order_indep (xs xs' : List Value) (hp : xs.Perm xs') :
    inSetFirstBad xs = inSetFirstBad xs' := inSetFirstBad_perm xs xs' hp

/-- regression (was `C14_in_set_message_counterexample`): `principal in [1, "x"]` said `got long` or `got string`
    depending on the order; now `got long` in both -/
example : inSetFirstBad [.long 1, .str "x"] = some "long" ∧ inSetFirstBad [.str "x", .long 1] = some "long" := by
  constructor <;> decide +kernel

/-! ### Encoders -/

/-- An encoder that collects the keys of a Go map in iteration order, sorts them with a total,
    transitive, antisymmetric order and renders them produces the same output for every iteration order. -/
theorem C14_encoders_canonical {κ : Type} (le : κ → κ → Bool) (hle : LinOrd le) (render : κ → String)
    (keys₁ keys₂ : List κ) (hp : keys₁.Perm keys₂) :
    encodeSorted le render keys₁ = encodeSorted le render keys₂ := by
  unfold encodeSorted; rw [sortBy_eq_of_perm hle hp]

/-- string-keyed encoders: `PolicySet.MarshalCedar/JSON`, `Record.MarshalCedar/JSON`, `EntityMap.MarshalJSON`,
    schema printers -/
theorem C14_marshalByStringKey_canonical (render : String → String) (k₁ k₂ : List String) (hp : k₁.Perm k₂) :
    marshalByStringKey render k₁ = marshalByStringKey render k₂ :=
  C14_encoders_canonical strLe strLe_linOrd render k₁ k₂ hp

/-- `Set.MarshalCedar/JSON`: the order in which the members are written (`Set.orderedSlots`: sorted slot numbers, the
    run of slots ending at slot 2^64-1 first if an element wrapped around) is the same for every order in which the Go
    map yields its entries. -/
theorem C14_marshalSet_canonical (hash : Value → UInt64) (t₁ t₂ : Table) (hp : t₁.Perm t₂) (hn : (t₁.map (·.1)).Nodup) :
    marshalSetMembers hash t₁ = marshalSetMembers hash t₂ :=
  SetOrder.marshalSetMembers_perm_inv hash hp hn

/-- **`NewSet` applied to the members in the order `MarshalJSON/MarshalCedar` write them rebuilds the set slot for slot**
    (what `Set.UnmarshalJSON` does with the marshalled array): the rebuilt table holds the same (slot, member) pairs.
    For every hash that respects equality, every collision pattern, and also when `NewSet`'s probing wrapped around from
    slot 2^64-1 to slot 0 — the case in which the unrepaired printer (ascending slot order) listed a displaced member
    BEFORE the members that had displaced it, so that the decoded set had them swapped (known finding
    `set-hash-collision-order`, now fixed). -/
theorem C14_setMarshal_rebuilds (hash : Value → UInt64) (hr : C11.HashRespectsEq hash) (vs : List Value)
    (hl : vs.length < 18446744073709551616) :
    (buildTable hash (marshalSetMembers hash (buildTable hash vs))).Perm (buildTable hash vs) :=
  (SetOrder.rebuild (C11.foldl_insertV_spec hr vs [] (C11.inv_nil hash) (by simpa using hl)).1).2

/-- … consequently a set decoded from its own encoding marshals to the same member sequence again: the second
    `Marshal` of a round trip is identical to the first. -/
theorem C14_setMarshal_roundtrip_stable (hash : Value → UInt64) (hr : C11.HashRespectsEq hash) (vs : List Value)
    (hl : vs.length < 18446744073709551616) :
    marshalSetMembers hash (buildTable hash (marshalSetMembers hash (buildTable hash vs))) =
      marshalSetMembers hash (buildTable hash vs) :=
  SetOrder.marshal_stable (C11.foldl_insertV_spec hr vs [] (C11.inv_nil hash) (by simpa using hl)).1

/-- the real hash is one of them -/
example (vs : List Value) (hl : vs.length < 18446744073709551616) :
    marshalSetMembers goHash (buildTable goHash (marshalSetMembers goHash (buildTable goHash vs))) =
      marshalSetMembers goHash (buildTable goHash vs) :=
  C14_setMarshal_roundtrip_stable goHash C11.goHash_respects_eq vs hl

-- regression: the former witness `NewSet(decimal("-0.0001"), -1)` — both members hash to 2^64-1, the second one wraps
-- around into slot 0.  The unrepaired printer (ascending slots) wrote `-1` first, the decoded set had the two members
-- in each other's slots and wrote `decimal("-0.0001")` first: the encoding flipped on every round trip …
example :
    (marshalSetMembersBySlot (buildTable goHash [.decimal (-1), .long (-1)]) == [.long (-1), .decimal (-1)]) = true ∧
    (marshalSetMembersBySlot (buildTable goHash [.long (-1), .decimal (-1)]) == [.decimal (-1), .long (-1)]) = true := by
  constructor <;> decide +kernel
-- … the repaired one writes the members in probing order, which `NewSet` reproduces
example :
    (marshalSetMembers goHash (buildTable goHash [.decimal (-1), .long (-1)]) == [.decimal (-1), .long (-1)]) = true ∧
    (marshalSetMembers goHash (buildTable goHash [.long (-1), .decimal (-1)]) == [.long (-1), .decimal (-1)]) = true := by
  constructor <;> decide +kernel
-- a longer wrapped chain next to unrelated members (hashes 2^64-2, 2^64-1 ×3, 0, 1 ×2)
example :
    (marshalSetMembers goHash (buildTable goHash [.long (-2), .long (-1), .duration (-1), .decimal (-1), .long 0, .long 1, .bool true, .long 7]) == [.long (-2), .long (-1), .duration (-1), .decimal (-1), .long 0, .long 1, .bool true, .long 7]) = true := by
  decide +kernel
-- without a wrap-around nothing changes: ascending slot order, also when both slot 0 and slot 2^64-1 are occupied
example :
    (marshalSetMembers goHash (buildTable goHash [.long (-1), .bool false, .long 5]) == [.bool false, .long 5, .long (-1)]) = true ∧
    (marshalSetMembersBySlot (buildTable goHash [.long (-1), .bool false, .long 5]) == [.bool false, .long 5, .long (-1)]) = true := by
  constructor <;> decide +kernel

/-- `Entity.MarshalJSON` (parents by type, then id) -/
theorem C14_marshalParents_canonical (render : UID → String) (k₁ k₂ : List UID) (hp : k₁.Perm k₂) :
    marshalParentsOrd render k₁ = marshalParentsOrd render k₂ :=
  C14_encoders_canonical uidLe uidLe_linOrd render k₁ k₂ hp

/-- the generic sort is the one C20's policy-set model uses: `PolicySet.MarshalCedar` emits the ids in
    the same order whatever order the map yielded them in -/
theorem C14_marshal_policyset_canonical (s₁ s₂ : PS) (hp : s₁.Perm s₂) : s₁.ids = s₂.ids := by
  unfold PS.ids
  rw [sortIds_eq_sortBy, sortIds_eq_sortBy]
  exact sortBy_eq_of_perm strLe_linOrd (hp.map _)

/-! ### JSON decode → encode -/

/-- The JSON decoder lists the entries of a `Record` node by key whatever order the Go map yields them in: the decoded
    AST — hence the Cedar text printed from it — is the same.  (Was `C14_decode_encode_counterexample`.) -/
theorem C14_decode_record_deterministic (σ τ : List (String × Expr)) (hp : σ.Perm τ) (hk : (σ.map (·.1)).Nodup) :
    decodeRecordJsonOrd σ = decodeRecordJsonOrd τ := by
  unfold decodeRecordJsonOrd; rw [canonKVs_perm hp hk]

theorem C14_decode_encode_deterministic (σ τ : List (String × Expr)) (hp : σ.Perm τ) (hk : (σ.map (·.1)).Nodup) :
    cedarRecordKeyOrder (decodeRecordJsonOrd σ) = cedarRecordKeyOrder (decodeRecordJsonOrd τ) := by
  rw [C14_decode_record_deterministic σ τ hp hk]

/-- …and the same for annotations (was `C14_decode_encode_annotations_counterexample`) -/
theorem C14_decode_annotations_deterministic (p : Policy) (σ τ : List (String × String)) (hp : σ.Perm τ)
    (hk : (σ.map (·.1)).Nodup) : decodeAnnotationsOrd p σ = decodeAnnotationsOrd p τ := by
  unfold decodeAnnotationsOrd; rw [canonKVs_perm hp hk]

theorem C14_decode_encode_annotations_deterministic (p : Policy) (σ τ : List (String × String)) (hp : σ.Perm τ)
    (hk : (σ.map (·.1)).Nodup) :
    cedarAnnotationOrder (decodeAnnotationsOrd p σ) = cedarAnnotationOrder (decodeAnnotationsOrd p τ) := by
  rw [C14_decode_annotations_deterministic p σ τ hp hk]

-- regression: the former witnesses
example : cedarRecordKeyOrder (decodeRecordJsonOrd [("b", .lit (.long 2)), ("a", .lit (.long 1))]) = ["a", "b"] := by
  decide +kernel
example : cedarAnnotationOrder (decodeAnnotationsOrd { effect := .permit } [("b", "2"), ("a", "1")]) = ["a", "b"] := by
  decide +kernel

/-- decode → `MarshalJSON` is deterministic too (it always was: the encoder puts the entries back into a Go map and
    `encoding/json` sorts map keys) -/
theorem C14_decode_encode_json_deterministic (σ τ : List (String × Expr)) (hp : σ.Perm τ) (hk : (σ.map (·.1)).Nodup) :
    jsonRecordKeyOrder (decodeRecordJsonOrd σ) = jsonRecordKeyOrder (decodeRecordJsonOrd τ) := by
  rw [C14_decode_record_deterministic σ τ hp hk]

theorem C14_decode_encode_json_annotations_deterministic (p : Policy) (σ τ : List (String × String)) (hp : σ.Perm τ)
    (hk : (σ.map (·.1)).Nodup) :
    jsonAnnotationOrder (decodeAnnotationsOrd p σ) = jsonAnnotationOrder (decodeAnnotationsOrd p τ) := by
  rw [C14_decode_annotations_deterministic p σ τ hp hk]

/-- the decoded record literal evaluates like the literal with the entries in any listed order -/
theorem C14_decoded_record_evaluates_alike (σ τ : List (String × Expr)) (env : Env) (hp : σ.Perm τ)
    (hk : (σ.map (·.1)).Nodup) :
    eval (decodeRecordJsonOrd σ) env = eval (decodeRecordJsonOrd τ) env ∧
    eval (decodeRecordJsonOrd σ) env = eval (.record σ) env := by
  refine ⟨by rw [C14_decode_record_deterministic σ τ hp hk], ?_⟩
  unfold decodeRecordJsonOrd
  exact eval_recordLit_canon σ env

/-- A set rebuilt by `coerceSet` (decode of entity JSON with a schema) renders alike whatever order `Set.All()` yielded
    the members in: they are sorted before `NewSet` assigns the slots.  (Was `C14_coerceSet_order_counterexample`: two
    members with the same hash swapped their slots, hence their place in the JSON text.) -/
theorem C14_coerceSet_order_indep (hash : String → Nat) (σ τ : List String) (hp : σ.Perm τ) :
    coerceSetOrd hash σ = coerceSetOrd hash τ := by
  unfold coerceSetOrd; rw [sortBy_eq_of_perm strLe_linOrd hp]

-- regression: the former witness (both members hash to 3)
example : coerceSetOrd (fun _ => 3) ["{0.0001,0.0002}", "{0.0003}"] = coerceSetOrd (fun _ => 3) ["{0.0003}", "{0.0001,0.0002}"] := by
  decide +kernel

/-- without collisions the rendering order is the hash order, whatever the insertion order (two members) -/
example : coerceSetOrd (fun m => if m == "a" then 5 else 3) ["a", "b"] = ["b", "a"] := by decide +kernel

/-! ### batch.Authorize (x/exp/batch) -/

/-- The order in which `batch.Authorize` binds the variables — fewest values first, among equally many values by
    name — is the same for every order in which the Go map `request.Variables` yields its entries (a map: distinct
    names): it is a function of the set of (name, values) entries.  (Before the repair the sort key was the number of
    values alone and ties stayed in map order: known finding `batch-variable-order-error-message`.) -/
theorem C14_batch_binding_order_canonical {α : Type} (vars₁ vars₂ : List (String × List α)) (hp : vars₁.Perm vars₂)
    (nd : (vars₁.map (·.1)).Nodup) : bindingOrder vars₁ = bindingOrder vars₂ :=
  bindingOrder_eq_of_perm hp nd

/-- … it still is "fewest values first", and it binds exactly the request's variables -/
theorem C14_batch_binding_fewest_first {α : Type} (vars : List (String × List α)) :
    (bindingOrder vars).Pairwise (fun a b => a.2.length ≤ b.2.length) ∧ (bindingOrder vars).Perm vars := by
  refine ⟨(bindingOrder_sorted vars).imp (fun {a b} h => ?_), bindingOrder_perm vars⟩
  rcases (varLe_iff a b).mp h with h | ⟨h, _⟩ <;> omega

/-- Consequently the whole run of `batch.Authorize` — every callback invocation with its request, substitution,
    decision, reasons and errors, in order, and the error that ends the run — does not depend on the order in which the
    map of variables is iterated. -/
theorem C14_batchAuthorize_map_order_indep {ε : Type} (cancelled : Nat → Bool) (cb : BResult → Except ε Unit)
    (vars₁ vars₂ : List (String × List Value)) (env : Env) (ps : List (PolicyID × Policy))
    (hp : vars₁.Perm vars₂) (nd : (vars₁.map (·.1)).Nodup) :
    batchAuthorizeMap cancelled cb vars₁ env ps = batchAuthorizeMap cancelled cb vars₂ env ps := by
  unfold batchAuthorizeMap; rw [C14_batch_binding_order_canonical vars₁ vars₂ hp nd]

/-- The variable named by the unbound-variable error (and by the unused-variable error) is the least offending name,
    whatever order the set of found variables / the map of value lists yields its members in.
    (Known finding `batch-unbound-unused-variable-order`.) -/
theorem C14_batch_unbound_unused_order_indep (names₁ names₂ other : List String) (hp : names₁.Perm names₂) :
    firstUnbound names₁ other = firstUnbound names₂ other ∧ firstUnused names₁ other = firstUnused names₂ other := by
  unfold firstUnbound firstUnused; rw [sortBy_eq_of_perm strLe_linOrd hp]; exact ⟨rfl, rfl⟩

/-- A set rebuilt by `cloneSub` renders alike whatever order `Set.All()` yielded the members in: the substituted
    members are sorted before `NewSet` assigns the slots.  (Known finding `batch-substituted-set-member-order`.) -/
theorem C14_cloneSub_set_order_indep (hash : String → Nat) (sub : String → String) (σ τ : List String) (hp : σ.Perm τ) :
    cloneSubSetOrd hash sub σ = cloneSubSetOrd hash sub τ := by
  unfold cloneSubSetOrd; rw [sortBy_eq_of_perm strLe_linOrd (hp.map sub)]

-- regression: the reviewer's witness `principal = Variable("p")`, `resource = Variable("r")`, one value each.  The
-- unrepaired sort left the two in the order the map yielded them; now `p` is bound first in both orders
example :
    bindingOrderByLen [("p", [1]), ("r", [2])] = [("p", [1]), ("r", [2])] ∧
    bindingOrderByLen [("r", [2]), ("p", [1])] = [("r", [2]), ("p", [1])] ∧
    bindingOrder [("p", [1]), ("r", [2])] = [("p", [1]), ("r", [2])] ∧
    bindingOrder [("r", [2]), ("p", [1])] = [("p", [1]), ("r", [2])] := by
  refine ⟨by decide +kernel, by decide +kernel, by decide +kernel, by decide +kernel⟩
-- fewest values first still decides before the name does
example : bindingOrder [("a", [1, 2]), ("z", [3]), ("b", [4, 5])] = [("z", [3]), ("a", [1, 2]), ("b", [4, 5])] := by
  decide +kernel
-- two unbound variables: `p` is named, in both orders (the unrepaired loop named the first one met)
example : firstUnbound ["r", "p"] [] = some "p" ∧ firstUnbound ["p", "r"] [] = some "p" ∧
    firstUnboundInMapOrder ["r", "p"] [] = some "r" := by
  refine ⟨by decide +kernel, by decide +kernel, by decide +kernel⟩
-- the witness `[Variable("x"), 1, true]` with x := "v": `1` and `true` share slot 1; rebuilt in map order they swapped
example :
    cloneSubSetInMapOrder (fun m => if m == "\"v\"" then 9 else 1) (fun m => if m == "x" then "\"v\"" else m) ["x", "1", "true"] = ["1", "true", "\"v\""] ∧
    cloneSubSetInMapOrder (fun m => if m == "\"v\"" then 9 else 1) (fun m => if m == "x" then "\"v\"" else m) ["true", "x", "1"] = ["true", "1", "\"v\""] ∧
    cloneSubSetOrd (fun m => if m == "\"v\"" then 9 else 1) (fun m => if m == "x" then "\"v\"" else m) ["x", "1", "true"] =
      cloneSubSetOrd (fun m => if m == "\"v\"" then 9 else 1) (fun m => if m == "x" then "\"v\"" else m) ["true", "x", "1"] := by
  refine ⟨by decide +kernel, by decide +kernel, by decide +kernel⟩

/-! ### Non-vacuity -/

-- a permuted, duplicate-free key list is sorted back to the same list
example : encodeSorted strLe id ["policy2", "policy10", "a"] = ["a", "policy10", "policy2"] := by decide +kernel
example : sortBy uidLe [("User", "b"), ("Group", "z"), ("User", "a")] = [("Group", "z"), ("User", "a"), ("User", "b")] := by decide +kernel
-- a record literal with distinct keys (the nodup hypothesis)
example : ((([("a", Expr.lit (.long 1)), ("b", .access (.var .context) "m")] : List (String × Expr)).map (·.1)).Nodup) := by decide
-- a schedule that really permutes
example : Resched (.record [("a", .lit (.long 1)), ("b", .lit (.long 2))]) (.record [("b", .lit (.long 2)), ("a", .lit (.long 1))]) := by
  simp only [Resched]
  exact ⟨[("a", .lit (.long 1)), ("b", .lit (.long 2))], _, rfl, by simp [ReschedKVs, Resched], List.Perm.swap _ _ _, by decide⟩
-- containsAll over a permuted pair of sets
example : containsAllLoop [.long 1, .long 2, .long 3] [.long 3, .long 1] = true := by decide +kernel
example : inSetFirstBad [.entity "A" "a", .long 1] = some "long" := by decide +kernel

end CedarGo
