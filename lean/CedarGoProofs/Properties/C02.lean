/-
  C02 — Authorization decision: default deny, forbid overrides permit, errors skip.
  Theorems are about `authorizeWith compile`, the transcription of the loop in authorize.go,
  for an arbitrary list of (id, policy) pairs: any `PolicyIterator`, duplicate ids included.
  The link from "compiled" to "the policy's own scope and conditions" is C04 (`C04_compile_preserves`)
  plus `C02_policy_true_iff` below.
-/
import CedarGo.Model.Fold
namespace CedarGo

/-- outcome classes of one policy under the compiled evaluator `c` -/
def satBy (c : Policy → Expr) (env : Env) (ip : PolicyID × Policy) : Bool :=
  match evalBool (c ip.2) env with | .ok true => true | _ => false

def errBy (c : Policy → Expr) (env : Env) (ip : PolicyID × Policy) : Option (PolicyID × Position × Err) :=
  match evalBool (c ip.2) env with | .error e => some (ip.1, ip.2.position, e) | _ => none

def isForbid (ip : PolicyID × Policy) : Bool := ip.2.effect == .forbid
def isPermit (ip : PolicyID × Policy) : Bool := ip.2.effect == .permit

def tag (ip : PolicyID × Policy) : PolicyID × Position := (ip.1, ip.2.position)

def satForbids (c) (env : Env) (ps : List (PolicyID × Policy)) := (ps.filter (fun ip => satBy c env ip && isForbid ip)).map tag
def satPermits (c) (env : Env) (ps : List (PolicyID × Policy)) := (ps.filter (fun ip => satBy c env ip && isPermit ip)).map tag
def errorsOf (c) (env : Env) (ps : List (PolicyID × Policy)) := ps.filterMap (errBy c env)

theorem authStep_spec (c : Policy → Expr) (env : Env) (acc : Acc) (ip : PolicyID × Policy) :
    (authStep c env acc ip).forbids = acc.forbids ++ satForbids c env [ip] ∧
    (authStep c env acc ip).permits = acc.permits ++ satPermits c env [ip] ∧
    (authStep c env acc ip).errors = acc.errors ++ errorsOf c env [ip] := by
  unfold authStep satForbids satPermits errorsOf satBy errBy isForbid isPermit tag
  cases h : evalBool (c ip.2) env with
  | error e => simp [h]
  | ok b =>
    cases b with
    | false => simp [h]
    | true => cases he : ip.2.effect <;> simp [h, he]

theorem foldl_authStep_spec (c : Policy → Expr) (env : Env) (ps : List (PolicyID × Policy)) (acc : Acc) :
    (ps.foldl (authStep c env) acc).forbids = acc.forbids ++ satForbids c env ps ∧
    (ps.foldl (authStep c env) acc).permits = acc.permits ++ satPermits c env ps ∧
    (ps.foldl (authStep c env) acc).errors = acc.errors ++ errorsOf c env ps := by
  induction ps generalizing acc with
  | nil => simp [satForbids, satPermits, errorsOf]
  | cons ip ps ih =>
    have h := authStep_spec c env acc ip
    have h2 := ih (authStep c env acc ip)
    simp only [List.foldl_cons]
    refine ⟨?_, ?_, ?_⟩
    · rw [h2.1, h.1]; simp [satForbids, List.filter_cons]; split <;> simp
    · rw [h2.2.1, h.2.1]; simp [satPermits, List.filter_cons]; split <;> simp
    · rw [h2.2.2, h.2.2]; simp [errorsOf, List.filterMap_cons]; split <;> simp

/-- the three accumulators of the loop are exactly the three filters of the policy sequence -/
theorem C02_loop_exact (c : Policy → Expr) (ps : List (PolicyID × Policy)) (env : Env) :
    let acc := ps.foldl (authStep c env) {}
    acc.forbids = satForbids c env ps ∧ acc.permits = satPermits c env ps ∧ acc.errors = errorsOf c env ps := by
  have h := foldl_authStep_spec c env ps {}
  simpa using h

/-- Allow exactly when some permit is satisfied and no forbid is satisfied. -/
theorem C02_allow_iff (c : Policy → Expr) (ps : List (PolicyID × Policy)) (env : Env) :
    (authorizeWith c ps env).allow = true ↔
      (∃ ip ∈ ps, isPermit ip = true ∧ satBy c env ip = true) ∧
      ¬ (∃ ip ∈ ps, isForbid ip = true ∧ satBy c env ip = true) := by
  have h := C02_loop_exact c ps env
  simp only at h
  unfold authorizeWith
  simp only [h.1, h.2.1, h.2.2]
  have hf : (satForbids c env ps).isEmpty = true ↔ ¬ (∃ ip ∈ ps, isForbid ip = true ∧ satBy c env ip = true) := by
    simp [satForbids, List.isEmpty_iff, List.filter_eq_nil_iff]
    constructor
    · intro h a b hm hfb
      cases hs : satBy c env (a, b) with
      | false => rfl
      | true => have := h a b hm hs; simp_all
    · intro h a b hm hs
      cases hfb : isForbid (a, b) with
      | false => rfl
      | true => have := h a b hm hfb; simp_all
  have hp : (satPermits c env ps).isEmpty = false ↔ (∃ ip ∈ ps, isPermit ip = true ∧ satBy c env ip = true) := by
    rw [← Bool.not_eq_true, List.isEmpty_iff]
    simp [satPermits, List.filter_eq_nil_iff]
    constructor
    · rintro ⟨a, b, hm, hs, hpm⟩; exact ⟨a, b, hm, hpm, hs⟩
    · rintro ⟨a, b, hm, hpm, hs⟩; exact ⟨a, b, hm, hs, hpm⟩
  cases hfe : (satForbids c env ps).isEmpty <;> cases hpe : (satPermits c env ps).isEmpty <;>
    simp_all

/-- Reasons: exactly the satisfied forbids if there is one, otherwise exactly the satisfied permits. -/
theorem C02_reasons_exact (c : Policy → Expr) (ps : List (PolicyID × Policy)) (env : Env) :
    (authorizeWith c ps env).reasons =
      if (satForbids c env ps).isEmpty then satPermits c env ps else satForbids c env ps := by
  have h := C02_loop_exact c ps env
  simp only at h
  unfold authorizeWith
  simp only [h.1, h.2.1, h.2.2]
  cases hfe : (satForbids c env ps).isEmpty <;> cases hpe : (satPermits c env ps).isEmpty <;> simp_all [List.isEmpty_iff]

/-- Errors: exactly the erroring policies, each with its own id and position (no short-circuit). -/
theorem C02_errors_exact (c : Policy → Expr) (ps : List (PolicyID × Policy)) (env : Env) :
    (authorizeWith c ps env).errors = errorsOf c env ps := by
  have h := C02_loop_exact c ps env
  simp only at h
  unfold authorizeWith
  simp only [h.1, h.2.1, h.2.2]
  split <;> (try split) <;> rfl

theorem C02_default_deny (c : Policy → Expr) (env : Env) : (authorizeWith c [] env).allow = false := by
  simp [authorizeWith]

theorem C02_forbid_overrides (c : Policy → Expr) (ps : List (PolicyID × Policy)) (env : Env)
    (h : ∃ ip ∈ ps, isForbid ip = true ∧ satBy c env ip = true) : (authorizeWith c ps env).allow = false := by
  cases hal : (authorizeWith c ps env).allow with
  | false => rfl
  | true => exact absurd h ((C02_allow_iff c ps env).mp hal).2

theorem C02_erroring_not_satisfied (c : Policy → Expr) (env : Env) (ip : PolicyID × Policy) (e : Err)
    (h : evalBool (c ip.2) env = .error e) : satBy c env ip = false := by
  simp [satBy, h]

/-- Order independence: any permutation of the policy sequence gives the same decision and the same
    reasons and errors up to permutation (so as sets). -/
theorem C02_order_independent (c : Policy → Expr) (ps₁ ps₂ : List (PolicyID × Policy)) (env : Env)
    (hp : ps₁.Perm ps₂) :
    (authorizeWith c ps₁ env).allow = (authorizeWith c ps₂ env).allow ∧
    (authorizeWith c ps₁ env).reasons.Perm (authorizeWith c ps₂ env).reasons ∧
    (authorizeWith c ps₁ env).errors.Perm (authorizeWith c ps₂ env).errors := by
  have hF : (satForbids c env ps₁).Perm (satForbids c env ps₂) := (hp.filter _).map _
  have hP : (satPermits c env ps₁).Perm (satPermits c env ps₂) := (hp.filter _).map _
  have hE : (errorsOf c env ps₁).Perm (errorsOf c env ps₂) := hp.filterMap _
  have hFe : (satForbids c env ps₁).isEmpty = (satForbids c env ps₂).isEmpty := by
    cases h1 : satForbids c env ps₁ <;> cases h2 : satForbids c env ps₂ <;> simp_all
  refine ⟨?_, ?_, ?_⟩
  · have h1 := C02_allow_iff c ps₁ env
    have h2 := C02_allow_iff c ps₂ env
    have e1 : (∃ ip ∈ ps₁, isPermit ip = true ∧ satBy c env ip = true) ↔ (∃ ip ∈ ps₂, isPermit ip = true ∧ satBy c env ip = true) := by
      constructor <;> rintro ⟨ip, hm, h⟩
      · exact ⟨ip, hp.mem_iff.mp hm, h⟩
      · exact ⟨ip, hp.mem_iff.mpr hm, h⟩
    have e2 : (∃ ip ∈ ps₁, isForbid ip = true ∧ satBy c env ip = true) ↔ (∃ ip ∈ ps₂, isForbid ip = true ∧ satBy c env ip = true) := by
      constructor <;> rintro ⟨ip, hm, h⟩
      · exact ⟨ip, hp.mem_iff.mp hm, h⟩
      · exact ⟨ip, hp.mem_iff.mpr hm, h⟩
    have h12 : (authorizeWith c ps₁ env).allow = true ↔ (authorizeWith c ps₂ env).allow = true := by
      rw [h1, h2, e1, e2]
    cases ha : (authorizeWith c ps₁ env).allow <;> cases hb : (authorizeWith c ps₂ env).allow <;> simp_all
  · rw [C02_reasons_exact, C02_reasons_exact, hFe]
    split
    · exact hP
    · exact hF
  · rw [C02_errors_exact, C02_errors_exact]; exact hE

/-! ### A policy is satisfied iff its scope matches and every clause holds -/

theorem evalBool_and (l r : Expr) (env : Env) :
    evalBool (.binop .and l r) env =
      match evalBool l env with
      | .error e => .error e
      | .ok false => .ok false
      | .ok true => evalBool r env := by
  unfold evalBool
  rw [eval]
  cases hl : eval l env with
  | error e => simp [bind, Except.bind]
  | ok v =>
    cases v <;> simp [bind, Except.bind, toBool]
    rename_i b
    cases b <;> simp
    cases hr : eval r env with
    | error e => simp
    | ok w => cases w <;> simp [toBool]

/-- `e₀ && (e₁ && (… && eₙ))` is true iff every conjunct is true -/
theorem evalBool_andAll_true (e : Expr) (rest : List Expr) (env : Env) :
    evalBool (andAll e rest) env = .ok true ↔ ∀ x ∈ e :: rest, evalBool x env = .ok true := by
  induction rest generalizing e with
  | nil => simp [andAll]
  | cons e' rest ih =>
    simp only [andAll, evalBool_and]
    cases h : evalBool e env with
    | error k => simp [h]
    | ok b =>
      cases b with
      | false => simp [h]
      | true => simp [h, ih e']

/-- …and it errors iff some conjunct errors while all earlier ones are true (`&&` stops at the first
    false conjunct, so an error behind a false conjunct is not reported). -/
theorem evalBool_andAll_error (e : Expr) (rest : List Expr) (env : Env) (k : Err) :
    evalBool (andAll e rest) env = .error k ↔
      ∃ pre x post, e :: rest = pre ++ x :: post ∧ (∀ y ∈ pre, evalBool y env = .ok true) ∧ evalBool x env = .error k := by
  induction rest generalizing e with
  | nil =>
    simp only [andAll]
    constructor
    · intro h; exact ⟨[], e, [], rfl, by simp, h⟩
    · rintro ⟨pre, x, post, heq, _, hx⟩
      cases pre with
      | nil => simp at heq; rw [heq.1]; exact hx
      | cons a pre => simp at heq
  | cons e' rest ih =>
    simp only [andAll, evalBool_and]
    constructor
    · intro h
      cases he : evalBool e env with
      | error k' => rw [he] at h; simp at h; exact ⟨[], e, e' :: rest, rfl, by simp, by rw [he, h]⟩
      | ok b =>
        cases b with
        | false => rw [he] at h; simp at h
        | true =>
          rw [he] at h; simp at h
          obtain ⟨pre, x, post, heq, hpre, hx⟩ := (ih e').mp h
          exact ⟨e :: pre, x, post, by simp [heq], by intro y hy; cases hy with | head => exact he | tail _ hm => exact hpre y hm, hx⟩
    · rintro ⟨pre, x, post, heq, hpre, hx⟩
      cases pre with
      | nil =>
        simp at heq; rw [heq.1, hx]
      | cons a pre =>
        simp at heq
        have ha : evalBool e env = .ok true := by rw [heq.1]; exact hpre a (by simp)
        rw [ha]; simp
        exact (ih e').mpr ⟨pre, x, post, heq.2, fun y hy => hpre y (by simp [hy]), hx⟩

/-- the conjuncts `PolicyToNode` builds: scope clauses (or the literal `true`), then the conditions -/
def policyConjuncts (p : Policy) : List Expr :=
  (if p.principal.isAll && p.action.isAll && p.resource.isAll then [.lit (.bool true)]
    else (if p.principal.isAll then [] else [scopeToExpr .principal p.principal])
      ++ (if p.action.isAll then [] else [scopeToExpr .action p.action])
      ++ (if p.resource.isAll then [] else [scopeToExpr .resource p.resource]))
  ++ p.conditions.map condToExpr

theorem policyConjuncts_ne_nil (p : Policy) : policyConjuncts p ≠ [] := by
  unfold policyConjuncts
  split
  · simp
  · rename_i h
    cases hp : p.principal.isAll <;> cases ha : p.action.isAll <;> cases hr : p.resource.isAll <;> simp_all

/-- A policy (as evaluated unfolded) is satisfied iff every scope clause and every `when` body is
    true and every `unless` body is false. -/
theorem C02_policy_true_iff (p : Policy) (env : Env) :
    evalBool (policyToExpr p) env = .ok true ↔ ∀ x ∈ policyConjuncts p, evalBool x env = .ok true := by
  have hne := policyConjuncts_ne_nil p
  unfold policyToExpr
  change evalBool (match policyConjuncts p with | [] => _ | e :: rest => andAll e rest) env = _ ↔ _
  cases h : policyConjuncts p with
  | nil => exact absurd h hne
  | cons e rest => simpa using evalBool_andAll_true e rest env

theorem evalBool_not (e : Expr) (env : Env) :
    evalBool (.unop .not e) env = (evalBool e env).map (!·) := by
  unfold evalBool
  rw [eval]
  cases h : eval e env with
  | error k => simp [bind, Except.bind, Except.map]
  | ok v => cases v <;> simp [bind, Except.bind, Except.map, toBool]

/-- `unless { b }` holds exactly when `b` evaluates to false -/
theorem C02_unless_holds (b : Expr) (env : Env) :
    evalBool (condToExpr (false, b)) env = .ok true ↔ evalBool b env = .ok false := by
  have hc : condToExpr (false, b) = .unop .not b := by simp [condToExpr]
  rw [hc, evalBool_not]
  cases h : evalBool b env with
  | error k => simp [Except.map]
  | ok v => cases v <;> simp [Except.map]

/-! ### Non-vacuity -/

example : ∃ ps env, (authorizeWith compile ps env).allow = true :=
  ⟨[("p0", { effect := .permit })], emptyEnv, by decide +kernel⟩

example : ∃ (ps : List (PolicyID × Policy)) (env : Env),
    (∃ ip ∈ ps, isForbid ip = true ∧ satBy compile env ip = true) ∧ (∃ ip ∈ ps, isPermit ip = true ∧ satBy compile env ip = true) :=
  ⟨[("p0", { effect := .permit }), ("p1", { effect := .forbid })], emptyEnv,
    ⟨("p1", { effect := .forbid }), by simp, by decide +kernel⟩, ⟨("p0", { effect := .permit }), by simp, by decide +kernel⟩⟩

end CedarGo
