/-
  C12 — property theorems (only `theorem C12_*` statements and non-vacuity examples live here;
  helper lemmas go to CedarGoProofs/Lemmas/).
-/
import CedarGo.Model.Fold
namespace CedarGo

end CedarGo
