/-
  C12 — property theorems (only `theorem C12_*` statements and non-vacuity examples live here;
  helper lemmas go to CedarGoProofs/Lemmas/C12*.lean).

  All statements are about the executable model `CedarGo/Model/Scalars.lean`, a transcription of
  types/decimal.go, duration.go, datetime.go, long.go and of the parts of strconv / fmt / time they call
  (own digit functions `natDigits`/`digitsVal`, own civil calendar `daysFromCivil`/`civilFromDays`).
  The transcription is tied to the Go code by the correspondence ops parse-* / print-* / new-decimal / civil / days.
  The model mirrors the Go code's defects; where the fixed property text fails there is a `_counterexample`.

  Repaired in cedar-go (model, theorems and regression `example`s follow the repaired code): leading `+` in
  ParseDecimal, NewDecimal's overflow test, Duration(MinInt64) print/parse, range check of date-only datetimes,
  IPv6 zones.  NOT repaired (an existing test of cedar-go asserts the behaviour): the `minDatetime` constant.
-/
import CedarGoProofs.Lemmas.C12Digits
import CedarGoProofs.Lemmas.C12Decimal
import CedarGoProofs.Lemmas.C12DecimalIff
import CedarGoProofs.Lemmas.C12NewDecimal
import CedarGoProofs.Lemmas.C12Duration
import CedarGoProofs.Lemmas.C12Civil
import CedarGoProofs.Lemmas.C12Datetime
import CedarGoProofs.Lemmas.C12IP
import CedarGoProofs.Lemmas.C12IP6b
namespace CedarGo
open Scalars

/-! ## digit strings -/

/-- `ofDigits (digits n) = n` for the model's own digit functions. -/
theorem C12_digits_value (n : Nat) : digitsVal (natDigits n) = n := digitsVal_natDigits n

/-- the digit string of a number is non-empty and consists of decimal digits only -/
theorem C12_digits_all_digits (n : Nat) : allDigits (natDigits n) = true := allDigits_natDigits n

/-- no leading zero except for `0` itself -/
theorem C12_digits_no_leading_zero (n : Nat) :
    ∃ c rest, natDigits n = c :: rest ∧ isDig c = true ∧ (c = '0' → n = 0) := natDigits_head n

/-- zero-padded fixed-width fields (`%04d`, `%02d`, `%03d`, `%09d`): exact width, digits only, exact value -/
theorem C12_padded_field (k n : Nat) (hk : 0 < k) (h : n < 10 ^ k) :
    (padL k n).length = k ∧ (padL k n).all isDig = true ∧ digitsVal (padL k n) = n := padL_spec k n hk h

example : natDigits 9223372036854775807 = "9223372036854775807".toList := by rfl
example : padL 9 2024 = "000002024".toList := by rfl

/-! ## long -/

/-- every `int64` prints (`fmt.Sprint`) to a string that `strconv.ParseInt` reads back -/
theorem C12_long_roundtrip (n : Int) (h : InI64 n) : parseLong (printLong n) = some n := by
  simp only [parseLong, printLong, String.toList_ofList]
  exact parseInt64_printLongL n h

example : InI64 minI64 ∧ parseLong (printLong minI64) = some minI64 := ⟨by decide, by rfl⟩

/-! ## decimal -/

/-- every decimal value (all 2^64 raw ten-thousandths, every fractional digit count) prints to a
    string that parses back to the same value -/
theorem C12_decimal_roundtrip (d : Int) (h : InI64 d) : parseDecimal (printDecimal d) = .ok d := by
  simp only [parseDecimal, printDecimal, String.toList_ofList]
  exact parseDecimalL_printDecimalL d h

example : InI64 (-5000) ∧ printDecimal (-5000) = "-0.5" ∧ printDecimal minI64 = "-922337203685477.5808" :=
  ⟨by decide, by rfl, by rfl⟩

/-- `newDecimal` (the bounds test every decimal constructor ends in) is exact: on arguments of matching
    sign with `|tt| < 10^4` it returns `intPart·10^4 + tt` iff that fits in `int64`, and an error otherwise -/
theorem C12_newDecimal_bounds_exact (i tt : Int) (ht : -9999 ≤ tt ∧ tt ≤ 9999)
    (hs : (0 ≤ i ∧ 0 ≤ tt) ∨ (i ≤ 0 ∧ tt ≤ 0)) :
    newDecimal i tt = if InI64 (i * 10000 + tt) then .ok (i * 10000 + tt) else .error .extDecimal :=
  newDecimal_exact i tt ht hs

example : newDecimal 922337203685477 5807 = .ok maxI64 ∧ newDecimal 922337203685477 5808 = .error .extDecimal :=
  ⟨by rfl, by rfl⟩

/-- canonical literals parse exactly: for digit strings `I`, `F` with `|F| ≤ 4`, `ParseDecimal("-"? I "." F)` is
    `newDecimal (±I) (±F·10^(4-|F|))`, i.e. (previous theorem) the mathematically exact value or an error -/
theorem C12_decimal_parse_canonical (neg : Bool) (I F : List Char) (hI : allDigits I = true) (hF : allDigits F = true)
    (hIv : (digitsVal I : Int) ≤ maxI64) (hFl : F.length ≤ 4) :
    parseDecimalL ((if neg then ['-'] else []) ++ (I ++ '.' :: F)) =
      newDecimal (if neg then -(digitsVal I : Int) else digitsVal I)
        (if neg then -((digitsVal F * 10 ^ (4 - F.length) : Nat) : Int)
         else ((digitsVal F * 10 ^ (4 - F.length) : Nat) : Int)) :=
  parseDecimalL_canon neg I F hI hF hIv hFl

example : parseDecimal "-12.5" = .ok (-125000) := by rfl

/-- `parseDecimal s = .ok d ↔ s ∈ L(-?[0-9]+\.[0-9]{1,4}) ∧ val s = d ∧ InI64 d`:
  the accepted strings are EXACTLY `-`? digits `.` 1–4 digits (`DecimalSyntax`: sign ∈ {ε, `-`}) whose exact value (in
  ten-thousandths) fits in `int64`, and the result is that exact value — the documented syntax and range, nothing
  else, never a wrapped or truncated value. -/
theorem C12_decimal_parse_exact (s : String) (d : Int) :
    parseDecimal s = .ok d ↔ ∃ sg I F, DecimalSyntax s.toList sg I F ∧ d = decimalValue sg I F ∧ InI64 d :=
  parseDecimalL_ok_iff s.toList d

example : DecimalSyntax "-12.5".toList ['-'] ['1', '2'] ['5'] ∧ decimalValue ['-'] ['1', '2'] ['5'] = -125000 :=
  ⟨⟨by simp, by decide, by decide, by decide, by decide⟩, by decide⟩

/-- whatever `ParseDecimal` accepts is in range -/
theorem C12_decimal_parse_in_range (s : String) (d : Int) (h : parseDecimal s = .ok d) : InI64 d :=
  parseDecimalL_ok_inI64 h

/-- a leading `+` (which `strconv.ParseInt` alone would accept) is rejected, whatever follows -/
theorem C12_decimal_plus_rejected (s : String) (h : s.toList.head? = some '+') : parseDecimal s = .error .extDecimal := by
  unfold parseDecimal
  cases hs : s.toList with
  | nil => rw [hs] at h; cases h
  | cons c rest =>
    rw [hs] at h
    simp only [List.head?_cons, Option.some.injEq] at h
    subst h
    exact parseDecimalL_plus rest

-- regression (was `C12_decimal_plus_counterexample : parseDecimal "+1.5" = .ok 15000`)
example : parseDecimal "+1.5" = .error .extDecimal ∧ parseDecimal "1.5" = .ok 15000 := ⟨by rfl, by rfl⟩

/-- DESIGN `newDecimal_exact`, full strength: for every `int64` mantissa and every admissible exponent,
  `NewDecimal i e` is the mathematically exact value `i·10^(e+4)` (raw ten-thousandths) when that fits in `int64`,
  and an error otherwise — never a wrapped value (the guard `i > MaxInt64/10^e`, `i < MinInt64/10^e` is exact). -/
theorem C12_newDecimal_exact (i e : Int) (hi : InI64 i) (he : -4 ≤ e ∧ e ≤ 14) :
    newDecimalExp i e =
      if InI64 (i * 10 ^ (e + 4).toNat) then .ok (i * 10 ^ (e + 4).toNat) else .error .extDecimal := by
  by_cases h0 : e ≤ 0
  · exact newDecimalExp_nonpos i hi e ⟨he.1, h0⟩
  · exact newDecimalExp_pos i hi e ⟨by omega, he.2⟩

example : InI64 15 ∧ newDecimalExp 15 (-1) = .ok 15000 ∧ newDecimalExp (-922337203685478) 0 = .error .extDecimal :=
  ⟨by decide, by rfl, by rfl⟩

-- regression (was `C12_newDecimal_counterexample`: `NewDecimal(184468, 14)` wrapped to 55926290448384.0)
example : InI64 184468 ∧ ¬ InI64 (184468 * 10 ^ ((14 : Int) + 4).toNat) ∧ newDecimalExp 184468 14 = .error .extDecimal ∧
    newDecimalExp 9 14 = .ok 9000000000000000000 ∧ newDecimalExp (-184468) 14 = .error .extDecimal :=
  ⟨by decide, by decide, by rfl, by rfl, by rfl⟩

/-- exponents outside [-4, 14] are rejected -/
theorem C12_newDecimal_exponent_range (i e : Int) (he : e < -4 ∨ 14 < e) : newDecimalExp i e = .error .extDecimal := by
  unfold newDecimalExp
  rw [if_pos (by simp; omega)]

/-! ## duration -/

/-- every duration value — all 2^64 millisecond counts, MinInt64 included — prints to a string that parses back to
    the same value -/
theorem C12_duration_roundtrip (d : Int) (h : InI64 d) : parseDuration (printDuration d) = .ok d := by
  simp only [parseDuration, printDuration, String.toList_ofList]
  exact parseDurationL_printDurationL d h

example : InI64 (-90061001) ∧ printDuration (-90061001) = "-1d1h1m1s1ms" := ⟨by decide, by rfl⟩

-- regression (was `C12_duration_min_counterexample`: MinInt64 printed as "-"; and
-- `C12_duration_min_literal_counterexample`: the in-range literal "-9223372036854775808ms" was rejected)
example : InI64 minI64 ∧ printDuration minI64 = "-106751991167d7h12m55s808ms" ∧
    parseDuration (printDuration minI64) = .ok minI64 ∧
    parseDuration "-9223372036854775808ms" = .ok minI64 ∧
    parseDuration "-9223372036854775809ms" = .error .extDuration ∧
    parseDuration "9223372036854775808ms" = .error .extDuration ∧
    parseDuration "9223372036854775807ms" = .ok maxI64 :=
  ⟨by decide, by rfl, by decide +kernel, by decide +kernel, by decide +kernel, by decide +kernel, by decide +kernel⟩

/--
  FULL STATEMENT (DESIGN `duration_parse_exact`): accepted ↔ units in order d,h,m,s,ms each at most once, total in range.
  Proved part: whatever `ParseDuration` accepts has an in-range value — every overflow guard of the loop is sound for its
  limit (2^63 after a `-`, 2^63−1 otherwise), so no quantity, product or running total ever wraps.  Missing: the
  converse (every in-order literal whose total is in range is accepted); it holds on every printed form
  (`C12_duration_roundtrip`) and is otherwise checked by the specification oracle of the harness. -/
theorem C12_duration_parse_exact_partial (s : String) (d : Int) (h : parseDuration s = .ok d) : InI64 d :=
  parseDurationL_ok_inI64 h

example : parseDuration "1d2h3m4s5ms" = .ok 93784005 := by decide +kernel

/-! ## calendar -/

/-- `civilFromDays` and `daysFromCivil` are mutually inverse on all of ℤ / all valid proleptic-Gregorian dates
    (all leap days, year boundaries, negative and expanded years) -/
theorem C12_civil_days_inverse :
    (∀ (y : Int) (m d : Nat), 1 ≤ m ∧ m ≤ 12 ∧ 1 ≤ d ∧ d ≤ daysInMonth y m → civilFromDays (daysFromCivil y m d) = (y, m, d)) ∧
    (∀ z : Int, daysFromCivil (civilFromDays z).1 (civilFromDays z).2.1 (civilFromDays z).2.2 = z ∧
      1 ≤ (civilFromDays z).2.1 ∧ (civilFromDays z).2.1 ≤ 12 ∧ 1 ≤ (civilFromDays z).2.2 ∧
      (civilFromDays z).2.2 ≤ daysInMonth (civilFromDays z).1 (civilFromDays z).2.1) :=
  ⟨fun y m d h => civilFromDays_daysFromCivil y m d h,
   fun z => ⟨daysFromCivil_civilFromDays z, civilFromDays_valid z⟩⟩

example : civilFromDays (daysFromCivil 2024 2 29) = (2024, 2, 29) ∧ daysFromCivil 1970 1 1 = 0 ∧
    civilFromDays (-106751991168) = (-292275055, 5, 16) := ⟨by rfl, by rfl, by rfl⟩

/-! ## datetime -/

/-- for every `int64` instant, parsing its printed form gives back the instant exactly when it passes the range
    test `ParseDatetime` applies (with the Go source's `minDatetime`/`maxDatetime` constants), an error otherwise -/
theorem C12_datetime_print_parse (t : Int) (h : InI64 t) :
    parseDatetime (printDatetime t) =
      if t < minDatetimeMs || t > maxDatetimeMs then .error .extDatetime else .ok t := by
  simp only [parseDatetime, printDatetime, String.toList_ofList]
  exact parseDatetimeL_printDatetimeL t h

/--
  FULL STATEMENT (false for the code): `InI64 t → parseDatetime (printDatetime t) = .ok t`.
  Proved part: every instant from `minDatetime` (the constant in types/datetime.go, one day after MinInt64) on. -/
theorem C12_datetime_roundtrip_partial (t : Int) (h1 : minDatetimeMs ≤ t) (h2 : t ≤ maxI64) :
    parseDatetime (printDatetime t) = .ok t := by
  have hmin := minDatetimeMs_eq
  have hI : InI64 t := by unfold InI64; unfold minI64 at *; omega
  rw [C12_datetime_print_parse t hI, maxDatetimeMs_eq]
  rw [if_neg (by simp; omega)]

example : minDatetimeMs ≤ (0 : Int) ∧ (0 : Int) ≤ maxI64 ∧ printDatetime 0 = "1970-01-01T00:00:00.000Z" ∧
    printDatetime maxI64 = "+292278994-08-17T07:12:55.807Z" := ⟨by decide, by decide, by rfl, by rfl⟩

/-- the whole first day of the representable range (86 400 000 instants) prints to text that does not parse -/
theorem C12_datetime_first_day_unparseable (t : Int) (h1 : minI64 ≤ t) (h2 : t < minI64 + 86400000) :
    parseDatetime (printDatetime t) = .error .extDatetime := by
  have hI : InI64 t := by unfold InI64; unfold minI64 maxI64 at *; omega
  rw [C12_datetime_print_parse t hI, minDatetimeMs_eq]
  rw [if_pos (by simp; omega)]

/-- MinInt64 prints as `-292275055-05-16T16:47:04.192Z`, which `ParseDatetime` rejects: the constant `minDatetime`
    names 05-17 -/
theorem C12_datetime_min_counterexample :
    ∃ t : Int, InI64 t ∧ printDatetime t = "-292275055-05-16T16:47:04.192Z" ∧
      parseDatetime (printDatetime t) = .error .extDatetime :=
  ⟨minI64, by decide, by rfl, C12_datetime_first_day_unparseable minI64 (by decide) (by decide)⟩

/-- every canonical date-time literal — four-digit or signed nine-digit year, any valid calendar day, with or without
    milliseconds, `Z` or ANY offset `±hhmm` (hh ≤ 23, mm ≤ 59) — parses to the mathematically exact instant
    `days·86400000 + hh·3600000 + mm·60000 + ss·1000 + ms − offset`, or is rejected exactly by the range test -/
theorem C12_datetime_parse_canonical (expanded : Bool) (y : Int) (m d hh mi ss : Nat) (ml : Option Nat)
    (tz : Option (Bool × Nat × Nat))
    (hy : if expanded then y.natAbs ≤ 999999999 else 0 ≤ y ∧ y ≤ 9999)
    (hv : 1 ≤ m ∧ m ≤ 12 ∧ 1 ≤ d ∧ d ≤ daysInMonth y m)
    (h1 : hh ≤ 23) (h2 : mi ≤ 59) (h3 : ss ≤ 59) (h4 : ∀ v, ml = some v → v ≤ 999)
    (h5 : ∀ neg oh om, tz = some (neg, oh, om) → oh ≤ 23 ∧ om ≤ 59) :
    parseDatetimeL (yearText expanded y ++ ('-' :: (padL 2 m ++ ('-' :: (padL 2 d ++ ('T' ::
      (padL 2 hh ++ (':' :: (padL 2 mi ++ (':' :: (padL 2 ss ++ (msText ml ++ tzText tz)))))))))))) =
      (let t := daysFromCivil y m d * 86400000 + (hh : Int) * 3600000 + (mi : Int) * 60000 + (ss : Int) * 1000 +
          ((ml.getD 0 : Nat) : Int) - tzMillis tz;
       if t < minDatetimeMs || t > maxDatetimeMs then .error .extDatetime else .ok t) :=
  parseDatetimeL_canon expanded y m d hh mi ss ml tz hy hv h1 h2 h3 h4 h5

example : yearText false 2024 ++ ('-' :: (padL 2 1 ++ ('-' :: (padL 2 1 ++ ('T' :: (padL 2 12 ++ (':' :: (padL 2 34 ++ (':' :: (padL 2 56 ++ (msText none ++ tzText (some (false, 1, 30))))))))))))) =
    "2024-01-01T12:34:56+0130".toList ∧
    parseDatetime "2024-01-01T12:34:56+0130" = .ok 1704107096000 := ⟨by rfl, by decide +kernel⟩

/-- every date-only literal (both year formats, any valid calendar day) gives the mathematically exact midnight
    `days·86400000` when that fits in `int64` milliseconds and is rejected otherwise — the exact range, never a
    wrapped value -/
theorem C12_datetime_parse_dateonly (expanded : Bool) (y : Int) (m d : Nat)
    (hy : if expanded then y.natAbs ≤ 999999999 else 0 ≤ y ∧ y ≤ 9999)
    (hv : 1 ≤ m ∧ m ≤ 12 ∧ 1 ≤ d ∧ d ≤ daysInMonth y m) :
    parseDatetimeL (yearText expanded y ++ ('-' :: (padL 2 m ++ ('-' :: (padL 2 d ++ []))))) =
      if InI64 (daysFromCivil y m d * 86400000) then .ok (daysFromCivil y m d * 86400000) else .error .extDatetime :=
  parseDatetimeL_dateonly expanded y m d hy hv

-- regression (was `C12_datetime_dateonly_counterexample`: `+999999999-12-31` was accepted with a wrapped value);
-- the first and last midnights of the range still parse
example : ¬ InI64 (daysFromCivil 999999999 12 31 * 86400000) ∧
    parseDatetime "+999999999-12-31" = .error .extDatetime ∧
    parseDatetime "-292275055-05-16" = .error .extDatetime ∧
    parseDatetime "+292278994-08-18" = .error .extDatetime ∧
    parseDatetime "-292275055-05-17" = .ok (-9223372036828800000) ∧
    parseDatetime "+292278994-08-17" = .ok 9223372036828800000 :=
  ⟨by decide, by decide +kernel, by decide +kernel, by decide +kernel, by decide +kernel, by decide +kernel⟩

/-! ## ip -/

/--
  FULL STATEMENT (false for the code): `parseIP (printIP n) = .ok n` for every address / prefix value.
  Proved part: every IPv4 address and every IPv4 prefix (all 2^32 addresses × prefix lengths 0–32), relative to the
  model's transcription of `netip.ParseAddr` / `ParsePrefix` / `Addr.String` (tied to Go by the ops parse-ip / print-ip).
  IPv6: see `C12_ip_roundtrip_v6_partial` (every address / prefix that is not IPv4-mapped) and `C12_ip_roundtrip_iff`;
  it FAILS for IPv4-mapped addresses: `C12_ip_4in6_counterexample`, `C12_ip_4in6_unparseable`. -/
theorem C12_ip_roundtrip_partial (a bits : Nat) (ha : a < 2 ^ 32) (hb : bits ≤ 32) :
    parseIP (printIP ⟨false, a, bits⟩) = .ok ⟨false, a, bits⟩ := by
  simp only [parseIP, printIP, String.toList_ofList]
  exact parseIPL_printIPL_v4 a bits (by omega) hb

example : printIP ⟨false, 167772160, 8⟩ = "10.0.0.0/8" ∧ printIP ⟨false, 2130706433, 32⟩ = "127.0.0.1" := ⟨by rfl, by rfl⟩

/-- **IPv6**: every IPv6 address and every IPv6 prefix (all 2^128 addresses except the IPv4-mapped block
    ::ffff:0:0/96, prefix lengths 0–128) prints — lower-case hex groups without leading zeros, the leftmost longest run
    of ≥ 2 zero groups compressed to `::` (`appendTo6`) — to text that `ParseIPAddr` reads back to the same value. -/
theorem C12_ip_roundtrip_v6_partial (a bits : Nat) (ha : a < 2 ^ 128) (h4 : a / 2 ^ 32 ≠ 0xffff) (hb : bits ≤ 128) :
    parseIP (printIP ⟨true, a, bits⟩) = .ok ⟨true, a, bits⟩ := by
  simp only [parseIP, printIP, String.toList_ofList]
  exact parseIPL_printIPL_v6 a bits ha (by simpa using h4) hb

example : printIP ⟨true, 0x20010db8000000000000000000000001, 128⟩ = "2001:db8::1" ∧ printIP ⟨true, 0, 128⟩ = "::" ∧
    printIP ⟨true, 0xfe800000000000000000000000000000, 10⟩ = "fe80::/10" ∧
    printIP ⟨true, 0x00010000000000020000000000000003, 128⟩ = "1:0:0:2::3" ∧
    printIP ⟨true, 0x00010000000000020000000000030004, 128⟩ = "1::2:0:0:3:4" ∧
    printIP ⟨true, 0x00010002000300040005000600070008, 64⟩ = "1:2:3:4:5:6:7:8/64" :=
  ⟨by rfl, by rfl, by rfl, by rfl, by rfl, by rfl⟩

/-- the whole IPv4-mapped block fails: every ::ffff:a.b.c.d (with any prefix length) prints in mixed notation, which
    `ParseIPAddr` refuses (two `:` and two `.`) -/
theorem C12_ip_4in6_unparseable (a bits : Nat) (h4 : a / 2 ^ 32 = 0xffff) :
    parseIP (printIP ⟨true, a, bits⟩) = .error .extIP := by
  simp only [parseIP, printIP, String.toList_ofList]
  exact parseIPL_printIPL_4in6 a bits (by simpa using h4)

/-- a value `netip` can hold: 32-bit address with prefix ≤ 32, or 128-bit address with prefix ≤ 128 -/
def IPNet.Valid (n : IPNet) : Prop := if n.v6 then n.addr < 2 ^ 128 ∧ n.bits ≤ 128 else n.addr < 2 ^ 32 ∧ n.bits ≤ 32
/-- `Addr.Is4In6` -/
def IPNet.Is4In6 (n : IPNet) : Prop := n.v6 = true ∧ n.addr / 2 ^ 32 = 0xffff
instance (n : IPNet) : Decidable n.Valid := by unfold IPNet.Valid; infer_instance
instance (n : IPNet) : Decidable n.Is4In6 := by unfold IPNet.Is4In6; infer_instance

/-- **exact domain of the ip round trip** (relative to the model's transcription of net/netip): a valid address / prefix
    value round-trips through its text form iff it is not IPv4-mapped -/
theorem C12_ip_roundtrip_iff (n : IPNet) (hv : n.Valid) : parseIP (printIP n) = .ok n ↔ ¬ n.Is4In6 := by
  obtain ⟨v6, a, bits⟩ := n
  cases v6 with
  | false =>
    simp only [IPNet.Valid, Bool.false_eq_true, if_false] at hv
    simp only [IPNet.Is4In6, Bool.false_eq_true, false_and, not_false_eq_true, iff_true]
    exact C12_ip_roundtrip_partial a bits hv.1 hv.2
  | true =>
    simp only [IPNet.Valid, if_true] at hv
    simp only [IPNet.Is4In6, true_and]
    constructor
    · intro h h4
      rw [C12_ip_4in6_unparseable a bits h4] at h
      cases h
    · intro h4
      exact C12_ip_roundtrip_v6_partial a bits hv.1 h4 hv.2

example : (⟨true, 1, 128⟩ : IPNet).Valid ∧ ¬ (⟨true, 1, 128⟩ : IPNet).Is4In6 ∧ (⟨true, 0xffff01020304, 128⟩ : IPNet).Is4In6 := by
  decide

-- regression (class `ip-zone-accepted`): IPv6 zone identifiers are rejected, alone or with a prefix length
example : parseIP "fe80::1%eth0" = .error .extIP ∧ parseIP "fe80::1%eth0/64" = .error .extIP ∧
    parseIP "::1%1" = .error .extIP ∧ parseIP "fe80::1" = .ok ⟨true, 0xfe800000000000000000000000000001, 128⟩ :=
  ⟨by decide +kernel, by decide +kernel, by decide +kernel, by decide +kernel⟩

/-- an IPv4-mapped IPv6 address (parseable as `::ffff:102:304`) prints in dotted form, which `ParseIPAddr` rejects -/
theorem C12_ip_4in6_counterexample :
    parseIP "::ffff:102:304" = .ok ⟨true, 0xffff01020304, 128⟩ ∧
    printIP ⟨true, 0xffff01020304, 128⟩ = "::ffff:1.2.3.4" ∧
    parseIP (printIP ⟨true, 0xffff01020304, 128⟩) = .error .extIP :=
  ⟨by decide +kernel, by rfl, by decide +kernel⟩

end CedarGo
