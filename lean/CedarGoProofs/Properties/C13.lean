/-
  C13 — Entity, value and request JSON round-trip without loss (JSON-tree level).

  Model: CedarGo/Model/Json/Value.lean (`encodeValue`, `decodeValue`, typed-position decoders, entity /
  request codecs), tied to `types/json.go` etc. by the correspondence ops vjson-encode / vjson-decode /
  uid-decode / ext-decode / ejson-* / rjson-* on generated and near-miss documents.

  FULL STATEMENT (not a theorem, the code violates it):
      ∀ v, ∃ v', decodeValue (encodeValue v) = .ok v' ∧ v'.beq v
  It fails (a) for records with a reserved key (`C13_reserved_key_counterexample`, known finding
  record-reserved-key) and (b) for extension values whose TEXT form does not parse back
  (`C13_ip_v4mapped_counterexample`, `C13_datetime_first_day_counterexample`: root causes in C12's territory;
  `Duration(MinInt64)`, formerly a third case, has been repaired in cedar-go and now round-trips).
  The proved `_partial` theorems restrict to `v.NoReservedKeys` and `v.WF`; `WF` asks for: longs in int64
  range, sets duplicate-free and records key-sorted (what `NewSet` / `NewRecord` build), and for each extension
  leaf that `parse (print x) = x` — so the JSON layer itself is shown to add no loss.

  LEAF HYPOTHESES DISCHARGED FROM C12 (last section, `…_inrange`): `WF` is implied by two purely structural,
  decidable predicates — `Value.Canonical` (sets duplicate-free, records key-sorted: the container part of `WF`
  verbatim) and `Value.InRange` (every long / decimal / duration in int64 range, every datetime in
  [minDatetime, MaxInt64 ms], every ip a valid IPv4 or IPv6 address / prefix that is not IPv4-mapped) — via
  `C12_decimal_roundtrip`, `C12_duration_roundtrip`, `C12_datetime_roundtrip_partial`, `C12_ip_roundtrip_iff`
  (= `C12_ip_roundtrip_partial` for IPv4 + `C12_ip_roundtrip_v6_partial` for IPv6) and `printIPNet_eq` (the JSON model's
  own `IPAddr.String` transcription equals the scalar model's).  The `_inrange` corollaries of the round-trip theorems
  therefore carry NO parse∘print hypothesis.  Outside `InRange` remain exactly the two open defects of cedar-go, and
  there the round trip provably FAILS (`C13_leaf_outside_range_rejected`):
    * datetimes in the first day of the int64 range, [MinInt64, MinInt64 + 86 400 000) ms
      (`C12_datetime_first_day_unparseable`, `C13_datetime_first_day_counterexample`);
    * IPv4-mapped IPv6 addresses ::ffff:a.b.c.d with any prefix length (`C12_ip_4in6_unparseable`,
      `C13_ip_v4mapped_counterexample`).
  (Values no Go value can be — longs / decimals / durations outside int64, ip values wider than their family — are
  outside too; they are not values of the Go types.)

  SECOND ROUND (sections at the end of the file; models CedarGo/Model/Json/{EntityMap,Diagnostic,Coerce}.lean, ops
  emjson-encode / emjson-reencode / diagjson-encode / diagjson-decode / decision-encode / decision-decode / jstr-token /
  coerce-nested / coerce-entity):
    * ENTITY MAPS, full strength on the entity fragment: `C13_entitymap_json_roundtrip`, `_stable`, `_encoding_sorted`
      (strictly increasing `UID.String()`), `_encoding_order_independent`, `C13_uidString_injective`.  The decoder, for EVERY
      array document: `C13_entitymap_decode_exact` / `_ok_iff` (accepted iff every member decodes and no UID is named twice;
      the map lists exactly the decoded members), `_entries`, `_isMap`, `_rejects_repeated_uid`,
      `C13_entitymap_decode_rejects_duplicates` (any listing of entities with a repeated UID is refused, any listing without
      one decodes to itself), `_injective`.  (Until the repair `fix: EntityMap.UnmarshalJSON rejects a repeated entity UID`
      the last entry of a UID replaced the earlier ones silently: finding entitymap-duplicate-uid-last-wins, now fixed; its
      witness is a regression `example`.)
    * DIAGNOSTIC, full strength: `C13_diagnostic_json_roundtrip` (every field is encoded; equality up to nil-vs-empty
      slices, the one thing `omitempty` drops: `C13_diagnostic_empty_slice_counterexample`), `_stable`.
    * DECISION, full strength, on the TEXT of the JSON value: `C13_decision_decode_exact` (decodes to `d` iff the text is a
      string token that denotes the name of `d`, however it is spelled), `_noop_iff` (`null` and nothing else leaves the
      receiver alone), `_rejects_iff` + `_cases` (everything else is an error, there is no further outcome),
      `C13_decision_spellings_agree`, `_decode_into_receiver`, `C13_decision_json_roundtrip`.  (Until the repair
      `fix: Decision.UnmarshalJSON decodes the string, rejects non-decisions` the decoder compared raw bytes and never failed:
      findings decision-unknown-accepted, decision-escaped-spelling, now fixed; their witnesses are regression `example`s.)
    * NESTED COERCION, full strength on the value fragment: `C13_coercion_nested_spellings_agree` (every schema type, every
      mix of explicit / implicit spellings at any depth), `_two_spellings`, `_explicit_is_spelling`, `_spellings_injective`,
      `C13_coercion_entity_spellings_agree` (attributes by shape, tags by tag type).
-/
import CedarGoProofs.Lemmas.C13Leaves
import CedarGoProofs.Lemmas.C14SetOrder
import CedarGoProofs.Lemmas.C13EntityMapSort
import CedarGoProofs.Lemmas.C13Diag
import CedarGoProofs.Lemmas.C13CoerceWF
namespace CedarGo
open JsonModel Scalars

/-- no record inside `v` has a key that (case-insensitively) is `__entity` or `__extn` -/
def Value.NoReservedKeys (v : Value) : Prop := vNoReserved v = true
/-- see the file header -/
def Value.WF (v : Value) : Prop := vWF v = true
instance (v : Value) : Decidable v.NoReservedKeys := by unfold Value.NoReservedKeys; infer_instance
instance (v : Value) : Decidable v.WF := by unfold Value.WF; infer_instance

/-- **Round trip** (partial: fragment `NoReservedKeys ∧ WF`): decoding the encoding succeeds with an equal value. -/
theorem C13_value_json_roundtrip_partial (v : Value) (hr : v.NoReservedKeys) (hw : v.WF) :
    ∃ v', decodeValue (encodeValue v) = .ok v' ∧ v'.beq v = true :=
  ⟨v, decodeValue_encodeValue v hw hr, beq_refl v⟩

/-- on that fragment the decoded value is even structurally identical (same member order, same key order) -/
theorem C13_value_json_roundtrip_exact_partial (v : Value) (hr : v.NoReservedKeys) (hw : v.WF) :
    decodeValue (encodeValue v) = .ok v :=
  decodeValue_encodeValue v hw hr

/-- **Stability**: the second encoding equals the first.  This is the tree-level statement; what the tree model does
    not see is the ORDER in which Go writes the members of a set — see `C13_set_member_order_stable` below (the known
    finding set-hash-collision-order, now fixed).  `_partial` because of the hypotheses `NoReservedKeys` / `WF` (open
    findings record-reserved-key, datetime-first-day, ip-v4-mapped-ipv6), not because of the member order. -/
theorem C13_value_json_stable_partial (v v' : Value) (hr : v.NoReservedKeys) (hw : v.WF)
    (h : decodeValue (encodeValue v) = .ok v') : encodeValue v' = encodeValue v := by
  rw [decodeValue_encodeValue v hw hr] at h
  cases h; rfl

/-- **Stability of the member order of a set** (the part of the byte-level statement the tree model leaves out).
    `Set.MarshalJSON` writes the members in the order `marshalSetMembers` (slots in probing order, `Set.orderedSlots`);
    `Set.UnmarshalJSON` gives the decoded members, in the order of the array, to `NewSet` (`buildTable`).  The table built
    from the members in marshalling order holds every member in its old slot, so the second `Marshal` writes the members
    in the same order as the first — for every member list, every hash respecting equality (the real one included), every
    collision pattern, wrap-around at slot 2^64-1 included.
    (Known finding set-hash-collision-order, fixed: with ascending slot order `NewSet(decimal("-0.0001"), -1)` — both hash
    to 2^64-1 — flipped its two members on every round trip; regression examples in Properties/C14.lean.) -/
theorem C13_set_member_order_stable (hash : Value → UInt64) (hr : C11.HashRespectsEq hash) (members : List Value)
    (hl : members.length < 18446744073709551616) :
    (buildTable hash (marshalSetMembers hash (buildTable hash members))).Perm (buildTable hash members) ∧
    marshalSetMembers hash (buildTable hash (marshalSetMembers hash (buildTable hash members))) =
      marshalSetMembers hash (buildTable hash members) := by
  have inv := (C11.foldl_insertV_spec hr members [] (C11.inv_nil hash) (by simpa using hl)).1
  exact ⟨(SetOrder.rebuild inv).2, SetOrder.marshal_stable inv⟩

example : (marshalSetMembers goHash (buildTable goHash [.decimal (-1), .long (-1)]) == [.decimal (-1), .long (-1)]) = true := by
  decide +kernel

example : (Value.record [("a", .set [.long 1, .str "x", .entity "T" "i"]), ("b", .decimal 15000), ("c", .ip ⟨false, 167772161, 8⟩),
    ("d", .duration 3600001), ("e", .datetime 1700000000000)]).WF := by decide +kernel
example : (Value.record [("a", .set [.long 1, .str "x"]), ("type", .str "T")]).NoReservedKeys := by decide +kernel

/-- **Reserved keys**: a well-formed record whose encoding IS the entity escape decodes to an entity. -/
theorem C13_reserved_key_counterexample :
    ∃ v : Value, v.WF ∧ ∃ v', decodeValue (encodeValue v) = .ok v' ∧ v'.beq v = false :=
  ⟨.record [("__entity", .record [("id", .str "b"), ("type", .str "A")])], by decide +kernel,
   .entity "A" "b", isOkEntity_eq (by decide +kernel), by decide +kernel⟩

/-- … and one whose encoding is an `__extn` escape with an unknown function is rejected outright
    (also for the upper-case spelling of the key: field matching is case-insensitive). -/
theorem C13_reserved_key_rejected_counterexample :
    ∃ v : Value, v.WF ∧ decodeValue (encodeValue v) = .error .reject :=
  ⟨.record [("__EXTN", .record [("fn", .str "nosuch")])], by decide +kernel, isReject_eq (by decide +kernel)⟩

-- regression (was `C13_duration_min_counterexample`: `Duration(MinInt64)` printed as "-" and was rejected by its own
-- decoder): the value is well-formed and round-trips like every other duration
example : (Value.duration minI64).NoReservedKeys ∧ (Value.duration minI64).WF ∧
    decodeValue (encodeValue (.duration minI64)) = .ok (.duration minI64) :=
  ⟨by decide +kernel, by decide +kernel, decodeValue_encodeValue _ (by decide +kernel) (by decide +kernel)⟩

/-- the IPv4-mapped IPv6 address ::ffff:1.2.3.4 prints in dotted form, which `ParseIPAddr` refuses. -/
theorem C13_ip_v4mapped_counterexample :
    ∃ v : Value, v.NoReservedKeys ∧ decodeValue (encodeValue v) = .error .reject :=
  ⟨.ip ⟨true, 0xffff01020304, 128⟩, by decide +kernel, isReject_eq (by decide +kernel)⟩

/-- a `Datetime` in the first representable day prints a timestamp its own decoder calls out of range. -/
theorem C13_datetime_first_day_counterexample :
    ∃ v : Value, v.NoReservedKeys ∧ decodeValue (encodeValue v) = .error .reject :=
  ⟨.datetime minI64, by decide +kernel, isReject_eq (by decide +kernel)⟩

/-! ### Entities and requests -/

theorem C13_spellings_agree_uid_aux (t i : String) : decodeUID (encodeValue (.entity t i)) = .ok (t, i) := by
  have h2 : keyMatches "__entity" "__entity" = true := by decide +kernel
  have h3 : keyMatches "__entity" "type" = false := by decide +kernel
  have h4 : keyMatches "__entity" "id" = false := by decide +kernel
  have h5 : keyMatches "id" "type" = false := by decide +kernel
  have h6 : keyMatches "type" "type" = true := by decide +kernel
  have h7 : keyMatches "id" "id" = true := by decide +kernel
  have h8 : keyMatches "type" "id" = false := by decide +kernel
  simp [decodeUID, encodeValue, findField, List.filter, optStrField, strField, h2, h3, h4, h5, h6, h7, h8, bind, Except.bind]

/-- well-formed entity data: parents as `Entity.MarshalJSON` emits them (sorted, duplicate-free), attribute and
    tag records well-formed without reserved keys -/
def EntityData.WFJson (d : EntityData) : Prop :=
  sortUIDs d.parents = d.parents ∧ recordWF d.attrs = true ∧ recordWF d.tags = true

theorem C13_entity_json_roundtrip_partial (uid : UID) (d : EntityData) (h : d.WFJson) :
    decodeEntity (encodeEntity (uid, d)) = .ok (uid, d) := by
  obtain ⟨hp, ha, ht⟩ := h
  have k1 : keyMatches "attrs" "uid" = false := by decide +kernel
  have k2 : keyMatches "parents" "uid" = false := by decide +kernel
  have k3 : keyMatches "tags" "uid" = false := by decide +kernel
  have k4 : keyMatches "uid" "uid" = true := by decide +kernel
  have k5 : keyMatches "attrs" "parents" = false := by decide +kernel
  have k6 : keyMatches "parents" "parents" = true := by decide +kernel
  have k7 : keyMatches "tags" "parents" = false := by decide +kernel
  have k8 : keyMatches "uid" "parents" = false := by decide +kernel
  have k9 : keyMatches "attrs" "attrs" = true := by decide +kernel
  have k10 : keyMatches "parents" "attrs" = false := by decide +kernel
  have k11 : keyMatches "tags" "attrs" = false := by decide +kernel
  have k12 : keyMatches "uid" "attrs" = false := by decide +kernel
  have k13 : keyMatches "attrs" "tags" = false := by decide +kernel
  have k14 : keyMatches "parents" "tags" = false := by decide +kernel
  have k15 : keyMatches "tags" "tags" = true := by decide +kernel
  have k16 : keyMatches "uid" "tags" = false := by decide +kernel
  have f1 : ∀ (a p t u : J), findField [("attrs", a), ("parents", p), ("tags", t), ("uid", u)] "uid" = .one u := by
    intros; simp [findField, List.filter, k1, k2, k3, k4]
  have f2 : ∀ (a p t u : J), findField [("attrs", a), ("parents", p), ("tags", t), ("uid", u)] "parents" = .one p := by
    intros; simp [findField, List.filter, k5, k6, k7, k8]
  have f3 : ∀ (a p t u : J), findField [("attrs", a), ("parents", p), ("tags", t), ("uid", u)] "attrs" = .one a := by
    intros; simp [findField, List.filter, k9, k10, k11, k12]
  have f4 : ∀ (a p t u : J), findField [("attrs", a), ("parents", p), ("tags", t), ("uid", u)] "tags" = .one t := by
    intros; simp [findField, List.filter, k13, k14, k15, k16]
  simp only [decodeEntity, encodeEntity, decodeUIDField_of _ _ _ (f1 _ _ _ _), decodeRecordField_of _ _ _ (f3 _ _ _ _) ha,
    decodeRecordField_of _ _ _ (f4 _ _ _ _) ht, f2, decodeUID_implicit, mapMR_decodeUID, bind, Except.bind, hp]

example : (⟨[("Group", "a"), ("Group", "b")], [("n", .long 1)], []⟩ : EntityData).WFJson := by
  refine ⟨by decide +kernel, by decide +kernel, by decide +kernel⟩

def JsonModel.RequestM.WFJson (r : RequestM) : Prop := recordWF r.context = true

theorem C13_request_json_roundtrip_partial (r : RequestM) (h : r.WFJson) :
    decodeRequest (encodeRequest r) = .ok r := by
  obtain ⟨⟨pt, pi⟩, ⟨at_, ai⟩, ⟨rt, ri⟩, ctx⟩ := r
  replace h : recordWF ctx = true := h
  have k1 : keyMatches "action" "principal" = false := by decide +kernel
  have k2 : keyMatches "context" "principal" = false := by decide +kernel
  have k3 : keyMatches "principal" "principal" = true := by decide +kernel
  have k4 : keyMatches "resource" "principal" = false := by decide +kernel
  have k5 : keyMatches "action" "action" = true := by decide +kernel
  have k6 : keyMatches "context" "action" = false := by decide +kernel
  have k7 : keyMatches "principal" "action" = false := by decide +kernel
  have k8 : keyMatches "resource" "action" = false := by decide +kernel
  have k9 : keyMatches "action" "resource" = false := by decide +kernel
  have k10 : keyMatches "context" "resource" = false := by decide +kernel
  have k11 : keyMatches "principal" "resource" = false := by decide +kernel
  have k12 : keyMatches "resource" "resource" = true := by decide +kernel
  have k13 : keyMatches "action" "context" = false := by decide +kernel
  have k14 : keyMatches "context" "context" = true := by decide +kernel
  have k15 : keyMatches "principal" "context" = false := by decide +kernel
  have k16 : keyMatches "resource" "context" = false := by decide +kernel
  have f1 : ∀ (a c p u : J), findField [("action", a), ("context", c), ("principal", p), ("resource", u)] "principal" = .one p := by
    intros; simp [findField, List.filter, k1, k2, k3, k4]
  have f2 : ∀ (a c p u : J), findField [("action", a), ("context", c), ("principal", p), ("resource", u)] "action" = .one a := by
    intros; simp [findField, List.filter, k5, k6, k7, k8]
  have f3 : ∀ (a c p u : J), findField [("action", a), ("context", c), ("principal", p), ("resource", u)] "resource" = .one u := by
    intros; simp [findField, List.filter, k9, k10, k11, k12]
  have f4 : ∀ (a c p u : J), findField [("action", a), ("context", c), ("principal", p), ("resource", u)] "context" = .one c := by
    intros; simp [findField, List.filter, k13, k14, k15, k16]
  simp only [decodeRequest, encodeRequest, decodeUIDField_of _ _ _ (f1 _ _ _ _), decodeUIDField_of _ _ _ (f2 _ _ _ _),
    decodeUIDField_of _ _ _ (f3 _ _ _ _), decodeRecordField_of _ _ _ (f4 _ _ _ _) h, C13_spellings_agree_uid_aux, bind, Except.bind]

example : (⟨("User", "a"), ("Action", "x"), ("Doc", "d"), [("k", .set [.long 1])]⟩ : RequestM).WFJson := by
  unfold JsonModel.RequestM.WFJson; decide +kernel

/-! ### All accepted spellings of one datum decode alike -/

/-- explicit `{"__entity":{type,id}}` and implicit `{type,id}` in an `EntityUID` position, and the explicit form
    in a value position -/
theorem C13_spellings_agree_uid (t i : String) :
    decodeUID (encodeValue (.entity t i)) = .ok (t, i) ∧ decodeUID (implicitUID (t, i)) = .ok (t, i) ∧
    decodeValue (encodeValue (.entity t i)) = .ok (.entity t i) := by
  have h2 : keyMatches "__entity" "__entity" = true := by decide +kernel
  have h3 : keyMatches "__entity" "type" = false := by decide +kernel
  have h4 : keyMatches "__entity" "id" = false := by decide +kernel
  have h5 : keyMatches "id" "type" = false := by decide +kernel
  have h6 : keyMatches "type" "type" = true := by decide +kernel
  have h7 : keyMatches "id" "id" = true := by decide +kernel
  have h8 : keyMatches "type" "id" = false := by decide +kernel
  have h9 : keyMatches "id" "__entity" = false := by decide +kernel
  have h10 : keyMatches "type" "__entity" = false := by decide +kernel
  refine ⟨?_, ?_, decodeValue_encodeValue _ (by simp [vWF]) (by simp [vNoReserved])⟩
  · simp [decodeUID, encodeValue, findField, List.filter, optStrField, strField, h2, h3, h4, h5, h6, h7, h8, bind, Except.bind]
  · simp [decodeUID, implicitUID, findField, List.filter, optStrField, h5, h6, h7, h8, h9, h10, bind, Except.bind]

/-- the three spellings accepted in an extension-typed position give the same argument string, hence the same
    value: explicit `{"__extn":{fn,arg}}`, bare `{fn,arg}`, bare string -/
theorem C13_spellings_agree_extn (name arg : String) (hname : name ≠ "") :
    decodeExtArg name (extJ name arg) = .ok arg ∧
    decodeExtArg name (.obj [("arg", .str arg), ("fn", .str name)]) = .ok arg ∧
    decodeExtArg name (.str arg) = .ok arg := by
  have h1 : keyMatches "__extn" "__extn" = true := by decide +kernel
  have h2 : keyMatches "arg" "fn" = false := by decide +kernel
  have h3 : keyMatches "fn" "fn" = true := by decide +kernel
  have h4 : keyMatches "arg" "arg" = true := by decide +kernel
  have h5 : keyMatches "fn" "arg" = false := by decide +kernel
  have h6 : keyMatches "arg" "__extn" = false := by decide +kernel
  have h7 : keyMatches "fn" "__extn" = false := by decide +kernel
  refine ⟨?_, ?_, rfl⟩
  · simp [decodeExtArg, extJ, findField, List.filter, strField, h1, h2, h3, h4, h5, bind, Except.bind]
  · simp [decodeExtArg, findField, List.filter, strField, h2, h3, h4, h5, h6, h7, bind, Except.bind, hname]

/-- consequently the typed decoders agree with the value decoder on the explicit spelling -/
theorem C13_spellings_agree_decimal (d : Int) (h : (Value.decimal d).WF) :
    decodeDecimalTyped (encodeValue (.decimal d)) = .ok (.decimal d) ∧
    decodeDecimalTyped (.str (printDecimal d)) = .ok (.decimal d) ∧
    decodeValue (encodeValue (.decimal d)) = .ok (.decimal d) := by
  have hp : parseDecimal (printDecimal d) = .ok d := okEq_ok (by simpa [Value.WF, vWF] using h)
  have e := (C13_spellings_agree_extn "decimal" (printDecimal d) (by decide)).1
  refine ⟨?_, ?_, decodeValue_encodeValue _ h (by simp [vNoReserved])⟩
  · simp only [decodeDecimalTyped, encodeValue, e, bind, Except.bind, hp]; rfl
  · simp only [decodeDecimalTyped, decodeExtArg, bind, Except.bind, hp]; rfl

/-! ### schema-guided coercion of the implicit spellings (`x/exp/types`): leaf cases
(nested sets / records: direct oracle `UnmarshalJSONWithSchema` and correspondence op `coerce`) -/

/-- an implicit `{"type","id"}` decodes (unguided) as a record and is coerced to the entity in an entity-typed position -/
theorem C13_coerce_implicit_entity (t i ty : String) :
    (decodeValue (implicitUID (t, i))).map (coerceValue (.entity ty)) = .ok (.entity t i) := by
  have hlt : ("id" < "type") = True := by decide
  have e : implicitUID (t, i) = encodeValue (.record [("id", .str i), ("type", .str t)]) := by
    simp [implicitUID, encodeValue, encodeKVs]
  have k1 : keyMatches "id" "__extn" = false := by decide +kernel
  have k2 : keyMatches "id" "__entity" = false := by decide +kernel
  have k3 : keyMatches "type" "__extn" = false := by decide +kernel
  have k4 : keyMatches "type" "__entity" = false := by decide +kernel
  rw [e, decodeValue_encodeValue _ (by simp [vWF, wfJsonKV, keysSorted, hlt])
    (by simp [vNoReserved, noReservedKeysKV, reservedKey, k1, k2, k3, k4])]
  have n1 : ("type" == "id") = false := by decide
  simp [Except.map, coerceValue, coerceEntityUID, kvGet, n1]

/-- a bare string is coerced to the extension value it spells in an extension-typed position -/
theorem C13_coerce_implicit_decimal (d : Int) (h : (Value.decimal d).WF) :
    (decodeValue (.str (printDecimal d))).map (coerceValue (.ext "decimal")) = .ok (.decimal d) := by
  have hp : parseDecimal (printDecimal d) = .ok d := okEq_ok (by simpa [Value.WF, vWF] using h)
  have e : J.str (printDecimal d) = encodeValue (.str (printDecimal d)) := rfl
  have n1 : ("decimal" == "ipaddr") = false := by decide
  rw [e, decodeValue_encodeValue _ (by simp [vWF]) (by simp [vNoReserved])]
  simp [Except.map, coerceValue, coerceExtension, n1, hp]

theorem C13_coerce_implicit_ip (a : IPNet) (h : (Value.ip a).WF) :
    (decodeValue (.str (printIPNet a))).map (coerceValue (.ext "ipaddr")) = .ok (.ip a) := by
  have hp : parseIP (printIPNet a) = .ok a := okEqIP_ok (by simpa [Value.WF, vWF] using h)
  have e : J.str (printIPNet a) = encodeValue (.str (printIPNet a)) := rfl
  rw [e, decodeValue_encodeValue _ (by simp [vWF]) (by simp [vNoReserved])]
  simp [Except.map, coerceValue, coerceExtension, hp]

/-! ### Leaf hypotheses discharged from C12 (no parse∘print hypothesis left) -/

/-- containers as `NewSet` / `NewRecord` build them: every set inside `v` duplicate-free, every record listed by strictly
    increasing key (this is, verbatim, the container part of `WF`: `C13_canonical_of_wf`) -/
def Value.Canonical (v : Value) : Prop := vCanon v = true
/-- every scalar leaf of `v` lies in the range for which C12 proves `parse (print x) = x`: longs, decimals (raw
    ten-thousandths) and durations (ms) in int64 range; datetimes (ms) in [`minDatetimeMs`, MaxInt64]; ip values valid
    (IPv4: 32-bit address, prefix ≤ 32; IPv6: 128-bit address, prefix ≤ 128) and not IPv4-mapped (`IPNet.Valid`,
    `IPNet.Is4In6` of C12).  Purely structural — no parser or printer occurs in it. -/
def Value.InRange (v : Value) : Prop := vInRange v = true
instance (v : Value) : Decidable v.Canonical := by unfold Value.Canonical; infer_instance
instance (v : Value) : Decidable v.InRange := by unfold Value.InRange; infer_instance

/-- **C12 ⟹ the leaf part of `WF`**: a canonical value whose leaves are in range is well-formed. -/
theorem C13_wf_of_inRange (v : Value) (hc : v.Canonical) (hi : v.InRange) : v.WF := vWF_of_inRange v hc hi

/-- … and `Canonical` asks for nothing `WF` did not ask for. -/
theorem C13_canonical_of_wf (v : Value) (hw : v.WF) : v.Canonical := vCanon_of_vWF v hw

/-- **Round trip** with the leaf hypotheses discharged: for every canonical value without reserved keys whose leaves are in
    range, decoding the encoding succeeds with an equal value.  Not covered: first-day datetimes and IPv4-mapped IPv6
    (open defects of cedar-go; for them the round trip fails: `C13_leaf_outside_range_rejected`). -/
theorem C13_value_json_roundtrip_inrange (v : Value) (hr : v.NoReservedKeys) (hc : v.Canonical) (hi : v.InRange) :
    ∃ v', decodeValue (encodeValue v) = .ok v' ∧ v'.beq v = true :=
  C13_value_json_roundtrip_partial v hr (C13_wf_of_inRange v hc hi)

theorem C13_value_json_roundtrip_exact_inrange (v : Value) (hr : v.NoReservedKeys) (hc : v.Canonical) (hi : v.InRange) :
    decodeValue (encodeValue v) = .ok v :=
  C13_value_json_roundtrip_exact_partial v hr (C13_wf_of_inRange v hc hi)

theorem C13_value_json_stable_inrange (v v' : Value) (hr : v.NoReservedKeys) (hc : v.Canonical) (hi : v.InRange)
    (h : decodeValue (encodeValue v) = .ok v') : encodeValue v' = encodeValue v :=
  C13_value_json_stable_partial v v' hr (C13_wf_of_inRange v hc hi) h

example : (Value.record [("a", .set [.long 1, .str "x", .entity "T" "i"]), ("b", .decimal 15000), ("c", .ip ⟨false, 167772161, 8⟩),
    ("d", .duration minI64), ("e", .datetime 1700000000000), ("f", .datetime minDatetimeMs),
    ("g", .ip ⟨true, 0x20010db8000000000000000000000001, 64⟩)]).Canonical := by decide +kernel
example : (Value.record [("a", .set [.long 1, .str "x", .entity "T" "i"]), ("b", .decimal 15000), ("c", .ip ⟨false, 167772161, 8⟩),
    ("d", .duration minI64), ("e", .datetime 1700000000000), ("f", .datetime minDatetimeMs),
    ("g", .ip ⟨true, 0x20010db8000000000000000000000001, 64⟩)]).InRange := by decide +kernel
-- the two open defects are outside `InRange`
example : ¬ (Value.datetime minI64).InRange ∧ ¬ (Value.datetime (minDatetimeMs - 1)).InRange ∧
    ¬ (Value.ip ⟨true, 0xffff01020304, 128⟩).InRange ∧ (Value.ip ⟨true, 1, 128⟩).InRange := by decide +kernel

/-- the leaf cases on their own: every in-range scalar round-trips through its `__extn` escape -/
theorem C13_leaf_json_roundtrip_inrange :
    (∀ d, InI64 d → decodeValue (encodeValue (.decimal d)) = .ok (.decimal d)) ∧
    (∀ d, InI64 d → decodeValue (encodeValue (.duration d)) = .ok (.duration d)) ∧
    (∀ t, minDatetimeMs ≤ t → t ≤ maxI64 → decodeValue (encodeValue (.datetime t)) = .ok (.datetime t)) ∧
    (∀ a : IPNet, a.Valid → ¬ a.Is4In6 → decodeValue (encodeValue (.ip a)) = .ok (.ip a)) := by
  refine ⟨fun d h => ?_, fun d h => ?_, fun t h1 h2 => ?_, fun a hv h4 => ?_⟩
  · exact decodeValue_encodeValue _ (wf_decimal d h) rfl
  · exact decodeValue_encodeValue _ (wf_duration d h) rfl
  · exact decodeValue_encodeValue _ (wf_datetime t (by simp [datetimeInRange, h1, h2])) rfl
  · exact decodeValue_encodeValue _ (wf_ip _ (by simp [ipInRange, hv, h4])) rfl

/-- … and `InRange` is exact on the leaves of the Go types: the remaining datetime values (first day of the int64 range)
    and the remaining valid ip values (IPv4-mapped IPv6, any prefix length) are REJECTED by the decoder — the two open
    defects of cedar-go, now shown for the whole class rather than one witness -/
theorem C13_leaf_outside_range_rejected :
    (∀ t, minI64 ≤ t → t < minDatetimeMs → decodeValue (encodeValue (.datetime t)) = .error .reject) ∧
    (∀ a : IPNet, a.Is4In6 → decodeValue (encodeValue (.ip a)) = .error .reject) := by
  refine ⟨fun t h1 h2 => ?_, fun a h4 => ?_⟩
  · have hm := minDatetimeMs_eq
    have h := C12_datetime_first_day_unparseable t h1 (by unfold minI64 at *; omega)
    simp only [decodeValue, decodeValueF, encodeValue, extnStep_extJ, parseExt_datetime, h]
    rfl
  · obtain ⟨v6, addr, bits⟩ := a
    obtain ⟨h6, h4⟩ := h4
    simp only at h6 h4
    subst h6
    have h := C12_ip_4in6_unparseable addr bits h4
    rw [← printIPNet_eq] at h
    simp only [decodeValue, decodeValueF, encodeValue, extnStep_extJ, parseExt_ip, h]
    rfl

/-- entity data as `Entity.MarshalJSON` emits it, attribute / tag records canonical, in range, without reserved keys -/
def EntityData.InRangeJson (d : EntityData) : Prop :=
  sortUIDs d.parents = d.parents ∧ recordInRange d.attrs = true ∧ recordInRange d.tags = true

theorem C13_entity_json_roundtrip_inrange (uid : UID) (d : EntityData) (h : d.InRangeJson) :
    decodeEntity (encodeEntity (uid, d)) = .ok (uid, d) :=
  C13_entity_json_roundtrip_partial uid d ⟨h.1, recordWF_of_inRange _ h.2.1, recordWF_of_inRange _ h.2.2⟩

example : (⟨[("Group", "a"), ("Group", "b")], [("n", .long 1), ("when", .datetime 0)], [("t", .set [.decimal 5, .ip ⟨false, 1, 32⟩, .ip ⟨true, 1, 128⟩])]⟩ :
    EntityData).InRangeJson := by
  refine ⟨by decide +kernel, by decide +kernel, by decide +kernel⟩

def JsonModel.RequestM.InRangeJson (r : RequestM) : Prop := recordInRange r.context = true

theorem C13_request_json_roundtrip_inrange (r : RequestM) (h : r.InRangeJson) :
    decodeRequest (encodeRequest r) = .ok r :=
  C13_request_json_roundtrip_partial r (recordWF_of_inRange _ h)

example : (⟨("User", "a"), ("Action", "x"), ("Doc", "d"), [("k", .set [.long 1, .duration (-5)])]⟩ : RequestM).InRangeJson := by
  unfold JsonModel.RequestM.InRangeJson; decide +kernel

/-- the spellings of a decimal agree for EVERY int64 decimal (no hypothesis on its text) -/
theorem C13_spellings_agree_decimal_inrange (d : Int) (h : InI64 d) :
    decodeDecimalTyped (encodeValue (.decimal d)) = .ok (.decimal d) ∧
    decodeDecimalTyped (.str (printDecimal d)) = .ok (.decimal d) ∧
    decodeValue (encodeValue (.decimal d)) = .ok (.decimal d) :=
  C13_spellings_agree_decimal d (wf_decimal d h)

theorem C13_coerce_implicit_decimal_inrange (d : Int) (h : InI64 d) :
    (decodeValue (.str (printDecimal d))).map (coerceValue (.ext "decimal")) = .ok (.decimal d) :=
  C13_coerce_implicit_decimal d (wf_decimal d h)

theorem C13_coerce_implicit_ip_inrange (a : IPNet) (hv : a.Valid) (h4 : ¬ a.Is4In6) :
    (decodeValue (.str (printIPNet a))).map (coerceValue (.ext "ipaddr")) = .ok (.ip a) :=
  C13_coerce_implicit_ip _ (wf_ip _ (by simp [ipInRange, hv, h4]))

/-! ## Entity maps (`types.EntityMap`): the encoding is the `UID.String()`-sorted array

Model: CedarGo/Model/Json/EntityMap.lean.  An entity map is an association list with pairwise different UIDs (`IsMap`); the
list order stands for the arbitrary order in which Go iterates the map. -/

/-- a UID-keyed finite map: no UID occurs twice -/
def Entities.IsMap (m : Entities) : Prop := (keysOf m).Nodup
/-- every entity of the map is in the entity fragment of `C13_entity_json_roundtrip_inrange` -/
def Entities.InRangeJson (m : Entities) : Prop := ∀ e ∈ m, e.2.InRangeJson

/-- the sort key of `EntityMap.MarshalJSON`, `EntityUID.String()` = Type ++ `::"` ++ EscapeString(ID) ++ `"`, never coincides
    for two different UIDs — so `slices.SortFunc` (not stable) has exactly one possible result -/
theorem C13_uidString_injective (u v : UID) (h : uidString u = uidString v) : u = v := uidString_inj u v h

/-- **the encoding is the UID-sorted array**: `null` for the empty map, otherwise the encodings of the entities listed in
    STRICTLY increasing `UID.String()` order, each entity exactly once -/
theorem C13_entitymap_encoding_sorted (m : Entities) (hk : m.IsMap) :
    encodeEntityMap m = (if m.isEmpty then J.null else .arr ((sortEntities m).map encodeEntity)) ∧
    (sortEntities m).Perm m ∧ (sortEntities m).Pairwise (fun a b => uidString a.1 < uidString b.1) := by
  refine ⟨rfl, sortEntities_perm m, ?_⟩
  have hne : (sortEntities m).Pairwise (fun a b => a.1 ≠ b.1) := by
    have := sortEntities_nodup hk
    simpa [keysOf, List.Nodup, List.pairwise_map] using this
  refine ((sortEntities_pairwise m).and hne).imp ?_
  intro a b ⟨hle, hn⟩
  exact String.not_le.mp (fun hba => hn (uidString_inj _ _ (String.le_antisymm hle hba)))

/-- **independent of the insertion / iteration order**: two listings of the same map encode identically -/
theorem C13_entitymap_encoding_order_independent (m₁ m₂ : Entities) (hk : m₁.IsMap) (hp : m₁.Perm m₂) :
    encodeEntityMap m₁ = encodeEntityMap m₂ := by
  have he : m₁.isEmpty = m₂.isEmpty := by
    have := hp.length_eq
    cases m₁ <;> cases m₂ <;> simp_all
  simp only [encodeEntityMap, he, sortEntities_congr hk hp]

/-- **Round trip**: decoding the encoding succeeds with the same finite map (listed in encoding order: a permutation of `m`
    that answers every lookup like `m`) -/
theorem C13_entitymap_json_roundtrip (m : Entities) (hk : m.IsMap) (hw : m.InRangeJson) :
    decodeEntityMap (encodeEntityMap m) = .ok (sortEntities m) ∧ (sortEntities m).Perm m ∧
    ∀ u, Entities.get (sortEntities m) u = Entities.get m u := by
  refine ⟨?_, sortEntities_perm m, fun u => get_perm (sortEntities_nodup hk) (sortEntities_perm m) u⟩
  cases hm : m with
  | nil => simp [encodeEntityMap, sortEntities, decodeEntityMap, decodeEntities]
  | cons e rest =>
    rw [← hm]
    have hne : m.isEmpty = false := by rw [hm]; rfl
    have hdec : ∀ x ∈ sortEntities m, decodeEntity (encodeEntity x) = .ok x := fun x hx =>
      C13_entity_json_roundtrip_inrange x.1 x.2 (hw x ((sortEntities_perm m).mem_iff.mp hx))
    simp only [encodeEntityMap, hne, Bool.false_eq_true, if_false, decodeEntityMap, decodeEntities,
      mapMR_ok_of_forall decodeEntity encodeEntity (sortEntities m) hdec, bind, Except.bind]
    rw [entAddAll_nil, if_pos (sortEntities_nodup hk)]

/-- a map that is already listed in encoding order is returned verbatim -/
theorem C13_entitymap_json_roundtrip_exact (m : Entities) (hk : m.IsMap) (hw : m.InRangeJson)
    (hs : m.Pairwise (fun a b => uidString a.1 ≤ uidString b.1)) : decodeEntityMap (encodeEntityMap m) = .ok m := by
  rw [(C13_entitymap_json_roundtrip m hk hw).1, sortEntities_of_sorted hk hs]

/-- **Stability**: encoding what was decoded gives the first encoding again -/
theorem C13_entitymap_json_stable (m m' : Entities) (hk : m.IsMap) (hw : m.InRangeJson)
    (h : decodeEntityMap (encodeEntityMap m) = .ok m') : encodeEntityMap m' = encodeEntityMap m := by
  rw [(C13_entitymap_json_roundtrip m hk hw).1] at h
  cases h
  simp only [encodeEntityMap, sortEntities_isEmpty, sortEntities_idem hk]

example : Entities.IsMap [(("A", "x"), ⟨[], [], []⟩), (("A ", "x"), ⟨[("A", "x")], [("n", .long 1)], []⟩)] ∧
    Entities.InRangeJson [(("A", "x"), ⟨[], [], []⟩), (("A ", "x"), ⟨[("A", "x")], [("n", .long 1)], []⟩)] := by
  refine ⟨by simp [Entities.IsMap, keysOf], ?_⟩
  intro e he
  simp only [List.mem_cons, List.not_mem_nil, or_false] at he
  rcases he with rfl | rfl <;> exact ⟨by decide +kernel, by decide +kernel, by decide +kernel⟩

/-- **`EntityMap.UnmarshalJSON`, exactly, for every array document**: the members are decoded first (a member that does
    not decode fails the document with that member's error); the document is then accepted iff no UID is named twice, and
    the result lists exactly the decoded members, in document order — nothing is dropped, merged or replaced. -/
theorem C13_entitymap_decode_exact (xs : List J) :
    decodeEntityMap (.arr xs) =
      (mapMR decodeEntity xs).bind (fun es => if (keysOf es).Nodup then .ok es else .error .reject) := by
  simp only [decodeEntityMap, decodeEntities, bind]
  cases mapMR decodeEntity xs with
  | error e => rfl
  | ok es => simp only [Except.bind, entAddAll_nil]

/-- accepted iff every member decodes and the decoded UIDs are pairwise different; the map is the list of the members -/
theorem C13_entitymap_decode_ok_iff (xs : List J) (m : Entities) :
    decodeEntityMap (.arr xs) = .ok m ↔ mapMR decodeEntity xs = .ok m ∧ m.IsMap := by
  rw [C13_entitymap_decode_exact]
  cases h : mapMR decodeEntity xs with
  | error e => simp [Except.bind]
  | ok es =>
    simp only [Except.bind, Except.ok.injEq, Entities.IsMap]
    by_cases hn : (keysOf es).Nodup
    · simp only [hn, if_true, Except.ok.injEq]
      constructor
      · rintro rfl; exact ⟨rfl, hn⟩
      · exact fun h => h.1
    · simp only [hn, if_false]
      constructor
      · intro h; cases h
      · rintro ⟨rfl, h⟩; exact absurd h hn

/-- an accepted array decodes to a map that contains exactly its entries: as many entities as array members, the i-th
    entity is what the i-th member decodes to, and every UID occurs once -/
theorem C13_entitymap_decode_entries (xs : List J) (m : Entities) (h : decodeEntityMap (.arr xs) = .ok m) :
    m.IsMap ∧ m.length = xs.length ∧ ∀ (i : Nat) (h₁ : i < xs.length) (h₂ : i < m.length), decodeEntity xs[i] = .ok m[i] := by
  obtain ⟨hm, hk⟩ := (C13_entitymap_decode_ok_iff xs m).mp h
  exact ⟨hk, mapMR_ok_length decodeEntity xs m hm, mapMR_ok_getElem decodeEntity xs m hm⟩

/-- whatever the document: what the decoder returns is a map (no UID twice) -/
theorem C13_entitymap_decode_isMap (j : J) (m : Entities) (h : decodeEntityMap j = .ok m) : m.IsMap := by
  cases j with
  | arr xs => exact ((C13_entitymap_decode_ok_iff xs m).mp h).2
  | null =>
    simp only [decodeEntityMap, decodeEntities, Except.ok.injEq] at h
    subst h
    simp [Entities.IsMap, keysOf]
  | _ => simp [decodeEntityMap, decodeEntities] at h

/-- **a document that names one UID twice is rejected**: members i < j that decode to entities with the same UID -/
theorem C13_entitymap_decode_rejects_repeated_uid (xs : List J) (es : Entities) (h : mapMR decodeEntity xs = .ok es)
    (i j : Nat) (hij : i < j) (hj : j < es.length) (he : (es[i]'(Nat.lt_trans hij hj)).1 = es[j].1) :
    decodeEntityMap (.arr xs) = .error .reject := by
  rw [C13_entitymap_decode_exact, h]
  have hn : ¬ (keysOf es).Nodup := by
    intro hn
    have hp := List.pairwise_iff_getElem.mp hn i j (by simpa [keysOf] using Nat.lt_trans hij hj) (by simpa [keysOf] using hj) hij
    simp only [keysOf, List.getElem_map] at hp
    exact hp he
  simp [Except.bind, hn]

/-- **Duplicate UIDs on input are rejected; nothing else is.**  For ANY list of entities of the fragment (UIDs may repeat)
    the array of their encodings is refused if a UID repeats, and otherwise decodes to exactly that list — in any order of
    the members, not only the sorted one the encoder writes.  (Before the repair such an array was always accepted and the
    LAST entry of a UID replaced the earlier ones silently.) -/
theorem C13_entitymap_decode_rejects_duplicates (es : Entities) (hw : ∀ e ∈ es, e.2.InRangeJson) :
    (¬ es.IsMap → decodeEntityMap (.arr (es.map encodeEntity)) = .error .reject) ∧
    (es.IsMap → decodeEntityMap (.arr (es.map encodeEntity)) = .ok es) := by
  have hdec : ∀ x ∈ es, decodeEntity (encodeEntity x) = .ok x := fun x hx => C13_entity_json_roundtrip_inrange x.1 x.2 (hw x hx)
  rw [C13_entitymap_decode_exact, mapMR_ok_of_forall decodeEntity encodeEntity es hdec]
  simp only [Except.bind, Entities.IsMap]
  exact ⟨fun hn => by simp [hn], fun hn => by simp [hn]⟩

/-- decoding is injective on accepted arrays of entity encodings: two different listings never decode to the same map
    (the silent loss of the unrepaired decoder — `[e₁, e₂]` and `[e₂]` both giving `{e₂}` — is gone) -/
theorem C13_entitymap_decode_injective (es₁ es₂ : Entities) (m : Entities) (hw₁ : ∀ e ∈ es₁, e.2.InRangeJson)
    (hw₂ : ∀ e ∈ es₂, e.2.InRangeJson) (h₁ : decodeEntityMap (.arr (es₁.map encodeEntity)) = .ok m)
    (h₂ : decodeEntityMap (.arr (es₂.map encodeEntity)) = .ok m) : es₁ = es₂ := by
  have k₁ : es₁.IsMap := Classical.byContradiction fun hn => by
    rw [(C13_entitymap_decode_rejects_duplicates es₁ hw₁).1 hn] at h₁; cases h₁
  have k₂ : es₂.IsMap := Classical.byContradiction fun hn => by
    rw [(C13_entitymap_decode_rejects_duplicates es₂ hw₂).1 hn] at h₂; cases h₂
  rw [(C13_entitymap_decode_rejects_duplicates es₁ hw₁).2 k₁] at h₁
  rw [(C13_entitymap_decode_rejects_duplicates es₂ hw₂).2 k₂] at h₂
  cases h₁; cases h₂; rfl

/-- regression (witness of the former `C13_entitymap_duplicate_uid_counterexample`, known finding
    entitymap-duplicate-uid-last-wins, fixed): two entries for `A::"x"` with different attributes used to decode to the
    single entity with `k = 2`; the document is now refused … -/
example : decodeEntityMap (.arr [encodeEntity (("A", "x"), ⟨[], [("k", .long 1)], []⟩),
    encodeEntity (("A", "x"), ⟨[], [("k", .long 2)], []⟩)]) = .error .reject :=
  (C13_entitymap_decode_rejects_duplicates [(("A", "x"), ⟨[], [("k", .long 1)], []⟩), (("A", "x"), ⟨[], [("k", .long 2)], []⟩)]
    (by
      intro e he
      simp only [List.mem_cons, List.not_mem_nil, or_false] at he
      rcases he with rfl | rfl <;> exact ⟨by decide +kernel, by decide +kernel, by decide +kernel⟩)).1
    (by simp [Entities.IsMap, keysOf])

/-- … while the same two entities under different UIDs are accepted in the order written (hypotheses satisfiable) -/
example : decodeEntityMap (.arr [encodeEntity (("A", "y"), ⟨[], [("k", .long 1)], []⟩),
    encodeEntity (("A", "x"), ⟨[], [("k", .long 2)], []⟩)]) =
    .ok [(("A", "y"), ⟨[], [("k", .long 1)], []⟩), (("A", "x"), ⟨[], [("k", .long 2)], []⟩)] :=
  (C13_entitymap_decode_rejects_duplicates [(("A", "y"), ⟨[], [("k", .long 1)], []⟩), (("A", "x"), ⟨[], [("k", .long 2)], []⟩)]
    (by
      intro e he
      simp only [List.mem_cons, List.not_mem_nil, or_false] at he
      rcases he with rfl | rfl <;> exact ⟨by decide +kernel, by decide +kernel, by decide +kernel⟩)).2
    (by simp [Entities.IsMap, keysOf])

/-! ## Diagnostic and Decision (`types/authorize.go`)

Model: CedarGo/Model/Json/Diagnostic.lean.  Every field of `Diagnostic` / `DiagnosticReason` / `DiagnosticError` / `Position`
is exported and encoded (reasons, errors; policy id, position = filename, offset, line, column; message).  NOT encoded is
only the difference between a nil and an empty non-nil slice (`omitempty` leaves both out, decoding leaves nil):
`DiagnosticM.norm` identifies the two, `C13_diagnostic_empty_slice_counterexample` shows the difference is really lost.
`InRange` = the three numbers of every position fit Go's 64-bit `int` (every Go value does). -/

/-- **Round trip**: decoding the encoding yields the diagnostic itself, nil and empty slices identified -/
theorem C13_diagnostic_json_roundtrip (d : DiagnosticM) (h : d.InRange) : decodeDiagnostic (encodeDiagnostic d) = .ok d.norm :=
  decodeDiagnostic_encode d h

/-- without empty non-nil slices (what `Authorize` returns: it only appends) the round trip is exact -/
theorem C13_diagnostic_json_roundtrip_exact (d : DiagnosticM) (h : d.InRange) (hn : d.norm = d) :
    decodeDiagnostic (encodeDiagnostic d) = .ok d := by
  rw [decodeDiagnostic_encode d h, hn]

/-- **Stability** -/
theorem C13_diagnostic_json_stable (d d' : DiagnosticM) (h : d.InRange) (hd : decodeDiagnostic (encodeDiagnostic d) = .ok d') :
    encodeDiagnostic d' = encodeDiagnostic d := by
  rw [decodeDiagnostic_encode d h] at hd
  cases hd
  exact encodeDiagnostic_norm d

/-- an empty non-nil `Reasons` slice comes back nil (`{}` on the wire): the only information the JSON form drops -/
theorem C13_diagnostic_empty_slice_counterexample :
    ∃ d : DiagnosticM, d.InRange ∧ decodeDiagnostic (encodeDiagnostic d) = .ok ⟨none, none⟩ ∧
      decodeDiagnostic (encodeDiagnostic d) ≠ .ok d := by
  have h : (⟨some [], none⟩ : DiagnosticM).InRange := ⟨by simp [sliceAll], trivial⟩
  refine ⟨⟨some [], none⟩, h, by rw [decodeDiagnostic_encode _ h]; rfl, fun e => ?_⟩
  rw [decodeDiagnostic_encode _ h] at e
  simp [DiagnosticM.norm, normSlice] at e

example : (⟨some [⟨"policy0", ⟨"a.cedar", 12, 2, 3⟩⟩], some [⟨"p1", ⟨"", 0, 0, 0⟩, "boom"⟩]⟩ : DiagnosticM).InRange := by
  refine ⟨?_, ?_⟩ <;> intro x hx <;> simp only [List.mem_cons, List.not_mem_nil, or_false] at hx <;> subst hx <;> decide

/-! ### Decision (`Decision.UnmarshalJSON` decodes the JSON string; model `decodeDecisionText` on the TEXT of the value)

`decodeDecisionText raw = .ok (some d)`: the receiver is set to `d`; `.ok none`: left as it was; `.error .reject`: an error.
`jsonStringToken raw = some s`: `raw` is a JSON string token that denotes `s` (escapes resolved). -/

/-- a string token is never the text `null` (so the `null` test of the decoder never hides a string) -/
theorem C13_decision_token_ne_null (raw s : String) (h : jsonStringToken raw = some s) : raw ≠ "null" := by
  rintro rfl
  rw [show jsonStringToken "null" = none by decide +kernel] at h
  cases h

/-- **`Decision.UnmarshalJSON`, exactly (1)**: the text decodes to the decision `d` iff it is a JSON string token that —
    after resolving escapes — denotes the name of `d`; however the name is spelled -/
theorem C13_decision_decode_exact (raw : String) (d : Bool) :
    decodeDecisionText raw = .ok (some d) ↔ jsonStringToken raw = some (if d then "allow" else "deny") := by
  unfold decodeDecisionText
  by_cases hn : raw = "null"
  · subst hn
    constructor
    · intro h; simp at h
    · intro h
      rw [show jsonStringToken "null" = none by decide +kernel] at h
      cases h
  · have hn' : (raw == "null") = false := by simpa using hn
    simp only [hn', Bool.false_eq_true, if_false]
    cases ht : jsonStringToken raw with
    | none => simp
    | some s =>
      simp only [Option.some.injEq]
      unfold decisionOfString
      by_cases ha : s = "allow"
      · subst ha; cases d <;> simp
      · by_cases hd : s = "deny"
        · subst hd; cases d <;> simp
        · have ha' : (s == "allow") = false := by simpa using ha
          have hd' : (s == "deny") = false := by simpa using hd
          cases d <;> simp [ha', hd', ha, hd]

/-- **exactly (2)**: the only text that is accepted without setting the receiver is `null` (encoding/json's no-op) -/
theorem C13_decision_decode_noop_iff (raw : String) : decodeDecisionText raw = .ok none ↔ raw = "null" := by
  unfold decodeDecisionText
  by_cases hn : raw = "null"
  · simp [hn]
  · have hn' : (raw == "null") = false := by simpa using hn
    simp only [hn', Bool.false_eq_true, if_false, hn, iff_false]
    split
    · split <;> simp
    · simp

/-- the three outcomes are all there is (no panic, nothing outside the model) -/
theorem C13_decision_decode_cases (raw : String) :
    decodeDecisionText raw = .ok none ∨ (∃ d, decodeDecisionText raw = .ok (some d)) ∨ decodeDecisionText raw = .error .reject := by
  unfold decodeDecisionText
  by_cases hn : raw = "null"
  · simp [hn]
  · have hn' : (raw == "null") = false := by simpa using hn
    simp only [hn', Bool.false_eq_true, if_false]
    cases jsonStringToken raw with
    | none => simp
    | some s =>
      cases hd : decisionOfString s with
      | none => simp [hd]
      | some d => simp [hd]

/-- **exactly (3)**: EVERYTHING else is an error — unknown strings (`"Allow"`, `"permit"`, `""`), numbers, booleans, objects,
    arrays, texts that are no JSON value.  The decoder has no other outcome (`C13_decision_decode_cases`). -/
theorem C13_decision_decode_rejects_iff (raw : String) :
    decodeDecisionText raw = .error .reject ↔
      raw ≠ "null" ∧ jsonStringToken raw ≠ some "allow" ∧ jsonStringToken raw ≠ some "deny" := by
  have ht := C13_decision_decode_exact raw true
  have hf := C13_decision_decode_exact raw false
  have hn := C13_decision_decode_noop_iff raw
  simp only [if_true, Bool.false_eq_true, if_false] at ht hf
  constructor
  · intro h
    refine ⟨fun h' => ?_, fun h' => ?_, fun h' => ?_⟩
    · rw [hn.mpr h'] at h; cases h
    · rw [ht.mpr h'] at h; cases h
    · rw [hf.mpr h'] at h; cases h
  · rintro ⟨h₁, h₂, h₃⟩
    rcases C13_decision_decode_cases raw with h | ⟨d, h⟩ | h
    · exact absurd (hn.mp h) h₁
    · cases d
      · exact absurd (hf.mp h) h₃
      · exact absurd (ht.mp h) h₂
    · exact h

/-- **All accepted spellings of one datum decode alike**: two tokens that denote the same string give the same outcome
    (before the repair `"\u0061llow"` decoded to Deny and `"allow"` to Allow) -/
theorem C13_decision_spellings_agree (raw₁ raw₂ s : String) (h₁ : jsonStringToken raw₁ = some s)
    (h₂ : jsonStringToken raw₂ = some s) : decodeDecisionText raw₁ = decodeDecisionText raw₂ := by
  have n₁ : (raw₁ == "null") = false := by simpa using C13_decision_token_ne_null raw₁ s h₁
  have n₂ : (raw₂ == "null") = false := by simpa using C13_decision_token_ne_null raw₂ s h₂
  simp only [decodeDecisionText, n₁, n₂, h₁, h₂]

/-- the receiver matters for `null` only: it is left as it was there, and every other accepted text overwrites it -/
theorem C13_decision_decode_into_receiver (recv recv' : Bool) (raw : String) :
    decodeDecisionInto recv "null" = .ok recv ∧
    (raw ≠ "null" → decodeDecisionInto recv raw = decodeDecisionInto recv' raw) := by
  refine ⟨by simp [decodeDecisionInto, (C13_decision_decode_noop_iff "null").mpr rfl, Except.map], fun hn => ?_⟩
  rcases C13_decision_decode_cases raw with h | ⟨d, h⟩ | h
  · exact absurd ((C13_decision_decode_noop_iff raw).mp h) hn
  · simp [decodeDecisionInto, h, Except.map]
  · simp [decodeDecisionInto, h, Except.map]

/-- **Decision round trip**: both decisions survive (into any receiver), the text written is the JSON string naming the
    decision, and encoding what was decoded gives the same text -/
theorem C13_decision_json_roundtrip (allow : Bool) :
    decodeDecisionText (encodeDecisionText allow) = .ok (some allow) ∧
    (∀ recv, decodeDecisionInto recv (encodeDecisionText allow) = .ok allow) ∧
    (jsonStringToken (encodeDecisionText allow)).bind decisionOfString = some allow ∧
    (∀ d, decodeDecisionText (encodeDecisionText allow) = .ok (some d) → encodeDecisionText d = encodeDecisionText allow) := by
  have h : decodeDecisionText (encodeDecisionText allow) = .ok (some allow) :=
    (C13_decision_decode_exact _ allow).mpr (by cases allow <;> decide +kernel)
  refine ⟨h, fun recv => by simp [decodeDecisionInto, h, Except.map], by cases allow <;> decide +kernel, fun d hd => ?_⟩
  rw [h] at hd
  cases hd
  rfl

/-- regression (witness of the former `C13_decision_unknown_accepted_counterexample`, known finding
    decision-unknown-accepted, fixed): a string that names no decision used to decode to Deny without an error -/
example : jsonStringToken "\"permit\"" = some "permit" ∧ decisionOfString "permit" = none ∧
    decodeDecisionText "\"permit\"" = .error .reject :=
  ⟨by decide +kernel, by decide +kernel, (C13_decision_decode_rejects_iff _).mpr (by decide +kernel)⟩

/-- … and so did every other JSON value; all are errors now -/
example : ∀ raw ∈ ["\"Allow\"", "\"ALLOW\"", "\"allow \"", "\"\"", "1", "0", "true", "false", "{}", "[]", "[\"allow\"]",
    "{\"decision\":\"allow\"}", "\"\\\"allow\\\"\"", "allow", "\"allow", ""], decodeDecisionText raw = .error .reject := by
  intro raw h
  refine (C13_decision_decode_rejects_iff raw).mpr ?_
  revert raw
  decide +kernel

/-- regression (witness of the former `C13_decision_escaped_spelling_counterexample`, known finding
    decision-escaped-spelling, fixed): the escaped spelling of `allow` used to decode to Deny -/
example : jsonStringToken "\"\\u0061llow\"" = some "allow" ∧ decodeDecisionText "\"\\u0061llow\"" = .ok (some true) ∧
    decodeDecisionText "\"\\u0064en\\u0079\"" = .ok (some false) ∧
    decodeDecisionText "\"\\u0061llow\"" = decodeDecisionText (encodeDecisionText true) :=
  ⟨by decide +kernel, (C13_decision_decode_exact _ true).mpr (by decide +kernel),
    (C13_decision_decode_exact _ false).mpr (by decide +kernel),
    C13_decision_spellings_agree _ _ "allow" (by decide +kernel) (by decide +kernel)⟩

/-! ## Schema-guided coercion at any nesting depth (`x/exp/types/json.go`)

`Spelling t v u` (Lemmas/C13Coerce.lean, `spells`): `v` is a value of schema type `t`, and `u` is what the unguided decoder
returns for one of the accepted spellings of `v` in a position typed `t` — chosen INDEPENDENTLY at every leaf, at any depth
under sets and records:
  * entity-typed leaf: the explicit escape `{"__entity":{type,id}}` (decodes to the entity) or the implicit object
    `{"type","id"}` (decodes to a record);
  * extension-typed leaf: the explicit escape `{"__extn":{fn,arg}}` (decodes to the extension value) or a bare string — ANY
    string the extension's parser maps to the value, not only the canonical text (`"1.5"`, `"1.50"`);
  * String / Long / Boolean leaves and attributes the record type does not declare: the one explicit form.
`encodeValue u` is the JSON document of that spelling.  The bare object `{"fn","arg"}` (accepted by `Decimal.UnmarshalJSON`
etc. in a TYPED Go position) is NOT a spelling here: in a value position it is a record and coercion leaves it one
(`C13_coercion_bare_fn_arg_stays_record`); `UnmarshalJSONWithSchema` then refuses the entity in validation, so no datum is
decoded to a different value.  `AttrsDistinct`: every record type names each attribute once (Go: a map — always). -/

/-- every record type inside `t` names each attribute once -/
def JsonModel.STy.AttrsDistinct (t : STy) : Prop := tyOK t = true
/-- `v` is a value of schema type `t` -/
def Value.HasType (v : Value) (t : STy) : Prop := hasTy v t = true
/-- see the section header -/
def Spelling (t : STy) (v u : Value) : Prop := spells v t u
instance (t : STy) : Decidable t.AttrsDistinct := by unfold JsonModel.STy.AttrsDistinct; infer_instance
instance (v : Value) (t : STy) : Decidable (v.HasType t) := by unfold Value.HasType; infer_instance

/-- **all accepted spellings decode to the datum**: for every schema type `t`, every value `v` of the proved fragment and
    every spelling of `v` in a position typed `t` — any mix of explicit and implicit forms at any depth — unguided decoding
    followed by `coerceValue t` returns exactly `v` -/
theorem C13_coercion_nested_spellings_agree (t : STy) (v u : Value) (ht : t.AttrsDistinct) (hr : v.NoReservedKeys)
    (hc : v.Canonical) (hi : v.InRange) (hs : Spelling t v u) : decodeCoerced t (encodeValue u) = .ok v := by
  have hw : vWF v = true := C13_wf_of_inRange v hc hi
  have hdec := decodeValue_encodeValue u (spells_wf v t u hs hw) (spells_noReserved v t u hs hr)
  simp only [decodeCoerced, hdec, Except.map, coerce_spells v t u ht hc hs]

/-- … hence any two spellings of one datum decode to equal values (the explicit one included: `C13_coercion_explicit_is_spelling`) -/
theorem C13_coercion_nested_two_spellings (t : STy) (v u₁ u₂ : Value) (ht : t.AttrsDistinct) (hr : v.NoReservedKeys)
    (hc : v.Canonical) (hi : v.InRange) (h₁ : Spelling t v u₁) (h₂ : Spelling t v u₂) :
    decodeCoerced t (encodeValue u₁) = decodeCoerced t (encodeValue u₂) := by
  rw [C13_coercion_nested_spellings_agree t v u₁ ht hr hc hi h₁, C13_coercion_nested_spellings_agree t v u₂ ht hr hc hi h₂]

/-- the all-explicit document `encodeValue v` is a spelling of every well-typed value (so the hypothesis `Spelling` is
    satisfiable for every typed value, and coercion leaves explicit documents alone) -/
theorem C13_coercion_explicit_is_spelling (t : STy) (v : Value) (h : v.HasType t) : Spelling t v v := spells_self v t h

/-- coercion never confuses two data: if the unguided decodings of spellings of `v` and `v'` are `Equal`, so are `v`, `v'`
    (this is why the duplicate elimination of `NewSet`, which runs BEFORE coercion, cannot drop a member) -/
theorem C13_coercion_spellings_injective (t : STy) (v u v' u' : Value) (h : Spelling t v u) (h' : Spelling t v' u')
    (hb : u.beq u' = true) : v.beq v' = true := spells_inj v t u v' u' h h' hb

-- non-vacuity: a record of {set of entity references, decimal, record of a set of ip addresses}, spelled with a mix of forms
example :
    let t : STy := .record [("friends", .set (.entity "User")), ("limit", .ext "decimal"), ("net", .record [("allow", .set (.ext "ipaddr"))])]
    let v : Value := .record [("friends", .set [.entity "User" "a", .entity "User" "b"]), ("limit", .decimal 15000),
      ("net", .record [("allow", .set [.ip ⟨false, 167772161, 32⟩])]), ("other", .str "x")]
    let u : Value := .record [("friends", .set [implicitRec "User" "a", .entity "User" "b"]), ("limit", .str "1.50"),
      ("net", .record [("allow", .set [.str "10.0.0.1"])]), ("other", .str "x")]
    t.AttrsDistinct ∧ v.NoReservedKeys ∧ v.Canonical ∧ v.InRange ∧ v.HasType t ∧ Spelling t v u := by
  refine ⟨by decide +kernel, by decide +kernel, by decide +kernel, by decide +kernel, by decide +kernel, ?_⟩
  have p1 : parseDecimal "1.50" = .ok 15000 := by decide +kernel
  have p2 : parseIP "10.0.0.1" = .ok ⟨false, 167772161, 32⟩ := by decide +kernel
  simp only [Spelling, spells, spellsKV, spellsL, extSpells]
  refine ⟨_, _, rfl, rfl, _, _, rfl, ?_, _, _, rfl, ?_, _, _, rfl, ?_, _, _, rfl, ?_, rfl⟩
  · exact ⟨_, _, rfl, rfl, _, _, rfl, ⟨⟨_, rfl⟩, Or.inr rfl⟩, _, _, rfl, ⟨⟨_, rfl⟩, Or.inl rfl⟩, rfl⟩
  · exact ⟨_, rfl, rfl, Or.inr ⟨_, rfl, p1⟩⟩
  · exact ⟨_, _, rfl, rfl, _, _, rfl, ⟨_, _, rfl, rfl, _, _, rfl, ⟨_, rfl, rfl, Or.inr ⟨_, rfl, p2⟩⟩, rfl⟩, rfl⟩
  · rfl

/-- the bare `{"fn","arg"}` object is a record in a value position and stays one under coercion: it is not accepted as the
    extension value (typed Go positions accept it: `C13_spellings_agree_extn`) — an asymmetry, not a wrong value -/
theorem C13_coercion_bare_fn_arg_stays_record :
    ∃ r, decodeCoerced (.ext "decimal") (.obj [("arg", .str "1.5"), ("fn", .str "decimal")]) = .ok (.record r) ∧
      decodeDecimalTyped (.obj [("arg", .str "1.5"), ("fn", .str "decimal")]) = .ok (.decimal 15000) := by
  have e : J.obj [("arg", .str "1.5"), ("fn", .str "decimal")] = encodeValue (.record [("arg", .str "1.5"), ("fn", .str "decimal")]) := by
    simp [encodeValue, encodeKVs]
  refine ⟨[("arg", .str "1.5"), ("fn", .str "decimal")], ?_, ?_⟩
  · rw [e, decodeCoerced, decodeValue_encodeValue _ (by decide +kernel) (by decide +kernel)]
    simp [Except.map, coerceValue, coerceExtension]
  · have h := (C13_spellings_agree_extn "decimal" "1.5" (by decide)).2.1
    have p : parseDecimal "1.5" = .ok 15000 := by decide +kernel
    simp only [decodeDecimalTyped, h, bind, Except.bind, p]; rfl

/-- **whole entities** (`coerceEntity`): attributes spelled against the entity's shape, every tag value against the tag type;
    parents and uid are typed positions of the entity format itself (`C13_entity_json_roundtrip_inrange`) -/
theorem C13_coercion_entity_spellings_agree (se : SchemaEntityM) (uid : UID) (d : EntityData) (uattrs utags : List (String × Value))
    (hshape : attrsOK se.shape = true) (htags : ∀ t, se.tags = some t → tyOK t = true) (hd : d.InRangeJson)
    (ha : spellsKV d.attrs se.shape uattrs)
    (htg : match se.tags with | some t => spellsTags d.tags t utags | none => utags = d.tags) :
    decodeEntityCoerced (some se) (encodeEntity (uid, ⟨d.parents, uattrs, utags⟩)) = .ok (uid, d) := by
  obtain ⟨parents, attrs, tags⟩ := d
  obtain ⟨shape, tagTy⟩ := se
  obtain ⟨hp, hra, hrt⟩ := hd
  have wa : recordWF attrs = true := recordWF_of_inRange _ hra
  have wt : recordWF tags = true := recordWF_of_inRange _ hrt
  have ca : canonKV attrs = true := by simp only [recordInRange, Bool.and_eq_true] at hra; exact hra.1.1.1
  have ct : canonKV tags = true := by simp only [recordInRange, Bool.and_eq_true] at hrt; exact hrt.1.1.1
  have wua : recordWF uattrs = true := recordWF_spellsKV attrs shape uattrs ha wa
  have sua : keysSorted uattrs = true := by simp only [recordWF, Bool.and_eq_true] at wua; exact wua.1.2
  have hattrs : coerceAttrs shape uattrs = attrs := by
    rw [coerceAttrs_eq_map shape hshape uattrs sua, coerce_spellsKV attrs shape uattrs hshape ca ha]
  cases tagTy with
  | none =>
    simp only at htg
    subst htg
    have hdec := C13_entity_json_roundtrip_partial uid ⟨parents, uattrs, utags⟩ ⟨hp, wua, wt⟩
    simp only [decodeEntityCoerced, hdec, Except.map, coerceEntityM, coerceTags, hattrs]
  | some tt =>
    simp only at htg
    have wut : recordWF utags = true := recordWF_spellsTags tags tt utags htg wt
    have hdec := C13_entity_json_roundtrip_partial uid ⟨parents, uattrs, utags⟩ ⟨hp, wua, wut⟩
    simp only [decodeEntityCoerced, hdec, Except.map, coerceEntityM, coerceTags, hattrs,
      spellsTags_coerce tags tt utags (htags tt rfl) ct htg]

-- non-vacuity: an entity whose attribute is an implicit entity reference and whose tag is a bare decimal string
example :
    let se : SchemaEntityM := ⟨[("owner", .entity "User")], some (.ext "decimal")⟩
    let d : EntityData := ⟨[("Group", "g")], [("owner", .entity "User" "a")], [("t", .decimal 15000)]⟩
    attrsOK se.shape = true ∧ (∀ t, se.tags = some t → tyOK t = true) ∧ d.InRangeJson ∧
      spellsKV d.attrs se.shape [("owner", implicitRec "User" "a")] ∧ spellsTags d.tags (.ext "decimal") [("t", .str "1.5")] := by
  have p : parseDecimal "1.5" = .ok 15000 := by decide +kernel
  refine ⟨by decide +kernel, ?_, ⟨by decide +kernel, by decide +kernel, by decide +kernel⟩, ?_, ?_⟩
  · intro t ht; cases ht; rfl
  · simp only [spellsKV, spells]
    exact ⟨_, _, rfl, ⟨⟨_, rfl⟩, Or.inr rfl⟩, rfl⟩
  · simp only [spellsTags, spells, extSpells]
    exact ⟨_, _, rfl, ⟨_, rfl, rfl, Or.inr ⟨_, rfl, p⟩⟩, rfl⟩

end CedarGo
