/-
  C16 — Schema resolution and validation terminate without crashing.

  The model (CedarGo/Model/Schema/Resolve.lean) transcribes `resolved.Resolve` and the validator's three
  hierarchy walks; Go recursion that is not structural carries fuel, `none` = "still running".  The theorems say
  which recursions never run out of the fuel the model gives them — and which one does for EVERY fuel.
  The proofs that cannot be written are the findings:
    * `isEntityDescendant` has no visited set: `C16_isEntityDescendant_diverges`;
    * the Kahn pass and `resolveType` disagree about the namespace of a common type whose name starts with ':':
      `C16_resolveType_total_counterexample`;
    * `typeOfValue` type-asserts `EntityUID` on set/record/extension literals: `C16_typeOfValue_total_counterexample`.
-/
import CedarGoProofs.Lemmas.C16Total
namespace CedarGo
open CedarGo.Schema

/-- Kahn's algorithm as written in `detectCommonTypeCycles` is complete: when it reports no cycle, the dependency
    relation `deps` (the one the pass builds with `resolveTypeRefPath`) has no cycle through any common type. -/
theorem C16_kahn_complete (r : RState) (h : detectCycles r = .ok ()) : ∀ c ∈ r.nodes, ¬ Reaches r.deps c c := by
  obtain ⟨rank, _, _, hdec⟩ := kahn_rank r h
  have key : ∀ u v, Reaches r.deps u v → u ∈ r.nodes → v ∈ r.nodes ∧ rank v < rank u := by
    intro u v hr
    induction hr with
    | step hs => exact fun hu => ⟨deps_mem_nodes r _ _ hs, hdec _ hu _ hs⟩
    | trans hs _ ih =>
      intro hu
      have h1 := hdec _ hu _ hs
      obtain ⟨h2, h3⟩ := ih (deps_mem_nodes r _ _ hs)
      exact ⟨h2, by omega⟩
  intro c hc hr
  have := (key c c hr hc).2
  omega

example : detectCycles { commonTypes := [("T0", .set (.typeRef "T1")), ("T1", .long)] } = .ok () := by decide +kernel
example : detectCycles { commonTypes := [("T0", .set (.typeRef "T1")), ("T1", .typeRef "T0")] } = .error .cycle := by decide +kernel

/-- and that relation contains every jump `resolveType` makes into the body of a common type, as long as the
    reference does not start with a colon: the jump's target is the key `resolveTypeRefPath` computes, the namespace
    passed on is the one the Kahn pass derives from that key, and the references of the body are `deps` edges. -/
theorem C16_deps_cover_jumps (r : RState) (ns ref ns' : String) (b : Ty) (hc : refNoColon ref)
    (h : lookupTypeRef r ns ref = .common ns' b) :
    r.common? (resolveTypeRefPath r ns ref) = some b ∧ ns' = extractNamespace (resolveTypeRefPath r ns ref) ∧
    ∀ ref' ∈ collectTypeRefs b, ∀ b', r.common? (resolveTypeRefPath r ns' ref') = some b' →
      resolveTypeRefPath r ns' ref' ∈ r.deps (resolveTypeRefPath r ns ref) := by
  obtain ⟨h1, h2⟩ := lookupTypeRef_common r ns ref ns' b hc h
  refine ⟨h1, h2, fun ref' href' b' hb' => ?_⟩
  rw [h2] at hb' ⊢
  exact body_ref_mem_deps r _ b h1 ref' href' b' hb'

/-- FULL STATEMENT (false, see the counterexample below): for every resolver state accepted by `detectCycles`, every
    namespace and type, `resolveType` terminates within the fuel `|commonTypes| + 1`.

    PROVED PART: the same under `RefsOk` — no type reference (in a common-type body or in the type being resolved)
    starts with ':'.  What is missing is exactly the unvalidated-name case the counterexample exhibits. -/
theorem C16_resolveType_total_partial (r : RState) (hok : RefsOk r) (h : detectCycles r = .ok ()) (ns : String) (t : Ty)
    (ht : ∀ ref ∈ collectTypeRefs t, refNoColon ref) : ∃ res, resolveTypeFuel r r.fuel ns t = some res := by
  obtain ⟨rank, hle, hpos, hdec⟩ := kahn_rank r h
  have := resolveTypeFuel_ne_none_of_rank r hok rank hpos hdec r.commonTypes.length ns t ht (fun _ _ _ _ _ => hle _)
  exact Option.ne_none_iff_exists'.mp this

example : RefsOk { commonTypes := [("T0", .set (.typeRef "T1")), ("T1", .long)] } :=
  ⟨by
    intro c b hcb ref href
    simp only [RState.common?, List.lookup] at hcb
    split at hcb
    · cases hcb; simp [collectTypeRefs] at href; subst href; decide
    · split at hcb
      · cases hcb; simp [collectTypeRefs] at href
      · cases hcb⟩

/-- the resolver state of `namespace A { type :b = c; type c = :b; }` (JSON accepts such names) -/
def colonCycleState : RState := { commonTypes := [("A:::b", .typeRef "c"), ("A::c", .typeRef ":b")] }

/-- The Kahn pass accepts `colonCycleState` (it files `A:::b` under the namespace `A:`), yet resolving `c` in
    namespace `A` jumps `c → :b → c → …` for ever: `Resolve` overflows the stack. -/
theorem C16_resolveType_total_counterexample :
    ∃ (r : RState) (ns : String) (t : Ty), detectCycles r = .ok () ∧ ∀ fuel, resolveTypeFuel r fuel ns t = none := by
  refine ⟨colonCycleState, "A", .typeRef "c", by decide +kernel, ?_⟩
  have h1 : lookupTypeRef colonCycleState "A" "c" = .common "A" (.typeRef ":b") := by decide +kernel
  have h2 : lookupTypeRef colonCycleState "A" ":b" = .common "A" (.typeRef "c") := by decide +kernel
  have key : ∀ fuel, resolveTypeFuel colonCycleState fuel "A" (.typeRef "c") = none ∧
      resolveTypeFuel colonCycleState fuel "A" (.typeRef ":b") = none := by
    intro fuel
    induction fuel with
    | zero => exact ⟨rfl, rfl⟩
    | succ f ih =>
      constructor
      · show resolveTyWith colonCycleState (resolveTypeFuel colonCycleState f) "A" (.typeRef "c") = none
        unfold resolveTyWith
        rw [h1]
        exact ih.2
      · show resolveTyWith colonCycleState (resolveTypeFuel colonCycleState f) "A" (.typeRef ":b") = none
        unfold resolveTyWith
        rw [h2]
        exact ih.1
  exact fun fuel => (key fuel).1

/-- The DFS of `validateActionMembership` is sound: when it accepts, no action is its own (transitive) parent. -/
theorem C16_action_cycle_detected (rs : RSchema) (D : List UID) (h : checkActionCycles rs = some (.ok D)) :
    ∀ u ∈ rs.actions.map (·.1), ¬ Reaches rs.actionParents u u := by
  obtain ⟨hc, hall⟩ := checkActionCycles_ok rs D h
  exact fun u hu => hc.acyclic u (hall u hu)

/-- `validateActionMembership` always returns: either a parent is undeclared (error) or the DFS, whose nesting is
    bounded by the number of actions, finishes within the fuel `|actions| + 1`. -/
theorem C16_action_dfs_total (rs : RSchema) : ∃ res, validateActionMembership rs = some res := by
  apply Option.ne_none_iff_exists'.mp
  unfold validateActionMembership
  simp only
  split
  · simp
  · rename_i hany
    have hpar : ∀ a ∈ rs.actions, ∀ p ∈ a.2.parents, p ∈ rs.actions.map (·.1) := by
      intro a ha p hp
      apply Classical.byContradiction
      intro hn
      apply hany
      refine List.any_eq_true.mpr ⟨a, ha, List.any_eq_true.mpr ⟨p, hp, ?_⟩⟩
      simpa using hn
    apply fbind_ne_none
    · unfold checkActionCycles
      apply visitListWith_ne_none
      intro u hu d
      exact visitFuel_ne_none rs _ (actionParents_closed rs hpar) _ [] u d (by simp) (by simp) hu (by simp)
    · intro _; simp

/-- FULL STATEMENT (false by `C16_resolveType_total_counterexample`): for EVERY schema, `Resolve` returns a resolved
    schema or an error (`resolve s ≠ none`: no recursion of the transcription is still running when its fuel —
    `|commonTypes| + 1` nested type jumps, `|actions| + 1` nested DFS calls, `|commonTypes| + 1` Kahn rounds — is used up).
    PROVED PART: for every schema none of whose type references starts with ':' (cyclic or self-referential common
    types, cyclic action groups, undefined references, shadowing, any namespaces included). -/
theorem C16_resolve_total_partial (s : Schema) (hs : SchemaRefsOk s) : ∃ res, resolve s = some res := by
  apply Option.ne_none_iff_exists'.mp
  unfold resolve
  apply fbind_ne_none' _ _ (by simp [flift])
  intro r hr
  have hr' : registerAll s = .ok r := by simpa [flift] using hr
  have hok := registerAll_refsOk s hs r hr'
  apply fbind_ne_none _ _ (by simp [flift])
  intro _
  apply fbind_ne_none' _ _ (by simp [flift])
  intro u hu
  have hcyc : detectCycles r = .ok () := by cases u; simpa [flift] using hu
  apply fbind_ne_none _ _ (resolveNamespace_ne_none r hok hcyc "" s.bare {} (fun t ht => hs s.bare (by simp) t ht))
  intro acc
  apply fbind_ne_none _ _ (resolveNamespaces_ne_none r hok hcyc s.namespaces acc
    (fun nd hnd t ht => hs nd.2 (by simp; exact Or.inr ⟨nd.1, by simpa using hnd⟩) t ht))
  intro rs
  apply fbind_ne_none _ _ ?_ (fun _ => by simp)
  obtain ⟨res, hres⟩ := C16_action_dfs_total rs
  simp [hres]

example : SchemaRefsOk { bare := { commonTypes := [("T", { ty := .set (.typeRef "T") })], entities := [("E", { tags := some (.typeRef "T") })] } } := by
  intro d hd t ht ref href
  simp only [List.map_nil, List.mem_cons, List.not_mem_nil, or_false] at hd
  subst hd
  simp [nsTypes] at ht
  rcases ht with rfl | rfl <;> simp [collectTypeRefs] at href <;> subst href <;> decide

/-- On every schema `Resolve` lets through (its action-membership check succeeded), `isActionDescendant` — which has
    no visited set either — terminates on every pair, within the fuel `|actions| + 1`. -/
theorem C16_isActionDescendant_total (rs : RSchema) (h : validateActionMembership rs = some (.ok ())) (a anc : UID) :
    ∃ b, isActionDescendantFuel rs (rs.actions.length + 1) a anc = some b := by
  apply Option.ne_none_iff_exists'.mp
  unfold validateActionMembership at h
  simp only at h
  split at h
  · cases h
  · rename_i hany
    have hpar : ∀ a ∈ rs.actions, ∀ p ∈ a.2.parents, p ∈ rs.actions.map (·.1) := by
      intro a ha p hp
      apply Classical.byContradiction
      intro hn
      apply hany
      refine List.any_eq_true.mpr ⟨a, ha, List.any_eq_true.mpr ⟨p, hp, ?_⟩⟩
      simpa using hn
    cases hc : checkActionCycles rs with
    | none => simp [hc, fbind] at h
    | some res =>
      cases res with
      | error e => simp [hc, fbind] at h
      | ok D =>
        obtain ⟨hcl, hall⟩ := checkActionCycles_ok rs D hc
        obtain ⟨D', hcl', hlen, hcov⟩ := hcl.shrink (rs.actions.map (·.1)) (actionParents_closed rs hpar) hall
        unfold isActionDescendantFuel
        apply descFuel_total_of_closed rs.actionParents hcl' a
        · by_cases ha : a ∈ rs.actions.map (·.1)
          · exact Or.inl (hcov a ha)
          · exact Or.inr (actionParents_of_not_mem rs a ha)
        · simp only [List.length_map] at hlen
          omega

/-- `getEntityTypesIn` terminates on every schema (cyclic hierarchies included): each round of the `for changed`
    loop adds an entity type not yet in the result, so `|entities| + 1` rounds suffice. -/
theorem C16_getEntityTypesIn_total (rs : RSchema) (target : String) : ∃ l, getEntityTypesIn rs target = some l := by
  apply Option.ne_none_iff_exists'.mp
  unfold getEntityTypesIn
  apply typesInLoop_ne_none
  have := List.length_filter_le (fun e : String × REntity => !(target :: (rs.entities.filter fun e => e.2.parents.contains target).map (·.1)).contains e.1) rs.entities
  unfold typesInMissing
  omega

/-- the schema `entity Group in [Group]; entity Other;` after resolution -/
def selfParentSchema : RSchema :=
  { entities := [("Group", { name := "Group", anns := [], parents := ["Group"], shape := .nil, tags := none }),
                 ("Other", { name := "Other", anns := [], parents := [], shape := .nil, tags := none })] }

/-- `isEntityDescendant` does NOT terminate on a cyclic entity hierarchy: on `entity Group in [Group]; entity Other;`
    the call `isEntityDescendant(Group, Other)` — made by the type checker for `principal in Other::"g"` with a
    `Group` principal — is still running for every amount of fuel (in Go: a fatal stack overflow). -/
theorem C16_isEntityDescendant_diverges :
    ∃ (rs : RSchema) (a b : String), ∀ fuel, isEntityDescendantFuel rs fuel a b = none := by
  refine ⟨selfParentSchema, "Group", "Other", fun fuel => ?_⟩
  induction fuel with
  | zero => rfl
  | succ f ih =>
    have hp : selfParentSchema.entityParents "Group" = ["Group"] := by decide +kernel
    show descListWith (fun p => descFuel selfParentSchema.entityParents f p "Other") "Other" (selfParentSchema.entityParents "Group") = none
    rw [hp]
    have hne : ("Group" : String) ≠ "Other" := by decide
    simp only [descListWith, hne, if_false]
    have : descFuel selfParentSchema.entityParents f "Group" "Other" = none := ih
    rw [this]

/-- More generally: whenever an entity type lists ITSELF as its first parent type (`entity G in [G, …]`, routine in
    Cedar schemas), `isEntityDescendant(G, B)` never returns for any other type `B`. -/
theorem C16_isEntityDescendant_self_parent_diverges (rs : RSchema) (a b : String) (rest : List String)
    (hp : rs.entityParents a = a :: rest) (hab : a ≠ b) : ∀ fuel, isEntityDescendantFuel rs fuel a b = none := by
  intro fuel
  induction fuel with
  | zero => rfl
  | succ f ih =>
    show descListWith (fun p => descFuel rs.entityParents f p b) b (rs.entityParents a) = none
    rw [hp]
    have : descFuel rs.entityParents f a b = none := ih
    simp only [descListWith, hab, if_false, this]

example : selfParentSchema.entityParents "Group" = "Group" :: [] := by decide +kernel

/-- FULL STATEMENT (false by the theorem above): `isEntityDescendant` terminates on every resolved schema.
    PROVED PART: it does whenever the entity types can be listed with every type's parents strictly later in the
    list (an acyclic hierarchy), within the fuel `|list| + 1`. -/
theorem C16_isEntityDescendant_total_partial (rs : RSchema) (D : List String) (hD : Closed rs.entityParents D)
    (hcov : ∀ e ∈ rs.entities, e.1 ∈ D) (a b : String) : ∃ r, isEntityDescendantFuel rs (D.length + 1) a b = some r := by
  apply Option.ne_none_iff_exists'.mp
  unfold isEntityDescendantFuel
  apply descFuel_total_of_closed rs.entityParents hD a _ _ (by omega)
  by_cases ha : a ∈ D
  · exact Or.inl ha
  · right
    unfold RSchema.entityParents
    split
    · rename_i e he
      exact absurd (hcov (a, e) (lookup_some_mem_pair a e _ he)) ha
    · rfl

example : Closed selfParentSchema.entityParents [] := Closed.nil

/-- FULL STATEMENT (false): `typeOfValue` returns a type or an error for every literal.  A policy decoded from JSON
    (or built with `ast.IPAddr`, `ast.Value(set)`, …) can hold a set, record or extension VALUE, for which the
    fall-through `val.(types.EntityUID)` panics. -/
theorem C16_typeOfValue_total_counterexample : ∃ k : LitKind, typeOfValueOutcome k = .error () :=
  ⟨.set, rfl⟩

end CedarGo
