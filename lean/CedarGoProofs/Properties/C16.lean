/-
  C16 — Schema resolution and validation terminate without crashing.

  The model (CedarGo/Model/Schema/Resolve.lean) transcribes `resolved.Resolve` and the validator's three
  hierarchy walks; Go recursion that is not structural carries fuel, `none` = "still running".  The theorems say
  which recursions never run out of the fuel the model gives them — and which one does for EVERY fuel.
  Three former findings are repaired in cedar-go (`fix:` commits); the termination proofs that could not be written
  now exist, and the old witnesses are regression `example`s:
    * `isEntityDescendant` threads a visited set: `C16_isEntityDescendant_total` (every schema, fuel `|entity types| + 1`)
      and `C16_isEntityDescendant_correct` (the answer is reachability) replace `C16_isEntityDescendant_diverges`;
    * the Kahn pass and `resolveType` read the declaring namespace of a common type from the table recorded at
      registration: `C16_resolveType_total` and `C16_resolve_total` hold without the hypothesis "no reference starts
      with ':'" and replace `C16_resolveType_total_counterexample`;
    * `typeOfValue` has a case for every literal kind: `C16_typeOfValue_total`.
  Still a finding (running time, not termination): exponential inlining of common types.
-/
import CedarGoProofs.Lemmas.C16Total
import CedarGoProofs.Lemmas.C16Desc
namespace CedarGo
open CedarGo.Schema

/-- Kahn's algorithm as written in `detectCommonTypeCycles` is complete: when it reports no cycle, the dependency
    relation `deps` (the one the pass builds with `resolveTypeRefPath`) has no cycle through any common type. -/
theorem C16_kahn_complete (r : RState) (h : detectCycles r = .ok ()) : ∀ c ∈ r.nodes, ¬ Reaches r.deps c c := by
  obtain ⟨rank, _, _, hdec⟩ := kahn_rank r h
  have key : ∀ u v, Reaches r.deps u v → u ∈ r.nodes → v ∈ r.nodes ∧ rank v < rank u := by
    intro u v hr
    induction hr with
    | step hs => exact fun hu => ⟨deps_mem_nodes r _ _ hs, hdec _ hu _ hs⟩
    | trans hs _ ih =>
      intro hu
      have h1 := hdec _ hu _ hs
      obtain ⟨h2, h3⟩ := ih (deps_mem_nodes r _ _ hs)
      exact ⟨h2, by omega⟩
  intro c hc hr
  have := (key c c hr hc).2
  omega

example : detectCycles { commonTypes := [("T0", .set (.typeRef "T1")), ("T1", .long)] } = .ok () := by decide +kernel
example : detectCycles { commonTypes := [("T0", .set (.typeRef "T1")), ("T1", .typeRef "T0")] } = .error .cycle := by decide +kernel

/-- and that relation contains every jump `resolveType` makes into the body of a common type: the jump's target is the
    key `resolveTypeRefPath` computes, the namespace passed on is the declaring namespace recorded for that key — the one
    the Kahn pass uses as well — and the references of the body are `deps` edges. -/
theorem C16_deps_cover_jumps (r : RState) (ns ref ns' : String) (b : Ty)
    (h : lookupTypeRef r ns ref = .common ns' b) :
    r.common? (resolveTypeRefPath r ns ref) = some b ∧ ns' = r.nsOf (resolveTypeRefPath r ns ref) ∧
    ∀ ref' ∈ collectTypeRefs b, ∀ b', r.common? (resolveTypeRefPath r ns' ref') = some b' →
      resolveTypeRefPath r ns' ref' ∈ r.deps (resolveTypeRefPath r ns ref) := by
  obtain ⟨h1, h2⟩ := lookupTypeRef_common r ns ref ns' b h
  refine ⟨h1, h2, fun ref' href' b' hb' => ?_⟩
  rw [h2] at hb' ⊢
  exact body_ref_mem_deps r _ b h1 ref' href' b' hb'

/-- **`resolveType` terminates**: for every resolver state accepted by `detectCycles`, every namespace and every type,
    `resolveType` returns within the fuel `|commonTypes| + 1` (nested jumps into common-type bodies).  No hypothesis on
    names: the former restriction `RefsOk` (no type reference starts with ':') was only needed while the Kahn pass
    re-derived the namespace of a common type from its qualified name (finding `resolve-common-type-cycle-undetected`,
    repaired: the namespace is recorded at registration). -/
theorem C16_resolveType_total (r : RState) (h : detectCycles r = .ok ()) (ns : String) (t : Ty) :
    ∃ res, resolveTypeFuel r r.fuel ns t = some res :=
  Option.ne_none_iff_exists'.mp (resolveTypeFuel_total r h ns t)

example : detectCycles { commonTypes := [("T0", .set (.typeRef "T1")), ("T1", .long)] } = .ok () := by decide +kernel

/-- the resolver state of `namespace A { type :b = c; type c = :b; }` (JSON accepts such names) as the REPAIRED
    registration builds it: both types are recorded as declared in namespace `A` -/
def colonCycleState : RState :=
  { commonTypes := [("A:::b", .typeRef "c"), ("A::c", .typeRef ":b")], commonNS := [("A:::b", "A"), ("A::c", "A")] }

/-- REGRESSION (was `C16_resolveType_total_counterexample`: the Kahn pass filed `A:::b` under the namespace `A:` =
    `extractNamespace "A:::b"`, accepted the state, and `resolveType` then jumped `c → :b → c → …` for ever — in Go a fatal
    stack overflow in `Resolve`): the cycle `A::c → A:::b → A::c` is now an edge cycle of `deps` and is reported. -/
example : extractNamespace "A:::b" = "A:" ∧ colonCycleState.nsOf "A:::b" = "A" ∧
    colonCycleState.deps "A:::b" = ["A::c"] ∧ colonCycleState.deps "A::c" = ["A:::b"] ∧
    detectCycles colonCycleState = .error .cycle := by
  refine ⟨?_, ?_, ?_, ?_, ?_⟩ <;> decide +kernel

/-- the schema of the finding itself: `namespace A { type :b = c; type c = :b; entity E { x: c }; }` -/
def colonCycleSchema : Schema :=
  { namespaces := [("A", {
      commonTypes := [(":b", { ty := .typeRef "c" }), ("c", { ty := .typeRef ":b" })],
      entities := [("E", { shape := some (.cons "x" false [] (.typeRef "c") .nil) })] })] }

/-- … it is rejected with a cycle error -/
example : (match resolve colonCycleSchema with | some (.error .cycle) => true | _ => false) = true := by decide +kernel

/-- `namespace A { type :b = c; type c = Long; entity E { x: :b, y: A:::b }; }`: such names, no cycle -/
def colonNameSchema : Schema :=
  { namespaces := [("A", {
      commonTypes := [(":b", { ty := .typeRef "c" }), ("c", { ty := .long })],
      entities := [("E", { shape := some (.cons "x" false [] (.typeRef ":b") (.cons "y" false [] (.typeRef "A:::b") .nil)) })] })] }

/-- … it resolves, and the body of `:b` is resolved in its declaring namespace `A` on both paths -/
example : (match resolve colonNameSchema with
    | some (.ok rs) => rs.entities.map (fun e => e.2.shape.toList.map (fun a => (a.1, a.2.2.2)))
    | _ => []) = [[("x", RTy.long), ("y", RTy.long)]] := by decide +kernel

/-- The DFS of `validateActionMembership` is sound: when it accepts, no action is its own (transitive) parent. -/
theorem C16_action_cycle_detected (rs : RSchema) (D : List UID) (h : checkActionCycles rs = some (.ok D)) :
    ∀ u ∈ rs.actions.map (·.1), ¬ Reaches rs.actionParents u u := by
  obtain ⟨hc, hall⟩ := checkActionCycles_ok rs D h
  exact fun u hu => hc.acyclic u (hall u hu)

/-- `validateActionMembership` always returns: either a parent is undeclared (error) or the DFS, whose nesting is
    bounded by the number of actions, finishes within the fuel `|actions| + 1`. -/
theorem C16_action_dfs_total (rs : RSchema) : ∃ res, validateActionMembership rs = some res := by
  apply Option.ne_none_iff_exists'.mp
  unfold validateActionMembership
  simp only
  split
  · simp
  · rename_i hany
    have hpar : ∀ a ∈ rs.actions, ∀ p ∈ a.2.parents, p ∈ rs.actions.map (·.1) := by
      intro a ha p hp
      apply Classical.byContradiction
      intro hn
      apply hany
      refine List.any_eq_true.mpr ⟨a, ha, List.any_eq_true.mpr ⟨p, hp, ?_⟩⟩
      simpa using hn
    apply fbind_ne_none
    · unfold checkActionCycles
      apply visitListWith_ne_none
      intro u hu d
      exact visitFuel_ne_none rs _ (actionParents_closed rs hpar) _ [] u d (by simp) (by simp) hu (by simp)
    · intro _; simp

/-- **`Resolve` terminates on EVERY schema**: it returns a resolved schema or an error (`resolve s ≠ none`: no recursion
    of the transcription is still running when its fuel — `|commonTypes| + 1` nested type jumps, `|actions| + 1` nested DFS
    calls, `|commonTypes| + 1` Kahn rounds — is used up).  Cyclic or self-referential common types, cyclic action groups,
    undefined references, shadowing, any namespaces and ANY names (the JSON format validates none) included.
    (Was `C16_resolve_total_partial` under `SchemaRefsOk`; the missing case was the finding
    `resolve-common-type-cycle-undetected`.)  What this does NOT bound is the running TIME: common types are inlined by
    value (finding `common-type-exponential-inlining`). -/
theorem C16_resolve_total (s : Schema) : ∃ res, resolve s = some res := by
  apply Option.ne_none_iff_exists'.mp
  unfold resolve
  apply fbind_ne_none _ _ (by simp [flift])
  intro r
  apply fbind_ne_none _ _ (by simp [flift])
  intro _
  apply fbind_ne_none' _ _ (by simp [flift])
  intro u hu
  have hcyc : detectCycles r = .ok () := by cases u; simpa [flift] using hu
  apply fbind_ne_none _ _ (resolveNamespace_ne_none r hcyc "" s.bare {})
  intro acc
  apply fbind_ne_none _ _ (resolveNamespaces_ne_none r hcyc s.namespaces acc)
  intro rs
  apply fbind_ne_none _ _ ?_ (fun _ => by simp)
  obtain ⟨res, hres⟩ := C16_action_dfs_total rs
  simp [hres]

example : ∃ res, resolve { bare := { commonTypes := [("T", { ty := .set (.typeRef "T") })], entities := [("E", { tags := some (.typeRef "T") })] } } = some res :=
  C16_resolve_total _

/-- On every schema `Resolve` lets through (its action-membership check succeeded), `isActionDescendant` — which has
    no visited set either — terminates on every pair, within the fuel `|actions| + 1`. -/
theorem C16_isActionDescendant_total (rs : RSchema) (h : validateActionMembership rs = some (.ok ())) (a anc : UID) :
    ∃ b, isActionDescendantFuel rs (rs.actions.length + 1) a anc = some b := by
  apply Option.ne_none_iff_exists'.mp
  unfold validateActionMembership at h
  simp only at h
  split at h
  · cases h
  · rename_i hany
    have hpar : ∀ a ∈ rs.actions, ∀ p ∈ a.2.parents, p ∈ rs.actions.map (·.1) := by
      intro a ha p hp
      apply Classical.byContradiction
      intro hn
      apply hany
      refine List.any_eq_true.mpr ⟨a, ha, List.any_eq_true.mpr ⟨p, hp, ?_⟩⟩
      simpa using hn
    cases hc : checkActionCycles rs with
    | none => simp [hc, fbind] at h
    | some res =>
      cases res with
      | error e => simp [hc, fbind] at h
      | ok D =>
        obtain ⟨hcl, hall⟩ := checkActionCycles_ok rs D hc
        obtain ⟨D', hcl', hlen, hcov⟩ := hcl.shrink (rs.actions.map (·.1)) (actionParents_closed rs hpar) hall
        unfold isActionDescendantFuel
        apply descFuel_total_of_closed rs.actionParents hcl' a
        · by_cases ha : a ∈ rs.actions.map (·.1)
          · exact Or.inl (hcov a ha)
          · exact Or.inr (actionParents_of_not_mem rs a ha)
        · simp only [List.length_map] at hlen
          omega

/-- `getEntityTypesIn` terminates on every schema (cyclic hierarchies included): each round of the `for changed`
    loop adds an entity type not yet in the result, so `|entities| + 1` rounds suffice. -/
theorem C16_getEntityTypesIn_total (rs : RSchema) (target : String) : ∃ l, getEntityTypesIn rs target = some l := by
  apply Option.ne_none_iff_exists'.mp
  unfold getEntityTypesIn
  apply typesInLoop_ne_none
  have := List.length_filter_le (fun e : String × REntity => !(target :: (rs.entities.filter fun e => e.2.parents.contains target).map (·.1)).contains e.1) rs.entities
  unfold typesInMissing
  omega

/-- the schema `entity Group in [Group]; entity Other;` after resolution -/
def selfParentSchema : RSchema :=
  { entities := [("Group", { name := "Group", anns := [], parents := ["Group"], shape := .nil, tags := none }),
                 ("Other", { name := "Other", anns := [], parents := [], shape := .nil, tags := none })] }

/-- `entity A in [B]; entity B in [A, G]; entity C in [A]; entity G in [G];`: two cycles -/
def cyclicSchema : RSchema :=
  { entities := [("A", { name := "A", anns := [], parents := ["B"], shape := .nil, tags := none }),
                 ("B", { name := "B", anns := [], parents := ["A", "G"], shape := .nil, tags := none }),
                 ("C", { name := "C", anns := [], parents := ["A"], shape := .nil, tags := none }),
                 ("G", { name := "G", anns := [], parents := ["G"], shape := .nil, tags := none })] }

theorem entityParents_of_not_mem (rs : RSchema) (x : String) (h : x ∉ rs.entities.map (·.1)) : rs.entityParents x = [] := by
  unfold RSchema.entityParents
  split
  · rename_i e he
    exact absurd (List.mem_map.mpr ⟨(x, e), lookup_some_mem_pair x e _ he, rfl⟩) h
  · rfl

/-- **`isEntityDescendant` terminates on EVERY resolved schema** — cyclic entity hierarchies (`entity Group in [Group]`,
    routine in Cedar schemas) included — within the fuel `|entity types| + 1`: the search threads a visited set, every
    entity type is expanded at most once, so the recursion is never nested deeper than the number of entity types.
    (Before the repair of `entity-descendant-unbounded-recursion` the recursion had no visited set and
    `C16_isEntityDescendant_diverges` exhibited a schema on which it never returned.) -/
theorem C16_isEntityDescendant_total (rs : RSchema) (a b : String) :
    ∃ r, isEntityDescendantFuel rs (rs.entities.length + 1) a b = some r := by
  obtain ⟨r, vis', h, _⟩ := descVisFuel_total rs.entityParents (rs.entities.map (·.1)) (entityParents_of_not_mem rs) b
    (rs.entities.length + 1) a [] (by
      have := List.length_filter_le (fun x => !([] : List String).contains x) (rs.entities.map (·.1))
      unfold visMissing
      simp only [List.length_map] at this
      omega)
  exact ⟨r, by simp [isEntityDescendantFuel, h]⟩

/-- … and whatever it returns (with any fuel) is the right answer: `true` iff `b` is reachable from `a` by ONE OR MORE
    `ParentTypes` steps. -/
theorem C16_isEntityDescendant_correct (rs : RSchema) (fuel : Nat) (a b : String) (r : Bool)
    (h : isEntityDescendantFuel rs fuel a b = some r) : r = true ↔ Reaches rs.entityParents a b := by
  unfold isEntityDescendantFuel at h
  cases hd : descVisFuel rs.entityParents fuel a b [] with
  | none => simp [hd] at h
  | some res =>
    obtain ⟨r', vis'⟩ := res
    simp only [hd, Option.map_some, Option.some.injEq] at h
    subst h
    cases r' with
    | true => exact ⟨fun _ => descVisFuel_sound _ _ _ _ _ _ hd, fun _ => rfl⟩
    | false => exact Iff.intro (fun h => Bool.noConfusion h) (fun hr => absurd hr (descVisFuel_complete _ _ _ _ _ hd))

/-- REGRESSION (was `C16_isEntityDescendant_diverges`: on `entity Group in [Group]; entity Other;` the call
    `isEntityDescendant(Group, Other)` — made by the type checker for `principal in Other::"g"` with a `Group` principal —
    ran out of every fuel, in Go a fatal stack overflow): the old witness now returns `false`, within `|entity types| + 1`. -/
example : isEntityDescendantFuel selfParentSchema (selfParentSchema.entities.length + 1) "Group" "Other" = some false ∧
    isEntityDescendantFuel selfParentSchema (selfParentSchema.entities.length + 1) "Group" "Group" = some true ∧
    isEntityDescendantFuel selfParentSchema (selfParentSchema.entities.length + 1) "Other" "Group" = some false := by
  refine ⟨?_, ?_, ?_⟩ <;> decide +kernel

/-- mutual and self cycles: C → A → B → {A, G}, G → G -/
example : isEntityDescendantFuel cyclicSchema 5 "C" "G" = some true ∧ isEntityDescendantFuel cyclicSchema 5 "A" "A" = some true ∧
    isEntityDescendantFuel cyclicSchema 5 "C" "C" = some false ∧ isEntityDescendantFuel cyclicSchema 5 "G" "A" = some false ∧
    isEntityDescendantFuel cyclicSchema 5 "Zz" "A" = some false := by
  refine ⟨?_, ?_, ?_, ?_, ?_⟩ <;> decide +kernel

example : Reaches cyclicSchema.entityParents "C" "G" :=
  (C16_isEntityDescendant_correct cyclicSchema 5 "C" "G" true (by decide +kernel)).mp rfl

/-- **`typeOfValue` returns a type or an error for every kind of literal** a policy `NodeValue` can hold: Boolean, Long,
    String, EntityUID, set, record and the four extension values all have a case (sets and records recurse into their
    members, which are finite trees); anything else — only a nil interface remains — gets an error instead of a failed type
    assertion.  (Before the repair of `typeofvalue-non-entity-literal-panic` set/record/extension literals panicked:
    `C16_typeOfValue_total_counterexample`.) -/
theorem C16_typeOfValue_total : ∀ k : LitKind, typeOfValueOutcome k = .ok () := by
  intro k; cases k <;> rfl

/-- REGRESSION: the old witness (a set literal) -/
example : typeOfValueOutcome .set = .ok () := rfl

end CedarGo
