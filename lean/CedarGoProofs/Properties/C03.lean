/-
  C03 — Entity membership `in` is reflexive-transitive reachability.
  `entityInOne`/`entityInSet` are the transcriptions of the work-list search in
  internal/eval/evalers.go (candidate, todo stack, known set, four pruning tests).  The theorems hold
  for EVERY store: cyclic hierarchies, self-parents, parents not in the store, absent start/target;
  and for every order in which the parents of an entity are enumerated (Go map order).
-/
import CedarGoProofs.Lemmas.C03
import CedarGo.Model.Fold
namespace CedarGo

/-- The search never runs out of the fuel `|store| + 1` the model gives it: it terminates on every graph. -/
theorem C03_entityInOne_total (es : Entities) (a b : UID) : ∃ r, entityInOne es a b = some r := by
  unfold entityInOne entityInOneFuel
  split
  · exact ⟨true, rfl⟩
  · obtain ⟨r, hr, _⟩ := inLoop_init es a (fun ps => ps.contains b) (by simp)
    exact ⟨r, hr⟩

/-- `a in b` is true exactly when `b` is reachable from `a` (reflexively) through present entities. -/
theorem C03_entityInOne_correct (es : Entities) (a b : UID) : entityInOne es a b = some true ↔ Reach es a b := by
  unfold entityInOne entityInOneFuel
  split
  · rename_i h
    have : a = b := by simpa using h
    subst this
    simp [Reach.refl]
  · rename_i hne
    have hab : a ≠ b := by simpa using hne
    obtain ⟨r, hr, hiff⟩ := inLoop_init es a (fun ps => ps.contains b) (by simp)
    rw [hr]
    simp only [Option.some.injEq]
    rw [hiff]
    constructor
    · rintro ⟨x, d, hx, hg, hb⟩
      exact hx.snoc hg (by simpa using hb)
    · intro h
      rcases h.last with heq | ⟨x, d, hx, hg, hb⟩
      · exact absurd heq hab
      · exact ⟨x, d, hx, hg, by simpa using hb⟩

theorem C03_entityInSet_total (es : Entities) (a : UID) (S : List UID) : ∃ r, entityInSet es a S = some r := by
  unfold entityInSet entityInSetFuel
  split
  · exact ⟨true, rfl⟩
  · obtain ⟨r, hr, _⟩ := inLoop_init es a (fun ps => ps.any (fun p => S.contains p)) (by simp)
    exact ⟨r, hr⟩

/-- `a in [b1..bn]` is true exactly when some `bi` is reachable from `a`. -/
theorem C03_entityInSet_correct (es : Entities) (a : UID) (S : List UID) :
    entityInSet es a S = some true ↔ ∃ b ∈ S, Reach es a b := by
  unfold entityInSet entityInSetFuel
  split
  · rename_i h
    have : a ∈ S := by simpa using h
    simp only [true_iff]
    exact ⟨a, this, .refl a⟩
  · rename_i hne
    have haS : a ∉ S := by simpa using hne
    obtain ⟨r, hr, hiff⟩ := inLoop_init es a (fun ps => ps.any (fun p => S.contains p)) (by simp)
    rw [hr]
    simp only [Option.some.injEq]
    rw [hiff]
    constructor
    · rintro ⟨x, d, hx, hg, hb⟩
      simp only [List.any_eq_true, List.contains_iff_mem] at hb
      obtain ⟨p, hp, hpS⟩ := hb
      exact ⟨p, hpS, hx.snoc hg hp⟩
    · rintro ⟨b, hbS, h⟩
      rcases h.last with heq | ⟨x, d, hx, hg, hb⟩
      · subst heq; exact absurd hbS haS
      · exact ⟨x, d, hx, hg, by simp only [List.any_eq_true, List.contains_iff_mem]; exact ⟨b, hb, hbS⟩⟩

/-- The `in` operator on an entity right-hand side: never a panic, and true iff reachable. -/
theorem C03_in_operator_entity (env : Env) (a b : UID) :
    (∃ r, doIn env a (uidVal b) = .ok (.bool r)) ∧
    (doIn env a (uidVal b) = .ok (.bool true) ↔ Reach env.entities a b) := by
  unfold doIn uidVal
  obtain ⟨r, hr⟩ := C03_entityInOne_total env.entities a b
  have hc := C03_entityInOne_correct env.entities a b
  simp only [hr] at hc ⊢
  refine ⟨⟨r, rfl⟩, ?_⟩
  rw [← hc]; simp

/-- The `in` operator on a set of entities: true iff some member is reachable. -/
theorem C03_in_operator_set (env : Env) (a : UID) (S : List UID) :
    (∃ r, doIn env a (.set (S.map uidVal)) = .ok (.bool r)) ∧
    (doIn env a (.set (S.map uidVal)) = .ok (.bool true) ↔ ∃ b ∈ S, Reach env.entities a b) := by
  have hmap : (S.map uidVal).mapM toEntity = (.ok S : Except Err (List UID)) := by
    induction S with
    | nil => rfl
    | cons u us ih =>
      simp only [List.map_cons, List.mapM_cons, ih]
      simp [uidVal, toEntity, bind, Except.bind, pure, Except.pure]
  unfold doIn
  simp only [hmap]
  obtain ⟨r, hr⟩ := C03_entityInSet_total env.entities a S
  have hc := C03_entityInSet_correct env.entities a S
  simp only [hr] at hc ⊢
  refine ⟨⟨r, rfl⟩, ?_⟩
  rw [← hc]; simp

/-- A non-entity on the right of `in` (other than a set) is a type error; so is a set with a non-entity member. -/
theorem C03_in_operator_type_error (env : Env) (a : UID) (v : Value)
    (h : ∀ t i, v ≠ .entity t i) (hs : ∀ xs, v ≠ .set xs) : doIn env a v = .error .type := by
  unfold doIn
  cases v <;> simp_all

/-- The scope form `principal in E` is the operator applied to the variable (by construction of
    `PolicyToNode`), and `is T in E` means `is T` and `in E`. -/
theorem C03_scope_in_agrees (v : Var) (e : UID) :
    scopeToExpr v (.in_ e) = .binop .in_ (.var v) (.lit (uidVal e)) := rfl

theorem C03_scope_isIn_agrees (v : Var) (ty : String) (e : UID) (env : Env) :
    evalBool (scopeToExpr v (.isIn ty e)) env =
      evalBool (.binop .and (.is (.var v) ty) (.binop .in_ (.var v) (.lit (uidVal e)))) env := by
  unfold evalBool scopeToExpr
  simp only [eval]
  cases hv : eval (.var v) env with
  | error k => simp [bind, Except.bind]
  | ok x =>
    cases x <;> simp [bind, Except.bind, toEntity, toBool]
    rename_i t i
    by_cases hty : t = ty
    · simp [hty]
      cases hd : doIn env (ty, i) (uidVal e) with
      | error k => simp
      | ok w =>
        obtain ⟨r, hr⟩ := (C03_in_operator_entity env (ty, i) e).1
        rw [hr] at hd; cases hd; simp [toBool]
    · simp [hty]

/-- Reachability, hence `in`, does not depend on the order in which parents are listed. -/
theorem C03_parent_order_irrelevant (es es' : Entities)
    (h : ∀ u, (es.get u).isSome = (es'.get u).isSome ∧
      ∀ d d', es.get u = some d → es'.get u = some d' → ∀ p, p ∈ d.parents ↔ p ∈ d'.parents)
    (a b : UID) : entityInOne es a b = entityInOne es' a b := by
  have hR : ∀ (e1 e2 : Entities), (∀ u, (e1.get u).isSome = (e2.get u).isSome ∧
      ∀ d d', e1.get u = some d → e2.get u = some d' → ∀ p, p ∈ d.parents ↔ p ∈ d'.parents) →
      ∀ x y, Reach e1 x y → Reach e2 x y := by
    intro e1 e2 h12 x y hr
    induction hr with
    | refl => exact .refl _
    | @step a p b d hg hp _ ih =>
      have h1 := (h12 a).1
      rw [hg] at h1
      cases hg2 : e2.get a with
      | none => rw [hg2] at h1; cases h1
      | some d' => exact .step hg2 (((h12 a).2 d d' hg hg2 p).mp hp) ih
  have hsymm : ∀ u, (es'.get u).isSome = (es.get u).isSome ∧
      ∀ d d', es'.get u = some d → es.get u = some d' → ∀ p, p ∈ d.parents ↔ p ∈ d'.parents :=
    fun u => ⟨(h u).1.symm, fun d d' h1 h2 p => ((h u).2 d' d h2 h1 p).symm⟩
  obtain ⟨r, hr⟩ := C03_entityInOne_total es a b
  obtain ⟨r', hr'⟩ := C03_entityInOne_total es' a b
  have c1 := C03_entityInOne_correct es a b
  have c2 := C03_entityInOne_correct es' a b
  have hiff : Reach es a b ↔ Reach es' a b := ⟨hR es es' h a b, hR es' es hsymm a b⟩
  rw [hr, hr']
  rw [hr] at c1; rw [hr'] at c2
  have : (r = true ↔ r' = true) := by
    constructor
    · intro h1; subst h1; simpa using c2.mpr (hiff.mp (c1.mp rfl))
    · intro h1; subst h1; simpa using c1.mpr (hiff.mpr (c2.mp rfl))
  cases r <;> cases r' <;> simp_all

/-! ### Non-vacuity: a cyclic store with a dangling parent -/

def exStore : Entities :=
  [(("G", "a"), ⟨[("G", "b"), ("G", "gone")], [], []⟩), (("G", "b"), ⟨[("G", "a"), ("G", "c")], [], []⟩)]

example : entityInOne exStore ("G", "a") ("G", "c") = some true := by decide +kernel
example : entityInOne exStore ("G", "a") ("G", "zzz") = some false := by decide +kernel
example : Reach exStore ("G", "a") ("G", "c") := (C03_entityInOne_correct _ _ _).mp (by decide +kernel)

end CedarGo
