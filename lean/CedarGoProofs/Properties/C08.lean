/-
  C08 — Cedar text marshalling round-trips every policy.

  Objects.  `Text.marshalPolicy` (CedarGo/Model/Text/Marshal.lean) is the model of Go's `Policy.MarshalCedar`
  (cedar_marshal.go, node.go and the value printers): a list of tokens and white-space pieces, from which both
  the exact bytes (`pieceText`) and the token list the parser sees (`pieceToks`) are read off.  `./check C08`
  compares bytes AND tokens with the Go output and model parse∘marshal with Go parse∘marshal on every
  generated policy inside the modelled domain, and runs the property itself (render → parse → compare
  effect/annotations/scope, evaluate on ≥ 8 environments, re-render, lists / sets / Encoder→Decoder) on the
  Go implementation for policies from the builder, from text and from JSON.

  WHAT IS PROVED
  * C08_marshal_parses_partial      on `policyOKGo`: the rendering parses, and to the IDENTICAL policy;
    hence C08_marshal_idempotent_partial (re-rendering gives the same bytes)
  * C08_marshal_value_parses_partial / C08_marshal_value_meaning_partial / C08_marshal_value_evaluates_partial
                                    a `NodeValue` holding ANY value of `valOK` — booleans, longs, strings, entity uids,
                                    duplicate-free sets, records, decimal / datetime / duration / ip values in the
                                    range of the C12 round trips, arbitrarily nested — is written as text that parses
                                    to the expression `valExpr v` (set literal / record literal / constructor call on
                                    the text form), and that expression evaluates to `v` (a value `Equal` to `v`)
                                    on every request and entity store; C08_marshal_value_order_irrelevant: whichever
                                    order the members of a set are listed in (Go: hash-slot order), `valOK` holds alike
                                    and the two listings are `Equal` values
  * C08_marshal_parses_values_partial   on `policyOKGoV` (= `policyOKGo` + such `NodeValue`s anywhere in the conditions):
                                    the rendering parses to `desugarPolicy p` (every `NodeValue` replaced by `valExpr`)
  * C08_marshal_meaning_partial     on `policyOKGoV`: the reparsed policy has the same effect, annotations and scope and
                                    evaluates identically (same value or same failure) on every environment
  * C08_list_roundtrip_partial / C08_list_roundtrip_values_partial   lists of such policies parse back in order
  * C08_marshal_idempotent_values_counterexample   with a set VALUE holding an extension value the second rendering
                                    differs from the first (`[ip("…")]` → `[(ip("…"))]`: known finding
                                    `extension-value-in-set-or-record-rerendered-with-parens`, harmless and stable from
                                    then on) — why idempotence is stated on `policyOKGo` only
  * C08_negate_literal_same_meaning `-`(literal n) is written `-n` and read back as the literal −n: a different
                                    tree with the same value (why the full statement speaks of meaning, not trees)
  * regression examples for the two repaired defects: `Long(-5).Access("foo")` is written `(-5).foo`
    (`negative-literal-receiver`) and `Negate(Long(5).Access("foo"))` is written `-5.foo` and read back
    (`negated-int-receiver`); both trees are inside the fragment now

  THE FRAGMENTS (decidable; CedarGo/Model/Text/Fragment.lean)
  `Text.policyOKGo` / `Text.inFragGo`: the C07 fragment — EVERY node kind: bool/long/string/entity literals, variables,
  all unary and binary operators and methods, if-then-else, attribute access, has, like (patterns in `NewPattern` normal
  form, C07_pattern_roundtrip), is, is-in, sets, records, extension calls; any annotations with distinct keys, every
  scope form, any conditions — MINUS `-`(non-negative literal), which is written `-5` and read back as the literal −5.
  `Text.policyOKGoV` / `Text.inFragGoV`: the same, PLUS `NodeValue`s holding any value of `Text.valOK`.
  WHAT THE HYPOTHESES STILL EXCLUDE (why the names keep `_partial`): `-`(non-negative literal) (same meaning, different
  tree: C08_negate_literal_same_meaning); extension VALUES outside the range where their text form parses back
  (datetime before the source's `minDatetime`, IPv4-mapped IPv6 addresses: the C12 counterexamples / known finding
  `extension-value-without-text-form`); values that are no Go value (longs outside int64, a set listing two `Equal`
  members, a record listing its keys out of order); and what C07 excludes because it is the tree of no Cedar text
  (entity types that are not paths, repeated record / annotation keys, unknown or receiver-less calls, `principal in [..]`,
  `action is ..`).  Not a theorem: the BYTES of a set with two or more members (Go writes hash-slot order; compared
  Go-vs-model up to member order by op `marshal-value`); PolicySet order (a property of the container: C20).
-/
import CedarGoProofs.Lemmas.C08Marshal
import CedarGoProofs.Lemmas.C08ValuesEval
import CedarGoProofs.Lemmas.C08ValuesOrder
namespace CedarGo
open CedarGo.Text

/-- the Cedar text of `p` parses successfully — and, on this fragment, to `p` itself -/
theorem C08_marshal_parses_partial (p : Policy) (h : policyOKGo p = true) :
    parsePolicy (pieceToks (marshalPolicy p)) = some (.ok p)         := parsePolicy_of_reads (policyReads_marshal h)

/-- the text of `p` parses to `desugarPolicy p`: `p` with every `NodeValue` replaced by the expression it is written as
    (`valExpr`: itself for booleans / longs / strings / entity uids) -/
theorem C08_marshal_parses_values_partial (p : Policy) (h : policyOKGoV p = true) :
    parsePolicy (pieceToks (marshalPolicy p)) = some (.ok (desugarPolicy p)) := parsePolicy_of_reads (policyReads_marshalV h)

/-- the old fragment is the part of the new one where nothing is rewritten -/
example (p : Policy) (h : policyOKGo p = true) : policyOKGoV p = true ∧ desugarPolicy p = p := policyOKGoV_of_policyOKGo h

/-- the reparsed policy has the same effect, annotations and scope and evaluates identically (same value or
    same failure) on every request and entity store — also when its conditions contain `NodeValue`s holding sets,
    records or extension values (`policyOKGoV`), which are read back as set / record literals and constructor calls -/
theorem C08_marshal_meaning_partial (p q : Policy) (h : policyOKGoV p = true)
    (hq : parsePolicy (pieceToks (marshalPolicy p)) = some (.ok q)) :
    q.effect = p.effect ∧ q.annotations = p.annotations ∧ q.principal = p.principal ∧ q.action = p.action ∧
    q.resource = p.resource ∧ (∀ env, eval (policyToExpr q) env = eval (policyToExpr p) env) ∧
    ∀ env, evalBool (policyToExpr q) env = evalBool (policyToExpr p) env := by
  rw [C08_marshal_parses_values_partial p h] at hq
  cases hq
  have hc : p.conditions.all (fun c => inFragGoV c.2) = true := by
    simp only [policyOKGoV, Bool.and_eq_true] at h; exact h.2
  refine ⟨rfl, rfl, rfl, rfl, rfl, fun env => eval_policyToExpr_desugar p hc env, fun env => ?_⟩
  unfold evalBool
  rw [eval_policyToExpr_desugar p hc env]

/-- rendering the reparsed policy reproduces the same bytes -/
theorem C08_marshal_idempotent_partial (p q : Policy) (h : policyOKGo p = true)
    (hq : parsePolicy (pieceToks (marshalPolicy p)) = some (.ok q)) :
    pieceText (marshalPolicy q) = pieceText (marshalPolicy p) := by
  rw [parsePolicy_of_reads (policyReads_marshal h)] at hq
  cases hq
  rfl

/-- rendering a list of policies parses back to the same policies in the same order -/
theorem C08_list_roundtrip_partial (ps : List Policy) (h : ps.all policyOKGo = true) :
    parsePolicies (marshalListToks ps) = some (.ok ps) := parsePolicies_of_reads (polsReads_marshal ps h)

/-- the same for policies with value-only `NodeValue`s: the sequence of the `desugarPolicy` images, in order -/
theorem C08_list_roundtrip_values_partial (ps : List Policy) (h : ps.all policyOKGoV = true) :
    parsePolicies (marshalListToks ps) = some (.ok (ps.map desugarPolicy)) := parsePolicies_of_reads (polsReads_marshalV ps h)

/-! ## `NodeValue`s without literal syntax -/

/-- **tree**: the text `types.Value.MarshalCedar` writes for `v` parses, as a complete expression, to `valExpr v` -/
theorem C08_marshal_value_parses_partial (v : Value) (h : valOK v = true) :
    parseExpr (pieceToks (marshalLit v)) = some (.ok (valExpr v, [])) :=
  parseExpr_of_reads (rend_spec (rend_mono (val_rend v h) (Nat.zero_le _)) (Nat.zero_le _)).1

/-- **meaning**: parsing the rendering of the literal `v` gives an expression that evaluates, on every request and
    entity store, to a value `Equal` to `v` (`Value.beq`: sets compared as sets).
    FULL statement: the same for every value.  Missing: extension values outside the range of the C12 round trips
    (there the text form does not parse back: `C12_datetime_min_counterexample`, `C12_ip_4in6_counterexample`). -/
theorem C08_marshal_value_meaning_partial (v : Value) (h : valOK v = true) :
    ∃ e, parseExpr (pieceToks (marshalLit v)) = some (.ok (e, [])) ∧ ∀ env, ∃ v', eval e env = .ok v' ∧ v'.beq v = true :=
  ⟨valExpr v, C08_marshal_value_parses_partial v h, fun env => ⟨v, eval_valExpr v h env, C11.beq_refl v⟩⟩

/-- sharper: the value obtained is `v` itself, member for member (a duplicate-free member list is kept as it is by
    `NewSet`, strictly ascending keys are the evaluation order of a record literal) -/
theorem C08_marshal_value_evaluates_partial (v : Value) (h : valOK v = true) (env : Env) : eval (valExpr v) env = .ok v :=
  eval_valExpr v h env

/-- **member order**: Go writes the members of a set in hash-slot order.  Whatever listing `ys` of the members `xs` is
    written, it satisfies the hypothesis of the theorems above iff `xs` does, and it is an `Equal` value -/
theorem C08_marshal_value_order_irrelevant (xs ys : List Value) (hp : xs.Perm ys) (h : valOK (.set xs) = true) :
    valOK (.set ys) = true ∧ Value.beq (.set ys) (.set xs) = true := valOK_set_perm hp h

example : [Value.long 1, .str "a", .set []].Perm [.set [], .long 1, .str "a"] ∧ valOK (.set [.long 1, .str "a", .set []]) = true :=
  ⟨(List.perm_append_comm (l₁ := [Value.long 1, .str "a"]) (l₂ := [.set []])), by decide +kernel⟩

/-- a set of a record, a decimal, an IPv6 prefix and a negative long; a record with a key that needs escaping -/
example : valOK (.set [.record [("a\"b", .decimal (-15000)), ("k", .set [])], .ip ⟨true, 1, 64⟩, .long (-5), .duration 90061001,
      .datetime 0, .entity "NS::User" "x y"]) = true ∧
    pieceText (marshalLit (.set [.record [("a\"b", .decimal (-15000)), ("k", .set [])], .ip ⟨true, 1, 64⟩, .long (-5)])) =
      "[{\"a\\\"b\":decimal(\"-1.5\"), \"k\":[]}, ip(\"::1/64\"), -5]" := by
  decide +kernel

/-- policies with such values anywhere in their conditions -/
example : policyOKGoV { effect := .permit, conditions := [(true, .binop .contains (.lit (.set [.ip ⟨false, 167772161, 32⟩, .long 1]))
      (.access (.lit (.record [("a", .decimal 15000)])) "a")), (false, .like (.var .context) [⟨true, [97]⟩])] } = true := by
  decide +kernel

/-- **idempotence fails with value-only NodeValues** (known finding `extension-value-in-set-or-record-rerendered-with-parens`):
    a set VALUE holding an ip is written `[ip("10.0.0.1")]`; what is read back is a set NODE whose element is a call
    node, which the set printer parenthesises — the second rendering is `[(ip("10.0.0.1"))]` (same meaning, and stable
    from then on) -/
theorem C08_marshal_idempotent_values_counterexample :
    ∃ p : Policy, policyOKGoV p = true ∧
      pieceText (marshalPolicy (desugarPolicy p)) ≠ pieceText (marshalPolicy p) ∧
      pieceText (marshalPolicy p) = "permit ( principal, action, resource )\nwhen { [ip(\"10.0.0.1\")] };" ∧
      pieceText (marshalPolicy (desugarPolicy p)) = "permit ( principal, action, resource )\nwhen { [(ip(\"10.0.0.1\"))] };" :=
  ⟨{ effect := .permit, conditions := [(true, .lit (.set [.ip ⟨false, 167772161, 32⟩]))] }, by decide +kernel, by decide +kernel,
    by decide +kernel, by decide +kernel⟩

example : policyOKGo { effect := .forbid, annotations := [("id", "x")], principal := .is "User", action := .eq ("Action", "a"), resource := .in_ ("NS::Folder", "f"), conditions := [(true, .binop .and (.binop .lt (.binop .sub (.lit (.long 1)) (.lit (.long (-2)))) (.binop .mul (.var .context) (.unop .neg (.var .context))))
      (.binop .contains (.set [.lit (.long (-1)), .call "ip" [.lit (.str "::1")]]) (.access (.var .principal) "a b"))),
    (false, .ite (.unop .not (.has (.var .context) "if")) (.record [("k", .lit (.bool true))]) (.call "isIpv4" [.var .context]))] } = true := by
  decide +kernel

/-- why only meaning can be demanded in general: `Negate(Long n)` is written `-n`, which is the literal −n -/
theorem C08_negate_literal_same_meaning (n : Int) (h0 : 0 ≤ n) (h1 : n ≤ 9223372036854775807) (env : Env) :
    eval (.unop .neg (.lit (.long n))) env = eval (.lit (.long (-n))) env ∧
    pieceToks (marshalExpr (.unop .neg (.lit (.long n)))) = pieceToks (marshalExpr (.lit (.long (-n)))) ∨ n = 0 := by
  by_cases hn : n = 0
  · exact .inr hn
  · left
    have hpos : 0 < n := by omega
    constructor
    · have hmin : (n == minI64) = false := by
        apply beq_eq_false_iff_ne.mpr; unfold minI64; omega
      simp [eval, toLong, checkedNeg, hmin, bind, Except.bind]
    · have h1' : ¬ n < 0 := by omega
      have h2' : -n < 0 := by omega
      have h3 : (-n).natAbs = n.toNat := by omega
      simp [marshalExpr, marshalLit, marshalValW, goWrap, goPrec, h1', h3, hpos]

/-- regression (repaired defect `negative-literal-receiver`): a negative literal receiver is written in
    parentheses, and the text is read back to the same tree -/
example :
    let p : Policy := { effect := .permit, conditions := [(true, .access (.lit (.long (-5))) "foo")] }
    policyOKGo p = true ∧ pieceText (marshalPolicy p) = "permit ( principal, action, resource )\nwhen { (-5).foo };" ∧
      parsePolicy (pieceToks (marshalPolicy p)) = some (.ok p) :=
  ⟨by decide +kernel, by decide +kernel, C08_marshal_parses_partial _ (by decide +kernel)⟩

/-- regression (repaired defect `negated-int-receiver`): the negation of an integer-headed postfix chain is written
    `-5.foo` (a different text from the one above) and read back to the same tree -/
example :
    let p : Policy := { effect := .permit, conditions := [(true, .unop .neg (.access (.lit (.long 5)) "foo"))] }
    policyOKGo p = true ∧ pieceText (marshalPolicy p) = "permit ( principal, action, resource )\nwhen { -5.foo };" ∧
      parsePolicy (pieceToks (marshalPolicy p)) = some (.ok p) :=
  ⟨by decide +kernel, by decide +kernel, C08_marshal_parses_partial _ (by decide +kernel)⟩

/-- every receiver position parenthesises a negative literal: `.attr`, `["attr"]`, isEmpty, contains…, getTag/hasTag,
    extension methods — and nothing else does (arguments, operands of infix operators, set elements are parenthesised
    by their precedence level only) -/
example : pieceText (marshalExpr (.binop .contains (.unop .isEmpty (.access (.lit (.long (-1))) "a b")) (.lit (.long (-2))))) =
      "(-1)[\"a b\"].isEmpty().contains(-2)" ∧
    pieceText (marshalExpr (.call "isInRange" [.lit (.long (-1)), .set [.lit (.long (-3))]])) = "(-1).isInRange([-3])" ∧
    pieceText (marshalExpr (.binop .getTag (.lit (.long (-1))) (.binop .mul (.lit (.long (-2))) (.lit (.long (-3)))))) =
      "(-1).getTag((-2 * -3))" := by
  decide +kernel

end CedarGo
