/-
  C08 — Cedar text marshalling round-trips every policy.

  Objects.  `Text.marshalPolicy` (CedarGo/Model/Text/Marshal.lean) is the model of Go's `Policy.MarshalCedar`
  (cedar_marshal.go, node.go and the value printers): a list of tokens and white-space pieces, from which both
  the exact bytes (`pieceText`) and the token list the parser sees (`pieceToks`) are read off.  `./check C08`
  compares bytes AND tokens with the Go output and model parse∘marshal with Go parse∘marshal on every
  generated policy inside the modelled domain, and runs the property itself (render → parse → compare
  effect/annotations/scope, evaluate on ≥ 8 environments, re-render, lists / sets / Encoder→Decoder) on the
  Go implementation for policies from the builder, from text and from JSON.

  WHAT IS PROVED
  * C08_marshal_parses_partial      on `policyOKGo`: the rendering parses, and to the IDENTICAL policy;
    hence C08_marshal_meaning_partial (same effect, annotations, scope, same evaluation on every environment)
    and C08_marshal_idempotent_partial (re-rendering gives the same bytes)
  * C08_list_roundtrip_partial      a list of such policies parses back to the same sequence, in order
  * C08_negate_literal_same_meaning `-`(literal n) is written `-n` and read back as the literal −n: a different
                                    tree with the same value (why the full statement speaks of meaning, not trees)
  * regression examples for the two repaired defects: `Long(-5).Access("foo")` is written `(-5).foo`
    (`negative-literal-receiver`) and `Negate(Long(5).Access("foo"))` is written `-5.foo` and read back
    (`negated-int-receiver`); both trees are inside the fragment now

  THE FRAGMENT `Text.policyOKGo` / `Text.inFragGo` (decidable; CedarGo/Model/Text/Fragment.lean): the C07 fragment
  (bool/long/string/entity literals, variables, all unary and binary operators and methods, if-then-else, attribute
  access, has, is, is-in, sets, records, extension calls; any annotations with distinct keys, every scope form, any
  conditions) MINUS `-`(non-negative literal), which is written `-5` and read back as the literal −5.
  NOT covered by theorems (covered by the direct oracle on the Go side only): `like`;
  NodeValues holding sets, records or extension values (their printing order / key quoting is not modelled — and
  has the known defects listed in known_findings.d/C08.json); PolicySet order (a property of the container: C20).
-/
import CedarGoProofs.Lemmas.C08Marshal
namespace CedarGo
open CedarGo.Text

/-- the Cedar text of `p` parses successfully — and, on this fragment, to `p` itself -/
theorem C08_marshal_parses_partial (p : Policy) (h : policyOKGo p = true) :
    parsePolicy (pieceToks (marshalPolicy p)) = some (.ok p)         := parsePolicy_of_reads (policyReads_marshal h)

/-- the reparsed policy has the same effect, annotations and scope and evaluates identically (same value or
    same failure) on every request and entity store -/
theorem C08_marshal_meaning_partial (p q : Policy) (h : policyOKGo p = true)
    (hq : parsePolicy (pieceToks (marshalPolicy p)) = some (.ok q)) :
    q.effect = p.effect ∧ q.annotations = p.annotations ∧ q.principal = p.principal ∧ q.action = p.action ∧
    q.resource = p.resource ∧ ∀ env, evalBool (policyToExpr q) env = evalBool (policyToExpr p) env := by
  rw [parsePolicy_of_reads (policyReads_marshal h)] at hq
  cases hq
  exact ⟨rfl, rfl, rfl, rfl, rfl, fun _ => rfl⟩

/-- rendering the reparsed policy reproduces the same bytes -/
theorem C08_marshal_idempotent_partial (p q : Policy) (h : policyOKGo p = true)
    (hq : parsePolicy (pieceToks (marshalPolicy p)) = some (.ok q)) :
    pieceText (marshalPolicy q) = pieceText (marshalPolicy p) := by
  rw [parsePolicy_of_reads (policyReads_marshal h)] at hq
  cases hq
  rfl

/-- rendering a list of policies parses back to the same policies in the same order -/
theorem C08_list_roundtrip_partial (ps : List Policy) (h : ps.all policyOKGo = true) :
    parsePolicies (marshalListToks ps) = some (.ok ps) := parsePolicies_of_reads (polsReads_marshal ps h)

example : policyOKGo { effect := .forbid, annotations := [("id", "x")], principal := .is "User", action := .eq ("Action", "a"), resource := .in_ ("NS::Folder", "f"), conditions := [(true, .binop .and (.binop .lt (.binop .sub (.lit (.long 1)) (.lit (.long (-2)))) (.binop .mul (.var .context) (.unop .neg (.var .context))))
      (.binop .contains (.set [.lit (.long (-1)), .call "ip" [.lit (.str "::1")]]) (.access (.var .principal) "a b"))),
    (false, .ite (.unop .not (.has (.var .context) "if")) (.record [("k", .lit (.bool true))]) (.call "isIpv4" [.var .context]))] } = true := by
  decide +kernel

/-- why only meaning can be demanded in general: `Negate(Long n)` is written `-n`, which is the literal −n -/
theorem C08_negate_literal_same_meaning (n : Int) (h0 : 0 ≤ n) (h1 : n ≤ 9223372036854775807) (env : Env) :
    eval (.unop .neg (.lit (.long n))) env = eval (.lit (.long (-n))) env ∧
    pieceToks (marshalExpr (.unop .neg (.lit (.long n)))) = pieceToks (marshalExpr (.lit (.long (-n)))) ∨ n = 0 := by
  by_cases hn : n = 0
  · exact .inr hn
  · left
    have hpos : 0 < n := by omega
    constructor
    · have hmin : (n == minI64) = false := by
        apply beq_eq_false_iff_ne.mpr; unfold minI64; omega
      simp [eval, toLong, checkedNeg, hmin, bind, Except.bind]
    · have h1' : ¬ n < 0 := by omega
      have h2' : -n < 0 := by omega
      have h3 : (-n).natAbs = n.toNat := by omega
      simp [marshalExpr, marshalLit, goWrap, goPrec, h1', h3, hpos]

/-- regression (repaired defect `negative-literal-receiver`): a negative literal receiver is written in
    parentheses, and the text is read back to the same tree -/
example :
    let p : Policy := { effect := .permit, conditions := [(true, .access (.lit (.long (-5))) "foo")] }
    policyOKGo p = true ∧ pieceText (marshalPolicy p) = "permit ( principal, action, resource )\nwhen { (-5).foo };" ∧
      parsePolicy (pieceToks (marshalPolicy p)) = some (.ok p) :=
  ⟨by decide +kernel, by decide +kernel, C08_marshal_parses_partial _ (by decide +kernel)⟩

/-- regression (repaired defect `negated-int-receiver`): the negation of an integer-headed postfix chain is written
    `-5.foo` (a different text from the one above) and read back to the same tree -/
example :
    let p : Policy := { effect := .permit, conditions := [(true, .unop .neg (.access (.lit (.long 5)) "foo"))] }
    policyOKGo p = true ∧ pieceText (marshalPolicy p) = "permit ( principal, action, resource )\nwhen { -5.foo };" ∧
      parsePolicy (pieceToks (marshalPolicy p)) = some (.ok p) :=
  ⟨by decide +kernel, by decide +kernel, C08_marshal_parses_partial _ (by decide +kernel)⟩

/-- every receiver position parenthesises a negative literal: `.attr`, `["attr"]`, isEmpty, contains…, getTag/hasTag,
    extension methods — and nothing else does (arguments, operands of infix operators, set elements are parenthesised
    by their precedence level only) -/
example : pieceText (marshalExpr (.binop .contains (.unop .isEmpty (.access (.lit (.long (-1))) "a b")) (.lit (.long (-2))))) =
      "(-1)[\"a b\"].isEmpty().contains(-2)" ∧
    pieceText (marshalExpr (.call "isInRange" [.lit (.long (-1)), .set [.lit (.long (-3))]])) = "(-1).isInRange([-3])" ∧
    pieceText (marshalExpr (.binop .getTag (.lit (.long (-1))) (.binop .mul (.lit (.long (-2))) (.lit (.long (-3)))))) =
      "(-1).getTag((-2 * -3))" := by
  decide +kernel

end CedarGo
