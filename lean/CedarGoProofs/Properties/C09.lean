/-
  C09 — The JSON policy codec round-trips (JSON-tree level).

  Model: CedarGo/Model/Json/Policy.lean — `toJ` (= `Policy.MarshalJSON` / `nodeJSON.FromNode`), `fromJ`
  (= `Policy.UnmarshalJSON`: phase 1 `json.Unmarshal` into `nodeJSON` with `DisallowUnknownFields` and the
  unknown-key-is-extension fallback, phase 2 `ToNode` with `len(map) = 1`), `setToJ` / `setFromJ` for policy
  sets.  Tied to internal/json by the correspondence ops json-encode / json-decode / jsonset-encode /
  jsonset-decode on generated documents and on near-miss documents (accept / reject / panic / decoded policy).

  FULL STATEMENT (not a theorem: the code violates it):
      ∀ p, ∃ p', fromJ (toJ p) = .ok p' ∧ p' ≈ p
  where `p' ≈ p` (`JsonEquiv`) is: `p' = normP p`, i.e. identical effect, scopes, condition kinds and every
  expression node, literal and pattern, EXCEPT the stated identifications — annotations and record-literal
  entries as key ↦ value maps (listed by key, a later duplicate wins), a literal decimal / ip VALUE identified
  with the constructor call JSON writes for it, patterns re-built by `NewPattern`, source position dropped.
  It fails for calls of unknown functions (`C09_unknown_function_counterexample`, outside the JSON format by design),
  for a method-style call without its receiver (`C09_method_without_receiver_counterexample`: programmatic only, the
  JSON format has the receiver as first argument) and for literal values outside C13's fragment.  The `_partial`
  theorems restrict to `p.JsonRenderable` (decidable).  A `like` with a zero-component pattern (`NewPattern()`) is
  INSIDE the fragment since `fix: encode the empty like-pattern as JSON that can be decoded again`
  (`C09_like_empty_pattern_roundtrip`; was `C09_like_empty_pattern_counterexample`).

  `C09_encodings_authorize_alike_partial`: the decoded policy is satisfied exactly when the original is, in every
  environment — proved on the fragment `JsonSemNormal` (patterns already in `NewPattern` normal form, decimal / ip
  literals whose text parses back), where the identifications reduce to "literal value = constructor call" and to the
  listing order of record entries.  Record literals need NOT be key-sorted any more: since
  `fix: evaluate the entries of a record literal in key order` a literal evaluates its entries in key order whatever
  order they are listed in (`eval_recordLit_canon`; before, the error KIND of a literal with two failing entries
  followed the Go map order: C14).  Outside the fragment the statement needs a lemma on `NewPattern` normal forms.

  LEAF HYPOTHESES DISCHARGED FROM C12 (last section, `…_inrange`): `JsonRenderable` mentions C13's `WF` for literal
  values (extension leaves whose text parses back) and `JsonSemNormal` asks that the text of every decimal / ip literal
  VALUE parses back.  Both follow from the purely structural, decidable `JsonRenderableInRange` / `JsonSemNormalInRange`
  (literal values canonical with leaves in C12's proved range: int64 longs / decimals / durations, datetimes from
  `minDatetime` on, valid IPv4 and IPv6 addresses / prefixes that are not IPv4-mapped) by `C12_decimal_roundtrip`,
  `C12_duration_roundtrip`, `C12_datetime_roundtrip_partial`, `C12_ip_roundtrip_iff` (IPv4: `C12_ip_roundtrip_partial`,
  IPv6: `C12_ip_roundtrip_v6_partial`); the `_inrange` corollaries carry no parse∘print hypothesis.
  Still outside: literal values holding a first-day datetime or an IPv4-mapped IPv6 address — the two open defects of
  cedar-go, for which the text form provably does NOT parse back (`C12_datetime_first_day_unparseable`,
  `C12_ip_4in6_unparseable`, `C13_leaf_outside_range_rejected`).  NOTE these restrictions bite only where the literal is
  a VALUE node (programmatic ASTs); a parsed policy has constructor calls `ip("…")`, not values.

  `C09_json_pattern_components_meaning` / `C09_json_pattern_decode_meaning`: the `"pattern"` array of a `like` node
  — ANY list of `{"Literal": s}` and `"Wildcard"` items, empty literals in leading / middle / trailing position and
  repeated wildcards included — decodes (`Pattern.UnmarshalJSON` → `types.NewPattern`) to a pattern in the matcher's
  normal form that matches exactly the strings the list denotes (the literals in order, every wildcard standing for
  any text; `C09P.compElems` interpreted by the specification's backtracking matcher).  Full strength since
  `fix: NewPattern keeps a wildcard which follows a leading empty literal`: before, `[{"Literal":""},"Wildcard",
  {"Literal":"a"}]` decoded to the pattern `a` — a policy with a different meaning than the document and than the
  Cedar text `like "*a"` (regression examples below the theorems).

  NOT PROVED HERE (direct oracle only, harness/cmd/vh/c09.go): agreement with the TEXT codec (needs the parser /
  printer models of C07 / C08).
-/
import CedarGoProofs.Lemmas.C09Leaves
import CedarGoProofs.Lemmas.C09Pattern
namespace CedarGo
open JsonModel

/-- the fragment of policies the JSON format can carry: see `renderableP` / `renderableE` -/
def Policy.JsonRenderable (p : Policy) : Prop := renderableP p = true
def Expr.JsonRenderable (e : Expr) : Prop := renderableE e = true
instance (p : Policy) : Decidable p.JsonRenderable := by unfold Policy.JsonRenderable; infer_instance
instance (e : Expr) : Decidable e.JsonRenderable := by unfold Expr.JsonRenderable; infer_instance

/-- **Expressions**: both phases of the decoder on the encoding of `e` succeed and give `normE e`. -/
theorem C09_expr_json_roundtrip_partial (e : Expr) (h : e.JsonRenderable) :
    ∃ n, decodeNode (exprToJ e) = .ok n ∧ nodeToExpr n = .ok (normE e) :=
  ⟨embed e, expr_roundtrip e h⟩

/-- **Policies**: decoding the JSON encoding yields the same policy up to the stated identifications. -/
theorem C09_json_roundtrip_partial (p : Policy) (h : p.JsonRenderable) :
    ∃ p', fromJ (toJ p) = .ok p' ∧ JsonEquiv p' p :=
  ⟨normP p, json_roundtrip p h, rfl⟩

/-- what is kept exactly: effect, the three scopes, the number and kind of conditions -/
theorem C09_json_roundtrip_keeps_partial (p p' : Policy) (h : p.JsonRenderable) (hd : fromJ (toJ p) = .ok p') :
    p'.effect = p.effect ∧ p'.principal = p.principal ∧ p'.action = p.action ∧ p'.resource = p.resource ∧
    p'.conditions.map (·.1) = p.conditions.map (·.1) := by
  rw [json_roundtrip p h] at hd
  cases hd
  simp [normP, List.map_map, Function.comp_def]

/-- **Policy sets**: the ids are preserved and every policy round-trips (`sortKV`: the set as an id ↦ policy map,
    listed by id). -/
theorem C09_policyset_json_roundtrip_partial (ps : List (PolicyID × Policy)) (h : ∀ ip ∈ ps, ip.2.JsonRenderable) :
    setFromJ (setToJ ps) = .ok (sortKV (ps.map fun ip => (ip.1, normP ip.2))) := by
  apply policyset_roundtrip
  simp only [List.all_eq_true]
  exact h

/-- see the file header -/
def Policy.JsonSemNormal (p : Policy) : Prop := p.conditions.all (fun c => semNormalE c.2) = true
instance (p : Policy) : Decidable p.JsonSemNormal := by unfold Policy.JsonSemNormal; infer_instance

/-- **All encodings authorize alike** (partial: fragment `JsonSemNormal`): the policy decoded from the JSON encoding
    has the same effect and is satisfied / unsatisfied / erroring (same error kind) exactly like the original, both
    as `PolicyToNode` says and as the authorizer's compiled (folded) form computes it. -/
theorem C09_encodings_authorize_alike_partial (p p' : Policy) (hr : p.JsonRenderable) (hs : p.JsonSemNormal)
    (hd : fromJ (toJ p) = .ok p') (env : Env) :
    p'.effect = p.effect ∧ evalBool (policyToExpr p') env = evalBool (policyToExpr p) env ∧
    evalBool (compile p') env = evalBool (compile p) env := by
  rw [json_roundtrip p hr] at hd
  cases hd
  refine ⟨rfl, normP_preserves p env hs, ?_⟩
  rw [C04_compile_preserves, C04_compile_preserves, normP_preserves p env hs]

def c09Example : Policy :=
  { effect := .permit, annotations := [("id", "x"), ("a", "b")],
    principal := .isIn "User" ("Group", "g"), action := .inSet [("Action", "r"), ("Action", "w")], resource := .eq ("Doc", "d"),
    conditions := [(true, .binop .and (.like (.access (.var .context) "s") [⟨true, [97]⟩, ⟨true, []⟩])
                            (.call "isInRange" [.lit (.ip ⟨false, 167772161, 32⟩), .call "ip" [.lit (.str "10.0.0.0/8")]])),
                   (false, .record [("k", .lit (.decimal 15000)), ("a", .set [.lit (.long 1), .lit (.set [.long 2])])])] }

example : c09Example.JsonRenderable := by decide +kernel
example : ({ c09Example with conditions := [(true, .binop .eq (.lit (.decimal 15000)) (.record [("a", .lit (.ip ⟨false, 1, 32⟩)), ("b", .var .context)]))] } : Policy).JsonSemNormal := by
  decide +kernel

-- a record literal whose entries are NOT listed in key order is inside the fragment
example : ({ c09Example with conditions := [(true, .has (.record [("b", .var .context), ("a", .lit (.long 1))]) "a")] } : Policy).JsonSemNormal := by
  decide +kernel

/-- the identifications are visible on the example: the annotations come back by key -/
example : (normP c09Example).annotations = [("a", "b"), ("id", "x")] := by decide +kernel

/-! ### Leaf hypotheses discharged from C12 (no parse∘print hypothesis left) -/

/-- `JsonRenderable` with "literal values are `WF`" replaced by "literal values are canonical (sets duplicate-free, records
    key-sorted) and their leaves in C12's range": purely structural, see `renderableRangeE` -/
def Policy.JsonRenderableInRange (p : Policy) : Prop := renderableRangeP p = true
def Expr.JsonRenderableInRange (e : Expr) : Prop := renderableRangeE e = true
/-- `JsonSemNormal` with "decimal / ip literal values whose text parses back" replaced by "decimal literal values in int64
    range, ip literal values valid (IPv4 or IPv6) and not IPv4-mapped": purely structural, see `semNormalRangeE` -/
def Policy.JsonSemNormalInRange (p : Policy) : Prop := p.conditions.all (fun c => semNormalRangeE c.2) = true
instance (p : Policy) : Decidable p.JsonRenderableInRange := by unfold Policy.JsonRenderableInRange; infer_instance
instance (e : Expr) : Decidable e.JsonRenderableInRange := by unfold Expr.JsonRenderableInRange; infer_instance
instance (p : Policy) : Decidable p.JsonSemNormalInRange := by unfold Policy.JsonSemNormalInRange; infer_instance

/-- **C12 ⟹ the fragments**: the structural predicates imply the ones the `_partial` theorems use. -/
theorem C09_renderable_of_inRange (p : Policy) (h : p.JsonRenderableInRange) : p.JsonRenderable :=
  renderableP_of_range p h
theorem C09_semNormal_of_inRange (p : Policy) (h : p.JsonSemNormalInRange) : p.JsonSemNormal :=
  semNormal_conditions_of_range p h

theorem C09_expr_json_roundtrip_inrange (e : Expr) (h : e.JsonRenderableInRange) :
    ∃ n, decodeNode (exprToJ e) = .ok n ∧ nodeToExpr n = .ok (normE e) :=
  C09_expr_json_roundtrip_partial e (renderableE_of_range e h)

theorem C09_json_roundtrip_inrange (p : Policy) (h : p.JsonRenderableInRange) :
    ∃ p', fromJ (toJ p) = .ok p' ∧ JsonEquiv p' p :=
  C09_json_roundtrip_partial p (C09_renderable_of_inRange p h)

theorem C09_json_roundtrip_keeps_inrange (p p' : Policy) (h : p.JsonRenderableInRange) (hd : fromJ (toJ p) = .ok p') :
    p'.effect = p.effect ∧ p'.principal = p.principal ∧ p'.action = p.action ∧ p'.resource = p.resource ∧
    p'.conditions.map (·.1) = p.conditions.map (·.1) :=
  C09_json_roundtrip_keeps_partial p p' (C09_renderable_of_inRange p h) hd

theorem C09_policyset_json_roundtrip_inrange (ps : List (PolicyID × Policy)) (h : ∀ ip ∈ ps, ip.2.JsonRenderableInRange) :
    setFromJ (setToJ ps) = .ok (sortKV (ps.map fun ip => (ip.1, normP ip.2))) :=
  C09_policyset_json_roundtrip_partial ps (fun ip hip => C09_renderable_of_inRange ip.2 (h ip hip))

/-- **All encodings authorize alike**, no hypothesis about literal texts: for every policy in the structural fragments the
    policy decoded from the JSON encoding has the same effect and is satisfied / unsatisfied / erroring exactly like
    the original in every environment. -/
theorem C09_encodings_authorize_alike_inrange (p p' : Policy) (hr : p.JsonRenderableInRange) (hs : p.JsonSemNormalInRange)
    (hd : fromJ (toJ p) = .ok p') (env : Env) :
    p'.effect = p.effect ∧ evalBool (policyToExpr p') env = evalBool (policyToExpr p) env ∧
    evalBool (compile p') env = evalBool (compile p) env :=
  C09_encodings_authorize_alike_partial p p' (C09_renderable_of_inRange p hr) (C09_semNormal_of_inRange p hs) hd env

/-- in particular a decimal literal VALUE and the constructor call JSON writes for it evaluate alike for EVERY int64
    decimal, and an ip literal value for every valid IPv4 / IPv6 address or prefix that is not IPv4-mapped -/
theorem C09_literal_value_is_constructor_call (env : Env) :
    (∀ d, InI64 d → eval (normE (.lit (.decimal d))) env = eval (.lit (.decimal d)) env) ∧
    (∀ a : IPNet, a.Valid → ¬ a.Is4In6 → eval (normE (.lit (.ip a))) env = eval (.lit (.ip a)) env) :=
  ⟨fun d h => eval_normE _ env (semNormalE_of_range _ (by simpa [semNormalRangeE] using h)),
   fun a hv h4 => eval_normE _ env (semNormalE_of_range _ (by simp [semNormalRangeE, ipInRange, hv, h4]))⟩

example : c09Example.JsonRenderableInRange := by decide +kernel
example : ({ c09Example with conditions := [(true, .binop .eq (.lit (.decimal 15000)) (.record [("a", .lit (.ip ⟨false, 1, 32⟩)),
    ("b", .lit (.set [.datetime 0, .duration minI64, .ip ⟨true, 1, 64⟩])), ("c", .var .context), ("d", .lit (.ip ⟨true, 1, 128⟩))]))] } : Policy).JsonRenderableInRange ∧
    ({ c09Example with conditions := [(true, .binop .eq (.lit (.decimal 15000)) (.record [("a", .lit (.ip ⟨false, 1, 32⟩)),
    ("b", .lit (.set [.datetime 0, .duration minI64, .ip ⟨true, 1, 64⟩])), ("c", .var .context), ("d", .lit (.ip ⟨true, 1, 128⟩))]))] } : Policy).JsonSemNormalInRange := by
  decide +kernel

/-! ### the `"pattern"` array of a `like` node -/

/-- **What the components mean is what the built pattern matches**: for EVERY component list `cs` (`some s` = the
    literal `{"Literal": s}` / a string argument of `types.NewPattern`, `none` = `"Wildcard"` / `Wildcard{}`; empty
    literals and repeated wildcards anywhere) the pattern `NewPattern` builds is in the normal form on which the greedy
    matcher is exact (`WFPattern`, the hypothesis of `C01_patternMatch_spec`), and `Pattern.Match` (`matchComps`) accepts
    exactly the byte strings that the element sequence of the list — its literals' bytes in order, a star per wildcard
    — accepts under the specification's backtracking matcher. -/
theorem C09_json_pattern_components_meaning (cs : List (Option String)) :
    WFPattern (newPattern cs) ∧
    ∀ s : List UInt8, matchComps (newPattern cs) s = Spec.wildcardMatchElems (C09P.compElems cs) s :=
  C09P.newPattern_meaning cs

/-- the same through `Pattern.UnmarshalJSON`: whenever a JSON array is accepted as a pattern, its items are
    `"Wildcard"` / `{"Literal": s}` components and the decoded pattern matches what they mean -/
theorem C09_json_pattern_decode_meaning (xs : List J) (p : Pattern) (h : patternOfJ xs = .ok p) :
    ∃ cs, mapMR patElem xs = .ok cs ∧ WFPattern p ∧
      ∀ s : List UInt8, matchComps p s = Spec.wildcardMatchElems (C09P.compElems cs) s := by
  unfold patternOfJ at h
  split at h
  · cases h
  · split at h
    · cases h
    · rename_i cs hcs
      cases h
      exact ⟨cs, hcs, C09P.newPattern_meaning cs⟩

example : (match patternOfJ [.obj [("Literal", .str "a")], .str "Wildcard"] with
    | .ok p => decide (p = [⟨false, [97]⟩, ⟨true, []⟩]) | .error _ => false) = true := by decide +kernel

/-- regression (the defect `like-json-wildcard-after-empty-literal`): a wildcard after a LEADING empty literal is kept —
    `[{"Literal":""},"Wildcard",{"Literal":"a"}]` is the pattern `*a`, identical to what the Cedar text `"*a"` parses
    to, and matches `xa` (it used to decode to the pattern `a`, which does not) -/
example : (match patternOfJ [.obj [("Literal", .str "")], .str "Wildcard", .obj [("Literal", .str "a")]] with
      | .ok p => decide (p = [⟨true, [97]⟩]) | .error _ => false) = true ∧
    matchComps [⟨true, [97]⟩] [120, 97] = true ∧ matchComps [⟨false, [97]⟩] [120, 97] = false := by decide +kernel

/-- ... the same inside a policy document -/
example : isCondP (fromJ (condDoc (.obj [("like", .obj [("left", .obj [("Value", .str "xa")]),
      ("pattern", .arr [.obj [("Literal", .str "")], .str "Wildcard", .obj [("Literal", .str "a")]])])])))
    (fun e => match e with | .like (.lit (.str "xa")) [⟨true, [97]⟩] => true | _ => false) = true := by decide +kernel

/-- empty literals in middle and trailing position and repeated wildcards change nothing: `a`,`*`,``,`*`,`*`,`b`,`` is `a*b` -/
example : newPattern [some "a", none, some "", none, none, some "b", some ""] = [⟨false, [97]⟩, ⟨true, [98]⟩] := by
  decide +kernel

/-! ### where the full statement fails -/

/-- regression (was `C09_like_empty_pattern_counterexample`: `"pattern":[]` was written and refused): a `like` whose
    pattern has no components is written as the empty literal, decodes, and comes back as `NewPattern("")` -/
theorem C09_like_empty_pattern_roundtrip :
    fromJ (toJ { effect := .permit, conditions := [(true, .like (.lit (.str "a")) [])] }) =
      .ok { effect := .permit, conditions := [(true, .like (.lit (.str "a")) [⟨false, []⟩])] } := by
  rw [json_roundtrip _ (by decide +kernel)]
  simp [normP, normE, normPattern, patComps, newPattern, newPatternStep, sortKV]

/-- ... and the two patterns match the same strings (only the empty one) -/
example : ∀ bs : List UInt8, matchComps [] bs = matchComps [⟨false, []⟩] bs := by
  intro bs; cases bs <;> simp [matchComps, matchChunk]

/-- the decoder itself still refuses `"pattern": []` (it is never written any more) -/
example : fromJ (condDoc (.obj [("like", .obj [("left", .obj [("Value", .str "a")]), ("pattern", .arr [])])])) = .error .reject :=
  isRejectP_eq (by decide +kernel)

/-- a call of a name that is not an extension function is written as `{name: [...]}` and refused on decoding
    (the JSON format has no other way to carry it) -/
theorem C09_unknown_function_counterexample :
    ∃ p : Policy, fromJ (toJ p) = .error .reject :=
  ⟨{ effect := .permit, conditions := [(true, .call "nosuchfn" [.lit (.long 1)])] }, isRejectP_eq (by decide +kernel)⟩

/-- a method-style call without its receiver (only constructible programmatically: `ast.ExtensionCall("isIpv4")`) is
    written as `{"isIpv4": []}` and refused on decoding: the JSON format has the receiver as first argument -/
theorem C09_method_without_receiver_counterexample :
    ∃ p : Policy, fromJ (toJ p) = .error .reject :=
  ⟨{ effect := .permit, conditions := [(true, .call "isIpv4" [])] }, isRejectP_eq (by decide +kernel)⟩

/-! ### the decoder's two special rules -/

/-- an unknown key is an extension call, provided it is the only key (`len(map) = 1`) and names a known function -/
theorem C09_unknown_key_is_extension :
    isCondP (fromJ (condDoc (.obj [("decimal", .arr [.obj [("Value", .str "1.0")]])])))
        (fun e => match e with | .call "decimal" [.lit (.str "1.0")] => true | _ => false) = true ∧
    fromJ (condDoc (.obj [("decimal", .arr []), ("ip", .arr [])])) = .error .reject ∧
    fromJ (condDoc (.obj [("nosuchfn", .arr [])])) = .error .reject :=
  ⟨by decide +kernel, isRejectP_eq (by decide +kernel), isRejectP_eq (by decide +kernel)⟩

/-- struct fields decoded before the unknown key stay set and win over the extension map: this document is
    accepted as the empty set literal, the `decimal` entry is ignored -/
theorem C09_known_field_beats_extension :
    isCondP (fromJ (condDoc (.obj [("Set", .arr []), ("decimal", .arr [.obj [("Value", .str "1.0")]])])))
        (fun e => match e with | .set [] => true | _ => false) = true := by decide +kernel

/-! ### no panic branch is left in the decoder (C10 overlap) -/

/-- **Phase 2 of the decoder (`ToNode`) never panics**: whatever `json.Unmarshal` put into the `nodeJSON` structs —
    nil record entries, empty nodes, any function name with any number of arguments — the result is an
    expression or an error.  (Was `C09_decoder_panic_counterexample`.) -/
theorem C09_tonode_never_panics (n : NJ) : nodeToExpr n ≠ .error .panic := nodeToExpr_noPanic n

/-- regression: a `null` record entry is refused with an error (was: nil `*nodeJSON` dereferenced, `.panic`) -/
example : fromJ (condDoc (.obj [("Record", .obj [("a", .null)])])) = .error .reject :=
  isRejectP_eq (by decide +kernel)

/-- regression: a `null` policy in a policy set is refused with an error (was: nil `*Policy` compiled, `.panic`) -/
example : (match setFromJ (.obj [("staticPolicies", .obj [("a", .null)])]) with | .error .reject => true | _ => false) = true := by
  decide +kernel

/-- regression: `{"lessThan":[]}` is refused (was: accepted, and `MarshalCedar` of the result panicked) -/
example : fromJ (condDoc (.obj [("lessThan", .arr [])])) = .error .reject := isRejectP_eq (by decide +kernel)

end CedarGo
