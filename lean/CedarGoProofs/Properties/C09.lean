/-
  C09 — The JSON policy codec round-trips (JSON-tree level).

  Model: CedarGo/Model/Json/Policy.lean — `toJ` (= `Policy.MarshalJSON` / `nodeJSON.FromNode`), `fromJ`
  (= `Policy.UnmarshalJSON`: phase 1 `json.Unmarshal` into `nodeJSON` with `DisallowUnknownFields` and the
  unknown-key-is-extension fallback, phase 2 `ToNode` with `len(map) = 1`), `setToJ` / `setFromJ` for policy
  sets.  Tied to internal/json by the correspondence ops json-encode / json-decode / jsonset-encode /
  jsonset-decode on generated documents and on near-miss documents (accept / reject / panic / decoded policy).

  FULL STATEMENT (not a theorem: the code violates it):
      ∀ p, ∃ p', fromJ (toJ p) = .ok p' ∧ p' ≈ p
  where `p' ≈ p` (`JsonEquiv`) is: `p' = normP p`, i.e. identical effect, scopes, condition kinds and every
  expression node, literal and pattern, EXCEPT the stated identifications — annotations and record-literal
  entries as key ↦ value maps (listed by key, a later duplicate wins), a literal decimal / ip VALUE identified
  with the constructor call JSON writes for it, patterns re-built by `NewPattern`, source position dropped.
  It fails for calls of unknown functions (`C09_unknown_function_counterexample`, outside the JSON format by design),
  for a method-style call without its receiver (`C09_method_without_receiver_counterexample`: programmatic only, the
  JSON format has the receiver as first argument) and for literal values outside C13's fragment.  The `_partial`
  theorems restrict to `p.JsonRenderable` (decidable).  A `like` with a zero-component pattern (`NewPattern()`) is
  INSIDE the fragment since `fix: encode the empty like-pattern as JSON that can be decoded again`
  (`C09_like_empty_pattern_roundtrip`; was `C09_like_empty_pattern_counterexample`).

  `C09_encodings_authorize_alike_partial`: the decoded policy is satisfied exactly when the original is, in every
  environment — proved on the fragment `JsonSemNormal` (patterns already in `NewPattern` normal form, decimal / ip
  literals whose text parses back), where the identifications reduce to "literal value = constructor call" and to the
  listing order of record entries.  Record literals need NOT be key-sorted any more: since
  `fix: evaluate the entries of a record literal in key order` a literal evaluates its entries in key order whatever
  order they are listed in (`eval_recordLit_canon`; before, the error KIND of a literal with two failing entries
  followed the Go map order: C14).  Outside the fragment the statement needs a lemma on `NewPattern` normal forms.

  LEAF HYPOTHESES DISCHARGED FROM C12 (last section, `…_inrange`): `JsonRenderable` mentions C13's `WF` for literal
  values (extension leaves whose text parses back) and `JsonSemNormal` asks that the text of every decimal / ip literal
  VALUE parses back.  Both follow from the purely structural, decidable `JsonRenderableInRange` / `JsonSemNormalInRange`
  (literal values canonical with leaves in C12's proved range: int64 longs / decimals / durations, datetimes from
  `minDatetime` on, valid IPv4 and IPv6 addresses / prefixes that are not IPv4-mapped) by `C12_decimal_roundtrip`,
  `C12_duration_roundtrip`, `C12_datetime_roundtrip_partial`, `C12_ip_roundtrip_iff` (IPv4: `C12_ip_roundtrip_partial`,
  IPv6: `C12_ip_roundtrip_v6_partial`); the `_inrange` corollaries carry no parse∘print hypothesis.
  Still outside: literal values holding a first-day datetime or an IPv4-mapped IPv6 address — the two open defects of
  cedar-go, for which the text form provably does NOT parse back (`C12_datetime_first_day_unparseable`,
  `C12_ip_4in6_unparseable`, `C13_leaf_outside_range_rejected`).  NOTE these restrictions bite only where the literal is
  a VALUE node (programmatic ASTs); a parsed policy has constructor calls `ip("…")`, not values.

  `C09_json_pattern_components_meaning` / `C09_json_pattern_decode_meaning`: the `"pattern"` array of a `like` node
  — ANY list of `{"Literal": s}` and `"Wildcard"` items, empty literals in leading / middle / trailing position and
  repeated wildcards included — decodes (`Pattern.UnmarshalJSON` → `types.NewPattern`) to a pattern in the matcher's
  normal form that matches exactly the strings the list denotes (the literals in order, every wildcard standing for
  any text; `C09P.compElems` interpreted by the specification's backtracking matcher).  Full strength since
  `fix: NewPattern keeps a wildcard which follows a leading empty literal`: before, `[{"Literal":""},"Wildcard",
  {"Literal":"a"}]` decoded to the pattern `a` — a policy with a different meaning than the document and than the
  Cedar text `like "*a"` (regression examples below the theorems).

  AGREEMENT WITH THE TEXT CODEC (last section; helper lemmas Lemmas/C09TextJson.lean) — proved by composing the C07
  parser model (`Text.parsePolicy`), the C08 marshaller model (`Text.marshalPolicy`, `C08_marshal_parses_partial`) and the
  JSON model.  The three models share ONE AST (`Policy` / `Expr`), so no bridge is needed.
  * `C09_parser_output_json_renderable` / `C09_parser_output_json_sem_normal` / `C09_parsed_text_through_json` (FULL, every
    token list, no side condition): whatever the text parser returns lies in `JsonRenderable ∩ JsonSemNormal`; hence its
    JSON encoding decodes, to the same policy up to `JsonEquiv`, with the same effect and outcome in every environment.
    (The two open literal-VALUE defects — first-day datetime, IPv4-mapped ip — cannot be reached from text: in a text
    they are constructor CALLS.)  Proof: an invariant of the parser for every predicate closed under its construction
    sites (`C09TJ.ParserClosed`, `C09TJ.parsePolicy_closed`).
  * `C09_text_fragment_json_renderable`, `C09_normP_preserves_text_fragment`: the text fragment `policyOKGo` (domain of
    the C08 theorem) lies inside both JSON fragments, `normP` maps it into itself and is idempotent on it — so the
    cross-format theorems need NO hypothesis beyond `policyOKGo`.
  * `C09_text_json_text`, `C09_json_text_json`, `C09_parsed_text_json_text`, `C09_all_encodings_authorize_alike` on
    `policyOKGo`: text → JSON → text and JSON → text → JSON succeed at every step and give `normP p` (text alone: `p`;
    JSON alone: `normP p`); the policy obtained through any of the four paths has the effect and outcome of `p` in every
    environment and can replace `p` in any policy set without changing `Authorize`.
  What `policyOKGo` excludes, and why (all inherited from C08 / C07, nothing new): `-`(non-negative literal) — written
  `-5` and read back as the LITERAL −5, so text → … yields a different tree with the same meaning
  (`C08_negate_literal_same_meaning`; the harness reports it as `text-normalises-negated-literal`); literal VALUES of
  sets / records / extension types (no literal syntax: C08's `policyOKGoV` theorems read them back as `valExpr`, and JSON
  rewrites decimal / ip values into calls); trees that are the parse of no Cedar text (entity types that are not
  paths, repeated record / annotation keys, unknown or receiver-less calls, `principal in [..]`, `action is ..`,
  patterns outside `NewPattern` normal form, a non-zero source position — JSON drops it).
  Tie: driver op `c09-cross` runs the MODEL's pipelines (toJ → fromJ → marshalPolicy → parsePolicy → toJ → fromJ →
  marshalPolicy → parsePolicy) and the harness compares every stage with Go's `MarshalJSON` / `UnmarshalJSON` /
  `MarshalCedar` / `UnmarshalCedar` on the same generated policies (harness/cmd/vh/c09_cross.go).
-/
import CedarGoProofs.Lemmas.C09Leaves
import CedarGoProofs.Lemmas.C09Pattern
import CedarGoProofs.Lemmas.C09TextJson
namespace CedarGo
open JsonModel

/-- the fragment of policies the JSON format can carry: see `renderableP` / `renderableE` -/
def Policy.JsonRenderable (p : Policy) : Prop := renderableP p = true
def Expr.JsonRenderable (e : Expr) : Prop := renderableE e = true
instance (p : Policy) : Decidable p.JsonRenderable := by unfold Policy.JsonRenderable; infer_instance
instance (e : Expr) : Decidable e.JsonRenderable := by unfold Expr.JsonRenderable; infer_instance

/-- **Expressions**: both phases of the decoder on the encoding of `e` succeed and give `normE e`. -/
theorem C09_expr_json_roundtrip_partial (e : Expr) (h : e.JsonRenderable) :
    ∃ n, decodeNode (exprToJ e) = .ok n ∧ nodeToExpr n = .ok (normE e) :=
  ⟨embed e, expr_roundtrip e h⟩

/-- **Policies**: decoding the JSON encoding yields the same policy up to the stated identifications. -/
theorem C09_json_roundtrip_partial (p : Policy) (h : p.JsonRenderable) :
    ∃ p', fromJ (toJ p) = .ok p' ∧ JsonEquiv p' p :=
  ⟨normP p, json_roundtrip p h, rfl⟩

/-- what is kept exactly: effect, the three scopes, the number and kind of conditions -/
theorem C09_json_roundtrip_keeps_partial (p p' : Policy) (h : p.JsonRenderable) (hd : fromJ (toJ p) = .ok p') :
    p'.effect = p.effect ∧ p'.principal = p.principal ∧ p'.action = p.action ∧ p'.resource = p.resource ∧
    p'.conditions.map (·.1) = p.conditions.map (·.1) := by
  rw [json_roundtrip p h] at hd
  cases hd
  simp [normP, List.map_map, Function.comp_def]

/-- **Policy sets**: the ids are preserved and every policy round-trips (`sortKV`: the set as an id ↦ policy map,
    listed by id). -/
theorem C09_policyset_json_roundtrip_partial (ps : List (PolicyID × Policy)) (h : ∀ ip ∈ ps, ip.2.JsonRenderable) :
    setFromJ (setToJ ps) = .ok (sortKV (ps.map fun ip => (ip.1, normP ip.2))) := by
  apply policyset_roundtrip
  simp only [List.all_eq_true]
  exact h

/-- see the file header -/
def Policy.JsonSemNormal (p : Policy) : Prop := p.conditions.all (fun c => semNormalE c.2) = true
instance (p : Policy) : Decidable p.JsonSemNormal := by unfold Policy.JsonSemNormal; infer_instance

/-- **All encodings authorize alike** (partial: fragment `JsonSemNormal`): the policy decoded from the JSON encoding
    has the same effect and is satisfied / unsatisfied / erroring (same error kind) exactly like the original, both
    as `PolicyToNode` says and as the authorizer's compiled (folded) form computes it. -/
theorem C09_encodings_authorize_alike_partial (p p' : Policy) (hr : p.JsonRenderable) (hs : p.JsonSemNormal)
    (hd : fromJ (toJ p) = .ok p') (env : Env) :
    p'.effect = p.effect ∧ evalBool (policyToExpr p') env = evalBool (policyToExpr p) env ∧
    evalBool (compile p') env = evalBool (compile p) env := by
  rw [json_roundtrip p hr] at hd
  cases hd
  refine ⟨rfl, normP_preserves p env hs, ?_⟩
  rw [C04_compile_preserves, C04_compile_preserves, normP_preserves p env hs]

def c09Example : Policy :=
  { effect := .permit, annotations := [("id", "x"), ("a", "b")],
    principal := .isIn "User" ("Group", "g"), action := .inSet [("Action", "r"), ("Action", "w")], resource := .eq ("Doc", "d"),
    conditions := [(true, .binop .and (.like (.access (.var .context) "s") [⟨true, [97]⟩, ⟨true, []⟩])
                            (.call "isInRange" [.lit (.ip ⟨false, 167772161, 32⟩), .call "ip" [.lit (.str "10.0.0.0/8")]])),
                   (false, .record [("k", .lit (.decimal 15000)), ("a", .set [.lit (.long 1), .lit (.set [.long 2])])])] }

example : c09Example.JsonRenderable := by decide +kernel
example : ({ c09Example with conditions := [(true, .binop .eq (.lit (.decimal 15000)) (.record [("a", .lit (.ip ⟨false, 1, 32⟩)), ("b", .var .context)]))] } : Policy).JsonSemNormal := by
  decide +kernel

-- a record literal whose entries are NOT listed in key order is inside the fragment
example : ({ c09Example with conditions := [(true, .has (.record [("b", .var .context), ("a", .lit (.long 1))]) "a")] } : Policy).JsonSemNormal := by
  decide +kernel

/-- the identifications are visible on the example: the annotations come back by key -/
example : (normP c09Example).annotations = [("a", "b"), ("id", "x")] := by decide +kernel

/-! ### Leaf hypotheses discharged from C12 (no parse∘print hypothesis left) -/

/-- `JsonRenderable` with "literal values are `WF`" replaced by "literal values are canonical (sets duplicate-free, records
    key-sorted) and their leaves in C12's range": purely structural, see `renderableRangeE` -/
def Policy.JsonRenderableInRange (p : Policy) : Prop := renderableRangeP p = true
def Expr.JsonRenderableInRange (e : Expr) : Prop := renderableRangeE e = true
/-- `JsonSemNormal` with "decimal / ip literal values whose text parses back" replaced by "decimal literal values in int64
    range, ip literal values valid (IPv4 or IPv6) and not IPv4-mapped": purely structural, see `semNormalRangeE` -/
def Policy.JsonSemNormalInRange (p : Policy) : Prop := p.conditions.all (fun c => semNormalRangeE c.2) = true
instance (p : Policy) : Decidable p.JsonRenderableInRange := by unfold Policy.JsonRenderableInRange; infer_instance
instance (e : Expr) : Decidable e.JsonRenderableInRange := by unfold Expr.JsonRenderableInRange; infer_instance
instance (p : Policy) : Decidable p.JsonSemNormalInRange := by unfold Policy.JsonSemNormalInRange; infer_instance

/-- **C12 ⟹ the fragments**: the structural predicates imply the ones the `_partial` theorems use. -/
theorem C09_renderable_of_inRange (p : Policy) (h : p.JsonRenderableInRange) : p.JsonRenderable :=
  renderableP_of_range p h
theorem C09_semNormal_of_inRange (p : Policy) (h : p.JsonSemNormalInRange) : p.JsonSemNormal :=
  semNormal_conditions_of_range p h

theorem C09_expr_json_roundtrip_inrange (e : Expr) (h : e.JsonRenderableInRange) :
    ∃ n, decodeNode (exprToJ e) = .ok n ∧ nodeToExpr n = .ok (normE e) :=
  C09_expr_json_roundtrip_partial e (renderableE_of_range e h)

theorem C09_json_roundtrip_inrange (p : Policy) (h : p.JsonRenderableInRange) :
    ∃ p', fromJ (toJ p) = .ok p' ∧ JsonEquiv p' p :=
  C09_json_roundtrip_partial p (C09_renderable_of_inRange p h)

theorem C09_json_roundtrip_keeps_inrange (p p' : Policy) (h : p.JsonRenderableInRange) (hd : fromJ (toJ p) = .ok p') :
    p'.effect = p.effect ∧ p'.principal = p.principal ∧ p'.action = p.action ∧ p'.resource = p.resource ∧
    p'.conditions.map (·.1) = p.conditions.map (·.1) :=
  C09_json_roundtrip_keeps_partial p p' (C09_renderable_of_inRange p h) hd

theorem C09_policyset_json_roundtrip_inrange (ps : List (PolicyID × Policy)) (h : ∀ ip ∈ ps, ip.2.JsonRenderableInRange) :
    setFromJ (setToJ ps) = .ok (sortKV (ps.map fun ip => (ip.1, normP ip.2))) :=
  C09_policyset_json_roundtrip_partial ps (fun ip hip => C09_renderable_of_inRange ip.2 (h ip hip))

/-- **All encodings authorize alike**, no hypothesis about literal texts: for every policy in the structural fragments the
    policy decoded from the JSON encoding has the same effect and is satisfied / unsatisfied / erroring exactly like
    the original in every environment. -/
theorem C09_encodings_authorize_alike_inrange (p p' : Policy) (hr : p.JsonRenderableInRange) (hs : p.JsonSemNormalInRange)
    (hd : fromJ (toJ p) = .ok p') (env : Env) :
    p'.effect = p.effect ∧ evalBool (policyToExpr p') env = evalBool (policyToExpr p) env ∧
    evalBool (compile p') env = evalBool (compile p) env :=
  C09_encodings_authorize_alike_partial p p' (C09_renderable_of_inRange p hr) (C09_semNormal_of_inRange p hs) hd env

/-- in particular a decimal literal VALUE and the constructor call JSON writes for it evaluate alike for EVERY int64
    decimal, and an ip literal value for every valid IPv4 / IPv6 address or prefix that is not IPv4-mapped -/
theorem C09_literal_value_is_constructor_call (env : Env) :
    (∀ d, InI64 d → eval (normE (.lit (.decimal d))) env = eval (.lit (.decimal d)) env) ∧
    (∀ a : IPNet, a.Valid → ¬ a.Is4In6 → eval (normE (.lit (.ip a))) env = eval (.lit (.ip a)) env) :=
  ⟨fun d h => eval_normE _ env (semNormalE_of_range _ (by simpa [semNormalRangeE] using h)),
   fun a hv h4 => eval_normE _ env (semNormalE_of_range _ (by simp [semNormalRangeE, ipInRange, hv, h4]))⟩

example : c09Example.JsonRenderableInRange := by decide +kernel
example : ({ c09Example with conditions := [(true, .binop .eq (.lit (.decimal 15000)) (.record [("a", .lit (.ip ⟨false, 1, 32⟩)),
    ("b", .lit (.set [.datetime 0, .duration minI64, .ip ⟨true, 1, 64⟩])), ("c", .var .context), ("d", .lit (.ip ⟨true, 1, 128⟩))]))] } : Policy).JsonRenderableInRange ∧
    ({ c09Example with conditions := [(true, .binop .eq (.lit (.decimal 15000)) (.record [("a", .lit (.ip ⟨false, 1, 32⟩)),
    ("b", .lit (.set [.datetime 0, .duration minI64, .ip ⟨true, 1, 64⟩])), ("c", .var .context), ("d", .lit (.ip ⟨true, 1, 128⟩))]))] } : Policy).JsonSemNormalInRange := by
  decide +kernel

/-! ### the `"pattern"` array of a `like` node -/

/-- **What the components mean is what the built pattern matches**: for EVERY component list `cs` (`some s` = the
    literal `{"Literal": s}` / a string argument of `types.NewPattern`, `none` = `"Wildcard"` / `Wildcard{}`; empty
    literals and repeated wildcards anywhere) the pattern `NewPattern` builds is in the normal form on which the greedy
    matcher is exact (`WFPattern`, the hypothesis of `C01_patternMatch_spec`), and `Pattern.Match` (`matchComps`) accepts
    exactly the byte strings that the element sequence of the list — its literals' bytes in order, a star per wildcard
    — accepts under the specification's backtracking matcher. -/
theorem C09_json_pattern_components_meaning (cs : List (Option String)) :
    WFPattern (newPattern cs) ∧
    ∀ s : List UInt8, matchComps (newPattern cs) s = Spec.wildcardMatchElems (C09P.compElems cs) s :=
  C09P.newPattern_meaning cs

/-- the same through `Pattern.UnmarshalJSON`: whenever a JSON array is accepted as a pattern, its items are
    `"Wildcard"` / `{"Literal": s}` components and the decoded pattern matches what they mean -/
theorem C09_json_pattern_decode_meaning (xs : List J) (p : Pattern) (h : patternOfJ xs = .ok p) :
    ∃ cs, mapMR patElem xs = .ok cs ∧ WFPattern p ∧
      ∀ s : List UInt8, matchComps p s = Spec.wildcardMatchElems (C09P.compElems cs) s := by
  unfold patternOfJ at h
  split at h
  · cases h
  · split at h
    · cases h
    · rename_i cs hcs
      cases h
      exact ⟨cs, hcs, C09P.newPattern_meaning cs⟩

example : (match patternOfJ [.obj [("Literal", .str "a")], .str "Wildcard"] with
    | .ok p => decide (p = [⟨false, [97]⟩, ⟨true, []⟩]) | .error _ => false) = true := by decide +kernel

/-- regression (the defect `like-json-wildcard-after-empty-literal`): a wildcard after a LEADING empty literal is kept —
    `[{"Literal":""},"Wildcard",{"Literal":"a"}]` is the pattern `*a`, identical to what the Cedar text `"*a"` parses
    to, and matches `xa` (it used to decode to the pattern `a`, which does not) -/
example : (match patternOfJ [.obj [("Literal", .str "")], .str "Wildcard", .obj [("Literal", .str "a")]] with
      | .ok p => decide (p = [⟨true, [97]⟩]) | .error _ => false) = true ∧
    matchComps [⟨true, [97]⟩] [120, 97] = true ∧ matchComps [⟨false, [97]⟩] [120, 97] = false := by decide +kernel

/-- ... the same inside a policy document -/
example : isCondP (fromJ (condDoc (.obj [("like", .obj [("left", .obj [("Value", .str "xa")]),
      ("pattern", .arr [.obj [("Literal", .str "")], .str "Wildcard", .obj [("Literal", .str "a")]])])])))
    (fun e => match e with | .like (.lit (.str "xa")) [⟨true, [97]⟩] => true | _ => false) = true := by decide +kernel

/-- empty literals in middle and trailing position and repeated wildcards change nothing: `a`,`*`,``,`*`,`*`,`b`,`` is `a*b` -/
example : newPattern [some "a", none, some "", none, none, some "b", some ""] = [⟨false, [97]⟩, ⟨true, [98]⟩] := by
  decide +kernel

/-! ### where the full statement fails -/

/-- regression (was `C09_like_empty_pattern_counterexample`: `"pattern":[]` was written and refused): a `like` whose
    pattern has no components is written as the empty literal, decodes, and comes back as `NewPattern("")` -/
theorem C09_like_empty_pattern_roundtrip :
    fromJ (toJ { effect := .permit, conditions := [(true, .like (.lit (.str "a")) [])] }) =
      .ok { effect := .permit, conditions := [(true, .like (.lit (.str "a")) [⟨false, []⟩])] } := by
  rw [json_roundtrip _ (by decide +kernel)]
  simp [normP, normE, normPattern, patComps, newPattern, newPatternStep, sortKV]

/-- ... and the two patterns match the same strings (only the empty one) -/
example : ∀ bs : List UInt8, matchComps [] bs = matchComps [⟨false, []⟩] bs := by
  intro bs; cases bs <;> simp [matchComps, matchChunk]

/-- the decoder itself still refuses `"pattern": []` (it is never written any more) -/
example : fromJ (condDoc (.obj [("like", .obj [("left", .obj [("Value", .str "a")]), ("pattern", .arr [])])])) = .error .reject :=
  isRejectP_eq (by decide +kernel)

/-- a call of a name that is not an extension function is written as `{name: [...]}` and refused on decoding
    (the JSON format has no other way to carry it) -/
theorem C09_unknown_function_counterexample :
    ∃ p : Policy, fromJ (toJ p) = .error .reject :=
  ⟨{ effect := .permit, conditions := [(true, .call "nosuchfn" [.lit (.long 1)])] }, isRejectP_eq (by decide +kernel)⟩

/-- a method-style call without its receiver (only constructible programmatically: `ast.ExtensionCall("isIpv4")`) is
    written as `{"isIpv4": []}` and refused on decoding: the JSON format has the receiver as first argument -/
theorem C09_method_without_receiver_counterexample :
    ∃ p : Policy, fromJ (toJ p) = .error .reject :=
  ⟨{ effect := .permit, conditions := [(true, .call "isIpv4" [])] }, isRejectP_eq (by decide +kernel)⟩

/-! ### the decoder's two special rules -/

/-- an unknown key is an extension call, provided it is the only key (`len(map) = 1`) and names a known function -/
theorem C09_unknown_key_is_extension :
    isCondP (fromJ (condDoc (.obj [("decimal", .arr [.obj [("Value", .str "1.0")]])])))
        (fun e => match e with | .call "decimal" [.lit (.str "1.0")] => true | _ => false) = true ∧
    fromJ (condDoc (.obj [("decimal", .arr []), ("ip", .arr [])])) = .error .reject ∧
    fromJ (condDoc (.obj [("nosuchfn", .arr [])])) = .error .reject :=
  ⟨by decide +kernel, isRejectP_eq (by decide +kernel), isRejectP_eq (by decide +kernel)⟩

/-- struct fields decoded before the unknown key stay set and win over the extension map: this document is
    accepted as the empty set literal, the `decimal` entry is ignored -/
theorem C09_known_field_beats_extension :
    isCondP (fromJ (condDoc (.obj [("Set", .arr []), ("decimal", .arr [.obj [("Value", .str "1.0")]])])))
        (fun e => match e with | .set [] => true | _ => false) = true := by decide +kernel

/-! ### no panic branch is left in the decoder (C10 overlap) -/

/-- **Phase 2 of the decoder (`ToNode`) never panics**: whatever `json.Unmarshal` put into the `nodeJSON` structs —
    nil record entries, empty nodes, any function name with any number of arguments — the result is an
    expression or an error.  (Was `C09_decoder_panic_counterexample`.) -/
theorem C09_tonode_never_panics (n : NJ) : nodeToExpr n ≠ .error .panic := nodeToExpr_noPanic n

/-- regression: a `null` record entry is refused with an error (was: nil `*nodeJSON` dereferenced, `.panic`) -/
example : fromJ (condDoc (.obj [("Record", .obj [("a", .null)])])) = .error .reject :=
  isRejectP_eq (by decide +kernel)

/-- regression: a `null` policy in a policy set is refused with an error (was: nil `*Policy` compiled, `.panic`) -/
example : (match setFromJ (.obj [("staticPolicies", .obj [("a", .null)])]) with | .error .reject => true | _ => false) = true := by
  decide +kernel

/-- regression: `{"lessThan":[]}` is refused (was: accepted, and `MarshalCedar` of the result panicked) -/
example : fromJ (condDoc (.obj [("lessThan", .arr [])])) = .error .reject := isRejectP_eq (by decide +kernel)

/-! ### the TEXT codec and the JSON codec agree (composition of the C07 parser, the C08 marshaller and the JSON model) -/

open CedarGo.Text in
/-- one trip through the text codec: `Policy.MarshalCedar`, then `Policy.UnmarshalCedar` on the tokens of that text
    (`none`: the text is refused) -/
def textRound (p : Policy) : Option Policy :=
  match parsePolicy (pieceToks (marshalPolicy p)) with
  | some (.ok q) => some q
  | _ => none

/-- one trip through the JSON codec: `Policy.MarshalJSON`, then `Policy.UnmarshalJSON` (`none`: the document is refused) -/
def jsonRound (p : Policy) : Option Policy :=
  match fromJ (toJ p) with
  | .ok q => some q
  | .error _ => none

section textjson
open CedarGo.Text CedarGo.C09TJ

/-- **Whatever the text parser returns can be carried by JSON** — for EVERY token list, no side condition: the parser
    builds bool / long (int64) / string / entity literals only (`ip("…")`, `decimal("…")`, `datetime("…")` in a text are
    CALLS, not values: the two open literal-value defects cannot be reached from text), extension calls of known
    functions only and method calls with their receiver, record literals without repeated keys, `like` patterns in
    `NewPattern` normal form over valid UTF-8, and the scope forms of the grammar. -/
theorem C09_parser_output_json_renderable (ts : List Token) (p : Policy) (h : parsePolicy ts = some (.ok p)) :
    p.JsonRenderable :=
  renderableP_of_parts (parsePolicy_closed renderable_closed ts p h)

/-- … and lies in the fragment on which the JSON identifications provably keep the meaning -/
theorem C09_parser_output_json_sem_normal (ts : List Token) (p : Policy) (h : parsePolicy ts = some (.ok p)) :
    p.JsonSemNormal := by
  unfold Policy.JsonSemNormal
  simp only [List.all_eq_true]
  exact (parsePolicy_closed semNormal_closed ts p h).2.2.2

/-- the same for every policy of a parsed DOCUMENT (`PolicySlice.UnmarshalCedar` / `NewPolicySetFromBytes`, any token list) -/
theorem C09_parser_output_list_json_renderable (ts : List Token) (ps : List Policy) (h : parsePolicies ts = some (.ok ps)) :
    ∀ p ∈ ps, p.JsonRenderable ∧ p.JsonSemNormal := by
  intro p hp
  refine ⟨renderableP_of_parts (parsePolicies_closed renderable_closed ts ps h p hp), ?_⟩
  unfold Policy.JsonSemNormal
  simp only [List.all_eq_true]
  exact (parsePolicies_closed semNormal_closed ts ps h p hp).2.2.2

/-- **text → JSON, every parsed text**: the policy parsed from ANY token list is encoded to JSON and decoded again
    successfully, to the same policy up to the identifications (`JsonEquiv`: annotations / record entries by key,
    position dropped), with the same effect and the same outcome (satisfied / not satisfied / same error kind) in every
    environment, both as `PolicyToNode` says and as the authorizer's compiled form computes it. -/
theorem C09_parsed_text_through_json (ts : List Token) (p : Policy) (h : parsePolicy ts = some (.ok p)) :
    ∃ q, fromJ (toJ p) = .ok q ∧ JsonEquiv q p ∧ q.effect = p.effect ∧
      ∀ env, evalBool (policyToExpr q) env = evalBool (policyToExpr p) env ∧ evalBool (compile q) env = evalBool (compile p) env := by
  have hr := C09_parser_output_json_renderable ts p h
  have hs := C09_parser_output_json_sem_normal ts p h
  refine ⟨normP p, json_roundtrip p hr, rfl, rfl, fun env => ?_⟩
  exact (C09_encodings_authorize_alike_partial p (normP p) hr hs (json_roundtrip p hr) env).2

/-- **the text fragment lies inside the JSON fragments**: every policy of `policyOKGo` (the domain of
    `C08_marshal_parses_partial`) is JSON-renderable and semantically normal -/
theorem C09_text_fragment_json_renderable (p : Policy) (h : policyOKGo p = true) : p.JsonRenderable ∧ p.JsonSemNormal := by
  refine ⟨renderableP_of_parts (policyOKGo_closed renderable_closed p h), ?_⟩
  unfold Policy.JsonSemNormal
  simp only [List.all_eq_true]
  exact (policyOKGo_closed semNormal_closed p h).2.2.2

/-- **`normP` preserves the text fragment** and is idempotent on it: what JSON changes in a policy of the fragment is the
    listing order of annotations and of record entries, nothing else (patterns of the fragment are fixed points of
    `Pattern.MarshalJSON` ∘ `UnmarshalJSON`: `C09TJ.normPattern_of_patOK`) -/
theorem C09_normP_preserves_text_fragment (p : Policy) (h : policyOKGo p = true) :
    policyOKGo (normP p) = true ∧ normP (normP p) = normP p :=
  ⟨policyOKGo_normP p h, normP_idem p h⟩

/-- C08 in terms of `textRound`: on the text fragment a trip through the text codec returns the identical policy -/
theorem C09_textRound_of_fragment {p : Policy} (h : policyOKGo p = true) : textRound p = some p := by
  unfold textRound; rw [marshal_parses h]

/-- `C09_json_roundtrip_partial` in terms of `jsonRound` -/
theorem C09_jsonRound_of_renderable {p : Policy} (h : p.JsonRenderable) : jsonRound p = some (normP p) := by
  unfold jsonRound; rw [json_roundtrip p h]

/-- **text → JSON → text** yields the same policy as text alone: for `p` in the text fragment, writing `p` as Cedar text
    and reading it gives `p` (C08); encoding THAT as JSON, decoding, writing the result as Cedar text and reading it
    again succeeds at every step and gives `normP p`, the policy `p` up to the JSON identifications (`JsonEquiv`) — and a
    further trip through the text codec changes nothing any more. -/
theorem C09_text_json_text (p : Policy) (h : policyOKGo p = true) :
    textRound p = some p ∧
    ((textRound p).bind jsonRound).bind textRound = some (normP p) ∧ JsonEquiv (normP p) p ∧
    textRound (normP p) = some (normP p) := by
  have hj := C09_jsonRound_of_renderable (C09_text_fragment_json_renderable p h).1
  have ht := C09_textRound_of_fragment (policyOKGo_normP p h)
  refine ⟨C09_textRound_of_fragment h, ?_, rfl, ht⟩
  rw [C09_textRound_of_fragment h, Option.bind_some, hj, Option.bind_some, ht]

/-- **JSON → text → JSON** yields the same policy as JSON alone: for `p` in the text fragment, encoding `p` as JSON and
    decoding gives `normP p` (the JSON round trip); writing THAT as Cedar text, reading it, encoding the result as JSON
    and decoding succeeds at every step and gives `normP p` again, exactly.  Also in the order of the task statement:
    the policy read from the text of `p`, sent through JSON, is `normP p`. -/
theorem C09_json_text_json (p : Policy) (h : policyOKGo p = true) :
    jsonRound p = some (normP p) ∧
    ((jsonRound p).bind textRound).bind jsonRound = some (normP p) ∧
    (textRound p).bind jsonRound = some (normP p) := by
  have hj := C09_jsonRound_of_renderable (C09_text_fragment_json_renderable p h).1
  have hn := policyOKGo_normP p h
  have hjn := C09_jsonRound_of_renderable (C09_text_fragment_json_renderable (normP p) hn).1
  rw [normP_idem p h] at hjn
  refine ⟨hj, ?_, ?_⟩
  · rw [hj, Option.bind_some, C09_textRound_of_fragment hn, Option.bind_some, hjn]
  · rw [C09_textRound_of_fragment h, Option.bind_some, hj]

/-- the same for a text that was actually PARSED (any token list): if the parsed policy, its source position set aside,
    is in the text fragment, then parse → JSON → decode → `MarshalCedar` → parse gives `normP p` -/
theorem C09_parsed_text_json_text (ts : List Token) (p : Policy) (h : parsePolicy ts = some (.ok p))
    (hf : policyOKGo { p with position := {} } = true) :
    (jsonRound p).bind textRound = some (normP p) := by
  rw [C09_jsonRound_of_renderable (C09_parser_output_json_renderable ts p h), Option.bind_some]
  have := policyOKGo_normP _ hf
  rw [normP_position] at this
  exact C09_textRound_of_fragment this

/-- **All encodings authorize alike**: for `p` in the text fragment the policy obtained through ANY of the four paths —
    text, JSON, text → JSON, JSON → text — exists, has the effect of `p`, has the same outcome as `p` (satisfied / not
    satisfied / the same error kind) in every environment (request + entity store), as `PolicyToNode` says and as the
    compiled form computes it, and can replace `p` in any policy set without changing the result of `Authorize`
    (decision, reasons, errors). -/
theorem C09_all_encodings_authorize_alike (p : Policy) (h : policyOKGo p = true) :
    ∃ qT qJ qTJ qJT, textRound p = some qT ∧ jsonRound p = some qJ ∧
      (textRound p).bind jsonRound = some qTJ ∧ (jsonRound p).bind textRound = some qJT ∧
      ∀ q ∈ [qT, qJ, qTJ, qJT], q.effect = p.effect ∧
        (∀ env, evalBool (policyToExpr q) env = evalBool (policyToExpr p) env ∧
                evalBool (compile q) env = evalBool (compile p) env) ∧
        ∀ (pre post : List (PolicyID × Policy)) (id : PolicyID) (env : Env),
          authorize (pre ++ (id, q) :: post) env = authorize (pre ++ (id, p) :: post) env := by
  obtain ⟨hr, hs⟩ := C09_text_fragment_json_renderable p h
  have hj := C09_jsonRound_of_renderable hr
  have ht := C09_textRound_of_fragment h
  have htn := C09_textRound_of_fragment (policyOKGo_normP p h)
  have hnorm : normP p = normP p ∧ (normP p).effect = p.effect ∧
      (∀ env, evalBool (policyToExpr (normP p)) env = evalBool (policyToExpr p) env ∧
              evalBool (compile (normP p)) env = evalBool (compile p) env) ∧
      ∀ (pre post : List (PolicyID × Policy)) (id : PolicyID) (env : Env),
        authorize (pre ++ (id, normP p) :: post) env = authorize (pre ++ (id, p) :: post) env := by
    have hev := fun env => (C09_encodings_authorize_alike_partial p (normP p) hr hs (json_roundtrip p hr) env).2
    refine ⟨rfl, rfl, hev, fun pre post id env => ?_⟩
    exact authorize_congr (p := p) (q := normP p) rfl (policyOKGo_position h).symm env (hev env).2 pre post id
  refine ⟨p, normP p, normP p, normP p, ht, hj, ?_, ?_, ?_⟩
  · rw [ht, Option.bind_some, hj]
  · rw [hj, Option.bind_some, htn]
  · intro q hq
    simp only [List.mem_cons, List.not_mem_nil, or_false, or_self] at hq
    rcases hq with rfl | rfl
    · exact ⟨rfl, fun _ => ⟨rfl, rfl⟩, fun _ _ _ _ => rfl⟩
    · exact hnorm.2

/-- a policy of the text fragment with an operator, a record literal whose keys are NOT listed in order, a `like`, an
    extension function call and a method call, a negative literal, unsorted annotations and every scope form -/
def c09TextExample : Policy :=
  { effect := .permit, annotations := [("id", "x"), ("a", "b")],
    principal := .isIn "User" ("Group", "g"), action := .inSet [("Action", "r"), ("Action", "w")], resource := .eq ("NS::Doc", "d"),
    conditions := [(true, .binop .and (.like (.access (.var .context) "s") [⟨false, [97]⟩, ⟨true, []⟩])
                            (.call "isInRange" [.call "ip" [.lit (.str "10.0.0.1")], .call "ip" [.lit (.str "10.0.0.0/8")]])),
                   (false, .binop .eq (.record [("k", .binop .add (.lit (.long 1)) (.lit (.long (-2)))), ("a", .set [.lit (.long 1)])])
                             (.var .context))] }

example : policyOKGo c09TextExample = true := by decide +kernel
/-- JSON really changes this policy (annotations and record entries come back listed by key) -/
example : (normP c09TextExample).annotations = [("a", "b"), ("id", "x")] ∧
    ((normP c09TextExample).conditions.map fun c => match c.2 with
      | .binop .eq (.record kes) _ => kes.map (·.1) | _ => []) = [[], ["a", "k"]] := by decide +kernel
/-- the hypotheses of the parser-output theorems are met by the marshalled text of the example (C08), whose parse is
    the example itself -/
example : ∃ ts, parsePolicy ts = some (.ok c09TextExample) :=
  ⟨_, marshal_parses (p := c09TextExample) (by decide +kernel)⟩
example : c09TextExample.JsonRenderable ∧ c09TextExample.JsonSemNormal :=
  C09_text_fragment_json_renderable _ (by decide +kernel)
example : ((textRound c09TextExample).bind jsonRound).bind textRound = some (normP c09TextExample) :=
  (C09_text_json_text _ (by decide +kernel)).2.1
example : ((jsonRound c09TextExample).bind textRound).bind jsonRound = some (normP c09TextExample) :=
  (C09_json_text_json _ (by decide +kernel)).2.1
example : c09TextExample.JsonRenderable :=
  C09_parser_output_json_renderable _ _ (marshal_parses (p := c09TextExample) (by decide +kernel))
example : ∃ q, fromJ (toJ c09TextExample) = .ok q ∧ JsonEquiv q c09TextExample :=
  let ⟨q, h1, h2, _⟩ := C09_parsed_text_through_json _ _ (marshal_parses (p := c09TextExample) (by decide +kernel)); ⟨q, h1, h2⟩
example (env : Env) (others : List (PolicyID × Policy)) :
    authorize (("p", normP c09TextExample) :: others) env = authorize (("p", c09TextExample) :: others) env := by
  obtain ⟨qT, qJ, qTJ, qJT, _, hJ, _, _, hall⟩ := C09_all_encodings_authorize_alike c09TextExample (by decide +kernel)
  rw [C09_jsonRound_of_renderable (C09_text_fragment_json_renderable _ (by decide +kernel)).1] at hJ
  cases hJ
  exact (hall _ (by simp)).2.2 [] others "p" env
/-- the pipelines are executable (evaluated by the kernel): JSON → text on a small policy of the fragment returns the
    annotations and the record entries listed by key -/
example :
    let p : Policy :=
      { effect := .forbid, annotations := [("b", "1"), ("a", "2")], principal := .eq ("User", "x"),
        conditions := [(true, .has (.record [("k", .call "decimal" [.lit (.str "1.5")]), ("a", .like (.var .context) [⟨true, [97]⟩])]) "k")] }
    (match (jsonRound p).bind textRound with
      | some q => decide (q.annotations = [("a", "2"), ("b", "1")]) && (match q.conditions with
         | [(true, .has (.record [("a", _), ("k", _)]) "k")] => true | _ => false)
      | none => false) = true := by decide +kernel
/-- why `-`(non-negative literal) is outside the fragment (inherited from C08): `-(5)` is written `-5`, which is read
    back as the LITERAL −5 — text → … does not return the same tree (it does return the same meaning:
    `C08_negate_literal_same_meaning`), while JSON alone keeps the tree -/
example :
    let p : Policy := { effect := .permit, conditions := [(true, .unop .neg (.lit (.long 5)))] }
    policyOKGo p = false ∧ p.JsonRenderable ∧
    (match textRound p with
      | some q => (match q.conditions with | [(true, .lit (.long (-5)))] => true | _ => false)
      | none => false) = true ∧
    (match jsonRound p with
      | some q => (match q.conditions with | [(true, .unop .neg (.lit (.long 5)))] => true | _ => false)
      | none => false) = true := by decide +kernel
/-- `C09_parsed_text_json_text`: a policy parsed from a token list with a non-zero position -/
example : policyOKGo { ({ c09TextExample with position := ⟨"", 7, 2, 3⟩ } : Policy) with position := {} } = true := by decide +kernel

end textjson

end CedarGo
