/-
  C18 — property theorems (only `theorem C18_*` statements and non-vacuity examples live here;
  helper lemmas go to CedarGoProofs/Lemmas/).
-/
import CedarGo.Model.Fold
namespace CedarGo

end CedarGo
