/-
  C18 — Streaming decode is chunking-invariant and source positions are exact.
  Only `theorem C18_*` statements and non-vacuity examples live here; helper lemmas are in
  CedarGoProofs/Lemmas/C18*.lean.

  Model: CedarGo/Model/Text/Scanner.lean (`scan bufLen reader` = `TokenizeReader` with the buffered
  scanner of cedar_tokenize.go over an abstract `io.Reader`), CedarGo/Model/Text/Lexer.lean
  (`rawTokens` / `tokensWithPos` = the pure lexer on the whole byte string, positions given by `posOf`).
  A reader (`Reader`) is a list of chunks (possibly empty) with a final status: EOF, EOF together with
  the last data, or a failure.  Not modelled: a reader that returns (0, nil) for ever.

  POLICY level (composition with C07's parser, Model/Text/Layout.lean: `parseStream` = buffered scanner over a
  reader, then `PolicySlice.UnmarshalCedar`; `parseBytes` = pure lexer on the whole byte string, then the parser):
  * C18_stream_parse_eq_bytes_parse      for ARBITRARY bytes and every chunk schedule the decoded policies (or the
                                         error) are those of the whole byte string; the parser never runs out of fuel
  * C18_stream_parse_chunking_invariant  two schedules of the same bytes decode alike
  * C18_policy_position_exact_partial    for the text of a policy of C07's proved fragment (`policyOK`: every node
                                         kind incl. `like`; what it excludes is the tree of no Cedar text, see the
                                         header of Properties/C07.lean) under any admissible
                                         layout, the decoded policy's `position` is (offset, line, column) of its
                                         first token (partial: the fragment);
                                         C18_policy_positions_exact_partial: texts of several policies, every
                                         policy at ITS first token
-/
import CedarGoProofs.Lemmas.C18Fuel
import CedarGoProofs.Properties.C07
import CedarGo.Generated.Facts
namespace CedarGo
open CedarGo.Text CedarGo.Text.Lx

/-- `next` refines rune-by-rune decoding of the concatenated bytes: for every reader (any chunking,
    empty chunks, data-with-EOF, failing or not) and every buffer size ≥ utf8.UTFMax, the sequence of
    (rune, width, source offset) produced by any number of successive `next()` calls is the sequence
    obtained by decoding the delivered bytes as one byte string (then EOF for ever). -/
theorem C18_next_refines (bufLen : Nat) (hb : 4 ≤ bufLen) (rd : Reader) (n : Nat) :
    (ScanState.init bufLen rd).nextStream bufLen n = runeStream n rd.bytes 0 :=
  nextStream_eq_runeStream hb n (Rel.init rd)

example : (ScanState.init 4 ⟨[[0x61, 0xE2], [], [0x82, 0xAC, 0x0A]], .eofData⟩).nextStream 4 4
    = [(0x61, 1, 1), (0x20AC, 3, 4), (10, 1, 5), (-1, 0, 5)] := by decide +kernel

/-- A reader that fails (after any number of bytes, under any chunking) yields an error, never a
    (truncated) token list. -/
theorem C18_reader_failure_reported (bufLen : Nat) (hb : 4 ≤ bufLen) (chunks : List (List UInt8)) :
    ∃ e, scan bufLen ⟨chunks, .fail⟩ = .error e := by
  rw [scan_eq_incTokens hb]
  exact incTokens_fails _

example : scan 4 ⟨[[0x61], [0x20]], .fail⟩ = .error .read := by decide +kernel

/-- Zero-length reads are harmless: two readers that deliver the same non-empty chunks in the same
    order (empty chunks inserted anywhere) with the same final status give the same result. -/
theorem C18_zero_reads_harmless (bufLen : Nat) (hb : 4 ≤ bufLen) (rd rd' : Reader)
    (hc : rd'.chunks.filter (fun c => !c.isEmpty) = rd.chunks.filter (fun c => !c.isEmpty))
    (hf : rd'.final = rd.final) :
    scan bufLen rd' = scan bufLen rd := by
  have hbytes : rd'.bytes = rd.bytes := by
    unfold Reader.bytes
    rw [← flatten_filter_nonempty rd'.chunks, ← flatten_filter_nonempty rd.chunks, hc]
  rw [scan_eq_incTokens hb, scan_eq_incTokens hb, hbytes, hf]

example : scan 4 ⟨[[], [0x61], [], [], [0x62], []], .eof⟩ = scan 4 ⟨[[0x61], [0x62]], .eof⟩ := by decide +kernel

/-- The buffered scanner under ANY reader = the pure lexer on the delivered bytes (tokens, raw texts and
    positions, or the same error kind); `fails` tells the pure lexer that the input ends with a reader
    failure instead of EOF. -/
theorem C18_scan_eq_lexer (bufLen : Nat) (hb : 4 ≤ bufLen) (rd : Reader) :
    scan bufLen rd = rawTokens rd.bytes (rd.final == .fail) := by
  rw [scan_eq_incTokens hb, incTokens_eq_rawTokens]

/-- Chunking invariance: for every byte string, every two chunk schedules of it (any chunk sizes, empty
    chunks, data-with-EOF or plain EOF) and every two buffer sizes ≥ utf8.UTFMax, the scanner yields the same
    token list or the same error, namely that of the pure lexer on the whole byte string. -/
theorem C18_tokens_chunking_invariant (bytes : List UInt8) (n₁ n₂ : Nat) (h₁ : 4 ≤ n₁) (h₂ : 4 ≤ n₂)
    (rd₁ rd₂ : Reader) (hb₁ : rd₁.bytes = bytes) (hb₂ : rd₂.bytes = bytes)
    (hf₁ : rd₁.final ≠ .fail) (hf₂ : rd₂.final ≠ .fail) :
    scan n₁ rd₁ = rawTokens bytes ∧ scan n₂ rd₂ = rawTokens bytes ∧
    scanTokens n₁ rd₁ = tokensWithPos bytes ∧ scanTokens n₂ rd₂ = tokensWithPos bytes := by
  have e₁ : (rd₁.final == .fail) = false := by simpa using hf₁
  have e₂ : (rd₂.final == .fail) = false := by simpa using hf₂
  have s₁ : scan n₁ rd₁ = rawTokens bytes := by rw [C18_scan_eq_lexer n₁ h₁, hb₁, e₁]
  have s₂ : scan n₂ rd₂ = rawTokens bytes := by rw [C18_scan_eq_lexer n₂ h₂, hb₂, e₂]
  exact ⟨s₁, s₂, by simp only [scanTokens, tokensWithPos, s₁], by simp only [scanTokens, tokensWithPos, s₂]⟩

example : scan 4 ⟨[[0x22, 0xE2], [0x82], [], [0xAC, 0x22, 0x0A, 0x3D, 0x3D]], .eofData⟩
    = scan 1024 ⟨[[0x22, 0xE2, 0x82, 0xAC, 0x22, 0x0A, 0x3D, 0x3D]], .eof⟩ := by decide +kernel
example : rawTokens [0x22, 0xE2, 0x82, 0xAC, 0x22, 0x0A, 0x3D, 0x3D]
    = .ok [⟨.string, ⟨0, 1, 1⟩, [0x22, 0xE2, 0x82, 0xAC, 0x22]⟩, ⟨.operator, ⟨6, 2, 1⟩, [0x3D, 0x3D]⟩, ⟨.eof, ⟨8, 2, 3⟩, []⟩] := by
  decide +kernel

/-- Positions are exact: every token the scanner produces for a non-empty input (under any reader and
    buffer size, the final EOF token included) has `Pos = posOf bytes off` where `off` is the offset of its
    first byte, i.e. (off, 1 + number of '\n' before off, 1 + number of characters since the last '\n'),
    and its text is the slice of the input that starts at `off`. -/
theorem C18_position_exact (bufLen : Nat) (hb : 4 ≤ bufLen) (rd : Reader) (hne : rd.bytes ≠ [])
    (ts : List RawTok) (h : scan bufLen rd = .ok ts) :
    ∀ t ∈ ts, t.pos = posOf rd.bytes t.pos.offset ∧
      (rd.bytes.drop t.pos.offset).take t.text.length = t.text := by
  rw [C18_scan_eq_lexer bufLen hb] at h
  exact rawTokens_positions _ _ hne ts h

example : posOf [0x61, 0x0A, 0xC3, 0xA9, 0x62] 4 = ⟨4, 2, 2⟩ := by decide +kernel

/-- The one deviation from `posOf`: for the EMPTY input the only token (EOF) is reported at line 0,
    column 0 (Go: `s.column == 0` branch of `nextToken` at the very beginning of the source);
    `posOf [] 0` would be line 1, column 1.  No policy starts at this token. -/
theorem C18_position_empty_input (bufLen : Nat) (hb : 4 ≤ bufLen) (rd : Reader) (he : rd.bytes = [])
    (hf : rd.final ≠ .fail) : scan bufLen rd = .ok [⟨.eof, ⟨0, 0, 0⟩, []⟩] := by
  have e : (rd.final == .fail) = false := by simpa using hf
  rw [C18_scan_eq_lexer bufLen hb, he, e]
  decide +kernel

/-- The fuel the model gives its loops (document length + 2 for every scanning loop, the reader's chunk
    measure + 1 for the refill loop of `next`) is never exhausted: neither the pure lexer nor the buffered
    scanner (any reader, any buffer size ≥ 4) ever returns the model's out-of-fuel marker.  Go has no fuel;
    this is what allows the artefact to be ignored. -/
theorem C18_fuel_suffices (bufLen : Nat) (hb : 4 ≤ bufLen) (rd : Reader) :
    scan bufLen rd ≠ .error .fuel ∧ rawTokens rd.bytes ≠ .error .fuel := by
  refine ⟨?_, rawTokens_ne_fuel _ _⟩
  rw [C18_scan_eq_lexer bufLen hb]
  exact rawTokens_ne_fuel _ _

/-! ## policies: scanner + parser -/

/-- **streaming decode = decode of the whole byte string**, for ARBITRARY bytes: scanning any chunk schedule of
    `rd.bytes` (any buffer size ≥ utf8.UTFMax, reader not failing) and parsing the tokens gives the same list of
    policies, or the same parse error, or the same scanner error, as lexing the whole byte string and parsing.  The
    parser is total (`C07_parser_total_list`), so the result is never the model's out-of-fuel marker `none`. -/
theorem C18_stream_parse_eq_bytes_parse (bufLen : Nat) (hb : 4 ≤ bufLen) (rd : Reader) (hf : rd.final ≠ .fail) :
    parseStream bufLen rd = parseBytes rd.bytes ∧ parseStream bufLen rd ≠ .ok none := by
  have hs : scanTokens bufLen rd = tokensWithPos rd.bytes :=
    (C18_tokens_chunking_invariant rd.bytes bufLen bufLen hb hb rd rd rfl rfl hf hf).2.2.1
  have he : parseStream bufLen rd = parseBytes rd.bytes := by simp only [parseStream, parseBytes, hs]
  refine ⟨he, ?_⟩
  rw [he]
  unfold parseBytes
  cases tokensWithPos rd.bytes with
  | error e => intro h; cases h
  | ok toks =>
    obtain ⟨r, hr⟩ := C07_parser_total_list (parserInput toks)
    intro h
    have h' : (Except.ok (parsePolicies (parserInput toks)) : Except LexErr _) = .ok none := h
    rw [hr] at h'
    cases h'

/-- a failing reader never yields policies -/
theorem C18_stream_parse_reader_failure (bufLen : Nat) (hb : 4 ≤ bufLen) (chunks : List (List UInt8)) :
    ∃ e, parseStream bufLen ⟨chunks, .fail⟩ = .error e := by
  obtain ⟨e, he⟩ := C18_reader_failure_reported bufLen hb chunks
  exact ⟨e, by simp only [parseStream, scanTokens, he]; rfl⟩

/-- chunking invariance at the level of policies: two schedules (and buffer sizes) of the same bytes decode alike -/
theorem C18_stream_parse_chunking_invariant (bytes : List UInt8) (n₁ n₂ : Nat) (h₁ : 4 ≤ n₁) (h₂ : 4 ≤ n₂)
    (rd₁ rd₂ : Reader) (hb₁ : rd₁.bytes = bytes) (hb₂ : rd₂.bytes = bytes) (hf₁ : rd₁.final ≠ .fail) (hf₂ : rd₂.final ≠ .fail) :
    parseStream n₁ rd₁ = parseStream n₂ rd₂ := by
  rw [(C18_stream_parse_eq_bytes_parse n₁ h₁ rd₁ hf₁).1, (C18_stream_parse_eq_bytes_parse n₂ h₂ rd₂ hf₂).1, hb₁, hb₂]

example : parseStream 4 ⟨[strBytes "permit(prin", [], strBytes "cipal,action,resource)", strBytes ";"], .eofData⟩
    = parseStream 64 ⟨[strBytes "permit(principal,action,resource);"], .eof⟩ :=
  C18_stream_parse_chunking_invariant _ 4 64 (by decide) (by decide) _ _ rfl (by decide +kernel) (by decide) (by decide)

/-- **each policy's reported position is the byte offset, line and column of its first token**: for the text of a
    policy `p` of C07's proved fragment (`renderMin` / `renderFull`) under ANY admissible layout of whitespace and
    comments, delivered under ANY chunk schedule, the decoder returns exactly `[p]` whose `position` is
    `positionAt bytes off` with `off` = the offset of `p`'s first token (the length of the first separator), i.e.
    offset `off`, line 1 + number of newlines before `off`, column 1 + number of characters since the last newline.
    FULL statement: every policy of every accepted text.  Missing: as for `C07_parse_text_roundtrip_partial`
    (texts outside the renderings of the fragment).  Several policies: `C18_policy_positions_exact_partial`. -/
theorem C18_policy_position_exact_partial (bufLen : Nat) (hb : 4 ≤ bufLen) (rd : Reader) (hf : rd.final ≠ .fail)
    (full : Bool) (p : Policy) (lay : Layout) (h : policyOK full p = true) (hadm : Admissible lay (renderPolicy full p))
    (hbytes : rd.bytes = renderBytes lay (renderPolicy full p)) :
    parseStream bufLen rd = .ok (some (.ok [{ p with position := positionAt rd.bytes (strBytes (lay.headD "")).length }])) ∧
    ∀ off, positionAt rd.bytes off =
      { filename := "", offset := off, line := 1 + (rd.bytes.take off).count 10,
        column := 1 + (decodeAll (lastLine (rd.bytes.take off))).length } := by
  refine ⟨?_, fun _ => rfl⟩
  rw [(C18_stream_parse_eq_bytes_parse bufLen hb rd hf).1, hbytes]
  exact C07_parse_text_roundtrip_partial full p lay h hadm

/-- the fragment covers every node kind, `like` included: the condition `context.s like "a\**"` -/
example : policyOK false { effect := .permit, conditions := [(true, .like (.access (.var .context) "s") [⟨false, [97, 42]⟩, ⟨true, []⟩])] } = true ∧
    policyOK true { effect := .permit, conditions := [(true, .like (.access (.var .context) "s") [⟨false, [97, 42]⟩, ⟨true, []⟩])] } = true := by
  decide +kernel

/-- the same for a text of SEVERAL policies (`renderList full ps`): under any admissible layout and any chunk
    schedule the decoder returns exactly `ps`, the k-th policy positioned at the first token of the k-th rendering
    (`positioned`), and the position of every token is offset / line / column of the byte where it starts -/
theorem C18_policy_positions_exact_partial (bufLen : Nat) (hb : 4 ≤ bufLen) (rd : Reader) (hf : rd.final ≠ .fail)
    (full : Bool) (ps : List Policy) (lay : Layout) (h : ps.all (policyOK full) = true) (hadm : Admissible lay (renderList full ps))
    (hbytes : rd.bytes = renderBytes lay (renderList full ps)) :
    parseStream bufLen rd = .ok (some (.ok (positioned full ps (parserInput (placed rd.bytes 0 lay (renderList full ps)))))) ∧
    (ps ≠ [] → ∀ t ∈ parserInput (placed rd.bytes 0 lay (renderList full ps)), posOfC07 t = positionAt rd.bytes t.pos.offset) := by
  rw [(C18_stream_parse_eq_bytes_parse bufLen hb rd hf).1, hbytes]
  exact C07_parse_text_list_roundtrip_partial full ps lay h hadm

/-- Tie to the source: the buffer size of the Go scanner (regenerated from cedar_tokenize.go on every
    check) satisfies the hypothesis `4 ≤ bufLen` (utf8.UTFMax) of the theorems above. -/
theorem C18_go_bufLen_admissible :
    (Facts.intConsts.lookup "tokenize.bufLen").any (fun n => decide (4 ≤ n)) = true := by
  decide +kernel

end CedarGo
