/-
  C19 — Shared policies and entities: race-free concurrent reads, inputs never mutated.

  Property text: "Any number of goroutines may concurrently authorize, batch-authorize, marshal and inspect
  the same policy set, entity map and values: there are no data races and every call returns what it would
  return if run alone.  No read-only operation (authorize, batch authorize, marshal, validate) modifies the
  policies, entities, requests or values passed to it."

  What is and is not proved here.  A Go data race is a property of the Go memory model and scheduler; no
  executable Lean model of cedar-go can exhibit one, and nothing below is a statement about the Go runtime.
  What IS logic is why there can be none: every read-only operation is a function of immutable inputs with no
  shared mutable state.  The theorems are elementary; their content is in the HYPOTHESIS (`ReadOnly`,
  `Confined`, `Prog.Isolated`: no write to a pre-existing location, no access to another call's allocations),
  and that hypothesis is discharged from facts: factgen/c19.go extracts on every run every write on the read
  paths of /repo whose target is not allocated by the same call, and ./check compares the list with
  facts/writes.expected.json (an unclassified or SHARED-WRITE site breaks the tie).  The extractor is a
  syntactic approximation in the trusted base; the race detector run by the harness is runtime evidence.
  Level: proof (partial).

  (only `theorem C19_*` statements and non-vacuity examples live here; helper lemmas are in
  CedarGoProofs/Lemmas/C19.lean, the model in CedarGo/Model/Heap.lean.)
-/
import CedarGo.Model.Heap
import CedarGoProofs.Lemmas.C19
namespace CedarGo
open Heap

/-- **Read-only operations do not interfere.**  `ops` is a finite family of operations given as step lists,
    number `i` being confined to the inputs and its own allocations.  If every one of them is `ReadOnly` (its
    write set restricted to the shared locations is empty) then in EVERY interleaving `tr` of their steps, run
    from any heap `h`: each operation observes exactly the sequence of values it observes when it runs alone
    from `h`; it ends with the same visible heap (its own allocations hold what they hold after the solo
    run); and the shared locations are unchanged at the end. -/
theorem C19_readonly_interleavings (ops : List (List Step)) (tr : List Step) (h : Heap)
    (hil : Interleave ops tr)
    (hro : ∀ (i : Nat) (op : List Step), ops[i]? = some op → ReadOnly op ∧ Confined i op) :
    (∀ (i : Nat) (op : List Step), ops[i]? = some op →
        obsOf i (exec h tr).2 = (exec h op).2.map (·.2) ∧
        AgreeOn i (exec h tr).1 (exec h op).1) ∧
    (∀ n, (exec h tr).1 (.shared n) = h (.shared n)) := by
  refine ⟨fun i op hi => interleave_invariant hil hro h i op hi h (AgreeOn.refl i h), fun n => ?_⟩
  apply exec_shared_unchanged
  intro o l v hm
  obtain ⟨i, op, hi, hmem⟩ := interleave_mem hil _ hm
  exact (hro i op hi).1 l (mem_writeSet hmem)

/-- **Hence every call returns what it returns alone**: whatever function of its observations an operation
    returns, it returns the same value in every interleaving as in its solo run. -/
theorem C19_result_is_solo_result {β : Type} (result : List Val → β)
    (ops : List (List Step)) (tr : List Step) (h : Heap) (hil : Interleave ops tr)
    (hro : ∀ (i : Nat) (op : List Step), ops[i]? = some op → ReadOnly op ∧ Confined i op)
    (i : Nat) (op : List Step) (hi : ops[i]? = some op) :
    result (obsOf i (exec h tr).2) = result ((exec h op).2.map (·.2)) := by
  rw [((C19_readonly_interleavings ops tr h hil hro).1 i op hi).1]

/-- **Inputs are never mutated** (sequential form: the before/after comparison of the harness): a read-only
    operation leaves every pre-existing location as it found it. -/
theorem C19_inputs_unchanged (op : List Step) (h : Heap) (hro : ReadOnly op) :
    ∀ n, (exec h op).1 (.shared n) = h (.shared n) := by
  apply exec_shared_unchanged
  intro o l v hm
  exact hro l (mem_writeSet hm)

/-- **The same for programs whose next step depends on what they read** (so that "returns" is literally a
    function): a pool of isolated programs run under ANY schedule from heap `h`.  Whenever program `i` has
    finished, the value it holds is the result of running it alone from `h`; and the inputs are unchanged. -/
theorem C19_readonly_programs_return_solo_result {α : Type} (ps : List (Prog α)) (sched : List Nat) (h : Heap)
    (hiso : ∀ (i : Nat) (p : Prog α), ps[i]? = some p → p.Isolated i) :
    (∀ (i : Nat) (p : Prog α) (a : α), ps[i]? = some p → (runSched ps h sched).1[i]? = some (.ret a) → (p.run h).1 = a) ∧
    (∀ n, (runSched ps h sched).2 (.shared n) = h (.shared n)) :=
  ⟨fun i p a hp hfin => runSched_invariant sched ps h hiso i p hp h (AgreeOn.refl i h) a hfin,
   runSched_shared_unchanged sched ps h hiso⟩

/-- the two presentations agree: the steps an isolated program takes alone form a read-only, confined step
    list, and executing that list is running the program -/
theorem C19_isolated_program_trace_readonly {α : Type} (i : Nat) (p : Prog α) (h : Heap) (hp : p.Isolated i) :
    ReadOnly (p.trace i h) ∧ Confined i (p.trace i h) ∧ (exec h (p.trace i h)).1 = (p.run h).2 :=
  ⟨(hp.trace_good h).1, (hp.trace_good h).2, Prog.exec_trace i p h⟩

/-! ### non-vacuity: two operations sharing two input cells -/

/-- operation 0 reads input 0, stores a derived value in a cell of its own, reads it back, reads input 1 -/
def c19op0 : List Step :=
  [⟨0, .read (.shared 0)⟩, ⟨0, .write (.priv 0 0) 5⟩, ⟨0, .read (.priv 0 0)⟩, ⟨0, .read (.shared 1)⟩]

/-- operation 1 reads both inputs and fills two cells of its own -/
def c19op1 : List Step :=
  [⟨1, .read (.shared 1)⟩, ⟨1, .write (.priv 1 0) 7⟩, ⟨1, .read (.shared 0)⟩, ⟨1, .write (.priv 1 1) 8⟩, ⟨1, .read (.priv 1 0)⟩]

def c19heap : Heap
  | .shared 0 => 10
  | .shared 1 => 20
  | _ => 0

/-- one of the 126 interleavings: 1 0 0 1 1 0 1 0 1 -/
def c19tr : List Step :=
  [⟨1, .read (.shared 1)⟩, ⟨0, .read (.shared 0)⟩, ⟨0, .write (.priv 0 0) 5⟩, ⟨1, .write (.priv 1 0) 7⟩,
   ⟨1, .read (.shared 0)⟩, ⟨0, .read (.priv 0 0)⟩, ⟨1, .write (.priv 1 1) 8⟩, ⟨0, .read (.shared 1)⟩, ⟨1, .read (.priv 1 0)⟩]

example : Interleave [c19op0, c19op1] c19tr := by
  unfold c19tr c19op0 c19op1
  refine .step _ 1 _ _ _ rfl ?_
  refine .step _ 0 _ _ _ rfl ?_
  refine .step _ 0 _ _ _ rfl ?_
  refine .step _ 1 _ _ _ rfl ?_
  refine .step _ 1 _ _ _ rfl ?_
  refine .step _ 0 _ _ _ rfl ?_
  refine .step _ 1 _ _ _ rfl ?_
  refine .step _ 0 _ _ _ rfl ?_
  refine .step _ 1 _ _ _ rfl ?_
  exact .done _ (by simp)

/-- the hypotheses of `C19_readonly_interleavings` hold for the family -/
example : ∀ (i : Nat) (op : List Step), [c19op0, c19op1][i]? = some op → ReadOnly op ∧ Confined i op := by
  intro i op hi
  match i, hi with
  | 0, hi =>
    cases hi
    exact ⟨by simp [ReadOnly, c19op0, writeSet, Loc.isShared], by simp [Confined, c19op0, Step.loc, Loc.visibleTo]⟩
  | 1, hi =>
    cases hi
    exact ⟨by simp [ReadOnly, c19op1, writeSet, Loc.isShared], by simp [Confined, c19op1, Step.loc, Loc.visibleTo]⟩
  | n + 2, hi => simp at hi

/-- and the conclusion is about something: in the interleaving operation 0 observes 10, 5, 20 — its solo
    observations — and operation 1 observes 20, 10, 7 -/
example : obsOf 0 (exec c19heap c19tr).2 = [10, 5, 20] ∧ (exec c19heap c19op0).2.map (·.2) = [10, 5, 20] ∧
          obsOf 1 (exec c19heap c19tr).2 = [20, 10, 7] ∧ (exec c19heap c19op1).2.map (·.2) = [20, 10, 7] := by
  decide +kernel

/-- a data-dependent program: reads input 0, and depending on the value reads input 1 or not; isolated -/
def c19prog (i : Nat) : Prog Val :=
  .read (.shared 0) fun v => .write (.priv i 0) (v + 1) (if v = 10 then .read (.shared 1) fun w => .ret (v + w) else .ret v)

example (i : Nat) : (c19prog i).Isolated i := by
  unfold c19prog
  refine .read _ _ rfl fun v => .write 0 _ _ ?_
  split
  · exact .read _ _ rfl fun w => .ret _
  · exact .ret _

example : ((runSched [c19prog 0, c19prog 1] c19heap [1, 0, 0, 1, 1, 0, 1, 0]).1.map fun p => match p with | .ret a => a | _ => -1)
    = [30, 30] ∧ ((c19prog 0).run c19heap).1 = 30 := by
  decide +kernel

/-- **The hypothesis is needed.**  If one operation writes a shared location (a lazily filled cache, an
    in-place rewrite), another operation can observe a value it never observes alone: the family below is
    confined, operation 1 is not read-only, and in the interleaving `[w, r]` operation 0 reads 99 where its solo
    run reads 10. -/
theorem C19_shared_write_breaks_isolation :
    ∃ (ops : List (List Step)) (tr : List Step) (h : Heap), Interleave ops tr ∧
      (∀ (i : Nat) (op : List Step), ops[i]? = some op → Confined i op) ∧
      ∃ (i : Nat) (op : List Step), ops[i]? = some op ∧ obsOf i (exec h tr).2 ≠ (exec h op).2.map (·.2) := by
  refine ⟨[[⟨0, .read (.shared 0)⟩], [⟨1, .write (.shared 0) 99⟩]],
          [⟨1, .write (.shared 0) 99⟩, ⟨0, .read (.shared 0)⟩], c19heap, ?_, ?_, 0, _, rfl, ?_⟩
  · refine .step _ 1 _ _ _ rfl ?_
    refine .step _ 0 _ _ _ rfl ?_
    exact .done _ (by simp)
  · intro i op hi
    match i, hi with
    | 0, hi => cases hi; simp [Confined, Step.loc, Loc.visibleTo]
    | 1, hi => cases hi; simp [Confined, Step.loc, Loc.visibleTo]
    | n + 2, hi => simp at hi
  · decide +kernel

end CedarGo
