/-
  C15 — Validated policies cannot fail with type errors.   PARTIAL: proved on a fragment of the validator.

  Full statement (NOT a theorem of the unchanged code, see the counterexamples below):
    theorem C15_typeOf_sound : typeOf false Γ e caps = .ok (τ, caps') → EnvOK Γ env → CapsHold env caps →
        Sound env τ caps' (eval e env)

  What is proved (`C15_typeOf_sound_partial`): the statement for `typeOf true`, i.e. for the Go algorithm
  (`typeOf false`, transcribed from typechecker.go and tied to `validate.New(..).Policy` by the `validate`
  correspondence op) restricted to the domain `dom = true`.  `typeOf true` is `typeOf false` plus these extra rejections:
    (D1) `< <= > >=`: both sides must have the SAME comparable type (the Go code only checks "each side comparable":
         `C15_comparison_counterexample`);
    (D2) attribute names in `has` / `.` contain no '.' (capability keys are dotted renderings of access paths and
         collide otherwise: `C15_capability_collision_counterexample`);
    (D3) unknown extension functions are rejected (the Go code accepts them with ZERO arguments and gives them no
         type: `C15_unknown_function_counterexample`);
    (D4) permissive mode: the record LUB fails instead of silently dropping an attribute with incompatible types
         (`C15_lub_drop_counterexample`);
    (D5) extension constructors take a string literal also in permissive mode (non-literal arguments would need
         "the parsers only raise extension errors", not proved);
    (D6) `context == context` / `context != context` are not folded to True / False (would need reflexivity of
         `Value.beq` on arbitrary records, not proved).
  Constructs covered: Bool/Long/String/EntityUID literals; principal/action/resource/context with the schema-given
  entity types and context record type; `&& || ! if` with True/False singleton types, short-circuiting (dead branches are
  only checked for entity references) and capability propagation; `== !=` with same-variable, literal and
  disjoint-entity-type folding and the strict LUB test; `< <= > >=`; `+ - *`; unary minus; `has` and `.` on RECORD types with
  required/optional attributes and `has`-capabilities (incl. nested paths `context.a.b`); set literals (LUB of element types,
  strict and permissive, incl. records); record literals (duplicate keys: last wins); `contains containsAll containsAny isEmpty`;
  `like`; all 22 extension functions (constructors on string literals).  Outside the model (`typeOf` answers
  `unsupported`, never `ok`): `has`/`.` on entity types, `in`, `is`, `is..in`, `getTag`, `hasTag`.
  Both validation modes (Γ.strict arbitrary).  Conclusion (`Sound`): evaluation yields a value of the computed type —
  and if that value is `true` the output capabilities hold — or fails with overflow / absent entity / an extension error;
  never with a type, arity, unknown-function, missing-attribute or missing-tag error.
-/
import CedarGoProofs.Lemmas.C15
namespace CedarGo
open CedarGo.Validate

mutual
/-- **Soundness of the validator's type checker on its proved domain** (see the file header). -/
theorem C15_typeOf_sound_partial (Γ : TEnv) (env : Env) (hΓ : EnvOK Γ env) :
    ∀ (e : Expr) (caps : Caps) (τ : Ty) (caps' : Caps), CapsHold env caps →
      typeOf true Γ e caps = .ok (τ, caps') → Sound env τ caps' (eval e env)
  | .lit v, _, _, _, hc, h => sound_lit hc h
  | .var x, _, _, _, hc, h => sound_var hΓ hc h
  | .unop .not e, caps, _, _, hc, h => sound_not (fun τ c' h' => C15_typeOf_sound_partial Γ env hΓ e caps τ c' hc h') hc h
  | .unop .neg e, caps, _, _, hc, h => sound_neg (fun τ c' h' => C15_typeOf_sound_partial Γ env hΓ e caps τ c' hc h') hc h
  | .unop .isEmpty e, caps, _, _, hc, h => sound_isEmpty (fun τ c' h' => C15_typeOf_sound_partial Γ env hΓ e caps τ c' hc h') hc h
  | .like e p, caps, _, _, hc, h => sound_like (fun τ c' h' => C15_typeOf_sound_partial Γ env hΓ e caps τ c' hc h') hc h
  | .binop .and l r, _, _, _, hc, h => sound_and (C15_typeOf_sound_partial Γ env hΓ l) (C15_typeOf_sound_partial Γ env hΓ r) hc h
  | .binop .or l r, _, _, _, hc, h => sound_or (C15_typeOf_sound_partial Γ env hΓ l) (C15_typeOf_sound_partial Γ env hΓ r) hc h
  | .ite c t e, _, _, _, hc, h =>
    sound_ite (C15_typeOf_sound_partial Γ env hΓ c) (C15_typeOf_sound_partial Γ env hΓ t) (C15_typeOf_sound_partial Γ env hΓ e) hc h
  | .binop .eq l r, _, _, _, hc, h =>
    sound_eq (neg := false) hΓ (C15_typeOf_sound_partial Γ env hΓ l) (C15_typeOf_sound_partial Γ env hΓ r) hc h
  | .binop .ne l r, _, _, _, hc, h =>
    sound_eq (neg := true) hΓ (C15_typeOf_sound_partial Γ env hΓ l) (C15_typeOf_sound_partial Γ env hΓ r) hc h
  | .binop .lt l r, _, _, _, hc, h => sound_cmp (.inl rfl) (C15_typeOf_sound_partial Γ env hΓ l) (C15_typeOf_sound_partial Γ env hΓ r) hc h
  | .binop .le l r, _, _, _, hc, h => sound_cmp (.inr (.inl rfl)) (C15_typeOf_sound_partial Γ env hΓ l) (C15_typeOf_sound_partial Γ env hΓ r) hc h
  | .binop .gt l r, _, _, _, hc, h => sound_cmp (.inr (.inr (.inl rfl))) (C15_typeOf_sound_partial Γ env hΓ l) (C15_typeOf_sound_partial Γ env hΓ r) hc h
  | .binop .ge l r, _, _, _, hc, h => sound_cmp (.inr (.inr (.inr rfl))) (C15_typeOf_sound_partial Γ env hΓ l) (C15_typeOf_sound_partial Γ env hΓ r) hc h
  | .binop .add l r, _, _, _, hc, h => sound_arith (.inl rfl) (C15_typeOf_sound_partial Γ env hΓ l) (C15_typeOf_sound_partial Γ env hΓ r) hc h
  | .binop .sub l r, _, _, _, hc, h => sound_arith (.inr (.inl rfl)) (C15_typeOf_sound_partial Γ env hΓ l) (C15_typeOf_sound_partial Γ env hΓ r) hc h
  | .binop .mul l r, _, _, _, hc, h => sound_arith (.inr (.inr rfl)) (C15_typeOf_sound_partial Γ env hΓ l) (C15_typeOf_sound_partial Γ env hΓ r) hc h
  | .binop .contains l r, _, _, _, hc, h => sound_contains (C15_typeOf_sound_partial Γ env hΓ l) (C15_typeOf_sound_partial Γ env hΓ r) hc h
  | .binop .containsAll l r, _, _, _, hc, h => sound_containsAA (.inl rfl) (C15_typeOf_sound_partial Γ env hΓ l) (C15_typeOf_sound_partial Γ env hΓ r) hc h
  | .binop .containsAny l r, _, _, _, hc, h => sound_containsAA (.inr rfl) (C15_typeOf_sound_partial Γ env hΓ l) (C15_typeOf_sound_partial Γ env hΓ r) hc h
  | .has e a, _, _, _, hc, h => sound_has (C15_typeOf_sound_partial Γ env hΓ e) hc h
  | .access e a, _, _, _, hc, h => sound_access (C15_typeOf_sound_partial Γ env hΓ e) hc h
  | .set es, _, _, _, hc, h => sound_set (allIH_mem (C15_sound_list Γ env hΓ es)) hc h
  | .record kes, _, _, _, hc, h => sound_record (allIHKV_mem (C15_sound_kvs Γ env hΓ kes)) hc h
  | .call fn args, _, _, _, hc, h => sound_call (allIH_mem (C15_sound_list Γ env hΓ args)) hc h
  -- outside the model: `typeOf` never answers `ok`
  | .binop .in_ _ _, _, _, _, _, h => by simp [typeOf] at h
  | .binop .getTag _ _, _, _, _, _, h => by simp [typeOf] at h
  | .binop .hasTag _ _, _, _, _, _, h => by simp [typeOf] at h
  | .is _ _, _, _, _, _, h => by simp [typeOf] at h
  | .isIn _ _ _, _, _, _, _, h => by simp [typeOf] at h
/-- the same for every element of a set literal / argument list -/
theorem C15_sound_list (Γ : TEnv) (env : Env) (hΓ : EnvOK Γ env) : ∀ (es : List Expr), AllIH Γ env es
  | [] => trivial
  | e :: es => ⟨C15_typeOf_sound_partial Γ env hΓ e, C15_sound_list Γ env hΓ es⟩
/-- … and for every entry of a record literal -/
theorem C15_sound_kvs (Γ : TEnv) (env : Env) (hΓ : EnvOK Γ env) : ∀ (kes : List (String × Expr)), AllIHKV Γ env kes
  | [] => trivial
  | (_, e) :: kes => ⟨C15_typeOf_sound_partial Γ env hΓ e, C15_sound_kvs Γ env hΓ kes⟩
end


/-- **The proved domain lies inside what the Go algorithm accepts**: whatever the domain-restricted checker accepts,
    the transcription of the Go type checker (`typeOf false`, the function the `validate` correspondence ties to
    `validate.New(..).Policy`) accepts with the SAME type and the SAME capabilities.  Together with
    `C15_typeOf_sound_partial`: the Go checker is sound on every expression of the fragment that passes (D1)–(D6). -/
theorem C15_dom_accept_is_go_accept (Γ : TEnv) (e : Expr) (caps : Caps) (res : Ty × Caps)
    (h : typeOf true Γ e caps = .ok res) : typeOf false Γ e caps = .ok res :=
  typeOf_dom_go Γ e caps res h

/-- Corollary at the level `typecheckConditions` works at: a condition body the (domain-restricted) checker accepts in
    environment Γ evaluates, on every request/store that conforms to Γ, to a Boolean or fails with an allowed error. -/
theorem C15_condition_sound_partial (Γ : TEnv) (env : Env) (hΓ : EnvOK Γ env) (body : Expr)
    (h : condOK true Γ body = .ok true) :
    (∃ b, eval body env = .ok (.bool b)) ∨ (∃ k, eval body env = .error k ∧ Allowed k) := by
  unfold condOK at h
  split at h
  · simp at h
  · simp at h
  · rename_i t c ht
    have hs := (C15_typeOf_sound_partial Γ env hΓ body [] t c (capsHold_nil env) ht).2
    simp only [Except.ok.injEq, Bool.or_eq_true] at h
    cases hr : eval body env with
    | error k => rw [hr] at hs; exact .inr ⟨k, rfl, hs⟩
    | ok v =>
      rw [hr] at hs
      rcases h with h | h
      · cases hs.1 <;> simp [Ty.isNil] at h
      · obtain ⟨b, rfl⟩ := hasTy_boolish h hs.1
        exact .inl ⟨b, rfl⟩

/-! ## Concrete environment for the counterexamples and the non-vacuity examples

  schema: `entity User; entity Doc; action view appliesTo {principal: User, resource: Doc,
           context: {n: Long, o?: Long, "a.b": {x?: Long}, a: {b: {x?: Long}}}}`
  request: principal User::"a", resource Doc::"d", context `{n: 3, "a.b": {x: 1}, a: {b: {}}}` (o absent). -/

def c15Γ (strict : Bool) : TEnv where
  principalType := "User"
  action := ("Action", "view")
  resourceType := "Doc"
  context := [("n", .long, true), ("o", .long, false), ("a.b", .record [("x", .long, false)], true),
              ("a", .record [("b", .record [("x", .long, false)], true)], true)]
  entityTypes := ["User", "Doc"]
  actions := [("Action", "view")]
  strict := strict

def c15Env : Env where
  entities := []
  principal := .entity "User" "a"
  action := .entity "Action" "view"
  resource := .entity "Doc" "d"
  context := .record [("n", .long 3), ("a.b", .record [("x", .long 1)]), ("a", .record [("b", .record [])])]

/-- the request conforms to the environment -/
theorem c15Env_ok (strict : Bool) : EnvOK (c15Γ strict) c15Env := by
  refine ⟨⟨"a", rfl⟩, ⟨"view", rfl⟩, ⟨"d", rfl⟩, ⟨_, rfl, ?_⟩⟩
  refine hasTy_record_cons (HasTy.long _) (hasTy_record_skip ?_ (by decide))
  refine hasTy_record_cons ?_ (hasTy_record_cons ?_ hasTy_record_nil)
  · exact hasTy_record_cons (HasTy.long _) hasTy_record_nil
  · exact hasTy_record_cons (hasTy_record_skip hasTy_record_nil (by decide)) hasTy_record_nil

instance c15DecEqCondRes : DecidableEq (Except TErr Bool)
  | .ok a, .ok b => if h : a = b then isTrue (by rw [h]) else isFalse (by intro h'; cases h'; exact h rfl)
  | .error a, .error b => if h : a = b then isTrue (by rw [h]) else isFalse (by intro h'; cases h'; exact h rfl)
  | .ok _, .error _ => isFalse (by intro h; cases h)
  | .error _, .ok _ => isFalse (by intro h; cases h)

def isErr (k : Err) : Res → Bool | .error k' => k == k' | _ => false
theorem isErr_eq {k : Err} {r : Res} (h : isErr k r = true) : r = .error k := by
  cases r with
  | ok v => simp [isErr] at h
  | error k' => simp only [isErr, beq_iff_eq] at h; rw [h]
def acceptsAs (t : Ty → Bool) : TRes → Bool | .ok (ty, _) => t ty | _ => false
theorem acceptsAs_eq {t : Ty → Bool} {r : TRes} (h : acceptsAs t r = true) : ∃ ty c, r = .ok (ty, c) ∧ t ty = true := by
  match r, h with
  | .ok (ty, c), h => exact ⟨ty, c, rfl, h⟩

/-- `1 < datetime("2020-01-01")` -/
def c15Cmp : Expr := .binop .lt (.lit (.long 1)) (.call "datetime" [.lit (.str "2020-01-01")])

/-- **The Go type checker is unsound (1)**: it accepts `1 < datetime("2020-01-01")` as Bool (each side is only checked to be
    "comparable"), in strict and permissive mode, and evaluation fails with a TYPE error on a conforming request. -/
theorem C15_comparison_counterexample (strict : Bool) :
    EnvOK (c15Γ strict) c15Env ∧ (∃ c, typeOf false (c15Γ strict) c15Cmp [] = .ok (.bool, c)) ∧
    condOK false (c15Γ strict) c15Cmp = .ok true ∧ eval c15Cmp c15Env = .error .type := by
  refine ⟨c15Env_ok strict, ?_, ?_, isErr_eq (by decide +kernel)⟩
  · have h : acceptsAs (fun t => match t with | .bool => true | _ => false) (typeOf false (c15Γ strict) c15Cmp []) = true := by
      cases strict <;> decide +kernel
    obtain ⟨ty, c, hr, ht⟩ := acceptsAs_eq h
    cases ty <;> simp at ht
    exact ⟨c, hr⟩
  · cases strict <;> decide +kernel

/-- the domain-restricted checker rejects it -/
theorem C15_comparison_rejected_in_domain (strict : Bool) : typeOf true (c15Γ strict) c15Cmp [] = .error .reject := by
  have h : (match typeOf true (c15Γ strict) c15Cmp [] with | .error .reject => true | _ => false) = true := by
    cases strict <;> decide +kernel
  split at h <;> simp_all

/-- `foo()`: a call of an unknown function with no arguments -/
def c15Foo : Expr := .call "foo" []

/-- **Unsound (2)**: an unknown extension function applied to ZERO arguments gets no type and no error; the condition
    `when { foo() }` is accepted and evaluation fails with an unknown-function error. -/
theorem C15_unknown_function_counterexample (strict : Bool) :
    condOK false (c15Γ strict) c15Foo = .ok true ∧ eval c15Foo c15Env = .error .unknownFn :=
  ⟨by cases strict <;> decide +kernel, isErr_eq (by decide +kernel)⟩

/-- `context["a.b"] has x && context.a.b.x > 0` -/
def c15Coll : Expr :=
  .binop .and (.has (.access (.var .context) "a.b") "x")
    (.binop .gt (.access (.access (.access (.var .context) "a") "b") "x") (.lit (.long 0)))

/-- **Unsound (3)**: capabilities are keyed by the dotted rendering of the access path, so the `has` test on
    `context["a.b"]` licenses the access `context.a.b.x`; evaluation fails with a missing-ATTRIBUTE error. -/
theorem C15_capability_collision_counterexample (strict : Bool) :
    EnvOK (c15Γ strict) c15Env ∧ condOK false (c15Γ strict) c15Coll = .ok true ∧ eval c15Coll c15Env = .error .attr :=
  ⟨c15Env_ok strict, by cases strict <;> decide +kernel, isErr_eq (by decide +kernel)⟩

/-- the two access paths render to the same capability key -/
theorem C15_exprVarName_not_injective :
    exprVarName (.access (.var .context) "a.b") = exprVarName (.access (.access (.var .context) "a") "b") := by decide +kernel

/-- `(if principal == principal … )`-free version: `(if context.n > 0 then {a: 1} else {a: "s"}) has a && !5` -/
def c15Lub : Expr :=
  .binop .and
    (.has (.ite (.binop .gt (.access (.var .context) "n") (.lit (.long 0))) (.record [("a", .lit (.long 1))]) (.record [("a", .lit (.str "s"))])) "a")
    (.unop .not (.lit (.long 5)))

/-- **Unsound (4), permissive mode**: the LUB of `{a: Long}` and `{a: String}` silently drops `a`, `… has a` is typed
    False, the right operand of `&&` is never type-checked, and evaluation fails with a TYPE error.  Strict mode rejects. -/
theorem C15_lub_drop_counterexample :
    EnvOK (c15Γ false) c15Env ∧ condOK false (c15Γ false) c15Lub = .ok true ∧ eval c15Lub c15Env = .error .type ∧
    condOK false (c15Γ true) c15Lub = .ok false :=
  ⟨c15Env_ok false, by decide +kernel, isErr_eq (by decide +kernel), by decide +kernel⟩

/-! ## Non-vacuity: the hypotheses of the soundness theorem are met by a non-trivial expression -/

/-- `context has o && context.o + context.n > 0 || [1, 2].contains(context.n) && decimal("1.5").lessThan(decimal("2.0"))` -/
def c15Good : Expr :=
  .binop .or
    (.binop .and (.has (.var .context) "o")
      (.binop .gt (.binop .add (.access (.var .context) "o") (.access (.var .context) "n")) (.lit (.long 0))))
    (.binop .and (.binop .contains (.set [.lit (.long 1), .lit (.long 2)]) (.access (.var .context) "n"))
      (.call "lessThan" [.call "decimal" [.lit (.str "1.5")], .call "decimal" [.lit (.str "2.0")]]))

example : condOK true (c15Γ true) c15Good = .ok true ∧ condOK true (c15Γ false) c15Good = .ok true := by
  constructor <;> decide +kernel

example : (∃ b, eval c15Good c15Env = .ok (.bool b)) ∨ (∃ k, eval c15Good c15Env = .error k ∧ Allowed k) :=
  C15_condition_sound_partial (c15Γ true) c15Env (c15Env_ok true) c15Good (by decide +kernel)

end CedarGo
