/-
  C15 — Validated policies cannot fail with type errors.   PARTIAL: proved for the transcribed type checker on a stated domain.

  Full statement (NOT a theorem of the unchanged code, see the counterexamples below):
    theorem C15_typeOf_sound : typeOf false Γ e caps = .ok (τ, caps') → EnvOK Γ env → CapsHold env caps →
        Sound env τ caps' (eval e env)

  What is proved (`C15_typeOf_sound_partial`): the statement for `typeOf true`, i.e. for the Go algorithm
  (`typeOf false`, transcribed from typechecker.go and tied to `validate.New(..).Policy` by the `validate`
  correspondence op) restricted to the domain `dom = true`, under the explicit action hypothesis `ActionsOK`.
  `typeOf true` is `typeOf false` plus these extra rejections:
    (D4) permissive mode: the record LUB fails instead of silently dropping an attribute with incompatible types
         (`C15_lub_drop_counterexample`);
    (D5) extension constructors take a string literal also in permissive mode (non-literal arguments would need
         "the parsers only raise extension errors", not proved);
    (D6) `context == context` / `context != context` are not folded to True / False (would need reflexivity of
         `Value.beq` on arbitrary records, not proved).
  Hypotheses on the request and the store:
    `EnvOK Γ env` — the request conforms (principal / resource of the environment's types, the environment's action, context
         of the declared record type) and every entity PRESENT in the store conforms to the declaration of its type
         (`EntityOK`: required attributes present with values of their types, optional attributes well-typed if present, no
         undeclared attribute; tag values of the declared tag type, no tags if none is declared; every parent of a
         NON-action entity is a non-action entity whose entity type is one of the `memberOf` types of the child's type).
         Entities may be ABSENT from the store.
         For ACTION entities (their types have no declaration) `EntityOK.parents` only asks the parents to be action
         entities — of ANY action entity type: an action group declared in another namespace is covered (it was not
         before the repair of `in-action-type-cross-namespace`, see the regression example at `c15CrossNs`); WHICH
         actions is what `ActionsOK` says.  (What `EntityOK.parents` still excludes: a non-action entity below an action
         entity.  `Validator.Entities` allows it only for a schema that declares an entity type NAMED `Action` and lists
         it under `memberOf` — cedar-go's resolver does not refuse that declaration, Rust Cedar does.)
    `ActionsOK Γ env` — the environment's action is a schema action; every schema action that has parents in the schema
         is present in the store with (at least) those parents; the parents of a present schema action are schema actions
         above it in the schema's hierarchy.  Needed because `typeOfIn` folds `action in …` from the SCHEMA's action
         hierarchy while evaluation consults the store; without it: `C15_action_absent_counterexample`.
  Four former domain restrictions and one former restriction of the store hypothesis are gone (repaired in cedar-go,
  `fix:` commits):
    (D7) `hasTag` / `getTag` on an entity LUB of which SOME but not all elements declare tags (permissive mode only —
         strict mode has no such LUBs) were outside the domain: the unrepaired code typed such a `hasTag` False
         (`entityHasTags` demanded tags on EVERY element) although it is true for an entity of an element type that has
         tags.  `hasTag` is now False only when NO element declares tags, otherwise Bool, and `getTag` has the LUB of the
         tag types of the elements that declare tags — `C15_hasTag_false_iff_no_tags`; the old witness is a regression
         `example` below (`c15MixedTag`);
    (store) `x in y` with `x` of an action entity type and `y` of ANOTHER action entity type was folded to False from
         the entity-type hierarchy; an action type may now be below any action type (`anyDescInner`), and
         `EntityOK.parents` no longer asks action groups to have the action's own entity type; the old witness is a
         regression `example` below (`c15CrossNs`);
    (D2) attribute names in `has` / `.` had to contain no '.': capability keys were dotted renderings of access paths
         and collided otherwise (`context["a.b"] has x` licensed `context.a.b.x`).  Keys are now the access paths
         themselves, compared structurally — `C15_capability_paths_injective`; the theorem covers every attribute name
         and the old witness is a regression `example` below;
    (D1) `< <= > >=`: both sides must have the SAME comparable type — `C15_comparison_same_type` holds for
         `typeOf false` too (the unrepaired code only checked "each side comparable" and accepted
         `1 < datetime("2020-01-01")`; the old witness is a regression `example` below);
    (D3) unknown extension functions are rejected — `C15_unknown_function_rejected` (the unrepaired code accepted
         them with ZERO arguments and gave them no type; old witness `foo()` below).
  Constructs covered — every node kind of the expression language: Bool/Long/String/EntityUID literals;
  principal/action/resource/context with the schema-given entity types and context record type; `&& || ! if` with
  True/False singleton types, short-circuiting (dead branches are only checked for entity references) and capability
  propagation; `== !=` with same-variable, literal and disjoint-entity-type folding and the strict LUB test; `< <= > >=`;
  `+ - *`; unary minus; `has` and `.` on RECORD and on ENTITY types (entity LUBs: the attribute must be declared by every
  element, its type is the LUB of the declared types) with required/optional attributes and `has`-capabilities keyed by
  structural access paths (incl. nested paths `principal.mgr.name`, `context.a.b` and attribute names of any shape);
  `is` with its True/False folding from the static entity LUB; `in` (right operand an entity or a set of entities) with the
  static False from the schema's entity-type hierarchy (`isEntityDescendant` / `anyEntityDescendantOf`: depth-first search
  with a visited set; two action entity types are never folded) and the True/False folding of `action in …` from the schema's action hierarchy; `is … in` (no
  folding in the Go code); `hasTag` (False when no element of the LUB declares tags, tag capabilities for string-literal
  keys) and `getTag` (LUB of the tag types of the elements that declare tags, needs the tag capability); set literals (LUB of element types, strict and
  permissive, incl. records); record literals (duplicate keys: last wins); `contains containsAll containsAny isEmpty`;
  `like`; all 22 extension functions (constructors on string literals).  Outside the model (`typeOf` answers
  `unsupported`, never `ok`): set / record / extension VALUES as literals (the parser never produces them).
  Both validation modes (Γ.strict arbitrary).  Conclusion (`Sound`): evaluation yields a value of the computed type —
  and if that value is `true` the output capabilities hold — or fails with overflow / absent entity / an extension error;
  never with a type, arity, unknown-function, missing-attribute or missing-tag error — in particular no `attr` / `tag`
  error on an entity PRESENT in the store.
-/
import CedarGoProofs.Lemmas.C15EntIn
namespace CedarGo
open CedarGo.Validate

mutual
/-- **Soundness of the validator's type checker on its proved domain** (see the file header). -/
theorem C15_typeOf_sound_partial (Γ : TEnv) (env : Env) (hΓ : EnvOK Γ env) (hA : ActionsOK Γ env) :
    ∀ (e : Expr) (caps : Caps) (τ : Ty) (caps' : Caps), CapsHold env caps →
      typeOf true Γ e caps = .ok (τ, caps') → Sound env τ caps' (eval e env)
  | .lit v, _, _, _, hc, h => sound_lit hΓ hc h
  | .var x, _, _, _, hc, h => sound_var hΓ hc h
  | .unop .not e, caps, _, _, hc, h => sound_not (fun τ c' h' => C15_typeOf_sound_partial Γ env hΓ hA e caps τ c' hc h') hc h
  | .unop .neg e, caps, _, _, hc, h => sound_neg (fun τ c' h' => C15_typeOf_sound_partial Γ env hΓ hA e caps τ c' hc h') hc h
  | .unop .isEmpty e, caps, _, _, hc, h => sound_isEmpty (fun τ c' h' => C15_typeOf_sound_partial Γ env hΓ hA e caps τ c' hc h') hc h
  | .like e p, caps, _, _, hc, h => sound_like (fun τ c' h' => C15_typeOf_sound_partial Γ env hΓ hA e caps τ c' hc h') hc h
  | .binop .and l r, _, _, _, hc, h => sound_and (C15_typeOf_sound_partial Γ env hΓ hA l) (C15_typeOf_sound_partial Γ env hΓ hA r) hc h
  | .binop .or l r, _, _, _, hc, h => sound_or (C15_typeOf_sound_partial Γ env hΓ hA l) (C15_typeOf_sound_partial Γ env hΓ hA r) hc h
  | .ite c t e, _, _, _, hc, h =>
    sound_ite (C15_typeOf_sound_partial Γ env hΓ hA c) (C15_typeOf_sound_partial Γ env hΓ hA t) (C15_typeOf_sound_partial Γ env hΓ hA e) hc h
  | .binop .eq l r, _, _, _, hc, h =>
    sound_eq (neg := false) hΓ (C15_typeOf_sound_partial Γ env hΓ hA l) (C15_typeOf_sound_partial Γ env hΓ hA r) hc h
  | .binop .ne l r, _, _, _, hc, h =>
    sound_eq (neg := true) hΓ (C15_typeOf_sound_partial Γ env hΓ hA l) (C15_typeOf_sound_partial Γ env hΓ hA r) hc h
  | .binop .lt l r, _, _, _, hc, h => sound_cmp (.inl rfl) (C15_typeOf_sound_partial Γ env hΓ hA l) (C15_typeOf_sound_partial Γ env hΓ hA r) hc h
  | .binop .le l r, _, _, _, hc, h => sound_cmp (.inr (.inl rfl)) (C15_typeOf_sound_partial Γ env hΓ hA l) (C15_typeOf_sound_partial Γ env hΓ hA r) hc h
  | .binop .gt l r, _, _, _, hc, h => sound_cmp (.inr (.inr (.inl rfl))) (C15_typeOf_sound_partial Γ env hΓ hA l) (C15_typeOf_sound_partial Γ env hΓ hA r) hc h
  | .binop .ge l r, _, _, _, hc, h => sound_cmp (.inr (.inr (.inr rfl))) (C15_typeOf_sound_partial Γ env hΓ hA l) (C15_typeOf_sound_partial Γ env hΓ hA r) hc h
  | .binop .add l r, _, _, _, hc, h => sound_arith (.inl rfl) (C15_typeOf_sound_partial Γ env hΓ hA l) (C15_typeOf_sound_partial Γ env hΓ hA r) hc h
  | .binop .sub l r, _, _, _, hc, h => sound_arith (.inr (.inl rfl)) (C15_typeOf_sound_partial Γ env hΓ hA l) (C15_typeOf_sound_partial Γ env hΓ hA r) hc h
  | .binop .mul l r, _, _, _, hc, h => sound_arith (.inr (.inr rfl)) (C15_typeOf_sound_partial Γ env hΓ hA l) (C15_typeOf_sound_partial Γ env hΓ hA r) hc h
  | .binop .contains l r, _, _, _, hc, h => sound_contains (C15_typeOf_sound_partial Γ env hΓ hA l) (C15_typeOf_sound_partial Γ env hΓ hA r) hc h
  | .binop .containsAll l r, _, _, _, hc, h => sound_containsAA (.inl rfl) (C15_typeOf_sound_partial Γ env hΓ hA l) (C15_typeOf_sound_partial Γ env hΓ hA r) hc h
  | .binop .containsAny l r, _, _, _, hc, h => sound_containsAA (.inr rfl) (C15_typeOf_sound_partial Γ env hΓ hA l) (C15_typeOf_sound_partial Γ env hΓ hA r) hc h
  -- `has` / `.` on records AND entities (capabilities keyed by access paths; an absent entity: `has` false, `.` fails with `entity`)
  | .has e a, _, _, _, hc, h => sound_has hΓ (C15_typeOf_sound_partial Γ env hΓ hA e) hc h
  | .access e a, _, _, _, hc, h => sound_access hΓ (C15_typeOf_sound_partial Γ env hΓ hA e) hc h
  | .set es, _, _, _, hc, h => sound_set (allIH_mem (C15_sound_list Γ env hΓ hA es)) hc h
  | .record kes, _, _, _, hc, h => sound_record (allIHKV_mem (C15_sound_kvs Γ env hΓ hA kes)) hc h
  | .call fn args, _, _, _, hc, h => sound_call (allIH_mem (C15_sound_list Γ env hΓ hA args)) hc h
  -- `is` with its True/False folding; `in` with the entity-type-hierarchy and the action-hierarchy foldings; `is … in`
  | .is e ty, _, _, _, hc, h => sound_is (C15_typeOf_sound_partial Γ env hΓ hA e) hc h
  | .binop .in_ l r, _, _, _, hc, h => sound_in hΓ hA (C15_typeOf_sound_partial Γ env hΓ hA l) (C15_typeOf_sound_partial Γ env hΓ hA r) hc h
  | .isIn e ty r, _, _, _, hc, h => sound_isIn (C15_typeOf_sound_partial Γ env hΓ hA e) (C15_typeOf_sound_partial Γ env hΓ hA r) hc h
  -- tags, with tag capabilities
  | .binop .hasTag l r, _, _, _, hc, h => sound_hasTag hΓ (C15_typeOf_sound_partial Γ env hΓ hA l) (C15_typeOf_sound_partial Γ env hΓ hA r) hc h
  | .binop .getTag l r, _, _, _, hc, h => sound_getTag hΓ (C15_typeOf_sound_partial Γ env hΓ hA l) (C15_typeOf_sound_partial Γ env hΓ hA r) hc h
/-- the same for every element of a set literal / argument list -/
theorem C15_sound_list (Γ : TEnv) (env : Env) (hΓ : EnvOK Γ env) (hA : ActionsOK Γ env) : ∀ (es : List Expr), AllIH Γ env es
  | [] => trivial
  | e :: es => ⟨C15_typeOf_sound_partial Γ env hΓ hA e, C15_sound_list Γ env hΓ hA es⟩
/-- … and for every entry of a record literal -/
theorem C15_sound_kvs (Γ : TEnv) (env : Env) (hΓ : EnvOK Γ env) (hA : ActionsOK Γ env) : ∀ (kes : List (String × Expr)), AllIHKV Γ env kes
  | [] => trivial
  | (_, e) :: kes => ⟨C15_typeOf_sound_partial Γ env hΓ hA e, C15_sound_kvs Γ env hΓ hA kes⟩
end


/-- **The proved domain lies inside what the Go algorithm accepts**: whatever the domain-restricted checker accepts,
    the transcription of the Go type checker (`typeOf false`, the function the `validate` correspondence ties to
    `validate.New(..).Policy`) accepts with the SAME type and the SAME capabilities.  Together with
    `C15_typeOf_sound_partial`: the Go checker is sound on every expression of the fragment that passes (D1)–(D6). -/
theorem C15_dom_accept_is_go_accept (Γ : TEnv) (e : Expr) (caps : Caps) (res : Ty × Caps)
    (h : typeOf true Γ e caps = .ok res) : typeOf false Γ e caps = .ok res :=
  typeOf_dom_go Γ e caps res h

/-- Corollary at the level `typecheckConditions` works at: a condition body the (domain-restricted) checker accepts in
    environment Γ evaluates, on every request/store that conforms to Γ, to a Boolean or fails with an allowed error. -/
theorem C15_condition_sound_partial (Γ : TEnv) (env : Env) (hΓ : EnvOK Γ env) (hA : ActionsOK Γ env) (body : Expr)
    (h : condOK true Γ body = .ok true) :
    (∃ b, eval body env = .ok (.bool b)) ∨ (∃ k, eval body env = .error k ∧ Allowed k) := by
  unfold condOK at h
  split at h
  · simp at h
  · simp at h
  · rename_i t c ht
    have hs := (C15_typeOf_sound_partial Γ env hΓ hA body [] t c (capsHold_nil env) ht).2
    simp only [Except.ok.injEq, Bool.or_eq_true] at h
    cases hr : eval body env with
    | error k => rw [hr] at hs; exact .inr ⟨k, rfl, hs⟩
    | ok v =>
      rw [hr] at hs
      rcases h with h | h
      · cases hs.1 <;> simp [Ty.isNil] at h
      · obtain ⟨b, rfl⟩ := hasTy_boolish h hs.1
        exact .inl ⟨b, rfl⟩

/-! ## Concrete environment for the counterexamples and the non-vacuity examples

  schema: `entity User; entity Doc; action view appliesTo {principal: User, resource: Doc,
           context: {n: Long, o?: Long, "a.b": {x?: Long}, a: {b: {x?: Long}}}}`
  request: principal User::"a", resource Doc::"d", context `{n: 3, "a.b": {x: 1}, a: {b: {}}}` (o absent). -/

def c15Γ (strict : Bool) : TEnv where
  principalType := "User"
  action := ("Action", "view")
  resourceType := "Doc"
  context := [("n", .long, true), ("o", .long, false), ("a.b", .record [("x", .long, false)], true),
              ("a", .record [("b", .record [("x", .long, false)], true)], true)]
  entityTypes := ["User", "Doc"]
  actions := [("Action", "view")]
  strict := strict

def c15Env : Env where
  entities := []
  principal := .entity "User" "a"
  action := .entity "Action" "view"
  resource := .entity "Doc" "d"
  context := .record [("n", .long 3), ("a.b", .record [("x", .long 1)]), ("a", .record [("b", .record [])])]

/-- the request conforms to the environment -/
theorem c15Env_ok (strict : Bool) : EnvOK (c15Γ strict) c15Env := by
  refine ⟨⟨"a", rfl⟩, rfl, ⟨"d", rfl⟩, ⟨_, rfl, ?_⟩, by cases strict <;> decide, by intro uid d h; simp [c15Env, Entities.get] at h⟩
  refine hasTy_record_cons (HasTy.long _) (hasTy_record_skip ?_ (by decide))
  refine hasTy_record_cons ?_ (hasTy_record_cons ?_ hasTy_record_nil)
  · exact hasTy_record_cons (HasTy.long _) hasTy_record_nil
  · exact hasTy_record_cons (hasTy_record_skip hasTy_record_nil (by decide)) hasTy_record_nil

/-- the schema has one action without parents and the store is empty: the action hypothesis holds trivially -/
theorem c15Env_actions (strict : Bool) : ActionsOK (c15Γ strict) c15Env := by
  refine ⟨by simp [c15Γ], ?_, ?_⟩
  · intro u p hp; simp [actionParentsOf, c15Γ] at hp
  · intro u _ d hg; simp [c15Env, Entities.get] at hg

instance c15DecEqCondRes : DecidableEq (Except TErr Bool)
  | .ok a, .ok b => if h : a = b then isTrue (by rw [h]) else isFalse (by intro h'; cases h'; exact h rfl)
  | .error a, .error b => if h : a = b then isTrue (by rw [h]) else isFalse (by intro h'; cases h'; exact h rfl)
  | .ok _, .error _ => isFalse (by intro h; cases h)
  | .error _, .ok _ => isFalse (by intro h; cases h)

def isErr (k : Err) : Res → Bool | .error k' => k == k' | _ => false
theorem isErr_eq {k : Err} {r : Res} (h : isErr k r = true) : r = .error k := by
  cases r with
  | ok v => simp [isErr] at h
  | error k' => simp only [isErr, beq_iff_eq] at h; rw [h]
def acceptsAs (t : Ty → Bool) : TRes → Bool | .ok (ty, _) => t ty | _ => false
theorem acceptsAs_eq {t : Ty → Bool} {r : TRes} (h : acceptsAs t r = true) : ∃ ty c, r = .ok (ty, c) ∧ t ty = true := by
  match r, h with
  | .ok (ty, c), h => exact ⟨ty, c, rfl, h⟩

/-- **(D1) is a fact of the algorithm**: whenever the type checker — the Go algorithm `dom = false` as well as the
    domain-restricted one — accepts a comparison `l < r` (`<=`, `>`, `>=`), both operands were accepted and have the SAME
    comparable type (Long/Long, datetime/datetime or duration/duration); the result is Bool with unchanged capabilities. -/
theorem C15_comparison_same_type (dom : Bool) (Γ : TEnv) (op : BinOp) (hop : op = .lt ∨ op = .le ∨ op = .gt ∨ op = .ge)
    (l r : Expr) (caps : Caps) (res : Ty × Caps) (h : typeOf dom Γ (.binop op l r) caps = .ok res) :
    ∃ lt lc rt rc, typeOf dom Γ l caps = .ok (lt, lc) ∧ typeOf dom Γ r caps = .ok (rt, rc) ∧
      sameComparable lt rt = true ∧ res = (.bool, caps) := by
  rcases hop with rfl | rfl | rfl | rfl <;> simp only [typeOf, cmpResult] at h
  all_goals
    split at h
    · simp at h
    · rename_i lt lc hl
      split at h
      · simp at h
      · rename_i rt rc hr
        split at h
        · rename_i hsame
          simp only [Except.ok.injEq] at h
          exact ⟨lt, lc, rt, rc, hl, hr, hsame, h.symm⟩
        · simp at h

/-- **(D3) is a fact of the algorithm**: a call of a function that is not one of the 22 extension functions of
    `extFuncTypes` is rejected, whatever its arguments (zero arguments included), in both modes. -/
theorem C15_unknown_function_rejected (dom : Bool) (Γ : TEnv) (fn : String) (args : List Expr) (caps : Caps)
    (h : extFuncSig fn = none) : typeOf dom Γ (.call fn args) caps = .error .reject := by
  simp only [typeOf, h]

/-- `1 < datetime("2020-01-01")` -/
def c15Cmp : Expr := .binop .lt (.lit (.long 1)) (.call "datetime" [.lit (.str "2020-01-01")])

/-- `context.n >= duration("1h")` -/
def c15Cmp2 : Expr := .binop .ge (.access (.var .context) "n") (.call "duration" [.lit (.str "1h")])

/-- `context.n < 5` and `datetime("2020-01-01") <= datetime("2021-01-01")`: same comparable type on both sides -/
def c15CmpGood : Expr :=
  .binop .and (.binop .lt (.access (.var .context) "n") (.lit (.long 5)))
    (.binop .le (.call "datetime" [.lit (.str "2020-01-01")]) (.call "datetime" [.lit (.str "2021-01-01")]))

/-- REGRESSION (was `C15_comparison_counterexample`: accepted as Bool, evaluation fails with a TYPE error on a conforming
    request): the Go algorithm now rejects the comparison of a Long with a datetime / duration, in strict and
    permissive mode — the evaluation error is unchanged, but the policy no longer validates. -/
example : condOK false (c15Γ true) c15Cmp = .ok false ∧ condOK false (c15Γ false) c15Cmp = .ok false ∧
    condOK false (c15Γ true) c15Cmp2 = .ok false ∧ condOK false (c15Γ false) c15Cmp2 = .ok false ∧
    isErr .type (eval c15Cmp c15Env) = true := by
  refine ⟨?_, ?_, ?_, ?_, ?_⟩ <;> decide +kernel

/-- … and comparisons between two operands of the same comparable type are still accepted -/
example : condOK false (c15Γ true) c15CmpGood = .ok true ∧ condOK false (c15Γ false) c15CmpGood = .ok true := by
  constructor <;> decide +kernel

/-- non-vacuity of `C15_comparison_same_type` -/
example : ∃ res, typeOf false (c15Γ true) (.binop .lt (.access (.var .context) "n") (.lit (.long 5))) [] = .ok res := by
  have h : acceptsAs (fun _ => true) (typeOf false (c15Γ true) (.binop .lt (.access (.var .context) "n") (.lit (.long 5))) []) = true := by
    decide +kernel
  obtain ⟨ty, c, hr, _⟩ := acceptsAs_eq h
  exact ⟨_, hr⟩

/-- `foo()`: a call of an unknown function with no arguments -/
def c15Foo : Expr := .call "foo" []

/-- REGRESSION (was `C15_unknown_function_counterexample`: `when { foo() }` accepted, evaluation fails with an
    unknown-function error): `foo()`, `foo() == 1` and `foo(1)` are rejected in both modes. -/
example : condOK false (c15Γ true) c15Foo = .ok false ∧ condOK false (c15Γ false) c15Foo = .ok false ∧
    condOK false (c15Γ true) (.binop .eq c15Foo (.lit (.long 1))) = .ok false ∧
    condOK false (c15Γ false) (.call "foo" [.lit (.long 1)]) = .ok false ∧
    isErr .unknownFn (eval c15Foo c15Env) = true := by
  refine ⟨?_, ?_, ?_, ?_, ?_⟩ <;> decide +kernel

/-- non-vacuity of `C15_unknown_function_rejected` -/
example : extFuncSig "foo" = none := by decide +kernel

/-- `context["a.b"] has x && context.a.b.x > 0` -/
def c15Coll : Expr :=
  .binop .and (.has (.access (.var .context) "a.b") "x")
    (.binop .gt (.access (.access (.access (.var .context) "a") "b") "x") (.lit (.long 0)))

/-- `context["a.b"] has x && context["a.b"].x > 0` -/
def c15CollGood : Expr :=
  .binop .and (.has (.access (.var .context) "a.b") "x")
    (.binop .gt (.access (.access (.var .context) "a.b") "x") (.lit (.long 0)))

/-- **(D2) is gone**: capability keys are injective — two expressions with the same non-empty capability path are the
    same variable-rooted access chain.  (The dotted rendering `exprVarName` the unrepaired code used as key is not:
    see the `example` below.) -/
theorem C15_capability_paths_injective (e e' : Expr) (h : exprCapPath e = exprCapPath e') (hne : exprCapPath e ≠ []) :
    e = e' :=
  exprCapPath_inj e e' h hne

example : exprCapPath (.access (.var .context) "a.b") ≠ [] := by decide +kernel

/-- the two access paths of the old counterexample render to the same STRING but are different capability paths -/
example : exprVarName (.access (.var .context) "a.b") = exprVarName (.access (.access (.var .context) "a") "b") ∧
    exprCapPath (.access (.var .context) "a.b") ≠ exprCapPath (.access (.access (.var .context) "a") "b") := by
  constructor <;> decide +kernel

/-- REGRESSION (was `C15_capability_collision_counterexample`: the `has` test on `context["a.b"]` licensed the access
    `context.a.b.x`, the policy was accepted and evaluation failed with a missing-ATTRIBUTE error): the policy is
    rejected in both modes, by the Go algorithm and in the proved domain, while the guarded access through the SAME path
    (dotted attribute name included) is accepted and — by `C15_condition_sound_partial` — evaluates without such an error. -/
example : condOK false (c15Γ true) c15Coll = .ok false ∧ condOK false (c15Γ false) c15Coll = .ok false ∧
    isErr .attr (eval c15Coll c15Env) = true ∧
    condOK false (c15Γ true) c15CollGood = .ok true ∧ condOK true (c15Γ true) c15CollGood = .ok true ∧
    condOK true (c15Γ false) c15CollGood = .ok true := by
  refine ⟨?_, ?_, ?_, ?_, ?_, ?_⟩ <;> decide +kernel

example : (∃ b, eval c15CollGood c15Env = .ok (.bool b)) ∨ (∃ k, eval c15CollGood c15Env = .error k ∧ Allowed k) :=
  C15_condition_sound_partial (c15Γ true) c15Env (c15Env_ok true) (c15Env_actions true) c15CollGood (by decide +kernel)

/-- `(if principal == principal … )`-free version: `(if context.n > 0 then {a: 1} else {a: "s"}) has a && !5` -/
def c15Lub : Expr :=
  .binop .and
    (.has (.ite (.binop .gt (.access (.var .context) "n") (.lit (.long 0))) (.record [("a", .lit (.long 1))]) (.record [("a", .lit (.str "s"))])) "a")
    (.unop .not (.lit (.long 5)))

/-- **Unsound (4), permissive mode**: the LUB of `{a: Long}` and `{a: String}` silently drops `a`, `… has a` is typed
    False, the right operand of `&&` is never type-checked, and evaluation fails with a TYPE error.  Strict mode rejects. -/
theorem C15_lub_drop_counterexample :
    EnvOK (c15Γ false) c15Env ∧ condOK false (c15Γ false) c15Lub = .ok true ∧ eval c15Lub c15Env = .error .type ∧
    condOK false (c15Γ true) c15Lub = .ok false :=
  ⟨c15Env_ok false, by decide +kernel, isErr_eq (by decide +kernel), by decide +kernel⟩

/-! ## Entities: a schema with attributes, tags, memberOf and an action group; a conforming store

  schema: `entity Group; entity User in [Group] {name: String, age?: Long, mgr?: User} tags Long;
           entity Doc {owner: User}; action grp; action view in [grp] appliesTo {principal: User, resource: Doc, context: {n: Long}}`
  store:  User::"a" (in Group::"g", name "n", age 30, no mgr, tag k = 1), Group::"g", Doc::"d" (owner User::"a"),
          Action::"view" (in Action::"grp"), Action::"grp";  User::"ghost" is ABSENT.
  request: principal User::"a", action Action::"view", resource Doc::"d", context {n: 3}. -/

def c15ΓE (strict : Bool) : TEnv where
  principalType := "User"
  action := ("Action", "view")
  resourceType := "Doc"
  context := [("n", .long, true)]
  entityTypes := ["User", "Group", "Doc"]
  actions := [("Action", "view"), ("Action", "grp")]
  strict := strict
  entityDecls := [("User", ⟨[("name", .string, true), ("age", .long, false), ("mgr", .entity ["User"], false)], some .long, ["Group"]⟩),
                  ("Group", ⟨[], none, []⟩),
                  ("Doc", ⟨[("owner", .entity ["User"], true)], none, []⟩)]
  actionParents := [(("Action", "view"), [("Action", "grp")]), (("Action", "grp"), [])]

def c15Ents : Entities :=
  [(("User", "a"), ⟨[("Group", "g")], [("age", .long 30), ("name", .str "n")], [("k", .long 1)]⟩),
   (("Group", "g"), ⟨[], [], []⟩),
   (("Doc", "d"), ⟨[], [("owner", .entity "User" "a")], []⟩)]

def c15ActionEnts : Entities :=
  [(("Action", "view"), ⟨[("Action", "grp")], [], []⟩), (("Action", "grp"), ⟨[], [], []⟩)]

def c15EnvE : Env where
  entities := c15Ents ++ c15ActionEnts
  principal := .entity "User" "a"
  action := .entity "Action" "view"
  resource := .entity "Doc" "d"
  context := .record [("n", .long 3)]

/-- the same request with a store that LACKS the action entities (`Validator.Entities` accepts it) -/
def c15EnvNoAct : Env := { c15EnvE with entities := c15Ents }

theorem c15ΓE_decl_user (strict : Bool) : declOf (c15ΓE strict) "User" =
    ⟨[("name", .string, true), ("age", .long, false), ("mgr", .entity ["User"], false)], some .long, ["Group"]⟩ := by
  simp [declOf, c15ΓE]
theorem c15ΓE_decl_group (strict : Bool) : declOf (c15ΓE strict) "Group" = ⟨[], none, []⟩ := by simp [declOf, c15ΓE, List.lookup]
theorem c15ΓE_decl_doc (strict : Bool) : declOf (c15ΓE strict) "Doc" = ⟨[("owner", .entity ["User"], true)], none, []⟩ := by
  simp [declOf, c15ΓE, List.lookup]
theorem c15ΓE_decl_action (strict : Bool) : declOf (c15ΓE strict) "Action" = ⟨[], none, []⟩ := by simp [declOf, c15ΓE, List.lookup]

/-- the three non-action entities conform to their declarations -/
theorem c15Ents_ok (strict : Bool) (uid : UID) (d : EntityData) (h : c15Ents.get uid = some d) : EntityOK (c15ΓE strict) uid d := by
  simp only [c15Ents, Entities.get] at h
  split at h
  · rename_i hk
    have := (beq_iff_eq.mp hk).symm; subst this
    simp only [Option.some.injEq] at h; subst h
    refine ⟨?_, ?_, ?_⟩
    · rw [c15ΓE_decl_user]
      -- name: String (required), age?: Long present, mgr?: User absent
      refine HasTy.record ?_ ?_ ?_
      · intro k v t req hkv hl
        simp only [kvGet] at hkv
        split at hkv
        · rename_i hk'; have : k = "age" := by simpa using hk'
          subst this; simp [lookupAttr] at hl; obtain ⟨rfl, _⟩ := hl
          simp only [Option.some.injEq] at hkv; subst hkv; exact HasTy.long _
        · split at hkv
          · rename_i _ hk'; have : k = "name" := by simpa using hk'
            subst this; simp [lookupAttr] at hl; obtain ⟨rfl, _⟩ := hl
            simp only [Option.some.injEq] at hkv; subst hkv; exact HasTy.str _
          · simp at hkv
      · intro k v hkv
        simp only [kvGet] at hkv
        split at hkv
        · rename_i hk'; have : k = "age" := by simpa using hk'
          subst this; simp [lookupAttr]
        · split at hkv
          · rename_i _ hk'; have : k = "name" := by simpa using hk'
            subst this; simp [lookupAttr]
          · simp at hkv
      · intro k t hl
        simp only [lookupAttr] at hl
        split at hl
        · rename_i hk'; have : k = "name" := by simpa using hk'
          subst this; simp [kvGet]
        · split at hl
          · simp at hl
          · split at hl
            · simp at hl
            · simp at hl
    · rw [c15ΓE_decl_user]
      intro k v hkv
      simp only [kvGet] at hkv
      split at hkv
      · simp only [Option.some.injEq] at hkv; subst hkv; exact ⟨.long, rfl, HasTy.long _⟩
      · simp at hkv
    · rw [c15ΓE_decl_user]
      intro p hp
      simp only [List.mem_cons, List.not_mem_nil, or_false] at hp
      subst hp; exact .inl ⟨by decide, by decide, by simp⟩
  · split at h
    · rename_i _ hk
      have := (beq_iff_eq.mp hk).symm; subst this
      simp only [Option.some.injEq] at h; subst h
      refine ⟨?_, ?_, ?_⟩
      · rw [c15ΓE_decl_group]; exact hasTy_record_nil
      · intro k v hkv; simp [kvGet] at hkv
      · intro p hp; cases hp
    · split at h
      · rename_i _ _ hk
        have := (beq_iff_eq.mp hk).symm; subst this
        simp only [Option.some.injEq] at h; subst h
        refine ⟨?_, ?_, ?_⟩
        · rw [c15ΓE_decl_doc]
          exact hasTy_record_cons (HasTy.entity (by simp) (by decide)) hasTy_record_nil
        · intro k v hkv; simp [kvGet] at hkv
        · intro p hp; cases hp
      · simp at h

theorem entities_get_append (a b : Entities) (u : UID) :
    (a ++ b).get u = match a.get u with | some d => some d | none => b.get u := by
  induction a with
  | nil => simp [Entities.get]
  | cons x xs ih =>
    obtain ⟨k, d⟩ := x
    simp only [List.cons_append, Entities.get]
    split
    · rfl
    · exact ih

/-- the action entities: no attributes, no tags, parents that are action entities -/
theorem c15ActionEnts_ok (strict : Bool) (uid : UID) (d : EntityData) (h : c15ActionEnts.get uid = some d) :
    EntityOK (c15ΓE strict) uid d := by
  simp only [c15ActionEnts, Entities.get] at h
  split at h
  · rename_i hk
    have := (beq_iff_eq.mp hk).symm; subst this
    simp only [Option.some.injEq] at h; subst h
    refine ⟨?_, ?_, ?_⟩
    · rw [c15ΓE_decl_action]; exact hasTy_record_nil
    · intro k v hkv; simp [kvGet] at hkv
    · intro p hp
      simp only [List.mem_cons, List.not_mem_nil, or_false] at hp
      subst hp; exact .inr ⟨by decide, by decide⟩
  · split at h
    · rename_i _ hk
      have := (beq_iff_eq.mp hk).symm; subst this
      simp only [Option.some.injEq] at h; subst h
      refine ⟨?_, ?_, ?_⟩
      · rw [c15ΓE_decl_action]; exact hasTy_record_nil
      · intro k v hkv; simp [kvGet] at hkv
      · intro p hp; cases hp
    · simp at h

theorem c15Ctx_ok : HasTy (.record [("n", .long 3)]) (.record [("n", .long, true)]) :=
  hasTy_record_cons (HasTy.long _) hasTy_record_nil

/-- request and store conform -/
theorem c15EnvE_ok (strict : Bool) : EnvOK (c15ΓE strict) c15EnvE := by
  refine ⟨⟨"a", rfl⟩, rfl, ⟨"d", rfl⟩, ⟨_, rfl, c15Ctx_ok⟩, by cases strict <;> decide, ?_⟩
  intro uid d h
  simp only [c15EnvE, entities_get_append] at h
  cases h1 : c15Ents.get uid with
  | some d1 => simp only [h1, Option.some.injEq] at h; subst h; exact c15Ents_ok strict uid d1 h1
  | none => simp only [h1] at h; exact c15ActionEnts_ok strict uid d h

/-- … also without the action entities -/
theorem c15EnvNoAct_ok (strict : Bool) : EnvOK (c15ΓE strict) c15EnvNoAct :=
  ⟨⟨"a", rfl⟩, rfl, ⟨"d", rfl⟩, ⟨_, rfl, c15Ctx_ok⟩, by cases strict <;> decide, fun uid d h => c15Ents_ok strict uid d h⟩

theorem c15ΓE_parents (strict : Bool) (u p : UID) (h : p ∈ actionParentsOf (c15ΓE strict) u) :
    u = ("Action", "view") ∧ p = ("Action", "grp") := by
  simp only [actionParentsOf, c15ΓE, List.lookup] at h
  split at h
  · rename_i ps hl
    split at hl
    · rename_i hk
      simp only [Option.some.injEq] at hl; subst hl
      simp only [List.mem_cons, List.not_mem_nil, or_false] at h
      exact ⟨beq_iff_eq.mp hk, h⟩
    · split at hl
      · simp only [Option.some.injEq] at hl; subst hl; cases h
      · simp at hl
  · cases h

/-- the store holds the schema's action entities with the schema's parents -/
theorem c15EnvE_actions (strict : Bool) : ActionsOK (c15ΓE strict) c15EnvE := by
  refine ⟨by simp [c15ΓE], ?_, ?_⟩
  · intro u p hp
    obtain ⟨rfl, rfl⟩ := c15ΓE_parents strict u p hp
    exact ⟨⟨[("Action", "grp")], [], []⟩, by simp [c15EnvE, c15Ents, c15ActionEnts, Entities.get], by simp⟩
  · intro u hu d hg p hp
    simp only [c15EnvE, entities_get_append] at hg
    have hu' : u = ("Action", "view") ∨ u = ("Action", "grp") := by simpa [c15ΓE] using hu
    rcases hu' with rfl | rfl
    · have : d = ⟨[("Action", "grp")], [], []⟩ := by
        have h0 : (c15Ents ++ c15ActionEnts).get ("Action", "view") = some ⟨[("Action", "grp")], [], []⟩ := by
          simp [c15Ents, c15ActionEnts, Entities.get]
        rw [entities_get_append] at h0; rw [h0] at hg; exact (Option.some.inj hg).symm
      subst this
      simp only [List.mem_cons, List.not_mem_nil, or_false] at hp; subst hp
      exact ⟨by simp [c15ΓE], Schema.Reaches.step (by simp [actionParentsOf, c15ΓE])⟩
    · have : d = ⟨[], [], []⟩ := by
        have h0 : (c15Ents ++ c15ActionEnts).get ("Action", "grp") = some ⟨[], [], []⟩ := by
          simp [c15Ents, c15ActionEnts, Entities.get]
        rw [entities_get_append] at h0; rw [h0] at hg; exact (Option.some.inj hg).symm
      subst this; cases hp

/-- `principal has age && principal.age > 18 && principal.hasTag("k") && principal.getTag("k") == 1
     && principal in Group::"g" && principal is User in Group::"g" && resource.owner.name like "n"
     && principal is User && action in Action::"grp" && !(principal in Doc::"d")
     && !(principal has mgr && principal.mgr.name == "x") && User::"ghost" has name == false` -/
def c15GoodE : Expr :=
  .binop .and (.has (.var .principal) "age")
  (.binop .and (.binop .gt (.access (.var .principal) "age") (.lit (.long 18)))
  (.binop .and (.binop .hasTag (.var .principal) (.lit (.str "k")))
  (.binop .and (.binop .eq (.binop .getTag (.var .principal) (.lit (.str "k"))) (.lit (.long 1)))
  (.binop .and (.binop .in_ (.var .principal) (.lit (.entity "Group" "g")))
  (.binop .and (.isIn (.var .principal) "User" (.lit (.entity "Group" "g")))
  (.binop .and (.like (.access (.access (.var .resource) "owner") "name") [⟨false, [110]⟩])
  (.binop .and (.is (.var .principal) "User")
  (.binop .and (.binop .in_ (.var .action) (.lit (.entity "Action" "grp")))
  (.binop .and (.unop .not (.binop .in_ (.var .principal) (.lit (.entity "Doc" "d"))))
  (.binop .and (.unop .not (.binop .and (.has (.var .principal) "mgr")
      (.binop .eq (.access (.access (.var .principal) "mgr") "name") (.lit (.str "x")))))
    (.binop .eq (.has (.lit (.entity "User" "ghost")) "name") (.lit (.bool false)))))))))))))

example : condOK true (c15ΓE true) c15GoodE = .ok true ∧ condOK true (c15ΓE false) c15GoodE = .ok true ∧
    condOK false (c15ΓE true) c15GoodE = .ok true := by
  refine ⟨?_, ?_, ?_⟩ <;> decide +kernel

/-- the soundness theorem applies to it (entity attributes, tags, `in`, `is`, `is in`, the folded action `in`) … -/
example : (∃ b, eval c15GoodE c15EnvE = .ok (.bool b)) ∨ (∃ k, eval c15GoodE c15EnvE = .error k ∧ Allowed k) :=
  C15_condition_sound_partial (c15ΓE true) c15EnvE (c15EnvE_ok true) (c15EnvE_actions true) c15GoodE (by decide +kernel)

/-- … and it evaluates to `true` on the conforming store -/
example : eval c15GoodE c15EnvE = .ok (.bool true) := by
  have h : (match eval c15GoodE c15EnvE with | .ok (.bool true) => true | _ => false) = true := by decide +kernel
  revert h
  cases eval c15GoodE c15EnvE with
  | error k => simp
  | ok v => cases v <;> simp; rename_i b; cases b <;> simp

/-- `principal.mgr.name`: the optional attribute `mgr` of an ENTITY needs a `has` guard — rejected without it and with a
    guard for another attribute; `getTag` without a `hasTag` guard is rejected -/
example : condOK false (c15ΓE true) (.binop .eq (.access (.access (.var .principal) "mgr") "name") (.lit (.str "x"))) = .ok false ∧
    condOK false (c15ΓE true) (.binop .and (.has (.var .principal) "age")
      (.binop .eq (.access (.access (.var .principal) "mgr") "name") (.lit (.str "x")))) = .ok false ∧
    condOK false (c15ΓE true) (.binop .eq (.binop .getTag (.var .principal) (.lit (.str "k"))) (.lit (.long 1))) = .ok false := by
  refine ⟨?_, ?_, ?_⟩ <;> decide +kernel

theorem lookup_none_of_not_mem {β : Type} (t : String) : ∀ (l : List (String × β)), t ∉ l.map (·.1) → l.lookup t = none
  | [], _ => rfl
  | (k, v) :: l, h => by
    simp only [List.map_cons, List.mem_cons, not_or] at h
    have hk : (t == k) = false := by simpa using h.1
    simp only [List.lookup, hk]
    exact lookup_none_of_not_mem t l h.2

/-- **The model's entity-hierarchy search always answers**: `isEntityDescendant` (depth-first search with a visited set,
    fuel = number of declared entity types + 1) never runs out of fuel, on cyclic `memberOf` declarations either
    (`Schema.descVisFuel_total`, C16) — so the static folding of `in` never makes the model answer `unsupported`. -/
theorem C15_isEntityDescendant_total (Γ : TEnv) (c a : String) : ∃ b, isEntityDescendant Γ c a = some b := by
  unfold isEntityDescendant
  have hU : ∀ t, t ∉ Γ.entityDecls.map (·.1) → entityParentsOf Γ t = [] := by
    intro t ht
    simp only [entityParentsOf, declOf, lookup_none_of_not_mem t _ ht]
  have hlt : Schema.visMissing (Γ.entityDecls.map (·.1)) [] < Γ.entityDecls.length + 1 := by
    unfold Schema.visMissing
    have := List.length_filter_le (fun x => !([] : List String).contains x) (Γ.entityDecls.map (·.1))
    simp only [List.length_map] at this
    omega
  obtain ⟨b, vis', h, _⟩ := Schema.descVisFuel_total (entityParentsOf Γ) (Γ.entityDecls.map (·.1)) hU a
    (Γ.entityDecls.length + 1) c [] hlt
  exact ⟨b, by rw [h]; rfl⟩

example : isEntityDescendant (c15ΓE true) "User" "Group" = some true ∧ isEntityDescendant (c15ΓE true) "Group" "User" = some false := by
  constructor <;> decide +kernel

/-- **In a conforming store, reachability between entities implies descendant-ness of their types**: if a NON-action
    entity `x` reaches `y` through parent links of entities PRESENT in the store, then `y` is not an action entity and
    the entity type of `x` equals that of `y` or reaches it through the schema's `memberOf` declarations; an ACTION entity
    reaches action entities only (of whatever action entity type).  What store conformance says for this is
    `EntityOK.parents`.  Together with `C03_entityInOne_correct` (`in` = reachability) this is what makes the static
    False of `typeOfIn` sound: it is answered only when no element of the left LUB equals or reaches an element of the
    right one and no element of the left and of the right LUB are both action entity types. -/
theorem C15_store_reach_type_descendant (Γ : TEnv) (env : Env) (hΓ : EnvOK Γ env) (x y : UID)
    (h : Reach env.entities x y) :
    (isActionEntity x.1 = true → isActionEntity y.1 = true) ∧
    (isActionEntity x.1 = false →
      isActionEntity y.1 = false ∧ (x.1 = y.1 ∨ Schema.Reaches (entityParentsOf Γ) x.1 y.1)) :=
  reach_types hΓ h

example : Reach c15EnvE.entities ("User", "a") ("Group", "g") :=
  (C03_entityInOne_correct _ _ _).mp (by decide +kernel)

/-- `if action in Action::"grp" then true else 1 + "a" == 2` -/
def c15ActIn : Expr :=
  .ite (.binop .in_ (.var .action) (.lit (.entity "Action" "grp"))) (.lit (.bool true))
    (.binop .eq (.binop .add (.lit (.long 1)) (.lit (.str "a"))) (.lit (.long 2)))

/-- **Unsound without the action hypothesis** (finding `action-entity-absent-from-store`): `action in Action::"grp"` is
    folded to True from the SCHEMA's action hierarchy, the else branch is never type-checked; on a store that conforms
    (`EnvOK`: `Validator.Entities` accepts it) but does not contain the action entities (`¬ ActionsOK`) the test
    evaluates to false and the else branch fails with a TYPE error.  Both modes, also inside the domain `dom = true`.
    With the action entities in the store the policy evaluates to true. -/
theorem C15_action_absent_counterexample :
    EnvOK (c15ΓE true) c15EnvNoAct ∧ ¬ ActionsOK (c15ΓE true) c15EnvNoAct ∧
    condOK true (c15ΓE true) c15ActIn = .ok true ∧ condOK true (c15ΓE false) c15ActIn = .ok true ∧
    condOK false (c15ΓE true) c15ActIn = .ok true ∧
    eval c15ActIn c15EnvNoAct = .error .type ∧ isErr .type (eval c15ActIn c15EnvE) = false := by
  refine ⟨c15EnvNoAct_ok true, ?_, by decide +kernel, by decide +kernel, by decide +kernel, isErr_eq (by decide +kernel), by decide +kernel⟩
  intro hA
  obtain ⟨d, hg, _⟩ := hA.present ("Action", "view") ("Action", "grp") (by simp [actionParentsOf, c15ΓE])
  have : c15EnvNoAct.entities.get ("Action", "view") = none := by decide +kernel
  rw [this] at hg; cases hg

/-- `if (if context.n > 0 then principal else resource).hasTag("k") then 1 + "a" == 2 else true` -/
def c15MixedTag : Expr :=
  .ite (.binop .hasTag (.ite (.binop .gt (.access (.var .context) "n") (.lit (.long 0))) (.var .principal) (.var .resource)) (.lit (.str "k")))
    (.binop .eq (.binop .add (.lit (.long 1)) (.lit (.str "a"))) (.lit (.long 2))) (.lit (.bool true))

/-- `(if context.n > 0 then principal else resource).hasTag("k")`: the test of `c15MixedTag` alone -/
def c15MixedTest : Expr :=
  .binop .hasTag (.ite (.binop .gt (.access (.var .context) "n") (.lit (.long 0))) (.var .principal) (.var .resource)) (.lit (.str "k"))

/-- `if (if context.n > 0 then principal else resource).hasTag("k") then context.n > 0 else true`: a well-typed then branch -/
def c15MixedTagGood : Expr :=
  .ite c15MixedTest (.binop .gt (.access (.var .context) "n") (.lit (.long 0))) (.lit (.bool true))

def isBoolExact : Ty → Bool | .bool => true | _ => false

/-- **(D7) is gone** (repair of `hastag-lub-mixed-tags`): `hasTag` on an operand whose type is an entity LUB is typed
    False exactly when NO element of the LUB declares tags (then it is false on every conforming store: `EntityOK.tags`);
    as soon as SOME element declares tags it is Bool.  Holds for the Go algorithm (`dom = false`) and inside the proved
    domain alike, in both modes.  (The unrepaired code answered False unless EVERY element declared tags.) -/
theorem C15_hasTag_false_iff_no_tags (dom : Bool) (Γ : TEnv) (l r : Expr) (caps lc rc : Caps) (tys : List String)
    (hl : typeOf dom Γ l caps = .ok (.entity tys, lc)) (hr : typeOf dom Γ r caps = .ok (.string, rc)) :
    ((∀ t ∈ tys, (declOf Γ t).tags = none) → typeOf dom Γ (.binop .hasTag l r) caps = .ok (.ff, caps)) ∧
    ((∃ t ∈ tys, (declOf Γ t).tags.isSome = true) → ∃ c', typeOf dom Γ (.binop .hasTag l r) caps = .ok (.bool, c')) := by
  constructor
  · intro hnone
    have : entityHasTags Γ tys = false := by
      simp only [entityHasTags, List.any_eq_false]
      intro t ht; rw [hnone t ht]; simp
    simp [typeOf, hl, hr, hasTagResult, this]
  · rintro ⟨t, ht, hs⟩
    have : entityHasTags Γ tys = true := by
      simp only [entityHasTags, List.any_eq_true]
      exact ⟨t, ht, hs⟩
    exact ⟨_, by simp only [typeOf, hl, hr, hasTagResult, this]; rfl⟩

/-- non-vacuity of `C15_hasTag_false_iff_no_tags`: the operand of `c15MixedTest` has the LUB `{Doc, User}` -/
example : acceptsAs (fun t => match t with | .entity ["Doc", "User"] => true | _ => false)
    (typeOf false (c15ΓE false) (.ite (.binop .gt (.access (.var .context) "n") (.lit (.long 0))) (.var .principal) (.var .resource)) []) = true := by
  decide +kernel

/-- REGRESSION (was `C15_hasTag_mixed_counterexample`, finding `hastag-lub-mixed-tags`: permissive mode typed `hasTag` on
    the LUB of `User` (tags) and `Doc` (no tags) False, the then branch `1 + "a" == 2` was never type-checked, the policy
    was accepted and failed with a TYPE error on a conforming request and store): the test is now Bool — for the Go
    algorithm and in the proved domain —, so the then branch IS type-checked and the policy is rejected; the evaluation
    error is unchanged, but the policy no longer validates.  Strict mode rejects the LUB of unrelated entity types as before. -/
example : EnvOK (c15ΓE false) c15EnvE ∧ ActionsOK (c15ΓE false) c15EnvE ∧
    condOK false (c15ΓE false) c15MixedTag = .ok false ∧ condOK true (c15ΓE false) c15MixedTag = .ok false ∧
    condOK false (c15ΓE true) c15MixedTag = .ok false ∧
    acceptsAs isBoolExact (typeOf false (c15ΓE false) c15MixedTest []) = true ∧
    acceptsAs isBoolExact (typeOf true (c15ΓE false) c15MixedTest []) = true ∧
    isErr .type (eval c15MixedTag c15EnvE) = true :=
  ⟨c15EnvE_ok false, c15EnvE_actions false, by decide +kernel, by decide +kernel, by decide +kernel, by decide +kernel,
   by decide +kernel, by decide +kernel⟩

/-- … while the same test guarding a well-typed branch is accepted (permissive mode, also in the proved domain), and the
    soundness theorem now applies to it: on the store where the `User` carries the tag it evaluates to a Boolean -/
example : condOK false (c15ΓE false) c15MixedTagGood = .ok true ∧ condOK true (c15ΓE false) c15MixedTagGood = .ok true := by
  constructor <;> decide +kernel

example : (∃ b, eval c15MixedTagGood c15EnvE = .ok (.bool b)) ∨ (∃ k, eval c15MixedTagGood c15EnvE = .error k ∧ Allowed k) :=
  C15_condition_sound_partial (c15ΓE false) c15EnvE (c15EnvE_ok false) (c15EnvE_actions false) c15MixedTagGood (by decide +kernel)

/-- schema with an action group in ANOTHER namespace: `action grp; namespace NS { action view in [Action::"grp"] appliesTo … }` -/
def c15ΓX (strict : Bool) : TEnv :=
  { c15ΓE strict with
    action := ("NS::Action", "view")
    actions := [("NS::Action", "view"), ("Action", "grp")]
    actionParents := [(("NS::Action", "view"), [("Action", "grp")]), (("Action", "grp"), [])] }

def c15EnvX : Env :=
  { c15EnvE with
    entities := c15Ents ++ [(("NS::Action", "view"), ⟨[("Action", "grp")], [], []⟩), (("Action", "grp"), ⟨[], [], []⟩)]
    action := .entity "NS::Action" "view" }

/-- `if (if context.n > 0 then action else action) in Action::"grp" then 1 + "a" == 2 else true` -/
def c15CrossNs : Expr :=
  .ite (.binop .in_ (.ite (.binop .gt (.access (.var .context) "n") (.lit (.long 0))) (.var .action) (.var .action))
      (.lit (.entity "Action" "grp")))
    (.binop .eq (.binop .add (.lit (.long 1)) (.lit (.str "a"))) (.lit (.long 2))) (.lit (.bool true))

/-- `(if context.n > 0 then action else action) in Action::"grp"`: the test of `c15CrossNs` alone -/
def c15CrossTest : Expr :=
  .binop .in_ (.ite (.binop .gt (.access (.var .context) "n") (.lit (.long 0))) (.var .action) (.var .action))
    (.lit (.entity "Action" "grp"))

/-- `if (if context.n > 0 then action else action) in Action::"grp" then context.n > 0 else false`: a well-typed then branch -/
def c15CrossNsGood : Expr :=
  .ite c15CrossTest (.binop .gt (.access (.var .context) "n") (.lit (.long 0))) (.lit (.bool false))

/-- **Two action entity types are never folded** (repair of `in-action-type-cross-namespace`): when the left LUB holds
    an action entity type and the right LUB holds an action entity type — the same or ANOTHER one (a group declared in
    another namespace) — `anyEntityDescendantOf` does not answer `false`, so `typeOfIn` does not fold the test to False
    from the entity-type hierarchy (in which action types have no `ParentTypes`). -/
theorem C15_action_types_never_folded (Γ : TEnv) (ls rs : List String) (lt rt : String) (hl : lt ∈ ls) (hr : rt ∈ rs)
    (hla : isActionEntity lt = true) (hra : isActionEntity rt = true) : anyEntityDescendantOf Γ ls rs ≠ some false :=
  fun h => (anyEntityDescendantOf_false h lt hl rt hr).2.1 ⟨hla, hra⟩

example : isActionEntity "NS::Action" = true ∧ isActionEntity "Action" = true ∧
    anyEntityDescendantOf (c15ΓX true) ["NS::Action"] ["Action"] = some true ∧
    anyEntityDescendantOf (c15ΓX true) ["NS::Action"] ["Group"] = some false ∧
    anyEntityDescendantOf (c15ΓX true) ["User"] ["Action"] = some false := by
  refine ⟨?_, ?_, ?_, ?_, ?_⟩ <;> decide +kernel

/-- the store of the cross-namespace example conforms: `NS::Action::"view"` has the parent `Action::"grp"`, an action
    entity of ANOTHER action entity type (`Validator.Entities` accepts it; `EntityOK.parents` used to exclude it) -/
theorem c15EnvX_ok (strict : Bool) : EnvOK (c15ΓX strict) c15EnvX := by
  refine ⟨⟨"a", rfl⟩, rfl, ⟨"d", rfl⟩, ⟨_, rfl, c15Ctx_ok⟩, by cases strict <;> decide +kernel, ?_⟩
  intro uid d h
  simp only [c15EnvX, entities_get_append] at h
  cases h1 : c15Ents.get uid with
  | some d1 =>
    simp only [h1, Option.some.injEq] at h; subst h
    have h0 := c15Ents_ok strict uid d1 h1
    exact ⟨h0.attrs, h0.tags, h0.parents⟩
  | none =>
    simp only [h1, Entities.get] at h
    split at h
    · rename_i hk
      have := (beq_iff_eq.mp hk).symm; subst this
      simp only [Option.some.injEq] at h; subst h
      refine ⟨?_, ?_, ?_⟩
      · exact hasTy_record_nil
      · intro k v hkv; simp [kvGet] at hkv
      · intro p hp
        simp only [List.mem_cons, List.not_mem_nil, or_false] at hp
        subst hp; exact .inr ⟨by decide +kernel, by decide +kernel⟩
    · split at h
      · rename_i _ hk
        have := (beq_iff_eq.mp hk).symm; subst this
        simp only [Option.some.injEq] at h; subst h
        refine ⟨?_, ?_, ?_⟩
        · exact hasTy_record_nil
        · intro k v hkv; simp [kvGet] at hkv
        · intro p hp; cases hp
      · simp at h

theorem c15ΓX_parents (strict : Bool) (u p : UID) (h : p ∈ actionParentsOf (c15ΓX strict) u) :
    u = ("NS::Action", "view") ∧ p = ("Action", "grp") := by
  simp only [actionParentsOf, c15ΓX, List.lookup] at h
  split at h
  · rename_i ps hl
    split at hl
    · rename_i hk
      simp only [Option.some.injEq] at hl; subst hl
      simp only [List.mem_cons, List.not_mem_nil, or_false] at h
      exact ⟨beq_iff_eq.mp hk, h⟩
    · split at hl
      · simp only [Option.some.injEq] at hl; subst hl; cases h
      · simp at hl
  · cases h

/-- … and holds the schema's action entities with the schema's parents -/
theorem c15EnvX_actions (strict : Bool) : ActionsOK (c15ΓX strict) c15EnvX := by
  have hview : c15EnvX.entities.get ("NS::Action", "view") = some ⟨[("Action", "grp")], [], []⟩ := by
    simp [c15EnvX, c15Ents, Entities.get]
  have hgrp : c15EnvX.entities.get ("Action", "grp") = some ⟨[], [], []⟩ := by
    simp [c15EnvX, c15Ents, Entities.get]
  refine ⟨by simp [c15ΓX], ?_, ?_⟩
  · intro u p hp
    obtain ⟨rfl, rfl⟩ := c15ΓX_parents strict u p hp
    exact ⟨_, hview, by simp⟩
  · intro u hu d hg p hp
    have hu' : u = ("NS::Action", "view") ∨ u = ("Action", "grp") := by simpa [c15ΓX] using hu
    rcases hu' with rfl | rfl
    · rw [hview] at hg
      have := (Option.some.inj hg).symm; subst this
      simp only [List.mem_cons, List.not_mem_nil, or_false] at hp; subst hp
      exact ⟨by simp [c15ΓX], Schema.Reaches.step (by simp [actionParentsOf, c15ΓX])⟩
    · rw [hgrp] at hg
      have := (Option.some.inj hg).symm; subst this
      cases hp

/-- REGRESSION (was `C15_action_cross_namespace_counterexample`, finding `in-action-type-cross-namespace`: the left
    operand of `in` has the action entity type `NS::Action` but is not syntactically `action`, the right operand is the
    group `Action::"grp"` of ANOTHER action entity type; `typeOfIn` consulted the entity-type hierarchy — in which action
    types have no `ParentTypes` — and folded the test to False; it is true on the store `Validator.Entities` accepts, and
    the then branch `1 + "a" == 2`, never type-checked, failed with a TYPE error; the store was outside `EnvOK`): the
    test is now Bool — Go algorithm and proved domain, both modes —, so the then branch IS type-checked and the policy is
    rejected; the store now satisfies the hypotheses of the soundness theorem. -/
example : EnvOK (c15ΓX true) c15EnvX ∧ ActionsOK (c15ΓX true) c15EnvX ∧
    condOK false (c15ΓX true) c15CrossNs = .ok false ∧ condOK false (c15ΓX false) c15CrossNs = .ok false ∧
    condOK true (c15ΓX true) c15CrossNs = .ok false ∧ condOK true (c15ΓX false) c15CrossNs = .ok false ∧
    acceptsAs isBoolExact (typeOf false (c15ΓX true) c15CrossTest []) = true ∧
    acceptsAs isBoolExact (typeOf true (c15ΓX false) c15CrossTest []) = true ∧
    isErr .type (eval c15CrossNs c15EnvX) = true :=
  ⟨c15EnvX_ok true, c15EnvX_actions true, by decide +kernel, by decide +kernel, by decide +kernel, by decide +kernel,
   by decide +kernel, by decide +kernel, by decide +kernel⟩

/-- … while the same test guarding a well-typed branch is accepted, the soundness theorem applies to it on the
    cross-namespace store, and it evaluates to `true` there (the membership test itself is true) -/
example : condOK false (c15ΓX true) c15CrossNsGood = .ok true ∧ condOK true (c15ΓX true) c15CrossNsGood = .ok true ∧
    condOK true (c15ΓX false) c15CrossNsGood = .ok true := by
  refine ⟨?_, ?_, ?_⟩ <;> decide +kernel

example : (∃ b, eval c15CrossNsGood c15EnvX = .ok (.bool b)) ∨ (∃ k, eval c15CrossNsGood c15EnvX = .error k ∧ Allowed k) :=
  C15_condition_sound_partial (c15ΓX true) c15EnvX (c15EnvX_ok true) (c15EnvX_actions true) c15CrossNsGood (by decide +kernel)

example : (match eval c15CrossNsGood c15EnvX with | .ok (.bool true) => true | _ => false) = true := by decide +kernel

/-- schema that DECLARES an entity type named `Action` and lists it under `memberOf`:
    `entity Action; entity User in [Group, Action] …; action grp in [NS::Action::"top"]; namespace NS { action top; action view appliesTo … }` -/
def c15ΓD (strict : Bool) : TEnv :=
  { c15ΓE strict with
    action := ("NS::Action", "view")
    entityTypes := ["User", "Group", "Doc", "Action"]
    actions := [("NS::Action", "view"), ("Action", "grp"), ("NS::Action", "top")]
    entityDecls := [("User", ⟨[("name", .string, true), ("age", .long, false), ("mgr", .entity ["User"], false)], some .long, ["Group", "Action"]⟩),
                    ("Group", ⟨[], none, []⟩),
                    ("Doc", ⟨[("owner", .entity ["User"], true)], none, []⟩),
                    ("Action", ⟨[], none, []⟩)]
    actionParents := [(("NS::Action", "view"), []), (("Action", "grp"), [("NS::Action", "top")]), (("NS::Action", "top"), [])] }

/-- `User::"a"` is a member of the action entity `Action::"grp"`, which is a member of `NS::Action::"top"` -/
def c15EnvD : Env :=
  { c15EnvE with
    entities := [(("User", "a"), ⟨[("Group", "g"), ("Action", "grp")], [("age", .long 30), ("name", .str "n")], [("k", .long 1)]⟩),
                 (("Group", "g"), ⟨[], [], []⟩),
                 (("Doc", "d"), ⟨[], [("owner", .entity "User" "a")], []⟩),
                 (("NS::Action", "view"), ⟨[], [], []⟩),
                 (("Action", "grp"), ⟨[("NS::Action", "top")], [], []⟩),
                 (("NS::Action", "top"), ⟨[], [], []⟩)]
    action := .entity "NS::Action" "view" }

/-- `if principal in NS::Action::"top" then 1 + "a" == 2 else true` -/
def c15DeclAct : Expr :=
  .ite (.binop .in_ (.var .principal) (.lit (.entity "NS::Action" "top")))
    (.binop .eq (.binop .add (.lit (.long 1)) (.lit (.str "a"))) (.lit (.long 2))) (.lit (.bool true))

/-- **Why `EntityOK.parents` asks the parents of a NON-action entity to be non-action entities** (residue of the
    cross-namespace finding, class `in-entity-below-declared-action-type`): cedar-go's schema resolver does not refuse
    the declaration of an entity type NAMED `Action` (Rust Cedar does), and such a type may be listed under `memberOf`.
    `Validator.Entities` then accepts a `User` below the action entity `Action::"grp"`, whose own parent
    `NS::Action::"top"` has ANOTHER action entity type; `principal in NS::Action::"top"` is folded to False from the
    entity-type hierarchy (`User` reaches `Action`, which has no `ParentTypes`; the left type is not an action type, so the
    repaired `anyEntityDescendantOf` does not help), evaluates to true, and the then branch, never type-checked, fails
    with a TYPE error.  Both modes, inside `dom = true`.  The store violates `EntityOK.parents`. -/
theorem C15_declared_action_type_counterexample :
    condOK true (c15ΓD true) c15DeclAct = .ok true ∧ condOK true (c15ΓD false) c15DeclAct = .ok true ∧
    condOK false (c15ΓD true) c15DeclAct = .ok true ∧
    eval c15DeclAct c15EnvD = .error .type ∧
    c15EnvD.principal = .entity (c15ΓD true).principalType "a" ∧
    ¬ EnvOK (c15ΓD true) c15EnvD := by
  have hg : c15EnvD.entities.get ("User", "a") =
      some ⟨[("Group", "g"), ("Action", "grp")], [("age", .long 30), ("name", .str "n")], [("k", .long 1)]⟩ := by
    simp [c15EnvD, Entities.get]
  refine ⟨by decide +kernel, by decide +kernel, by decide +kernel, isErr_eq (by decide +kernel), rfl, ?_⟩
  intro h
  rcases (h.store _ _ hg).parents ("Action", "grp") (by simp) with ⟨_, hp, _⟩ | ⟨hu, _⟩
  · exact absurd hp (by decide)
  · exact absurd hu (by decide)

/-! ## Non-vacuity: the hypotheses of the soundness theorem are met by a non-trivial expression -/

/-- `context has o && context.o + context.n > 0 || [1, 2].contains(context.n) && decimal("1.5").lessThan(decimal("2.0"))` -/
def c15Good : Expr :=
  .binop .or
    (.binop .and (.has (.var .context) "o")
      (.binop .gt (.binop .add (.access (.var .context) "o") (.access (.var .context) "n")) (.lit (.long 0))))
    (.binop .and (.binop .contains (.set [.lit (.long 1), .lit (.long 2)]) (.access (.var .context) "n"))
      (.call "lessThan" [.call "decimal" [.lit (.str "1.5")], .call "decimal" [.lit (.str "2.0")]]))

example : condOK true (c15Γ true) c15Good = .ok true ∧ condOK true (c15Γ false) c15Good = .ok true := by
  constructor <;> decide +kernel

example : (∃ b, eval c15Good c15Env = .ok (.bool b)) ∨ (∃ k, eval c15Good c15Env = .error k ∧ Allowed k) :=
  C15_condition_sound_partial (c15Γ true) c15Env (c15Env_ok true) (c15Env_actions true) c15Good (by decide +kernel)

end CedarGo
