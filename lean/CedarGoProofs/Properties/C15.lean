/-
  C15 — Validated policies cannot fail with type errors.   PARTIAL: proved on a fragment of the validator.

  Full statement (NOT a theorem of the unchanged code, see the counterexamples below):
    theorem C15_typeOf_sound : typeOf false Γ e caps = .ok (τ, caps') → EnvOK Γ env → CapsHold env caps →
        Sound env τ caps' (eval e env)

  What is proved (`C15_typeOf_sound_partial`): the statement for `typeOf true`, i.e. for the Go algorithm
  (`typeOf false`, transcribed from typechecker.go and tied to `validate.New(..).Policy` by the `validate`
  correspondence op) restricted to the domain `dom = true`.  `typeOf true` is `typeOf false` plus these extra rejections:
    (D4) permissive mode: the record LUB fails instead of silently dropping an attribute with incompatible types
         (`C15_lub_drop_counterexample`);
    (D5) extension constructors take a string literal also in permissive mode (non-literal arguments would need
         "the parsers only raise extension errors", not proved);
    (D6) `context == context` / `context != context` are not folded to True / False (would need reflexivity of
         `Value.beq` on arbitrary records, not proved).
  Three former domain restrictions are gone (repaired in cedar-go, `fix:` commits):
    (D2) attribute names in `has` / `.` had to contain no '.': capability keys were dotted renderings of access paths
         and collided otherwise (`context["a.b"] has x` licensed `context.a.b.x`).  Keys are now the access paths
         themselves, compared structurally — `C15_capability_paths_injective`; the theorem covers every attribute name
         and the old witness is a regression `example` below;
    (D1) `< <= > >=`: both sides must have the SAME comparable type — `C15_comparison_same_type` holds for
         `typeOf false` too (the unrepaired code only checked "each side comparable" and accepted
         `1 < datetime("2020-01-01")`; the old witness is a regression `example` below);
    (D3) unknown extension functions are rejected — `C15_unknown_function_rejected` (the unrepaired code accepted
         them with ZERO arguments and gave them no type; old witness `foo()` below).
  Constructs covered: Bool/Long/String/EntityUID literals; principal/action/resource/context with the schema-given
  entity types and context record type; `&& || ! if` with True/False singleton types, short-circuiting (dead branches are
  only checked for entity references) and capability propagation; `== !=` with same-variable, literal and
  disjoint-entity-type folding and the strict LUB test; `< <= > >=`; `+ - *`; unary minus; `has` and `.` on RECORD types with
  required/optional attributes and `has`-capabilities (incl. nested paths `context.a.b` and attribute names of any
  shape, `context["a.b"]`); set literals (LUB of element types,
  strict and permissive, incl. records); record literals (duplicate keys: last wins); `contains containsAll containsAny isEmpty`;
  `like`; all 22 extension functions (constructors on string literals).  Outside the model (`typeOf` answers
  `unsupported`, never `ok`): `has`/`.` on entity types, `in`, `is`, `is..in`, `getTag`, `hasTag`.
  Both validation modes (Γ.strict arbitrary).  Conclusion (`Sound`): evaluation yields a value of the computed type —
  and if that value is `true` the output capabilities hold — or fails with overflow / absent entity / an extension error;
  never with a type, arity, unknown-function, missing-attribute or missing-tag error.
-/
import CedarGoProofs.Lemmas.C15
namespace CedarGo
open CedarGo.Validate

mutual
/-- **Soundness of the validator's type checker on its proved domain** (see the file header). -/
theorem C15_typeOf_sound_partial (Γ : TEnv) (env : Env) (hΓ : EnvOK Γ env) :
    ∀ (e : Expr) (caps : Caps) (τ : Ty) (caps' : Caps), CapsHold env caps →
      typeOf true Γ e caps = .ok (τ, caps') → Sound env τ caps' (eval e env)
  | .lit v, _, _, _, hc, h => sound_lit hc h
  | .var x, _, _, _, hc, h => sound_var hΓ hc h
  | .unop .not e, caps, _, _, hc, h => sound_not (fun τ c' h' => C15_typeOf_sound_partial Γ env hΓ e caps τ c' hc h') hc h
  | .unop .neg e, caps, _, _, hc, h => sound_neg (fun τ c' h' => C15_typeOf_sound_partial Γ env hΓ e caps τ c' hc h') hc h
  | .unop .isEmpty e, caps, _, _, hc, h => sound_isEmpty (fun τ c' h' => C15_typeOf_sound_partial Γ env hΓ e caps τ c' hc h') hc h
  | .like e p, caps, _, _, hc, h => sound_like (fun τ c' h' => C15_typeOf_sound_partial Γ env hΓ e caps τ c' hc h') hc h
  | .binop .and l r, _, _, _, hc, h => sound_and (C15_typeOf_sound_partial Γ env hΓ l) (C15_typeOf_sound_partial Γ env hΓ r) hc h
  | .binop .or l r, _, _, _, hc, h => sound_or (C15_typeOf_sound_partial Γ env hΓ l) (C15_typeOf_sound_partial Γ env hΓ r) hc h
  | .ite c t e, _, _, _, hc, h =>
    sound_ite (C15_typeOf_sound_partial Γ env hΓ c) (C15_typeOf_sound_partial Γ env hΓ t) (C15_typeOf_sound_partial Γ env hΓ e) hc h
  | .binop .eq l r, _, _, _, hc, h =>
    sound_eq (neg := false) hΓ (C15_typeOf_sound_partial Γ env hΓ l) (C15_typeOf_sound_partial Γ env hΓ r) hc h
  | .binop .ne l r, _, _, _, hc, h =>
    sound_eq (neg := true) hΓ (C15_typeOf_sound_partial Γ env hΓ l) (C15_typeOf_sound_partial Γ env hΓ r) hc h
  | .binop .lt l r, _, _, _, hc, h => sound_cmp (.inl rfl) (C15_typeOf_sound_partial Γ env hΓ l) (C15_typeOf_sound_partial Γ env hΓ r) hc h
  | .binop .le l r, _, _, _, hc, h => sound_cmp (.inr (.inl rfl)) (C15_typeOf_sound_partial Γ env hΓ l) (C15_typeOf_sound_partial Γ env hΓ r) hc h
  | .binop .gt l r, _, _, _, hc, h => sound_cmp (.inr (.inr (.inl rfl))) (C15_typeOf_sound_partial Γ env hΓ l) (C15_typeOf_sound_partial Γ env hΓ r) hc h
  | .binop .ge l r, _, _, _, hc, h => sound_cmp (.inr (.inr (.inr rfl))) (C15_typeOf_sound_partial Γ env hΓ l) (C15_typeOf_sound_partial Γ env hΓ r) hc h
  | .binop .add l r, _, _, _, hc, h => sound_arith (.inl rfl) (C15_typeOf_sound_partial Γ env hΓ l) (C15_typeOf_sound_partial Γ env hΓ r) hc h
  | .binop .sub l r, _, _, _, hc, h => sound_arith (.inr (.inl rfl)) (C15_typeOf_sound_partial Γ env hΓ l) (C15_typeOf_sound_partial Γ env hΓ r) hc h
  | .binop .mul l r, _, _, _, hc, h => sound_arith (.inr (.inr rfl)) (C15_typeOf_sound_partial Γ env hΓ l) (C15_typeOf_sound_partial Γ env hΓ r) hc h
  | .binop .contains l r, _, _, _, hc, h => sound_contains (C15_typeOf_sound_partial Γ env hΓ l) (C15_typeOf_sound_partial Γ env hΓ r) hc h
  | .binop .containsAll l r, _, _, _, hc, h => sound_containsAA (.inl rfl) (C15_typeOf_sound_partial Γ env hΓ l) (C15_typeOf_sound_partial Γ env hΓ r) hc h
  | .binop .containsAny l r, _, _, _, hc, h => sound_containsAA (.inr rfl) (C15_typeOf_sound_partial Γ env hΓ l) (C15_typeOf_sound_partial Γ env hΓ r) hc h
  | .has e a, _, _, _, hc, h => sound_has (C15_typeOf_sound_partial Γ env hΓ e) hc h
  | .access e a, _, _, _, hc, h => sound_access (C15_typeOf_sound_partial Γ env hΓ e) hc h
  | .set es, _, _, _, hc, h => sound_set (allIH_mem (C15_sound_list Γ env hΓ es)) hc h
  | .record kes, _, _, _, hc, h => sound_record (allIHKV_mem (C15_sound_kvs Γ env hΓ kes)) hc h
  | .call fn args, _, _, _, hc, h => sound_call (allIH_mem (C15_sound_list Γ env hΓ args)) hc h
  -- outside the model: `typeOf` never answers `ok`
  | .binop .in_ _ _, _, _, _, _, h => by simp [typeOf] at h
  | .binop .getTag _ _, _, _, _, _, h => by simp [typeOf] at h
  | .binop .hasTag _ _, _, _, _, _, h => by simp [typeOf] at h
  | .is _ _, _, _, _, _, h => by simp [typeOf] at h
  | .isIn _ _ _, _, _, _, _, h => by simp [typeOf] at h
/-- the same for every element of a set literal / argument list -/
theorem C15_sound_list (Γ : TEnv) (env : Env) (hΓ : EnvOK Γ env) : ∀ (es : List Expr), AllIH Γ env es
  | [] => trivial
  | e :: es => ⟨C15_typeOf_sound_partial Γ env hΓ e, C15_sound_list Γ env hΓ es⟩
/-- … and for every entry of a record literal -/
theorem C15_sound_kvs (Γ : TEnv) (env : Env) (hΓ : EnvOK Γ env) : ∀ (kes : List (String × Expr)), AllIHKV Γ env kes
  | [] => trivial
  | (_, e) :: kes => ⟨C15_typeOf_sound_partial Γ env hΓ e, C15_sound_kvs Γ env hΓ kes⟩
end


/-- **The proved domain lies inside what the Go algorithm accepts**: whatever the domain-restricted checker accepts,
    the transcription of the Go type checker (`typeOf false`, the function the `validate` correspondence ties to
    `validate.New(..).Policy`) accepts with the SAME type and the SAME capabilities.  Together with
    `C15_typeOf_sound_partial`: the Go checker is sound on every expression of the fragment that passes (D1)–(D6). -/
theorem C15_dom_accept_is_go_accept (Γ : TEnv) (e : Expr) (caps : Caps) (res : Ty × Caps)
    (h : typeOf true Γ e caps = .ok res) : typeOf false Γ e caps = .ok res :=
  typeOf_dom_go Γ e caps res h

/-- Corollary at the level `typecheckConditions` works at: a condition body the (domain-restricted) checker accepts in
    environment Γ evaluates, on every request/store that conforms to Γ, to a Boolean or fails with an allowed error. -/
theorem C15_condition_sound_partial (Γ : TEnv) (env : Env) (hΓ : EnvOK Γ env) (body : Expr)
    (h : condOK true Γ body = .ok true) :
    (∃ b, eval body env = .ok (.bool b)) ∨ (∃ k, eval body env = .error k ∧ Allowed k) := by
  unfold condOK at h
  split at h
  · simp at h
  · simp at h
  · rename_i t c ht
    have hs := (C15_typeOf_sound_partial Γ env hΓ body [] t c (capsHold_nil env) ht).2
    simp only [Except.ok.injEq, Bool.or_eq_true] at h
    cases hr : eval body env with
    | error k => rw [hr] at hs; exact .inr ⟨k, rfl, hs⟩
    | ok v =>
      rw [hr] at hs
      rcases h with h | h
      · cases hs.1 <;> simp [Ty.isNil] at h
      · obtain ⟨b, rfl⟩ := hasTy_boolish h hs.1
        exact .inl ⟨b, rfl⟩

/-! ## Concrete environment for the counterexamples and the non-vacuity examples

  schema: `entity User; entity Doc; action view appliesTo {principal: User, resource: Doc,
           context: {n: Long, o?: Long, "a.b": {x?: Long}, a: {b: {x?: Long}}}}`
  request: principal User::"a", resource Doc::"d", context `{n: 3, "a.b": {x: 1}, a: {b: {}}}` (o absent). -/

def c15Γ (strict : Bool) : TEnv where
  principalType := "User"
  action := ("Action", "view")
  resourceType := "Doc"
  context := [("n", .long, true), ("o", .long, false), ("a.b", .record [("x", .long, false)], true),
              ("a", .record [("b", .record [("x", .long, false)], true)], true)]
  entityTypes := ["User", "Doc"]
  actions := [("Action", "view")]
  strict := strict

def c15Env : Env where
  entities := []
  principal := .entity "User" "a"
  action := .entity "Action" "view"
  resource := .entity "Doc" "d"
  context := .record [("n", .long 3), ("a.b", .record [("x", .long 1)]), ("a", .record [("b", .record [])])]

/-- the request conforms to the environment -/
theorem c15Env_ok (strict : Bool) : EnvOK (c15Γ strict) c15Env := by
  refine ⟨⟨"a", rfl⟩, ⟨"view", rfl⟩, ⟨"d", rfl⟩, ⟨_, rfl, ?_⟩⟩
  refine hasTy_record_cons (HasTy.long _) (hasTy_record_skip ?_ (by decide))
  refine hasTy_record_cons ?_ (hasTy_record_cons ?_ hasTy_record_nil)
  · exact hasTy_record_cons (HasTy.long _) hasTy_record_nil
  · exact hasTy_record_cons (hasTy_record_skip hasTy_record_nil (by decide)) hasTy_record_nil

instance c15DecEqCondRes : DecidableEq (Except TErr Bool)
  | .ok a, .ok b => if h : a = b then isTrue (by rw [h]) else isFalse (by intro h'; cases h'; exact h rfl)
  | .error a, .error b => if h : a = b then isTrue (by rw [h]) else isFalse (by intro h'; cases h'; exact h rfl)
  | .ok _, .error _ => isFalse (by intro h; cases h)
  | .error _, .ok _ => isFalse (by intro h; cases h)

def isErr (k : Err) : Res → Bool | .error k' => k == k' | _ => false
theorem isErr_eq {k : Err} {r : Res} (h : isErr k r = true) : r = .error k := by
  cases r with
  | ok v => simp [isErr] at h
  | error k' => simp only [isErr, beq_iff_eq] at h; rw [h]
def acceptsAs (t : Ty → Bool) : TRes → Bool | .ok (ty, _) => t ty | _ => false
theorem acceptsAs_eq {t : Ty → Bool} {r : TRes} (h : acceptsAs t r = true) : ∃ ty c, r = .ok (ty, c) ∧ t ty = true := by
  match r, h with
  | .ok (ty, c), h => exact ⟨ty, c, rfl, h⟩

/-- **(D1) is a fact of the algorithm**: whenever the type checker — the Go algorithm `dom = false` as well as the
    domain-restricted one — accepts a comparison `l < r` (`<=`, `>`, `>=`), both operands were accepted and have the SAME
    comparable type (Long/Long, datetime/datetime or duration/duration); the result is Bool with unchanged capabilities. -/
theorem C15_comparison_same_type (dom : Bool) (Γ : TEnv) (op : BinOp) (hop : op = .lt ∨ op = .le ∨ op = .gt ∨ op = .ge)
    (l r : Expr) (caps : Caps) (res : Ty × Caps) (h : typeOf dom Γ (.binop op l r) caps = .ok res) :
    ∃ lt lc rt rc, typeOf dom Γ l caps = .ok (lt, lc) ∧ typeOf dom Γ r caps = .ok (rt, rc) ∧
      sameComparable lt rt = true ∧ res = (.bool, caps) := by
  rcases hop with rfl | rfl | rfl | rfl <;> simp only [typeOf, cmpResult] at h
  all_goals
    split at h
    · simp at h
    · rename_i lt lc hl
      split at h
      · simp at h
      · rename_i rt rc hr
        split at h
        · rename_i hsame
          simp only [Except.ok.injEq] at h
          exact ⟨lt, lc, rt, rc, hl, hr, hsame, h.symm⟩
        · simp at h

/-- **(D3) is a fact of the algorithm**: a call of a function that is not one of the 22 extension functions of
    `extFuncTypes` is rejected, whatever its arguments (zero arguments included), in both modes. -/
theorem C15_unknown_function_rejected (dom : Bool) (Γ : TEnv) (fn : String) (args : List Expr) (caps : Caps)
    (h : extFuncSig fn = none) : typeOf dom Γ (.call fn args) caps = .error .reject := by
  simp only [typeOf, h]

/-- `1 < datetime("2020-01-01")` -/
def c15Cmp : Expr := .binop .lt (.lit (.long 1)) (.call "datetime" [.lit (.str "2020-01-01")])

/-- `context.n >= duration("1h")` -/
def c15Cmp2 : Expr := .binop .ge (.access (.var .context) "n") (.call "duration" [.lit (.str "1h")])

/-- `context.n < 5` and `datetime("2020-01-01") <= datetime("2021-01-01")`: same comparable type on both sides -/
def c15CmpGood : Expr :=
  .binop .and (.binop .lt (.access (.var .context) "n") (.lit (.long 5)))
    (.binop .le (.call "datetime" [.lit (.str "2020-01-01")]) (.call "datetime" [.lit (.str "2021-01-01")]))

/-- REGRESSION (was `C15_comparison_counterexample`: accepted as Bool, evaluation fails with a TYPE error on a conforming
    request): the Go algorithm now rejects the comparison of a Long with a datetime / duration, in strict and
    permissive mode — the evaluation error is unchanged, but the policy no longer validates. -/
example : condOK false (c15Γ true) c15Cmp = .ok false ∧ condOK false (c15Γ false) c15Cmp = .ok false ∧
    condOK false (c15Γ true) c15Cmp2 = .ok false ∧ condOK false (c15Γ false) c15Cmp2 = .ok false ∧
    isErr .type (eval c15Cmp c15Env) = true := by
  refine ⟨?_, ?_, ?_, ?_, ?_⟩ <;> decide +kernel

/-- … and comparisons between two operands of the same comparable type are still accepted -/
example : condOK false (c15Γ true) c15CmpGood = .ok true ∧ condOK false (c15Γ false) c15CmpGood = .ok true := by
  constructor <;> decide +kernel

/-- non-vacuity of `C15_comparison_same_type` -/
example : ∃ res, typeOf false (c15Γ true) (.binop .lt (.access (.var .context) "n") (.lit (.long 5))) [] = .ok res := by
  have h : acceptsAs (fun _ => true) (typeOf false (c15Γ true) (.binop .lt (.access (.var .context) "n") (.lit (.long 5))) []) = true := by
    decide +kernel
  obtain ⟨ty, c, hr, _⟩ := acceptsAs_eq h
  exact ⟨_, hr⟩

/-- `foo()`: a call of an unknown function with no arguments -/
def c15Foo : Expr := .call "foo" []

/-- REGRESSION (was `C15_unknown_function_counterexample`: `when { foo() }` accepted, evaluation fails with an
    unknown-function error): `foo()`, `foo() == 1` and `foo(1)` are rejected in both modes. -/
example : condOK false (c15Γ true) c15Foo = .ok false ∧ condOK false (c15Γ false) c15Foo = .ok false ∧
    condOK false (c15Γ true) (.binop .eq c15Foo (.lit (.long 1))) = .ok false ∧
    condOK false (c15Γ false) (.call "foo" [.lit (.long 1)]) = .ok false ∧
    isErr .unknownFn (eval c15Foo c15Env) = true := by
  refine ⟨?_, ?_, ?_, ?_, ?_⟩ <;> decide +kernel

/-- non-vacuity of `C15_unknown_function_rejected` -/
example : extFuncSig "foo" = none := by decide +kernel

/-- `context["a.b"] has x && context.a.b.x > 0` -/
def c15Coll : Expr :=
  .binop .and (.has (.access (.var .context) "a.b") "x")
    (.binop .gt (.access (.access (.access (.var .context) "a") "b") "x") (.lit (.long 0)))

/-- `context["a.b"] has x && context["a.b"].x > 0` -/
def c15CollGood : Expr :=
  .binop .and (.has (.access (.var .context) "a.b") "x")
    (.binop .gt (.access (.access (.var .context) "a.b") "x") (.lit (.long 0)))

/-- **(D2) is gone**: capability keys are injective — two expressions with the same non-empty capability path are the
    same variable-rooted access chain.  (The dotted rendering `exprVarName` the unrepaired code used as key is not:
    see the `example` below.) -/
theorem C15_capability_paths_injective (e e' : Expr) (h : exprCapPath e = exprCapPath e') (hne : exprCapPath e ≠ []) :
    e = e' :=
  exprCapPath_inj e e' h hne

example : exprCapPath (.access (.var .context) "a.b") ≠ [] := by decide +kernel

/-- the two access paths of the old counterexample render to the same STRING but are different capability paths -/
example : exprVarName (.access (.var .context) "a.b") = exprVarName (.access (.access (.var .context) "a") "b") ∧
    exprCapPath (.access (.var .context) "a.b") ≠ exprCapPath (.access (.access (.var .context) "a") "b") := by
  constructor <;> decide +kernel

/-- REGRESSION (was `C15_capability_collision_counterexample`: the `has` test on `context["a.b"]` licensed the access
    `context.a.b.x`, the policy was accepted and evaluation failed with a missing-ATTRIBUTE error): the policy is
    rejected in both modes, by the Go algorithm and in the proved domain, while the guarded access through the SAME path
    (dotted attribute name included) is accepted and — by `C15_condition_sound_partial` — evaluates without such an error. -/
example : condOK false (c15Γ true) c15Coll = .ok false ∧ condOK false (c15Γ false) c15Coll = .ok false ∧
    isErr .attr (eval c15Coll c15Env) = true ∧
    condOK false (c15Γ true) c15CollGood = .ok true ∧ condOK true (c15Γ true) c15CollGood = .ok true ∧
    condOK true (c15Γ false) c15CollGood = .ok true := by
  refine ⟨?_, ?_, ?_, ?_, ?_, ?_⟩ <;> decide +kernel

example : (∃ b, eval c15CollGood c15Env = .ok (.bool b)) ∨ (∃ k, eval c15CollGood c15Env = .error k ∧ Allowed k) :=
  C15_condition_sound_partial (c15Γ true) c15Env (c15Env_ok true) c15CollGood (by decide +kernel)

/-- `(if principal == principal … )`-free version: `(if context.n > 0 then {a: 1} else {a: "s"}) has a && !5` -/
def c15Lub : Expr :=
  .binop .and
    (.has (.ite (.binop .gt (.access (.var .context) "n") (.lit (.long 0))) (.record [("a", .lit (.long 1))]) (.record [("a", .lit (.str "s"))])) "a")
    (.unop .not (.lit (.long 5)))

/-- **Unsound (4), permissive mode**: the LUB of `{a: Long}` and `{a: String}` silently drops `a`, `… has a` is typed
    False, the right operand of `&&` is never type-checked, and evaluation fails with a TYPE error.  Strict mode rejects. -/
theorem C15_lub_drop_counterexample :
    EnvOK (c15Γ false) c15Env ∧ condOK false (c15Γ false) c15Lub = .ok true ∧ eval c15Lub c15Env = .error .type ∧
    condOK false (c15Γ true) c15Lub = .ok false :=
  ⟨c15Env_ok false, by decide +kernel, isErr_eq (by decide +kernel), by decide +kernel⟩

/-! ## Non-vacuity: the hypotheses of the soundness theorem are met by a non-trivial expression -/

/-- `context has o && context.o + context.n > 0 || [1, 2].contains(context.n) && decimal("1.5").lessThan(decimal("2.0"))` -/
def c15Good : Expr :=
  .binop .or
    (.binop .and (.has (.var .context) "o")
      (.binop .gt (.binop .add (.access (.var .context) "o") (.access (.var .context) "n")) (.lit (.long 0))))
    (.binop .and (.binop .contains (.set [.lit (.long 1), .lit (.long 2)]) (.access (.var .context) "n"))
      (.call "lessThan" [.call "decimal" [.lit (.str "1.5")], .call "decimal" [.lit (.str "2.0")]]))

example : condOK true (c15Γ true) c15Good = .ok true ∧ condOK true (c15Γ false) c15Good = .ok true := by
  constructor <;> decide +kernel

example : (∃ b, eval c15Good c15Env = .ok (.bool b)) ∨ (∃ k, eval c15Good c15Env = .error k ∧ Allowed k) :=
  C15_condition_sound_partial (c15Γ true) c15Env (c15Env_ok true) c15Good (by decide +kernel)

end CedarGo
