/-
  C20 — Policy containers behave as an id-keyed map over any history of operations.
  Model: `PS` = association list (policy_set.go keeps a Go map).  Spec: a function `PolicyID → Option Policy`.
-/
import CedarGo.Model.PolicySet
import CedarGoProofs.Properties.C02
namespace CedarGo

def PS.NoDup (s : PS) : Prop := (s.map (·.1)).Nodup

/-- the abstraction: a policy set IS the lookup function -/
def PS.abs (s : PS) : PolicyID → Option Policy := s.get

theorem PS.get_none_iff (s : PS) (id : PolicyID) : s.get id = none ↔ id ∉ s.map (·.1) := by
  induction s with
  | nil => simp [PS.get]
  | cons kp rest ih =>
    obtain ⟨k, p⟩ := kp
    simp only [PS.get, List.map_cons, List.mem_cons, not_or]
    by_cases h : k = id
    · simp [h]
    · have : (k == id) = false := by simpa using h
      simp [this, ih, Ne.symm h]

theorem PS.get_append_new (s : PS) (id j : PolicyID) (p : Policy) (h : s.get id = none) :
    PS.get (s ++ [(id, p)]) j = if j = id then some p else s.get j := by
  induction s with
  | nil => simp [PS.get]; by_cases hj : id = j <;> simp [hj, eq_comm]
  | cons kp rest ih =>
    obtain ⟨k, q⟩ := kp
    simp only [PS.get] at h
    by_cases hk : k = id
    · simp [hk] at h
    · have hk' : (k == id) = false := by simpa using hk
      simp only [hk', Bool.false_eq_true, if_false] at h
      simp only [List.cons_append, PS.get]
      by_cases hkj : k = j
      · subst hkj; simp [hk]
      · have : (k == j) = false := by simpa using hkj
        simp [this, ih h]

theorem PS.get_replace (s : PS) (id j : PolicyID) (p : Policy) (h : (s.get id).isSome) :
    PS.get (s.map (fun kp => if kp.1 == id then (id, p) else kp)) j = if j = id then some p else s.get j := by
  induction s with
  | nil => simp [PS.get] at h
  | cons kp rest ih =>
    obtain ⟨k, q⟩ := kp
    simp only [List.map_cons]
    by_cases hk : k = id
    · subst hk
      simp only [beq_self_eq_true, if_true, PS.get]
      by_cases hj : k = j
      · simp [hj]
      · have : (k == j) = false := by simpa using hj
        simp only [this, Bool.false_eq_true, if_false, Ne.symm hj]
        -- the rest of the list: replacing there does not matter for j ≠ id
        clear ih h
        induction rest with
        | nil => simp [PS.get]
        | cons kp' rest' ih' =>
          obtain ⟨k', q'⟩ := kp'
          simp only [List.map_cons, PS.get]
          simp only [beq_iff_eq] at ih' ⊢
          by_cases hk' : k' = k
          · subst hk'; simp [hj, ih']
          · simp [hk', ih']
    · have hk' : (k == id) = false := by simpa using hk
      simp only [PS.get, hk', Bool.false_eq_true, if_false] at h ⊢
      have ih1 := ih h
      simp only [beq_iff_eq] at ih1 ⊢
      by_cases hkj : k = j
      · subst hkj; simp [hk]
      · simp [hkj, ih1]

theorem PS.map_replace_keys (s : PS) (id : PolicyID) (p : Policy) :
    (s.map (fun kp => if kp.1 == id then (id, p) else kp)).map (·.1) = s.map (·.1) := by
  induction s with
  | nil => rfl
  | cons kp rest ih =>
    simp only [List.map_cons, ih]
    by_cases h : kp.1 = id
    · simp [h]
    · have : (kp.1 == id) = false := by simpa using h
      simp [this]

/-- `Add` behaves as map update and reports whether the id was new; the invariant is kept. -/
theorem C20_add_refines (s : PS) (id : PolicyID) (p : Policy) (hs : s.NoDup) :
    (s.add id p).1.NoDup ∧ (∀ j, (s.add id p).1.abs j = if j = id then some p else s.abs j) ∧
    (s.add id p).2 = (s.abs id).isNone := by
  unfold PS.add PS.abs
  cases h : s.get id with
  | none =>
    simp only [Option.isSome_none, Bool.false_eq_true, if_false, Option.isNone_none]
    refine ⟨?_, fun j => PS.get_append_new s id j p h, trivial⟩
    unfold PS.NoDup at *
    simp only [List.map_append, List.map_cons, List.map_nil]
    rw [List.nodup_append]
    exact ⟨hs, by simp, by intro a ha b hb; simp at hb; subst hb; intro hab; subst hab; exact (PS.get_none_iff s a).mp h ha⟩
  | some q =>
    simp only [Option.isSome_some, if_true, Option.isNone_some]
    refine ⟨?_, fun j => PS.get_replace s id j p (by simp [h]), trivial⟩
    unfold PS.NoDup at *
    rw [PS.map_replace_keys]; exact hs

theorem PS.get_filter_ne (s : PS) (id j : PolicyID) :
    PS.get (s.filter (fun kp => kp.1 != id)) j = if j = id then none else s.get j := by
  induction s with
  | nil => simp [PS.get]
  | cons kp rest ih =>
    obtain ⟨k, q⟩ := kp
    simp only [List.filter_cons]
    by_cases hk : k = id
    · subst hk
      simp only [bne_self_eq_false, Bool.false_eq_true, if_false, ih, PS.get]
      by_cases hj : j = k
      · simp [hj]
      · have : (k == j) = false := by simpa using Ne.symm hj
        simp [hj, this]
    · have hk' : (k != id) = true := by simpa using hk
      simp only [hk', if_true, PS.get, ih]
      by_cases hkj : k = j
      · subst hkj; simp [hk]
      · have : (k == j) = false := by simpa using hkj
        simp [this]

/-- `Remove` behaves as map deletion and reports whether the id existed. -/
theorem C20_remove_refines (s : PS) (id : PolicyID) (hs : s.NoDup) :
    (s.remove id).1.NoDup ∧ (∀ j, (s.remove id).1.abs j = if j = id then none else s.abs j) ∧
    (s.remove id).2 = (s.abs id).isSome := by
  unfold PS.remove PS.abs
  refine ⟨?_, fun j => PS.get_filter_ne s id j, rfl⟩
  unfold PS.NoDup at *
  exact (List.Nodup.sublist (List.Sublist.map _ List.filter_sublist) hs)

/-! ### Marshal order -/

theorem mem_insertId (x y : PolicyID) (l : List PolicyID) : y ∈ insertId x l ↔ y = x ∨ y ∈ l := by
  induction l with
  | nil => simp [insertId]
  | cons z zs ih =>
    simp only [insertId]; split
    · simp
    · simp only [List.mem_cons, ih]; constructor <;> (intro h; rcases h with h | h | h <;> simp [h])

theorem mem_sortIds (y : PolicyID) (l : List PolicyID) : y ∈ sortIds l ↔ y ∈ l := by
  induction l with
  | nil => simp [sortIds]
  | cons x xs ih => simp [sortIds, mem_insertId, ih]

theorem sorted_insertId (x : PolicyID) (l : List PolicyID) (h : l.Pairwise (· ≤ ·)) : (insertId x l).Pairwise (· ≤ ·) := by
  induction l with
  | nil => simp [insertId]
  | cons z zs ih =>
    simp only [insertId]; split
    · rename_i hxz
      rw [List.pairwise_cons]
      refine ⟨?_, h⟩
      intro a ha
      cases ha with
      | head => exact hxz
      | tail _ ha => exact String.le_trans hxz ((List.pairwise_cons.mp h).1 a ha)
    · rename_i hxz
      have hzx : z ≤ x := by
        rcases String.le_total x z with h1 | h1
        · exact absurd h1 hxz
        · exact h1
      rw [List.pairwise_cons]
      refine ⟨?_, ih (List.pairwise_cons.mp h).2⟩
      intro a ha
      rcases (mem_insertId x a zs).mp ha with rfl | ha
      · exact hzx
      · exact (List.pairwise_cons.mp h).1 a ha

theorem sorted_sortIds (l : List PolicyID) : (sortIds l).Pairwise (· ≤ ·) := by
  induction l with
  | nil => simp [sortIds]
  | cons x xs ih => exact sorted_insertId x _ ih

theorem nodup_insertId (x : PolicyID) (l : List PolicyID) (hx : x ∉ l) (h : l.Nodup) : (insertId x l).Nodup := by
  induction l with
  | nil => simp [insertId]
  | cons z zs ih =>
    simp only [insertId]; split
    · exact List.nodup_cons.mpr ⟨hx, h⟩
    · have hz := List.nodup_cons.mp h
      simp only [List.mem_cons, not_or] at hx
      refine List.nodup_cons.mpr ⟨?_, ih hx.2 hz.2⟩
      rw [mem_insertId]; simp only [not_or]; exact ⟨Ne.symm hx.1, hz.1⟩

theorem nodup_sortIds (l : List PolicyID) (h : l.Nodup) : (sortIds l).Nodup := by
  induction l with
  | nil => simp [sortIds]
  | cons x xs ih =>
    have hx := List.nodup_cons.mp h
    exact nodup_insertId x _ (by rw [mem_sortIds]; exact hx.1) (ih hx.2)

/-- two sorted duplicate-free lists with the same members are equal -/
theorem sorted_nodup_ext (l1 l2 : List PolicyID) (s1 : l1.Pairwise (· ≤ ·)) (s2 : l2.Pairwise (· ≤ ·))
    (n1 : l1.Nodup) (n2 : l2.Nodup) (h : ∀ x, x ∈ l1 ↔ x ∈ l2) : l1 = l2 := by
  induction l1 generalizing l2 with
  | nil =>
    cases l2 with
    | nil => rfl
    | cons y ys => exact absurd ((h y).mpr (by simp)) (by simp)
  | cons x xs ih =>
    cases l2 with
    | nil => exact absurd ((h x).mp (by simp)) (by simp)
    | cons y ys =>
      have hx1 := List.pairwise_cons.mp s1
      have hy2 := List.pairwise_cons.mp s2
      have nx := List.nodup_cons.mp n1
      have ny := List.nodup_cons.mp n2
      have hxy : x = y := by
        have hx : x ∈ y :: ys := (h x).mp (by simp)
        have hy : y ∈ x :: xs := (h y).mpr (by simp)
        cases hx with
        | head => rfl
        | tail _ hx =>
          cases hy with
          | head => rfl
          | tail _ hy => exact String.le_antisymm (hx1.1 y hy) (hy2.1 x hx)
      subst hxy
      congr 1
      apply ih ys hx1.2 hy2.2 nx.2 ny.2
      intro z
      constructor
      · intro hz
        have := (h z).mp (by simp [hz])
        cases this with
        | head => exact absurd hz nx.1
        | tail _ h' => exact h'
      · intro hz
        have := (h z).mpr (by simp [hz])
        cases this with
        | head => exact absurd hz ny.1
        | tail _ h' => exact h'

/-- Marshalling order: the ids in lexicographic order, each exactly once, exactly the current contents. -/
theorem C20_marshal_sorted (s : PS) (hs : s.NoDup) :
    s.ids.Pairwise (· ≤ ·) ∧ s.ids.Nodup ∧ ∀ id, id ∈ s.ids ↔ (s.abs id).isSome := by
  refine ⟨sorted_sortIds _, nodup_sortIds _ hs, fun id => ?_⟩
  unfold PS.ids PS.abs
  rw [mem_sortIds]
  have := PS.get_none_iff s id
  cases h : s.get id with
  | none => simp [this.mp h]
  | some p =>
    simp only [Option.isSome_some, iff_true]
    exact Classical.byContradiction fun hn => by rw [this.mpr hn] at h; cases h

/-- …so the marshal order depends only on the contents, not on the history that produced them. -/
theorem C20_marshal_order_canonical (s1 s2 : PS) (h1 : s1.NoDup) (h2 : s2.NoDup) (h : s1.abs = s2.abs) :
    s1.ids = s2.ids := by
  obtain ⟨a1, b1, c1⟩ := C20_marshal_sorted s1 h1
  obtain ⟨a2, b2, c2⟩ := C20_marshal_sorted s2 h2
  exact sorted_nodup_ext _ _ a1 a2 b1 b2 (fun x => by rw [c1, c2, h])

/-! ### Histories -/

/-- the abstract map and its operations -/
abbrev SpecMap := PolicyID → Option Policy

/-- what the abstract map predicts for each operation: new map and a predicate on the output -/
def specStep (m : SpecMap) : PSOp → SpecMap
  | .add id p => fun j => if j = id then some p else m j
  | .remove id => fun j => if j = id then none else m j
  | .get _ => m
  | .ids => m

def specOut (m : SpecMap) : PSOp → PSOut → Prop
  | .add id _, .bool b => b = (m id).isNone
  | .remove id, .bool b => b = (m id).isSome
  | .get id, .policy p => p = m id
  | .ids, .idList l => l.Pairwise (· ≤ ·) ∧ l.Nodup ∧ ∀ id, id ∈ l ↔ (m id).isSome
  | _, _ => False

theorem C20_step_refines (s : PS) (op : PSOp) (hs : s.NoDup) :
    (s.step op).1.NoDup ∧ (s.step op).1.abs = specStep s.abs op ∧ specOut s.abs op (s.step op).2 := by
  cases op with
  | add id p =>
    obtain ⟨a, b, c⟩ := C20_add_refines s id p hs
    exact ⟨a, funext b, c⟩
  | remove id =>
    obtain ⟨a, b, c⟩ := C20_remove_refines s id hs
    exact ⟨a, funext b, c⟩
  | get id => exact ⟨hs, rfl, rfl⟩
  | ids => exact ⟨hs, rfl, C20_marshal_sorted s hs⟩

/-- run of the abstract map over a history: every output satisfies the map's prediction -/
def specRunOk (m : SpecMap) : List PSOp → List PSOut → Prop
  | [], [] => True
  | op :: ops, o :: os => specOut m op o ∧ specRunOk (specStep m op) ops os
  | _, _ => False

def specRunState (m : SpecMap) : List PSOp → SpecMap
  | [] => m
  | op :: ops => specRunState (specStep m op) ops

/-- **Every history refines the id→policy map**: after any sequence of operations from any
    duplicate-free state (in particular the empty set), every output is what the map predicts and
    the final contents are the map's. -/
theorem C20_history_refines (s : PS) (ops : List PSOp) (hs : s.NoDup) :
    (s.run ops).1.NoDup ∧ (s.run ops).1.abs = specRunState s.abs ops ∧ specRunOk s.abs ops (s.run ops).2 := by
  induction ops generalizing s with
  | nil => exact ⟨hs, rfl, trivial⟩
  | cons op ops ih =>
    obtain ⟨a, b, c⟩ := C20_step_refines s op hs
    obtain ⟨a', b', c'⟩ := ih (s.step op).1 a
    simp only [PS.run, specRunState, specRunOk]
    rw [← b]
    exact ⟨a', b', c, c'⟩

/-! ### Authorization depends only on the current contents -/

theorem perm_of_same_abs (s1 s2 : PS) (h1 : s1.NoDup) (h2 : s2.NoDup) (h : s1.abs = s2.abs) : s1.Perm s2 := by
  induction s1 generalizing s2 with
  | nil =>
    cases s2 with
    | nil => exact .nil
    | cons kp rest =>
      have := congrFun h kp.1
      simp [PS.abs, PS.get] at this
  | cons kp rest ih =>
    obtain ⟨k, p⟩ := kp
    have hk : s2.get k = some p := by
      have := congrFun h k; simp only [PS.abs, PS.get, beq_self_eq_true, if_true] at this; exact this.symm
    -- s2 ~ (k,p) :: s2.remove k
    have hn1 := List.nodup_cons.mp h1
    obtain ⟨r2n, r2a, r2b⟩ := C20_remove_refines s2 k h2
    have hrest : PS.abs rest = PS.abs (s2.remove k).1 := by
      funext j
      rw [r2a j]
      by_cases hj : j = k
      · subst hj
        simp only [if_true]
        exact (PS.get_none_iff rest j).mpr hn1.1
      · simp only [hj, if_false]
        have := congrFun h j
        simp only [PS.abs, PS.get] at this
        have e : (k == j) = false := by simpa using Ne.symm hj
        simpa [e, PS.abs] using this
    have hperm := ih (s2.remove k).1 hn1.2 r2n hrest
    refine (List.Perm.cons _ hperm).trans ?_
    -- (k,p) :: filter (≠ k) s2 ~ s2 when k occurs exactly once with value p
    clear ih hperm hrest r2a r2n r2b h
    unfold PS.remove
    simp only
    induction s2 with
    | nil => simp [PS.get] at hk
    | cons kq rest2 ih2 =>
      obtain ⟨k', q⟩ := kq
      have hn2 := List.nodup_cons.mp h2
      simp only [List.filter_cons]
      by_cases hkk : k' = k
      · subst hkk
        simp only [PS.get, beq_self_eq_true, if_true, Option.some.injEq] at hk
        subst hk
        simp only [bne_self_eq_false, Bool.false_eq_true, if_false]
        have : rest2.filter (fun kp => kp.1 != k') = rest2 := by
          apply List.filter_eq_self.mpr
          intro a ha
          simp only [bne_iff_ne, ne_eq]
          intro hak
          exact hn2.1 (by simp only [List.map_cons] at *; exact List.mem_map.mpr ⟨a, ha, hak⟩)
        rw [this]
      · have e : (k' == k) = false := by simpa using hkk
        have e' : (k' != k) = true := by simpa using hkk
        simp only [PS.get, e, Bool.false_eq_true, if_false] at hk
        simp only [e', if_true]
        exact (List.Perm.swap _ _ _).trans (List.Perm.cons _ (ih2 hn2.2 hk))

/-- Authorization depends only on the current contents: two sets with the same contents (whatever
    histories produced them) give the same decision and the same reasons and errors as sets. -/
theorem C20_authorize_contents_only (s1 s2 : PS) (h1 : s1.NoDup) (h2 : s2.NoDup) (h : s1.abs = s2.abs) (env : Env) :
    (authorize s1 env).allow = (authorize s2 env).allow ∧
    (authorize s1 env).reasons.Perm (authorize s2 env).reasons ∧
    (authorize s1 env).errors.Perm (authorize s2 env).errors :=
  C02_order_independent compile s1 s2 env (perm_of_same_abs s1 s2 h1 h2 h)

/-- A removed policy no longer influences authorization. -/
theorem C20_removed_is_ineffective (s : PS) (id : PolicyID) (hs : s.NoDup) :
    ∀ ip ∈ (s.remove id).1, ip.1 ≠ id := by
  intro ip hip
  simp only [PS.remove, List.mem_filter, bne_iff_ne, ne_eq] at hip
  exact hip.2

/-- Loading a document assigns policy0, policy1, … in document order with the file name everywhere. -/
theorem C20_load_ids (name : String) (ps : List Policy) :
    (PS.fromList name ps).map (·.1) = (List.range ps.length).map policyIdOf ∧
    ∀ ip ∈ PS.fromList name ps, ip.2.position.filename = name := by
  have key : ∀ (i : Nat) (l : List Policy),
      (PS.fromList.go name i l).map (·.1) = (List.range' i l.length).map policyIdOf ∧
      ∀ ip ∈ PS.fromList.go name i l, ip.2.position.filename = name := by
    intro i l
    induction l generalizing i with
    | nil => simp [PS.fromList.go]
    | cons p rest ih =>
      obtain ⟨a, b⟩ := ih (i + 1)
      simp only [PS.fromList.go, List.map_cons, List.length_cons, List.range'_succ, a]
      refine ⟨trivial, ?_⟩
      intro ip hip
      cases hip with
      | head => rfl
      | tail _ h => exact b ip h
  have := key 0 ps
  simpa [PS.fromList, List.range_eq_range'] using this

/-! ### Non-vacuity -/
example : PS.NoDup [] := by simp [PS.NoDup]
example : PS.ids (PS.add (PS.add [] "b" { effect := .permit }).1 "a" { effect := .forbid }).1 = ["a", "b"] := by decide +kernel

end CedarGo
