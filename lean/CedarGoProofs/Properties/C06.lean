/-
  C06 — Partial evaluation is sound for every completion of the unknowns.

  Model: `CedarGo/Model/Partial.lean` (`partialE`, `partialPolicy`, mirroring internal/eval/partial.go INCLUDING its
  defects), tied to the implementation by the correspondence op `partial` (residual AST, white-box) and — through
  `Model/Batch.lean` — by op `batch`.

  The full property (`C06_partial_keep_sound`, `C06_partial_drop_sound` without the domain hypothesis) is FALSE for
  the code as written; the counterexample theorems below exhibit concrete policies, partial environments and
  completions (the same inputs are replayed on the Go code by harness/cmd/vh/c06.go, table cases `stale-and`,
  `tainted-contains`, `isin-eager`).

  PROVED (all about `partialE` / `partialPolicy`, the transcription of partial.go):
    * `C06_stale_residual_counterexample`, `C06_stale_residual_or_if_counterexample`,
      `C06_tainted_container_counterexample`, `C06_tainted_record_counterexample`, `C06_isin_eager_counterexample`
        — the unrestricted property is false: kept-but-different, and dropped-but-satisfied.
    * `C06_partialE_sound_partial` — expression level, on the decidable domain `domE`: whatever `partial` returns for
      `e` against a partial environment is correct under EVERY completion σ of the unknowns: a literal is the value of
      `e` (up to completing unknowns it merely contains), a residual agrees with `e` (same value, or both fail), an
      error means `e` fails under every completion.
    * `C06_partial_keep_sound_partial` — policy level, on `partialDomain`: if the policy is kept, the residual policy is
      satisfied under the completed environment exactly when the original is.
    * `C06_partial_drop_sound_partial` — policy level, on `partialDomain`: if the policy is dropped, the original is
      not satisfied under any completion.
    * `C06_partial_ignore_widens_partial` — ignored request parts (`partialDomainI`): a permit policy that is satisfied for
      some value of the ignored parts is kept and its residual is satisfied (ignoring only widens).
    * `C06_domain_excludes_counterexamples` — the counterexamples lie outside the domain (the domain hypothesis is
      what separates them), and `C06_domain_nonvacuous` — policies that genuinely use unknowns lie inside it.
  The domain (`domE` / `partialDomain`, Model/Partial.lean; decidable, evaluated by the driver for every generated
  case so the evidence reports how many cases fall inside it) is the conjunction of
      NoTaintedWholeUse                — no operator other than `.`/`has` consumes a literal that merely contains an
                                         unknown; policy literals are marker-free;
      NoVariableOperandOfShortCircuit  — no `errVariable` operand where `&&`, `||`, `if` keep the returned node;
      is-in guard                      — an erroring right operand of `is…in` only under a type test known to pass;
      no ignore markers.
  NOT PROVED
    * agreement of *error-ness* at policy level (residual erroring ⇔ original erroring): holds at expression level
      (`C06_partialE_sound_partial` gives it), not carried through `PartialPolicy` here; the property text only
      demands satisfaction.
    * independence of the residual from the ignored parts (the residual is evaluated under the same value of the
      ignored part in `C06_partial_ignore_widens_partial`); the direct oracle evaluates it under the batch placeholder too.
-/
import CedarGo.Model.Partial
import CedarGoProofs.Lemmas.C06
import CedarGoProofs.Lemmas.C06Policy
namespace CedarGo

/-! ## counterexamples: the property fails for the code as written -/

def ceBase : Env :=
  { entities := [], principal := .entity "User" "a", action := .entity "Action" "a", resource := .entity "Doc" "a",
    context := .record [] }

def whenPolicy (body : Expr) : Policy := { effect := .permit, conditions := [(true, body)] }

/-- `permit(principal, action, resource) when { context.key && true };` with `context = {key: ?k}` -/
def ceStaleEnvHat : Env := { ceBase with context := .record [("key", mkVariable "k")] }
def ceStalePolicy : Policy := whenPolicy (.binop .and (.access (.var .context) "key") (.lit (.bool true)))

/-- Stale residual (`partialAnd` keeps the node returned with `errVariable`): the policy is kept, the original is
    satisfied under the completion `k := true`, the residual is an error (hence not satisfied). -/
theorem C06_stale_residual_counterexample :
    ∃ (envHat env : Env) (p r : Policy), Completes envHat env ∧ partialPolicy envHat p = some r ∧
      satisfied p env = true ∧ satisfied r env = false ∧ erroring r env = true :=
  ⟨ceStaleEnvHat, { ceBase with context := .record [("key", .bool true)] }, ceStalePolicy,
    whenPolicy (.binop .and (.access (.lit (.record [("key", mkVariable "k")])) "key") (.lit (.bool true))),
    ⟨fun _ => .bool true, fun _ => rfl, rfl⟩, by rfl, by decide +kernel, by decide +kernel, by decide +kernel⟩

/-- the same defect through `||` and `if` -/
theorem C06_stale_residual_or_if_counterexample :
    (∃ r, partialPolicy ceStaleEnvHat (whenPolicy (.binop .or (.access (.var .context) "key") (.lit (.bool false)))) = some r ∧
        satisfied (whenPolicy (.binop .or (.access (.var .context) "key") (.lit (.bool false))))
          { ceBase with context := .record [("key", .bool true)] } = true ∧
        satisfied r { ceBase with context := .record [("key", .bool true)] } = false) ∧
    (∃ r, partialPolicy ceStaleEnvHat (whenPolicy (.ite (.access (.var .context) "key") (.lit (.bool true)) (.lit (.bool false)))) = some r ∧
        satisfied (whenPolicy (.ite (.access (.var .context) "key") (.lit (.bool true)) (.lit (.bool false))))
          { ceBase with context := .record [("key", .bool true)] } = true ∧
        satisfied r { ceBase with context := .record [("key", .bool true)] } = false) :=
  ⟨⟨_, rfl, by decide +kernel, by decide +kernel⟩, ⟨_, rfl, by decide +kernel, by decide +kernel⟩⟩

/-- `permit(principal, action, resource) when { context.s.contains(1) };` with `context = {s: [?x]}` -/
def ceTaintEnvHat : Env := { ceBase with context := .record [("s", .set [mkVariable "x"])] }
def ceTaintPolicy : Policy := whenPolicy (.binop .contains (.access (.var .context) "s") (.lit (.long 1)))

/-- Tainted container (a set that merely contains an unknown is treated as a known value): the policy is DROPPED
    although it is satisfied under the completion `x := 1`. -/
theorem C06_tainted_container_counterexample :
    ∃ (envHat env : Env) (p : Policy), Completes envHat env ∧ partialPolicy envHat p = none ∧ satisfied p env = true :=
  ⟨ceTaintEnvHat, { ceBase with context := .record [("s", .set [.long 1])] }, ceTaintPolicy,
    ⟨fun _ => .long 1, fun _ => rfl, rfl⟩, Option.isNone_iff_eq_none.mp (by decide +kernel), by decide +kernel⟩

/-- the same defect for a record compared as a whole: `context.r == {a: 1}` with `context = {r: {a: ?x}}` -/
theorem C06_tainted_record_counterexample :
    ∃ (envHat env : Env) (p : Policy), Completes envHat env ∧ partialPolicy envHat p = none ∧ satisfied p env = true :=
  ⟨{ ceBase with context := .record [("r", .record [("a", mkVariable "x")])] },
    { ceBase with context := .record [("r", .record [("a", .long 1)])] },
    whenPolicy (.binop .eq (.access (.var .context) "r") (.lit (.record [("a", .long 1)]))),
    ⟨fun _ => .long 1, fun _ => rfl, rfl⟩, Option.isNone_iff_eq_none.mp (by decide +kernel), by decide +kernel⟩

/-- `permit(principal, action, resource) when { !(principal is Doc in context.missing) };` with `principal = ?p` -/
def ceIsInEnvHat : Env := { ceBase with principal := mkVariable "p" }
def ceIsInPolicy : Policy :=
  whenPolicy (.unop .not (.isIn (.var .principal) "Doc" (.access (.var .context) "missing")))

/-- `is … in` handled as a strict operator: the error of the right operand escapes into the residual although the
    evaluator never reaches it when the type test fails (`p := User::"a"`). -/
theorem C06_isin_eager_counterexample :
    ∃ (envHat env : Env) (p r : Policy), Completes envHat env ∧ partialPolicy envHat p = some r ∧
      satisfied p env = true ∧ satisfied r env = false :=
  ⟨ceIsInEnvHat, ceBase, ceIsInPolicy, whenPolicy extError,
    ⟨fun _ => .entity "User" "a", fun _ => rfl, rfl⟩, by rfl, by decide +kernel, by decide +kernel⟩

/-! ## soundness on the domain -/

/-- Expression level.  `Sound σ env e r` (Lemmas/C06.lean) unfolds to:
      r = (lit v, nil)      ⇒  v is not an unknown ∧ (eval e env = v ∨ eval e env = v with its unknowns completed by σ)
      r = (e', nil)         ⇒  eval e' env and eval e env are the same value, or both are errors
      r = (_, errVariable)  ⇒  (nothing: every consumer in the domain keeps the original `e`)
      r = (nil, err)        ⇒  eval e env is an error
    for the completed environment `env = completeEnv σ envHat`, for EVERY σ. -/
theorem C06_partialE_sound_partial (σ : String → Value) (envHat : Env) (e : Expr) (h : domE envHat e = true) :
    Sound σ (completeEnv σ envHat) e (partialE envHat e) :=
  partialE_sound (completesVia_complete σ envHat) e h

/-- Full statement (false for the code as written, see the counterexamples):
      `Completes envHat env → partialPolicy envHat p = some r → satisfied r env = satisfied p env`.
    Proved with the additional hypothesis `partialDomain envHat p`. -/
theorem C06_partial_keep_sound_partial (envHat env : Env) (p r : Policy)
    (hc : Completes envHat env) (hd : partialDomain envHat p = true) (hk : partialPolicy envHat p = some r) :
    satisfied r env = satisfied p env := by
  obtain ⟨σ, _, rfl⟩ := hc
  have := partialPolicy_sound σ envHat p hd
  rw [hk] at this
  exact this

/-- Full statement (false for the code as written): `Completes envHat env → partialPolicy envHat p = none →
    satisfied p env = false`.  Proved with the additional hypothesis `partialDomain envHat p`. -/
theorem C06_partial_drop_sound_partial (envHat env : Env) (p : Policy)
    (hc : Completes envHat env) (hd : partialDomain envHat p = true) (hk : partialPolicy envHat p = none) :
    satisfied p env = false := by
  obtain ⟨σ, _, rfl⟩ := hc
  have := partialPolicy_sound σ envHat p hd
  rw [hk] at this
  exact this

/-- the counterexamples are exactly outside the domain -/
theorem C06_domain_excludes_counterexamples :
    partialDomain ceStaleEnvHat ceStalePolicy = false ∧ partialDomain ceTaintEnvHat ceTaintPolicy = false ∧
      partialDomain ceIsInEnvHat ceIsInPolicy = false := by
  refine ⟨by decide +kernel, by decide +kernel, by decide +kernel⟩

/-- non-vacuity: policies that use unknown positions (an unknown principal in scope and condition, an unknown nested in
    the context compared, tested with `has`, used in arithmetic and under `&&` / `||` / `if`) lie inside the domain,
    are kept, and have a non-trivial residual. -/
def nvEnvHat : Env :=
  { ceBase with principal := mkVariable "p", context := .record [("n", mkVariable "x"), ("r", .record [("k", mkVariable "x")])] }
def nvPolicy : Policy :=
  { effect := .forbid, principal := .is "User",
    conditions := [
      (true, .binop .and (.binop .lt (.binop .add (.access (.var .context) "n") (.lit (.long 1))) (.lit (.long 3)))
                         (.binop .or (.binop .eq (.var .principal) (.lit (.entity "User" "a"))) (.has (.access (.var .context) "r") "k"))),
      (false, .ite (.binop .eq (.access (.access (.var .context) "r") "k") (.lit (.long 2))) (.lit (.bool true)) (.lit (.bool false)))] }

theorem C06_domain_nonvacuous :
    partialDomain nvEnvHat nvPolicy = true ∧ (partialPolicy nvEnvHat nvPolicy).isSome = true := by
  refine ⟨by decide +kernel, by decide +kernel⟩

example : Completes nvEnvHat (completeEnv (fun x => if x == "p" then .entity "User" "a" else .long 1) nvEnvHat) :=
  ⟨_, by intro x; split <;> rfl, rfl⟩

/-! ## ignored parts -/

/-- `env` completes a partial environment that may have ignored request parts: unknowns are completed by some `σ`,
    every ignored part gets some value (`ι`) -/
def CompletesI (envHat env : Env) : Prop :=
  ∃ (σ : String → Value) (ι : Var → Value), env = completeEnvI σ ι envHat

/-- Ignoring only widens what permits allow.  Full statement: for a permit policy, if the original is satisfied for
    at least one value of the ignored parts then the policy is kept and its residual is satisfied (for ANY value of the
    ignored parts, in particular the placeholder `__cedar::unknown` that batch uses).
    Proved here, on `partialDomainI` (conditions in `domE`; ignore markers allowed): kept, and the residual is satisfied
    under the SAME values of the ignored parts.  Not proved: that the residual's value does not depend on the ignored
    parts at all (the oracle evaluates the residual under both the witness value and the batch placeholder). -/
theorem C06_partial_ignore_widens_partial (envHat env : Env) (p : Policy)
    (hc : CompletesI envHat env) (hperm : p.effect = .permit) (hd : partialDomainI envHat p = true)
    (hsat : satisfied p env = true) :
    ∃ r, partialPolicy envHat p = some r ∧ satisfied r env = true := by
  obtain ⟨σ, ι, rfl⟩ := hc
  exact partialPolicy_widen σ ι envHat p hperm hd hsat

/-- non-vacuity: principal ignored, an unknown in the context; the scope clause and the condition on the principal
    disappear, the condition on the unknown stays -/
def igEnvHat : Env := { ceBase with principal := mkIgnore, context := .record [("n", mkVariable "x")] }
def igPolicy : Policy :=
  { effect := .permit, principal := .eq ("User", "a"),
    conditions := [(true, .binop .eq (.access (.var .principal) "dept") (.lit (.str "x"))),
                   (true, .binop .lt (.access (.var .context) "n") (.lit (.long 3)))] }

example : partialDomainI igEnvHat igPolicy = true := by decide +kernel
example : (partialPolicy igEnvHat igPolicy).map (fun r => (r.principal.isAll, r.conditions.length)) = some (true, 1) := by
  decide +kernel

end CedarGo
