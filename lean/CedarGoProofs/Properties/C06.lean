/-
  C06 — Partial evaluation is sound for every completion of the unknowns.

  Model: `CedarGo/Model/Partial.lean` (`partialE`, `partialPolicy`, mirroring internal/eval/partial.go), tied to the
  implementation by the correspondence op `partial` (residual AST, white-box) and — through `Model/Batch.lean` — by
  op `batch`.

  History.  Until partial.go was repaired the unrestricted property was FALSE for the code (and for this model): four
  defect families (`stale-residual-and|or|if`, `tainted-container-*` / `tainted-record-*`, `isin-eager-rhs-error`), each
  with a `_counterexample` theorem, and the soundness theorems carried a decidable domain hypothesis (`domE`) excluding
  them.  With the repairs the model changed, the domain hypothesis on expressions is GONE, and the former
  counterexamples are regression `example`s below (same policies, partial environments and completions; the harness
  table cases `stale-and`, `tainted-contains`, `isin-eager`, … replay them on the Go code).

  PROVED (all about `partialE` / `partialPolicy`, the transcription of partial.go):
    * `C06_partialE_sound` — expression level, FULL: for EVERY expression a parser, decoder or builder can produce
      (`Expr.recKeysDistinct`: no record literal repeats a key — see the note below), partial environment and completion
      σ of the unknowns, whatever `partial` returns for `e` is correct: a literal is the value of `e` (up to completing unknowns
      it merely contains — only `.`/`has` look inside such a value), a residual agrees with `e` (same value, or both
      fail), an error means `e` fails under every completion.
    * `C06_no_ignore_met` — the INVARIANT that turns the premise of the policy-level clauses into a statement about the
      INPUTS: in an environment without ignore markers (`noIgnoreInput`: principal, action, resource, context at any depth,
      and the attributes / tags of the store) an expression without an ignore marker in its literals (`Expr.noIgnoreLits`)
      is never answered with `errIgnore`, and its residual is again such an expression with distinct record keys
      (evaluation creates no entity that was not in the inputs: `eval_clean`, Lemmas/C06Inv.lean).
    * `C06_partial_keep_sound` — policy level, FULL: if the policy is kept, the residual policy is satisfied under the
      completed environment exactly when the original is.
    * `C06_partial_drop_sound` — policy level, FULL: if the policy is dropped, the original is not satisfied under any
      completion.
    * `C06_partial_keep_errors_agree` — a STRENGTHENING the property text does not ask for: kept ⇒ the residual fails
      under the completed environment exactly when the original fails (together with the previous: the residual and the
      original evaluate to the same boolean, or both fail — `partialPolicy_tv`).
      All three for EVERY policy, store, partial environment and completion; the hypotheses are structural and decidable
      on the inputs: `noIgnoreInput envHat` (the property's own premise for these clauses: unknowns, not ignored parts),
      `Policy.noIgnoreLits` and `Policy.recKeysDistinct`.  (The model-level form — `partialDomain`: "no ignore marker is
      met" — is `partialPolicy_sound` / `partialPolicy_tv` in Lemmas; `C06_partialDomain_of_inputs` derives it.)
    * `C06_partial_residual_reusable` — the residual policy satisfies the same structural premises (what batch needs to
      partially evaluate it again at the next level).
    * `C06_partial_ignore_residual_independent` — ignored request parts: the residual of a kept policy evaluates alike
      (same boolean, or both fail) whatever values the ignored parts are given.  Semantic, not syntactic: the residual may
      still mention an ignored part in code that is never reached (example below).
    * `C06_partial_ignore_widens` — FULL: for a permit policy, if the original is satisfied for AT LEAST ONE value of the
      ignored parts then the policy is kept and its residual is satisfied for EVERY value of the ignored parts (in
      particular for the placeholder `__cedar::unknown` batch uses).  Ignore markers may occur anywhere.
    * `C06_former_counterexamples_sound` — the former counterexample inputs satisfy the input-level premises and hence
      the property, and `C06_domain_nonvacuous` — policies that genuinely use unknowns are kept with non-trivial residuals.
  NOTE on `Expr.recKeysDistinct` (hypothesis of every clause).  The shared model evaluates a record literal the way the
  repaired `recordLiteralEval` does: `ToEval` stores the entries in a map (a later duplicate key REPLACES the earlier entry,
  which is never evaluated), the keys are visited in ascending order.  `partial` visits EVERY element of
  `NodeTypeRecord.Elements`, also one that `ToEval` drops, so for a hand-written node that repeats a key
  (`{a: 1 + "x", a: 2}` — the text parser rejects it, the JSON decoder and `ast.Record` cannot produce it) `partial` reports
  the error of an entry that `Eval` never looks at.  The statements are therefore about expressions in which every record
  literal lists a key once.
  NOTE on `Expr.noIgnoreLits` (hypothesis of keep / drop / errors-agree).  The ignore marker is an ordinary entity value,
  `__cedar::ignore::""`; a policy that SPELLS it as a literal is treated by `partial` as if the request part had been
  ignored (`ignLitPolicy` below: `{a: __cedar::ignore::""}.a == 1` is dropped from a permit policy as "ignored" although
  it is plainly false).  `__cedar` is Cedar's reserved namespace; the clauses are about policies that do not use it so.
  NOT PROVED: nothing of the property text is left at model level.  Error KINDS / messages are not compared (the
  residual carries `__cedar::partialError` where the original has a type error, etc.).
-/
import CedarGo.Model.Partial
import CedarGoProofs.Lemmas.C06
import CedarGoProofs.Lemmas.C06Policy
import CedarGoProofs.Lemmas.C06Inv
import CedarGoProofs.Lemmas.C06InvPolicy
import CedarGoProofs.Lemmas.C06InvIgnore
namespace CedarGo

/-! ## the former counterexamples (regression) -/

def ceBase : Env :=
  { entities := [], principal := .entity "User" "a", action := .entity "Action" "a", resource := .entity "Doc" "a",
    context := .record [] }

def whenPolicy (body : Expr) : Policy := { effect := .permit, conditions := [(true, body)] }

/-- `permit(principal, action, resource) when { context.key && true };` with `context = {key: ?k}` -/
def ceStaleEnvHat : Env := { ceBase with context := .record [("key", mkVariable "k")] }
def ceStalePolicy : Policy := whenPolicy (.binop .and (.access (.var .context) "key") (.lit (.bool true)))
def ceStaleEnv : Env := { ceBase with context := .record [("key", .bool true)] }

/-- was `C06_stale_residual_counterexample` (`partialAnd` kept the node returned with `errVariable`, residual
    `{key: __cedar::variable::"k"}.key && true`, an error under `k := true`): the ORIGINAL operand is kept now, the
    residual is the policy itself and is satisfied under the completion. -/
example : partialPolicy ceStaleEnvHat ceStalePolicy = some ceStalePolicy := by rfl
example : satisfied ceStalePolicy ceStaleEnv = true := by decide +kernel

def ceStaleOr : Policy := whenPolicy (.binop .or (.access (.var .context) "key") (.lit (.bool false)))
def ceStaleIf : Policy := whenPolicy (.ite (.access (.var .context) "key") (.lit (.bool true)) (.lit (.bool false)))

/-- was `C06_stale_residual_or_if_counterexample` -/
example : partialPolicy ceStaleEnvHat ceStaleOr = some ceStaleOr ∧ partialPolicy ceStaleEnvHat ceStaleIf = some ceStaleIf :=
  ⟨by rfl, by rfl⟩

/-- `permit(principal, action, resource) when { context.s.contains(1) };` with `context = {s: [?x]}` -/
def ceTaintEnvHat : Env := { ceBase with context := .record [("s", .set [mkVariable "x"])] }
def ceTaintPolicy : Policy := whenPolicy (.binop .contains (.access (.var .context) "s") (.lit (.long 1)))
def ceTaintEnv : Env := { ceBase with context := .record [("s", .set [.long 1])] }

/-- was `C06_tainted_container_counterexample` (the policy was DROPPED although satisfied under `x := 1`): a set that
    merely contains an unknown is unknown to `contains`; the policy is kept unchanged. -/
example : partialPolicy ceTaintEnvHat ceTaintPolicy = some ceTaintPolicy := by rfl
example : satisfied ceTaintPolicy ceTaintEnv = true := by decide +kernel

def ceTaintRecEnvHat : Env := { ceBase with context := .record [("r", .record [("a", mkVariable "x")])] }
def ceTaintRecPolicy : Policy := whenPolicy (.binop .eq (.access (.var .context) "r") (.lit (.record [("a", .long 1)])))

/-- was `C06_tainted_record_counterexample`: `context.r == {a: 1}` with `context = {r: {a: ?x}}` is kept -/
example : partialPolicy ceTaintRecEnvHat ceTaintRecPolicy = some ceTaintRecPolicy := by rfl

/-- attribute access still looks inside: `context.r.a == 1` is kept with the SAME residual (nothing to fold, `?x` unknown),
    while `context.r has a` folds to `true` and the condition disappears -/
example : (partialPolicy ceTaintRecEnvHat (whenPolicy (.has (.access (.var .context) "r") "a"))).map (·.conditions.length) = some 0 := by
  decide +kernel

/-- `permit(principal, action, resource) when { !(principal is Doc in context.missing) };` with `principal = ?p` -/
def ceIsInEnvHat : Env := { ceBase with principal := mkVariable "p" }
def ceIsInPolicy : Policy :=
  whenPolicy (.unop .not (.isIn (.var .principal) "Doc" (.access (.var .context) "missing")))

/-- was `C06_isin_eager_counterexample` (the error of the right operand escaped, residual `__cedar::partialError`): the
    error node now sits INSIDE the `is … in`, behind the type test, and the residual is satisfied for `p := User::"a"`. -/
example : partialPolicy ceIsInEnvHat ceIsInPolicy =
    some (whenPolicy (.unop .not (.isIn (.var .principal) "Doc" extError))) := by rfl
example : satisfied ceIsInPolicy ceBase = true ∧
    satisfied (whenPolicy (.unop .not (.isIn (.var .principal) "Doc" extError))) ceBase = true := by
  refine ⟨by decide +kernel, by decide +kernel⟩

/-! ## soundness -/

/-- Expression level, FULL STRENGTH.  `Sound γ env e r` (Lemmas/C06.lean; `γ = Value.substAll σ` completes the unknowns
    inside a value) unfolds to:
      r = (lit v, nil)      ⇒  eval e env = v, or v is not itself an unknown and eval e env = v with its unknowns completed by σ
      r = (e', nil)         ⇒  eval e' env and eval e env are the same value, or both are errors
      r = (_, errVariable)  ⇒  (nothing: every consumer keeps the original `e`)
      r = (nil, errIgnore)  ⇒  (nothing: ignore markers only promise widening)
      r = (nil, err)        ⇒  eval e env is an error
    for the completed environment `env = completeEnv σ envHat`, for EVERY expression, environment and σ. -/
theorem C06_partialE_sound (σ : String → Value) (envHat : Env) (e : Expr) (hk : e.recKeysDistinct = true) :
    Sound (Value.substAll σ) (completeEnv σ envHat) e (partialE envHat e) :=
  partialE_sound (completesVia_complete σ envHat) e hk

/-- a residual expression agrees with the original: same value, or both fail -/
theorem C06_partialE_residual_agrees (σ : String → Value) (envHat : Env) (e e' : Expr) (hk : e.recKeysDistinct = true)
    (hl : e'.isLit = false) (h : partialE envHat e = .ok e') :
    R (eval e' (completeEnv σ envHat)) (eval e (completeEnv σ envHat)) := by
  have := C06_partialE_sound σ envHat e hk
  rw [h] at this
  exact (Sound.ok_nonlit hl).mp this

/-- The invariant behind the input-level premises: partial evaluation of an expression without ignore markers in its
    literals (and with distinct record keys) in an environment without ignore markers never answers `errIgnore`, and a
    residual is again such an expression.  (Induction over `partialE`, on top of `eval_clean`: a value computed from
    ignore-free inputs is ignore-free.) -/
theorem C06_no_ignore_met (envHat : Env) (e : Expr) (hE : noIgnoreInput envHat = true)
    (hl : e.noIgnoreLits = true) (hk : e.recKeysDistinct = true) :
    (partialE envHat e).notIgn = true ∧
      ∀ e', partialE envHat e = .ok e' → e'.noIgnoreLits = true ∧ e'.recKeysDistinct = true := by
  have hi := partialE_inv hE e hl hk
  refine ⟨notIgn_of_inv hi, ?_⟩
  intro e' he'
  rw [he'] at hi
  exact hi

/-- the model-level premise (`partialDomain`: no ignore marker is met) follows from the input-level one -/
theorem C06_partialDomain_of_inputs (envHat : Env) (p : Policy) (hE : noIgnoreInput envHat = true)
    (hl : p.noIgnoreLits = true) (hk : p.recKeysDistinct = true) : partialDomain envHat p = true :=
  partialDomain_of_inputs hE hl hk

/-- Kept ⇒ the residual is satisfied under the completed environment exactly when the original is.
    FULL: every policy, store, partial environment without ignore markers, completion of the unknowns. -/
theorem C06_partial_keep_sound (envHat env : Env) (p r : Policy)
    (hc : Completes envHat env) (hE : noIgnoreInput envHat = true)
    (hl : p.noIgnoreLits = true) (hk : p.recKeysDistinct = true)
    (hkept : partialPolicy envHat p = some r) :
    satisfied r env = satisfied p env := by
  obtain ⟨σ, _, rfl⟩ := hc
  have := partialPolicy_sound σ envHat p (partialDomain_of_inputs hE hl hk)
  rw [hkept] at this
  exact this

/-- Dropped ⇒ the original is not satisfied under any completion.  FULL, same premises. -/
theorem C06_partial_drop_sound (envHat env : Env) (p : Policy)
    (hc : Completes envHat env) (hE : noIgnoreInput envHat = true)
    (hl : p.noIgnoreLits = true) (hk : p.recKeysDistinct = true)
    (hdrop : partialPolicy envHat p = none) :
    satisfied p env = false := by
  obtain ⟨σ, _, rfl⟩ := hc
  have := partialPolicy_sound σ envHat p (partialDomain_of_inputs hE hl hk)
  rw [hdrop] at this
  exact this

/-- Kept ⇒ the residual FAILS under the completed environment exactly when the original fails (a strengthening: the
    property text only speaks about satisfaction).  Why it holds although `&&` short-circuits and `PartialPolicy` drops
    and truncates conditions: a condition is only dropped when it is `true` under every completion; the list is only
    truncated after a condition that fails under every completion (replaced by `__cedar::partialError`), and everything
    left of it is kept as a residual that agrees with the original condition in value-or-failure; a scope clause is only
    replaced by `all` when it evaluates to `true`. -/
theorem C06_partial_keep_errors_agree (envHat env : Env) (p r : Policy)
    (hc : Completes envHat env) (hE : noIgnoreInput envHat = true)
    (hl : p.noIgnoreLits = true) (hk : p.recKeysDistinct = true)
    (hkept : partialPolicy envHat p = some r) :
    erroring r env = erroring p env := by
  obtain ⟨σ, _, rfl⟩ := hc
  rw [erroring_eq_tv, erroring_eq_tv, partialPolicy_tv σ envHat p r (partialDomain_of_inputs hE hl hk) hkept]

/-- the residual policy satisfies the structural premises again (batch partially evaluates it at the next level) -/
theorem C06_partial_residual_reusable (envHat : Env) (p r : Policy) (hE : noIgnoreInput envHat = true)
    (hl : p.noIgnoreLits = true) (hk : p.recKeysDistinct = true) (hkept : partialPolicy envHat p = some r) :
    r.noIgnoreLits = true ∧ r.recKeysDistinct = true :=
  partialPolicy_good hE ⟨hl, hk⟩ hkept

/-- why `Policy.noIgnoreLits` is a hypothesis: a policy that spells the ignore marker as a literal,
    `permit(principal, action, resource) when { {a: __cedar::ignore::""}.a == 1 };`.  No request part is ignored, yet
    `partial` answers `errIgnore` for the condition, `PartialPolicy` drops it from the permit policy, and the residual
    (no condition left) is satisfied while the original is not. -/
def ignLitPolicy : Policy :=
  whenPolicy (.binop .eq (.access (.record [("a", .lit mkIgnore)]) "a") (.lit (.long 1)))
example : ignLitPolicy.noIgnoreLits = false ∧ noIgnoreInput ceBase = true ∧
    (partialPolicy ceBase ignLitPolicy).map (·.conditions.length) = some 0 ∧ satisfied ignLitPolicy ceBase = false := by
  refine ⟨by decide +kernel, by decide +kernel, by decide +kernel, by decide +kernel⟩

/-- why the STORE is part of `noIgnoreInput`: an attribute that holds the ignore marker.  `principal.x == 1` with
    `User::"a".x = __cedar::ignore::""` is answered `errIgnore` although no request part is ignored. -/
def ignStoreEnv : Env :=
  { ceBase with entities := [(("User", "a"), { parents := [], attrs := [("x", mkIgnore)], tags := [] })] }
example : noIgnoreInput ignStoreEnv = false ∧
    (partialE ignStoreEnv (.binop .eq (.access (.var .principal) "x") (.lit (.long 1)))).notIgn = false := by
  refine ⟨by decide +kernel, by decide +kernel⟩

/-- why `Expr.recKeysDistinct` is a hypothesis: a hand-written record node that repeats a key.  `partial` visits both
    elements and reports the type error of the first; `Eval` evaluates the map built by `ToEval`, where the second entry
    has replaced the first, and yields `{a: 2}` (replayed on the Go code: `Eval` gives the value, the residual of
    `PartialPolicy` an error).  No parser, decoder or builder produces such a node. -/
def dupKeyRecord : Expr := .record [("a", .binop .add (.lit (.long 1)) (.lit (.str "x"))), ("a", .lit (.long 2))]
example : dupKeyRecord.recKeysDistinct = false ∧
    (match partialE ceBase dupKeyRecord with | .err _ => true | _ => false) = true ∧
    (match eval dupKeyRecord ceBase with | .ok (.record [("a", .long 2)]) => true | _ => false) = true := by
  refine ⟨by decide +kernel, by decide +kernel, by decide +kernel⟩

/-- the former counterexamples satisfy the INPUT-level premises and hence the theorems; spelled out for their completions -/
theorem C06_former_counterexamples_sound :
    (noIgnoreInput ceStaleEnvHat = true ∧ ceStalePolicy.noIgnoreLits = true ∧ ceStalePolicy.recKeysDistinct = true) ∧
      (noIgnoreInput ceTaintEnvHat = true ∧ ceTaintPolicy.noIgnoreLits = true ∧ ceTaintPolicy.recKeysDistinct = true) ∧
      (noIgnoreInput ceTaintRecEnvHat = true ∧ ceTaintRecPolicy.noIgnoreLits = true ∧ ceTaintRecPolicy.recKeysDistinct = true) ∧
      (noIgnoreInput ceIsInEnvHat = true ∧ ceIsInPolicy.noIgnoreLits = true ∧ ceIsInPolicy.recKeysDistinct = true) ∧
      (∀ r, partialPolicy ceStaleEnvHat ceStalePolicy = some r → satisfied r ceStaleEnv = satisfied ceStalePolicy ceStaleEnv) ∧
      (∀ r, partialPolicy ceTaintEnvHat ceTaintPolicy = some r → satisfied r ceTaintEnv = satisfied ceTaintPolicy ceTaintEnv) ∧
      (∀ r, partialPolicy ceIsInEnvHat ceIsInPolicy = some r → satisfied r ceBase = satisfied ceIsInPolicy ceBase) := by
  have d1 : noIgnoreInput ceStaleEnvHat = true ∧ ceStalePolicy.noIgnoreLits = true ∧ ceStalePolicy.recKeysDistinct = true := by
    refine ⟨by decide +kernel, by decide +kernel, by decide +kernel⟩
  have d2 : noIgnoreInput ceTaintEnvHat = true ∧ ceTaintPolicy.noIgnoreLits = true ∧ ceTaintPolicy.recKeysDistinct = true := by
    refine ⟨by decide +kernel, by decide +kernel, by decide +kernel⟩
  have d3 : noIgnoreInput ceTaintRecEnvHat = true ∧ ceTaintRecPolicy.noIgnoreLits = true ∧ ceTaintRecPolicy.recKeysDistinct = true := by
    refine ⟨by decide +kernel, by decide +kernel, by decide +kernel⟩
  have d4 : noIgnoreInput ceIsInEnvHat = true ∧ ceIsInPolicy.noIgnoreLits = true ∧ ceIsInPolicy.recKeysDistinct = true := by
    refine ⟨by decide +kernel, by decide +kernel, by decide +kernel⟩
  refine ⟨d1, d2, d3, d4, ?_, ?_, ?_⟩
  · intro r hr
    exact C06_partial_keep_sound _ _ _ _ ⟨fun _ => .bool true, fun _ => rfl, rfl⟩ d1.1 d1.2.1 d1.2.2 hr
  · intro r hr
    exact C06_partial_keep_sound _ _ _ _ ⟨fun _ => .long 1, fun _ => rfl, rfl⟩ d2.1 d2.2.1 d2.2.2 hr
  · intro r hr
    exact C06_partial_keep_sound _ _ _ _ ⟨fun _ => .entity "User" "a", fun _ => rfl, rfl⟩ d4.1 d4.2.1 d4.2.2 hr

/-- non-vacuity: policies that use unknown positions (an unknown principal in scope and condition, an unknown nested in
    the context compared, tested with `has`, used in arithmetic and under `&&` / `||` / `if`) satisfy the premises,
    are kept, and have a non-trivial residual. -/
def nvEnvHat : Env :=
  { ceBase with principal := mkVariable "p", context := .record [("n", mkVariable "x"), ("r", .record [("k", mkVariable "x")])] }
def nvPolicy : Policy :=
  { effect := .forbid, principal := .is "User",
    conditions := [
      (true, .binop .and (.binop .lt (.binop .add (.access (.var .context) "n") (.lit (.long 1))) (.lit (.long 3)))
                         (.binop .or (.binop .eq (.var .principal) (.lit (.entity "User" "a"))) (.has (.access (.var .context) "r") "k"))),
      (false, .ite (.binop .eq (.access (.access (.var .context) "r") "k") (.lit (.long 2))) (.lit (.bool true)) (.lit (.bool false)))] }

theorem C06_domain_nonvacuous :
    noIgnoreInput nvEnvHat = true ∧ nvPolicy.noIgnoreLits = true ∧ nvPolicy.recKeysDistinct = true ∧
      (partialPolicy nvEnvHat nvPolicy).isSome = true := by
  refine ⟨by decide +kernel, by decide +kernel, by decide +kernel, by decide +kernel⟩

example : Completes nvEnvHat (completeEnv (fun x => if x == "p" then .entity "User" "a" else .long 1) nvEnvHat) :=
  ⟨_, by intro x; split <;> rfl, rfl⟩

/-- error-ness agrees on a concrete case: `context.n + 1 < 3` with `n := "s"` fails in the original and in the residual -/
example :
    let env := completeEnv (fun x => if x == "p" then .entity "User" "a" else .str "s") nvEnvHat
    erroring nvPolicy env = true ∧ (partialPolicy nvEnvHat nvPolicy).map (erroring · env) = some true := by
  refine ⟨by decide +kernel, by decide +kernel⟩

/-! ## ignored parts -/

/-! `completeEnvI σ ι envHat` (Model/Partial.lean) completes a partial environment that may have ignored request parts:
    unknowns are completed by `σ`, every ignored part gets the value `ι` gives it (any value). -/

/-- The residual of a kept policy does not depend on the values given to the ignored request parts: it is satisfied
    for one choice exactly when it is for any other, and fails for one exactly when it fails for any other.  EVERY policy
    (either effect), store and environment; ignore markers may also be nested in the context or the store.
    The independence is semantic: `partial` answers `errIgnore` whenever evaluation REACHES an ignored part, and
    `PartialPolicy` then removes the condition (permit) or the policy (forbid); what stays may still mention an ignored
    part in a branch that is never reached (example below). -/
theorem C06_partial_ignore_residual_independent (envHat : Env) (p r : Policy) (hk : p.recKeysDistinct = true)
    (hkept : partialPolicy envHat p = some r) (σ : String → Value) (ι ι' : Var → Value) :
    satisfied r (completeEnvI σ ι envHat) = satisfied r (completeEnvI σ ι' envHat) ∧
      erroring r (completeEnvI σ ι envHat) = erroring r (completeEnvI σ ι' envHat) := by
  have h := partialPolicy_indep σ ι ι' envHat p r hk hkept
  exact ⟨by rw [satisfied_eq_tv, satisfied_eq_tv, h], by rw [erroring_eq_tv, erroring_eq_tv, h]⟩

/-- Ignoring only widens what permits allow.  FULL: for a permit policy, if the original is satisfied for AT LEAST ONE
    value of the ignored parts (`ι`) then the policy is kept and its residual is satisfied for EVERY value of the ignored
    parts (`ι'`; in particular the placeholder `__cedar::unknown` that batch uses).  Every permit policy and environment
    (ignore markers allowed anywhere). -/
theorem C06_partial_ignore_widens (envHat : Env) (p : Policy) (hk : p.recKeysDistinct = true)
    (hperm : p.effect = .permit) (σ : String → Value) (ι : Var → Value)
    (hsat : satisfied p (completeEnvI σ ι envHat) = true) :
    ∃ r, partialPolicy envHat p = some r ∧ ∀ ι', satisfied r (completeEnvI σ ι' envHat) = true := by
  obtain ⟨r, hr, hs⟩ := partialPolicy_widen σ ι envHat p hk hperm hsat
  refine ⟨r, hr, fun ι' => ?_⟩
  rw [← (C06_partial_ignore_residual_independent envHat p r hk hr σ ι ι').1]
  exact hs

/-- non-vacuity: principal ignored, an unknown in the context; the scope clause and the condition on the principal
    disappear, the condition on the unknown stays -/
def igEnvHat : Env := { ceBase with principal := mkIgnore, context := .record [("n", mkVariable "x")] }
def igPolicy : Policy :=
  { effect := .permit, principal := .eq ("User", "a"),
    conditions := [(true, .binop .eq (.access (.var .principal) "dept") (.lit (.str "x"))),
                   (true, .binop .lt (.access (.var .context) "n") (.lit (.long 3)))] }

example : (partialPolicy igEnvHat igPolicy).map (fun r => (r.principal.isAll, r.conditions.length)) = some (true, 1) := by
  decide +kernel

/-- the hypothesis of `C06_partial_ignore_widens` is satisfiable: with `principal := User::"a"` (attribute `dept = "x"`
    in the store) and `x := 1` the original is satisfied; the residual then holds for every other principal as well -/
def igStore : Entities := [(("User", "a"), { parents := [], attrs := [("dept", .str "x")], tags := [] })]
example :
    satisfied igPolicy (completeEnvI (fun _ => .long 1) (fun _ => .entity "User" "a") { igEnvHat with entities := igStore }) = true := by
  decide +kernel

/-- independence is semantic, not syntactic: `(if true then context.n else principal.x) < 3` with the principal ignored and
    `context.n` unknown.  `partial` answers `errVariable` for the `if` (the condition is literally `true`, the `then`
    branch unknown), so the comparison keeps the ORIGINAL operand — which mentions `principal` in the branch that is
    never evaluated.  The residual is the policy itself; it does not depend on the principal. -/
def igDeadPolicy : Policy :=
  whenPolicy (.binop .lt (.ite (.lit (.bool true)) (.access (.var .context) "n") (.access (.var .principal) "x")) (.lit (.long 3)))
example : partialPolicy igEnvHat igDeadPolicy = some igDeadPolicy := by rfl

/-! ## an ignore marker NESTED in the context (former finding `nested-ignore-consumed-whole`, repaired)

  `completeEnvI` gives values to ignored request PARTS; the theorems above leave a marker that is nested inside the context
  where it is (they hold for every environment, also one with nested markers, but say nothing about the values a nested
  marker stands for).  `partial_test.go` (ignoreAnd, ignoreOr, ignoreIfThen, ignoreHas) uses such nested markers, and
  `partial` answers `errIgnore` when evaluation reaches the marker ITSELF (`context.r.a == 1`, `context.r has a`).
  Until the repair a record or set that merely CONTAINS the marker was an ordinary known value for every other operator
  (`context.r == {a: 1}` with `context = {r: {a: ignore}}` folded to `false` and the permit policy was DROPPED although it
  is satisfied for `a := 1`: the former `C06_nested_ignore_not_widened_counterexample`).  Now `isValueWithIgnore` is the
  counterpart of `isValueWithVariable` (`PR.whole`): such a value is ignored like the marker itself by every operator
  other than `.` / `has`, and wherever it would be embedded in a residual.
  NOT PROVED in general: a widening theorem for completions of NESTED marker positions (it needs a relational invariant
  "equal up to the marker positions" through attribute access / `has`, the analogue of `Sound` for unknowns); the
  theorems `C06_nested_ignore_*` below state the repaired treatment in general (a value containing the marker as the
  operand of any strict operator gives `errIgnore`; `PartialPolicy` then widens), the former witness and its neighbours
  are regression examples, the harness reference (`RefCfg.IgnTaint`, now part of the
  base configuration) and the completion oracle of the C05 / C06 checks test it on the Go code. -/

/-- `PR.whole` on a literal that contains the ignore marker: `errIgnore` -/
theorem C06_nested_ignore_whole {v : Value} (hv : v.ignInside = true) : (PR.ok (.lit v)).whole = .ign := by
  simp [PR.whole, hv]

/-- GENERAL (every environment, operator other than `&&` / `||`, operands): a LEFT operand that partially evaluates to a
    value containing the ignore marker makes the operator `errIgnore` — whatever the right operand is -/
theorem C06_nested_ignore_left_operand (env : Env) (op : BinOp) (l r : Expr) (v : Value)
    (h1 : op ≠ .and) (h2 : op ≠ .or) (hl : partialE env l = .ok (.lit v)) (hv : v.ignInside = true) :
    partialE env (.binop op l r) = .ign := by
  cases op <;> first | exact absurd rfl h1 | exact absurd rfl h2 |
    (simp only [partialE, hl, C06_nested_ignore_whole hv]; rfl)

theorem combine2_right_ign (l r : Expr) (p1 : PR) (mk : Expr → Expr → Expr) (ev : Expr → EvR)
    (hne : ∀ e, p1 ≠ .err e) : combine2 l r p1 .ign mk ev = .ign := by
  cases p1 with
  | err e => exact absurd rfl (hne e)
  | _ => rfl

/-- the same for a RIGHT operand, unless the left operand already failed (operands are looked at left to right; the
    left operand may be known, a residual or unknown) -/
theorem C06_nested_ignore_right_operand (env : Env) (op : BinOp) (l r : Expr) (v : Value)
    (h1 : op ≠ .and) (h2 : op ≠ .or) (hne : ∀ e, (partialE env l).whole ≠ .err e)
    (hr : partialE env r = .ok (.lit v)) (hv : v.ignInside = true) :
    partialE env (.binop op l r) = .ign := by
  cases op <;> first | exact absurd rfl h1 | exact absurd rfl h2 |
    (simp only [partialE, hr, C06_nested_ignore_whole hv]; exact combine2_right_ign _ _ _ _ _ hne)

/-- unary operators -/
theorem C06_nested_ignore_unary_operand (env : Env) (op : UnOp) (e : Expr) (v : Value)
    (hl : partialE env e = .ok (.lit v)) (hv : v.ignInside = true) :
    partialE env (.unop op e) = .ign := by
  simp only [partialE, hl, C06_nested_ignore_whole hv]; rfl

/-- and what `PartialPolicy` does with such a condition: removed from a permit policy (widened), a forbid policy is
    dropped — exactly as for an ignored request part -/
theorem C06_nested_ignore_condition_widened (env : Env) (w : Bool) (body : Expr) (rest : List (Bool × Expr))
    (h : partialE env body = .ign) :
    partialConds env .permit ((w, body) :: rest) = partialConds env .permit rest ∧
    partialConds env .forbid ((w, body) :: rest) = none := by
  simp [partialConds, condStep, h]

/-- `context = {r: {a: __cedar::ignore::""}}` -/
def niEnvHat : Env := { ceBase with context := .record [("r", .record [("a", mkIgnore)])] }
/-- `permit(principal, action, resource) when { context.r == {a: 1} };` -/
def niPolicy : Policy := whenPolicy (.binop .eq (.access (.var .context) "r") (.lit (.record [("a", .long 1)])))
/-- the ignored position given the value `1` -/
def niEnv : Env := { ceBase with context := .record [("r", .record [("a", .long 1)])] }

/-- regression (former `C06_nested_ignore_not_widened_counterexample`): the permit policy that is satisfied for a value
    of the ignored position is now KEPT, its condition is removed (widened), and the residual is satisfied for that and
    every other value of the position.  (Replayed on the Go code: table case `nested-ignore` of the C06 harness.) -/
example : niPolicy.effect = .permit ∧ niPolicy.recKeysDistinct = true ∧ satisfied niPolicy niEnv = true ∧
    (partialPolicy niEnvHat niPolicy).map (fun r => (r.conditions.length, satisfied r niEnv,
      satisfied r { niEnv with context := .record [("r", .record [("a", .long 2)])] })) = some (0, true, true) := by
  refine ⟨rfl, by decide +kernel, by decide +kernel, by decide +kernel⟩

/-- the same for a forbid policy: it is dropped (forbids are narrowed, i.e. the decision is widened) -/
example : partialPolicy niEnvHat { niPolicy with effect := .forbid } = none := by decide +kernel

/-- a set that contains the marker: `context.ls.contains(5)` with `ls = [1, ignore]` no longer folds to `false`;
    embedded on the right of `&&` / `||` behind an unknown it is ignored as well (`scRest`) -/
def niSetEnvHat : Env :=
  { ceBase with context := .record [("ls", .set [.long 1, mkIgnore]), ("u", mkVariable "x")] }
example :
    partialE niSetEnvHat (.binop .contains (.access (.var .context) "ls") (.lit (.long 5))) matches .ign ∧
    partialE niSetEnvHat (.binop .or (.access (.var .context) "u") (.access (.var .context) "ls")) matches .ign ∧
    partialE niSetEnvHat (.binop .and (.lit (.bool false)) (.access (.var .context) "ls")) matches .ok (.lit (.bool false)) := by
  refine ⟨by decide +kernel, by decide +kernel, by decide +kernel⟩

/-- attribute access and `has` still look inside: the sibling of the marker is a known value -/
example : partialE { ceBase with context := .record [("r", .record [("a", mkIgnore), ("b", .long 7)])] }
    (.binop .eq (.access (.access (.var .context) "r") "b") (.lit (.long 7))) matches .ok (.lit (.bool true)) := by
  decide +kernel

/-- the neighbour that reaches the marker itself IS widened: `context.r.a == 1` loses its condition -/
example : (partialPolicy niEnvHat (whenPolicy (.binop .eq (.access (.access (.var .context) "r") "a") (.lit (.long 1))))).map
    (·.conditions.length) = some 0 := by decide +kernel

end CedarGo
