/-
  C06 — Partial evaluation is sound for every completion of the unknowns.

  Model: `CedarGo/Model/Partial.lean` (`partialE`, `partialPolicy`, mirroring internal/eval/partial.go), tied to the
  implementation by the correspondence op `partial` (residual AST, white-box) and — through `Model/Batch.lean` — by
  op `batch`.

  History.  Until partial.go was repaired the unrestricted property was FALSE for the code (and for this model): four
  defect families (`stale-residual-and|or|if`, `tainted-container-*` / `tainted-record-*`, `isin-eager-rhs-error`), each
  with a `_counterexample` theorem, and the soundness theorems carried a decidable domain hypothesis (`domE`) excluding
  them.  With the repairs the model changed, the domain hypothesis on expressions is GONE, and the former
  counterexamples are regression `example`s below (same policies, partial environments and completions; the harness
  table cases `stale-and`, `tainted-contains`, `isin-eager`, … replay them on the Go code).

  PROVED (all about `partialE` / `partialPolicy`, the transcription of partial.go):
    * `C06_partialE_sound` — expression level, FULL: for EVERY expression a parser, decoder or builder can produce
      (`Expr.recKeysDistinct`: no record literal repeats a key — see the note below), partial environment and completion
      σ of the unknowns, whatever `partial` returns for `e` is correct: a literal is the value of `e` (up to completing unknowns
      it merely contains — only `.`/`has` look inside such a value), a residual agrees with `e` (same value, or both
      fail), an error means `e` fails under every completion.
    * `C06_partial_keep_sound_partial` — policy level: if the policy is kept, the residual policy is satisfied under the
      completed environment exactly when the original is.
    * `C06_partial_drop_sound_partial` — policy level: if the policy is dropped, the original is not satisfied under any
      completion.
      Both for EVERY policy; the only hypothesis left is the property's own premise that the environment has unknowns, not
      ignore markers (`partialDomain`: no request part is ignored and no condition's partial evaluation reports
      `errIgnore`, i.e. no ignore marker nested in the context / an entity is met).  They keep the `_partial` suffix
      because agreement of *error-ness* at policy level (residual erroring ⇔ original erroring) is not carried through
      `PartialPolicy` (it holds at expression level: `C06_partialE_sound`; the property text only demands satisfaction),
      and because the premise is expressed through `partialE` (decidable, evaluated by the driver per case) rather than
      as "no ignore marker occurs anywhere in the inputs".
    * `C06_partial_ignore_widens_partial` — ignored request parts, EVERY permit policy (record keys distinct): if it is satisfied for some value
      of the ignored parts it is kept and its residual is satisfied (ignoring only widens).
    * `C06_former_counterexamples_sound` — the five former counterexample inputs now satisfy the property, and
      `C06_domain_nonvacuous` — policies that genuinely use unknowns are kept with non-trivial residuals.
  NOTE on `Expr.recKeysDistinct` (hypothesis of the expression-level theorem and of the ignore theorem, a conjunct of
  `partialDomain`).  The shared model evaluates a record literal the way the repaired `recordLiteralEval` does: `ToEval`
  stores the entries in a map (a later duplicate key REPLACES the earlier entry, which is never evaluated), the keys are
  visited in ascending order.  `partial` visits EVERY element of `NodeTypeRecord.Elements`, also one that `ToEval` drops,
  so for a hand-written node that repeats a key (`{a: 1 + "x", a: 2}` — the text parser rejects it, the JSON decoder and
  `ast.Record` cannot produce it) `partial` reports the error of an entry that `Eval` never looks at.  The statements are
  therefore about expressions in which every record literal lists a key once.
  NOT PROVED
    * agreement of error-ness at policy level (see above).
    * independence of the residual from the ignored parts (the residual is evaluated under the same value of the
      ignored part in `C06_partial_ignore_widens_partial`); the direct oracle evaluates it under the batch placeholder too.
-/
import CedarGo.Model.Partial
import CedarGoProofs.Lemmas.C06
import CedarGoProofs.Lemmas.C06Policy
namespace CedarGo

/-! ## the former counterexamples (regression) -/

def ceBase : Env :=
  { entities := [], principal := .entity "User" "a", action := .entity "Action" "a", resource := .entity "Doc" "a",
    context := .record [] }

def whenPolicy (body : Expr) : Policy := { effect := .permit, conditions := [(true, body)] }

/-- `permit(principal, action, resource) when { context.key && true };` with `context = {key: ?k}` -/
def ceStaleEnvHat : Env := { ceBase with context := .record [("key", mkVariable "k")] }
def ceStalePolicy : Policy := whenPolicy (.binop .and (.access (.var .context) "key") (.lit (.bool true)))
def ceStaleEnv : Env := { ceBase with context := .record [("key", .bool true)] }

/-- was `C06_stale_residual_counterexample` (`partialAnd` kept the node returned with `errVariable`, residual
    `{key: __cedar::variable::"k"}.key && true`, an error under `k := true`): the ORIGINAL operand is kept now, the
    residual is the policy itself and is satisfied under the completion. -/
example : partialPolicy ceStaleEnvHat ceStalePolicy = some ceStalePolicy := by rfl
example : satisfied ceStalePolicy ceStaleEnv = true := by decide +kernel

def ceStaleOr : Policy := whenPolicy (.binop .or (.access (.var .context) "key") (.lit (.bool false)))
def ceStaleIf : Policy := whenPolicy (.ite (.access (.var .context) "key") (.lit (.bool true)) (.lit (.bool false)))

/-- was `C06_stale_residual_or_if_counterexample` -/
example : partialPolicy ceStaleEnvHat ceStaleOr = some ceStaleOr ∧ partialPolicy ceStaleEnvHat ceStaleIf = some ceStaleIf :=
  ⟨by rfl, by rfl⟩

/-- `permit(principal, action, resource) when { context.s.contains(1) };` with `context = {s: [?x]}` -/
def ceTaintEnvHat : Env := { ceBase with context := .record [("s", .set [mkVariable "x"])] }
def ceTaintPolicy : Policy := whenPolicy (.binop .contains (.access (.var .context) "s") (.lit (.long 1)))
def ceTaintEnv : Env := { ceBase with context := .record [("s", .set [.long 1])] }

/-- was `C06_tainted_container_counterexample` (the policy was DROPPED although satisfied under `x := 1`): a set that
    merely contains an unknown is unknown to `contains`; the policy is kept unchanged. -/
example : partialPolicy ceTaintEnvHat ceTaintPolicy = some ceTaintPolicy := by rfl
example : satisfied ceTaintPolicy ceTaintEnv = true := by decide +kernel

def ceTaintRecEnvHat : Env := { ceBase with context := .record [("r", .record [("a", mkVariable "x")])] }
def ceTaintRecPolicy : Policy := whenPolicy (.binop .eq (.access (.var .context) "r") (.lit (.record [("a", .long 1)])))

/-- was `C06_tainted_record_counterexample`: `context.r == {a: 1}` with `context = {r: {a: ?x}}` is kept -/
example : partialPolicy ceTaintRecEnvHat ceTaintRecPolicy = some ceTaintRecPolicy := by rfl

/-- attribute access still looks inside: `context.r.a == 1` is kept with the SAME residual (nothing to fold, `?x` unknown),
    while `context.r has a` folds to `true` and the condition disappears -/
example : (partialPolicy ceTaintRecEnvHat (whenPolicy (.has (.access (.var .context) "r") "a"))).map (·.conditions.length) = some 0 := by
  decide +kernel

/-- `permit(principal, action, resource) when { !(principal is Doc in context.missing) };` with `principal = ?p` -/
def ceIsInEnvHat : Env := { ceBase with principal := mkVariable "p" }
def ceIsInPolicy : Policy :=
  whenPolicy (.unop .not (.isIn (.var .principal) "Doc" (.access (.var .context) "missing")))

/-- was `C06_isin_eager_counterexample` (the error of the right operand escaped, residual `__cedar::partialError`): the
    error node now sits INSIDE the `is … in`, behind the type test, and the residual is satisfied for `p := User::"a"`. -/
example : partialPolicy ceIsInEnvHat ceIsInPolicy =
    some (whenPolicy (.unop .not (.isIn (.var .principal) "Doc" extError))) := by rfl
example : satisfied ceIsInPolicy ceBase = true ∧
    satisfied (whenPolicy (.unop .not (.isIn (.var .principal) "Doc" extError))) ceBase = true := by
  refine ⟨by decide +kernel, by decide +kernel⟩

/-! ## soundness -/

/-- Expression level, FULL STRENGTH.  `Sound γ env e r` (Lemmas/C06.lean; `γ = Value.substAll σ` completes the unknowns
    inside a value) unfolds to:
      r = (lit v, nil)      ⇒  eval e env = v, or v is not itself an unknown and eval e env = v with its unknowns completed by σ
      r = (e', nil)         ⇒  eval e' env and eval e env are the same value, or both are errors
      r = (_, errVariable)  ⇒  (nothing: every consumer keeps the original `e`)
      r = (nil, errIgnore)  ⇒  (nothing: ignore markers only promise widening)
      r = (nil, err)        ⇒  eval e env is an error
    for the completed environment `env = completeEnv σ envHat`, for EVERY expression, environment and σ. -/
theorem C06_partialE_sound (σ : String → Value) (envHat : Env) (e : Expr) (hk : e.recKeysDistinct = true) :
    Sound (Value.substAll σ) (completeEnv σ envHat) e (partialE envHat e) :=
  partialE_sound (completesVia_complete σ envHat) e hk

/-- a residual expression agrees with the original: same value, or both fail -/
theorem C06_partialE_residual_agrees (σ : String → Value) (envHat : Env) (e e' : Expr) (hk : e.recKeysDistinct = true)
    (hl : e'.isLit = false) (h : partialE envHat e = .ok e') :
    R (eval e' (completeEnv σ envHat)) (eval e (completeEnv σ envHat)) := by
  have := C06_partialE_sound σ envHat e hk
  rw [h] at this
  exact (Sound.ok_nonlit hl).mp this

/-- Kept ⇒ the residual is satisfied under the completed environment exactly when the original is.
    EVERY policy; `partialDomain envHat p` = no ignore marker is met (the property's premise for this clause). -/
theorem C06_partial_keep_sound_partial (envHat env : Env) (p r : Policy)
    (hc : Completes envHat env) (hd : partialDomain envHat p = true) (hk : partialPolicy envHat p = some r) :
    satisfied r env = satisfied p env := by
  obtain ⟨σ, _, rfl⟩ := hc
  have := partialPolicy_sound σ envHat p hd
  rw [hk] at this
  exact this

/-- Dropped ⇒ the original is not satisfied under any completion.  EVERY policy; same premise. -/
theorem C06_partial_drop_sound_partial (envHat env : Env) (p : Policy)
    (hc : Completes envHat env) (hd : partialDomain envHat p = true) (hk : partialPolicy envHat p = none) :
    satisfied p env = false := by
  obtain ⟨σ, _, rfl⟩ := hc
  have := partialPolicy_sound σ envHat p hd
  rw [hk] at this
  exact this

/-- why `Expr.recKeysDistinct` is a hypothesis: a hand-written record node that repeats a key.  `partial` visits both
    elements and reports the type error of the first; `Eval` evaluates the map built by `ToEval`, where the second entry
    has replaced the first, and yields `{a: 2}` (replayed on the Go code: `Eval` gives the value, the residual of
    `PartialPolicy` an error).  No parser, decoder or builder produces such a node. -/
def dupKeyRecord : Expr := .record [("a", .binop .add (.lit (.long 1)) (.lit (.str "x"))), ("a", .lit (.long 2))]
example : dupKeyRecord.recKeysDistinct = false ∧
    (match partialE ceBase dupKeyRecord with | .err _ => true | _ => false) = true ∧
    (match eval dupKeyRecord ceBase with | .ok (.record [("a", .long 2)]) => true | _ => false) = true := by
  refine ⟨by decide +kernel, by decide +kernel, by decide +kernel⟩

/-- the former counterexamples satisfy the premise and hence the theorems; spelled out for their completions -/
theorem C06_former_counterexamples_sound :
    partialDomain ceStaleEnvHat ceStalePolicy = true ∧ partialDomain ceTaintEnvHat ceTaintPolicy = true ∧
      partialDomain ceTaintRecEnvHat ceTaintRecPolicy = true ∧ partialDomain ceIsInEnvHat ceIsInPolicy = true ∧
      (∀ r, partialPolicy ceStaleEnvHat ceStalePolicy = some r → satisfied r ceStaleEnv = satisfied ceStalePolicy ceStaleEnv) ∧
      (∀ r, partialPolicy ceTaintEnvHat ceTaintPolicy = some r → satisfied r ceTaintEnv = satisfied ceTaintPolicy ceTaintEnv) ∧
      (∀ r, partialPolicy ceIsInEnvHat ceIsInPolicy = some r → satisfied r ceBase = satisfied ceIsInPolicy ceBase) := by
  have d1 : partialDomain ceStaleEnvHat ceStalePolicy = true := by decide +kernel
  have d2 : partialDomain ceTaintEnvHat ceTaintPolicy = true := by decide +kernel
  have d3 : partialDomain ceTaintRecEnvHat ceTaintRecPolicy = true := by decide +kernel
  have d4 : partialDomain ceIsInEnvHat ceIsInPolicy = true := by decide +kernel
  refine ⟨d1, d2, d3, d4, ?_, ?_, ?_⟩
  · intro r hr
    exact C06_partial_keep_sound_partial _ _ _ _ ⟨fun _ => .bool true, fun _ => rfl, rfl⟩ d1 hr
  · intro r hr
    exact C06_partial_keep_sound_partial _ _ _ _ ⟨fun _ => .long 1, fun _ => rfl, rfl⟩ d2 hr
  · intro r hr
    exact C06_partial_keep_sound_partial _ _ _ _ ⟨fun _ => .entity "User" "a", fun _ => rfl, rfl⟩ d4 hr

/-- non-vacuity: policies that use unknown positions (an unknown principal in scope and condition, an unknown nested in
    the context compared, tested with `has`, used in arithmetic and under `&&` / `||` / `if`) satisfy the premise,
    are kept, and have a non-trivial residual. -/
def nvEnvHat : Env :=
  { ceBase with principal := mkVariable "p", context := .record [("n", mkVariable "x"), ("r", .record [("k", mkVariable "x")])] }
def nvPolicy : Policy :=
  { effect := .forbid, principal := .is "User",
    conditions := [
      (true, .binop .and (.binop .lt (.binop .add (.access (.var .context) "n") (.lit (.long 1))) (.lit (.long 3)))
                         (.binop .or (.binop .eq (.var .principal) (.lit (.entity "User" "a"))) (.has (.access (.var .context) "r") "k"))),
      (false, .ite (.binop .eq (.access (.access (.var .context) "r") "k") (.lit (.long 2))) (.lit (.bool true)) (.lit (.bool false)))] }

theorem C06_domain_nonvacuous :
    partialDomain nvEnvHat nvPolicy = true ∧ (partialPolicy nvEnvHat nvPolicy).isSome = true := by
  refine ⟨by decide +kernel, by decide +kernel⟩

example : Completes nvEnvHat (completeEnv (fun x => if x == "p" then .entity "User" "a" else .long 1) nvEnvHat) :=
  ⟨_, by intro x; split <;> rfl, rfl⟩

/-! ## ignored parts -/

/-- `env` completes a partial environment that may have ignored request parts: unknowns are completed by some `σ`,
    every ignored part gets some value (`ι`) -/
def CompletesI (envHat env : Env) : Prop :=
  ∃ (σ : String → Value) (ι : Var → Value), env = completeEnvI σ ι envHat

/-- Ignoring only widens what permits allow.  Full statement: for a permit policy, if the original is satisfied for
    at least one value of the ignored parts then the policy is kept and its residual is satisfied (for ANY value of the
    ignored parts, in particular the placeholder `__cedar::unknown` that batch uses).
    Proved here for EVERY permit policy and environment (ignore markers allowed anywhere): kept, and the residual is
    satisfied under the SAME values of the ignored parts.  Not proved: that the residual's value does not depend on the
    ignored parts at all (the oracle evaluates the residual under both the witness value and the batch placeholder). -/
theorem C06_partial_ignore_widens_partial (envHat env : Env) (p : Policy) (hk : p.recKeysDistinct = true)
    (hc : CompletesI envHat env) (hperm : p.effect = .permit)
    (hsat : satisfied p env = true) :
    ∃ r, partialPolicy envHat p = some r ∧ satisfied r env = true := by
  obtain ⟨σ, ι, rfl⟩ := hc
  exact partialPolicy_widen σ ι envHat p hk hperm hsat

/-- non-vacuity: principal ignored, an unknown in the context; the scope clause and the condition on the principal
    disappear, the condition on the unknown stays -/
def igEnvHat : Env := { ceBase with principal := mkIgnore, context := .record [("n", mkVariable "x")] }
def igPolicy : Policy :=
  { effect := .permit, principal := .eq ("User", "a"),
    conditions := [(true, .binop .eq (.access (.var .principal) "dept") (.lit (.str "x"))),
                   (true, .binop .lt (.access (.var .context) "n") (.lit (.long 3)))] }

example : (partialPolicy igEnvHat igPolicy).map (fun r => (r.principal.isAll, r.conditions.length)) = some (true, 1) := by
  decide +kernel

end CedarGo
