/-
  C05 — Batch authorization equals brute-force authorization of every substitution.

  Model: `CedarGo/Model/Batch.lean` (`cloneSub`, `Value.subst`, `doBatch`, `batchAuthorize`), tied to
  `x/exp/batch/batch.go` by the correspondence ops `clonesub` and `batch` (whole enumeration: staged partial
  evaluation, substitution, final authorization).

  PROVED here
    * `C05_subst_complete`               — the specification (`Value.subst`) really removes every occurrence.
    * `C05_cloneSub_is_subst`            — `cloneSub` IS full substitution on EVERY value and its change flag is
                                           exactly "the variable occurs" (full strength since the repair of
                                           `clonesub-second-occurrence`; the former counterexample `{a: ?x, b: ?x}` is a
                                           regression `example` now); `C05_cloneSub_complete`: no occurrence survives.
    * `C05_cloneSubEnv_is_substEnv`      — the same for the four request parts.
    * `C05_batch_is_fold_over_product`   — the recursive enumeration is a left-to-right pass over the Cartesian product
                                           (the `trace`), consulting the cancellation oracle before and the callback at
                                           every element, stopping at the first failure.
    * `C05_batch_calls_eq_product`       — no cancellation, callback never fails, every substituted request well-typed:
                                           the callback is invoked exactly once per element of the product, in order, with
                                           that substitution (`values`) and with the FULLY substituted request
                                           (`C05_batch_requests_fully_substituted`).
    * `C05_batch_stops_at_first_failure` — if the callback fails at its (k+1)-th invocation the run returns that error
                                           after exactly k+1 invocations; if the context is cancelled once k invocations
                                           have been made the run returns `cancelled` after exactly k invocations.
    * `C05_batch_decision_eq_direct_partial` — every result's decision and reasons (list of ids and positions) equal the
                                           ordinary authorizer's on the fully substituted request, for EVERY policy set
                                           and template, under the premise that no ignore marker is met at any
                                           enumeration level (`runDomain`, decidable): C06's soundness — which since the
                                           repairs of partial.go holds for every policy — composed level by level.
    * `C05_batch_eq_brute_force_partial`   — all of the above in one statement for a run without callback failure /
                                           cancellation.
  NOT PROVED: the premise is expressed through the model's partial evaluator (`runDomain`) rather than on the inputs;
  the diagnostic's error list is not compared (the property does not ask); ignored parts are left to the direct
  oracle's weak (widening) check.  The direct oracle (harness/cmd/vh/c05.go) decides the full statement on the
  implementation.
-/
import CedarGo.Model.Batch
import CedarGoProofs.Lemmas.C05
import CedarGoProofs.Lemmas.C05Decision
namespace CedarGo

/-! ## substitution -/

/-- the former witness of `clonesub-second-occurrence`: context `{a: ?x, b: ?x}`, `x := 1` -/
def c05CeValue : Value := .record [("a", mkVariable "x"), ("b", mkVariable "x")]

/-- regression (was `C05_cloneSub_counterexample` before the repair of `cloneSub`: only the first field was
    replaced and `b` kept the marker entity): every occurrence is replaced now. -/
example : (cloneSub "x" (.long 1) c05CeValue).1.beq (.record [("a", .long 1), ("b", .long 1)]) = true ∧
    (cloneSub "x" (.long 1) c05CeValue).2 = true := by decide +kernel
example : ((cloneSub "x" (.long 1) c05CeValue).1).hasVar "x" = false := by decide +kernel
/-- a variable twice in a record nested in a set, and in a nested record -/
example : (cloneSub "x" (.long 1)
      (.record [("r", .record [("a", mkVariable "x"), ("b", .set [mkVariable "x"])]),
                ("rs", .set [.record [("a", mkVariable "x"), ("b", mkVariable "x"), ("c", mkVariable "y")]])])).1.beq
    (.record [("r", .record [("a", .long 1), ("b", .set [.long 1])]),
              ("rs", .set [.record [("a", .long 1), ("b", .long 1), ("c", mkVariable "y")]])]) = true := by
  decide +kernel

/-- the specification side: full substitution by a variable-free value leaves no occurrence of the variable -/
theorem C05_subst_complete (k : String) (v r : Value) (hv : v.hasVar k = false) :
    (Value.subst k v r).hasVar k = false :=
  subst_complete k v hv r

/-- `cloneSub` IS full substitution, on every value, and its change flag is exactly "the variable occurs". -/
theorem C05_cloneSub_is_subst (k : String) (v r : Value) :
    cloneSub k v r = (Value.subst k v r, r.hasVar k) :=
  cloneSub_eq_subst k v r

/-- hence no occurrence of the variable survives `cloneSub` -/
theorem C05_cloneSub_complete (k : String) (v r : Value) (hv : v.hasVar k = false) :
    ((cloneSub k v r).1).hasVar k = false := by
  rw [cloneSub_eq_subst]; exact subst_complete k v hv r

theorem C05_cloneSubEnv_is_substEnv (k : String) (v : Value) (env : Env) :
    cloneSubEnv k v env = substEnv k v env := by
  simp [cloneSubEnv, substEnv, cloneSub_eq_subst]

/-! ## enumeration -/

/-- The recursive enumeration equals one pass over the product trace. -/
theorem C05_batch_is_fold_over_product {ε : Type} (cancelled : Nat → Bool) (cb : BResult → Except ε Unit)
    (vars : List (String × List Value)) (env : Env) (ps : List (PolicyID × Policy))
    (vals : List (String × Value)) (calls : List BResult) (hne : ∀ kv ∈ vars, kv.2 ≠ []) :
    doBatch cancelled cb vars env ps vals calls = runTrace cancelled cb (trace vars env ps vals) calls :=
  doBatch_eq_runTrace cancelled cb vars env ps vals calls hne

/-- exactly once per element of the Cartesian product, in order, with the substitution used -/
theorem C05_batch_calls_eq_product {ε : Type} (cb : BResult → Except ε Unit)
    (vars : List (String × List Value)) (env : Env) (ps : List (PolicyID × Policy))
    (hne : ∀ kv ∈ vars, kv.2 ≠ [])
    (hcb : ∀ r, cb r = .ok ())
    (hvalid : ∀ o ∈ trace vars env ps [], o.2.isSome = true) :
    ∃ calls, doBatch (fun _ => false) cb vars env ps [] [] = .ok calls ∧
      calls.map (·.values) = product vars ∧
      calls.map some = (trace vars env ps []).map (·.2) := by
  rw [doBatch_eq_runTrace _ _ _ _ _ _ _ hne]
  obtain ⟨calls, h1, h2⟩ := runTrace_all_ok cb (trace vars env ps []) hcb hvalid
  refine ⟨calls, h1, ?_, h2⟩
  rw [values_of_trace _ _ h2 (trace_leaf_values vars env ps []), trace_substs]
  simp

/-- ... and with the FULLY substituted request: for a template without ignored parts (and value lists without ignore
    markers), the request of the result delivered for the substitution `σs` (in enumeration order) is the template in
    which every occurrence of every variable of `σs` has been replaced (`substMany` = successive `Value.subst`). -/
theorem C05_batch_requests_fully_substituted (vars : List (String × List Value)) (env : Env)
    (ps : List (PolicyID × Policy)) (hi : noIgnoredPart env = true)
    (hv : ∀ kv ∈ vars, ∀ v ∈ kv.2, v.isIgnore = false) :
    ∀ o ∈ trace vars env ps [], o.1.map (·.1) = vars.map (·.1) ∧ ∀ r, o.2 = some r →
      r.principal = substMany o.1 env.principal ∧ r.action = substMany o.1 env.action ∧
      r.resource = substMany o.1 env.resource ∧ r.context = substMany o.1 env.context := by
  intro o ho
  obtain ⟨σs, h1, h2, h3⟩ := trace_leaf_env vars env ps [] hi hv o ho
  have h1' : o.1 = σs := by simpa using h1
  subst h1'
  refine ⟨h2, fun r hr => ?_⟩
  obtain ⟨a, b, c, d⟩ := h3 r hr
  obtain ⟨pa, pb, pc, pd⟩ := substManyEnv_parts o.1 env
  exact ⟨a.trans pa, b.trans pb, c.trans pc, d.trans pd⟩

/-- the variable is gone from the request after its substitution (e.g. the former defect's witness) -/
example : (substMany [("x", .long 1)] c05CeValue).beq (.record [("a", .long 1), ("b", .long 1)]) = true := by
  decide +kernel

example : product [("x", [.long 1, .long 2]), ("y", [.bool true])] =
    [[("x", .long 1), ("y", .bool true)], [("x", .long 2), ("y", .bool true)]] := by rfl

/-- callback failure: the error is returned and exactly the invocations up to and including the failing one happened -/
theorem C05_batch_stops_at_first_failure {ε : Type} (cancelled : Nat → Bool) (cb : BResult → Except ε Unit)
    (vars : List (String × List Value)) (env : Env) (ps : List (PolicyID × Policy))
    (hne : ∀ kv ∈ vars, kv.2 ≠ []) (e : ε) (calls : List BResult)
    (h : doBatch cancelled cb vars env ps [] [] = .error (.callback e, calls)) :
    ∃ (pre : List BResult) (r : BResult) (rest : List (Option BResult)),
      calls = pre ++ [r] ∧ cb r = .error e ∧ (∀ x ∈ pre, cb x = .ok ()) ∧
      (trace vars env ps []).map (·.2) = pre.map some ++ [some r] ++ rest := by
  rw [doBatch_eq_runTrace _ _ _ _ _ _ _ hne] at h
  obtain ⟨pre, r, rest, h1, h2, h3, h4⟩ := runTrace_callback_error cancelled cb (trace vars env ps []) [] e calls h
  exact ⟨pre, r, rest.map (·.2), by simpa using h1, h2, h3, h4⟩

/-- cancellation: the run stops before the next invocation; exactly the invocations made so far are reported -/
theorem C05_batch_stops_when_cancelled {ε : Type} (cancelled : Nat → Bool) (cb : BResult → Except ε Unit)
    (vars : List (String × List Value)) (env : Env) (ps : List (PolicyID × Policy))
    (hne : ∀ kv ∈ vars, kv.2 ≠ []) (calls : List BResult)
    (h : doBatch cancelled cb vars env ps [] [] = .error (.cancelled, calls)) :
    cancelled calls.length = true ∧ (∀ x ∈ calls, cb x = .ok ()) ∧
      ∃ rest, (trace vars env ps []).map (·.2) = calls.map some ++ rest := by
  rw [doBatch_eq_runTrace _ _ _ _ _ _ _ hne] at h
  obtain ⟨hc, pre, rest, h1, h2, h3⟩ := runTrace_cancelled cancelled cb (trace vars env ps []) [] calls h
  have : calls = pre := by simpa using h1
  subst this
  exact ⟨hc, h2, rest.map (·.2), h3⟩

/-! ## decision and reasons -/

/-- Every result carries the decision and the reasons of the ordinary authorizer on ITS fully substituted request.
    Full statement: for every policy set, store and template.  Proved here under the premise that no ignore marker is
    met (`noIgnoredPart`, value lists without ignore markers, and `runDomain` = at no enumeration level does the partial
    evaluation of a condition report `errIgnore`; decidable) — the property promises equality only for templates with
    variables; ignored parts only widen (C06).  The proof is C06's policy-level soundness applied at every enumeration
    level: the final request completes EVERY level's template (`completion_substMany`), and `authorize` only looks at
    which policies are satisfied.  Reasons are equal as LISTS (ids and positions, in policy order); the errors of the
    diagnostic are not compared (error-ness is not preserved by partial evaluation, and the property does not ask). -/
theorem C05_batch_decision_eq_direct_partial (vars : List (String × List Value)) (env : Env)
    (ps : List (PolicyID × Policy)) (hi : noIgnoredPart env = true)
    (hv : ∀ kv ∈ vars, ∀ v ∈ kv.2, v.isIgnore = false) (hd : runDomain vars env ps = true) :
    ∀ o ∈ trace vars env ps [], ∀ r, o.2 = some r →
      r.allow = (authorize ps (substManyEnv o.1 env)).allow ∧
      r.reasons = (authorize ps (substManyEnv o.1 env)).reasons := by
  intro o ho r hr
  obtain ⟨σs, h1, h2⟩ := trace_decision vars env ps [] hi hv hd o ho
  have h1' : o.1 = σs := by simpa using h1
  subst h1'
  exact h2 r hr

/-- The whole statement for a run whose callback never fails and is never cancelled: exactly once per element of the
    product, with that substitution, the fully substituted request, and the ordinary authorizer's decision and reasons. -/
theorem C05_batch_eq_brute_force_partial {ε : Type} (cb : BResult → Except ε Unit)
    (vars : List (String × List Value)) (env : Env) (ps : List (PolicyID × Policy))
    (hne : ∀ kv ∈ vars, kv.2 ≠ []) (hcb : ∀ r, cb r = .ok ())
    (hvalid : ∀ o ∈ trace vars env ps [], o.2.isSome = true)
    (hi : noIgnoredPart env = true) (hv : ∀ kv ∈ vars, ∀ v ∈ kv.2, v.isIgnore = false)
    (hd : runDomain vars env ps = true) :
    ∃ calls, doBatch (fun _ => false) cb vars env ps [] [] = .ok calls ∧
      calls.map (·.values) = product vars ∧
      ∀ r ∈ calls,
        r.principal = substMany r.values env.principal ∧ r.action = substMany r.values env.action ∧
        r.resource = substMany r.values env.resource ∧ r.context = substMany r.values env.context ∧
        r.allow = (authorize ps (substManyEnv r.values env)).allow ∧
        r.reasons = (authorize ps (substManyEnv r.values env)).reasons := by
  obtain ⟨calls, h1, h2, h3⟩ := C05_batch_calls_eq_product cb vars env ps hne hcb hvalid
  refine ⟨calls, h1, h2, ?_⟩
  intro r hr
  have : some r ∈ (trace vars env ps []).map (·.2) := by rw [← h3]; exact List.mem_map_of_mem hr
  obtain ⟨o, ho, hor⟩ := List.mem_map.mp this
  have hval : r.values = o.1 := trace_leaf_values vars env ps [] o ho r hor
  obtain ⟨_, hreq⟩ := C05_batch_requests_fully_substituted vars env ps hi hv o ho
  obtain ⟨a, b, c, d⟩ := hreq r hor
  obtain ⟨e, f⟩ := C05_batch_decision_eq_direct_partial vars env ps hi hv hd o ho r hor
  rw [hval]
  exact ⟨a, b, c, d, e, f⟩

/-- non-vacuity: the former stale-residual witness through batch — `context.key && true`, `context = {key: ?k}`,
    `k ∈ [true, false]` — satisfies the premise, and the run allows exactly for `k = true` -/
example :
    let env : Env := { entities := [], principal := .entity "User" "a", action := .entity "Action" "a",
                       resource := .entity "Doc" "a", context := .record [("key", mkVariable "k")] }
    let ps : List (PolicyID × Policy) :=
      [("p0", { effect := .permit, conditions := [(true, .binop .and (.access (.var .context) "key") (.lit (.bool true)))] })]
    runDomain [("k", [.bool true, .bool false])] env ps = true ∧
      (trace [("k", [.bool true, .bool false])] env ps []).map (fun o => o.2.map (·.allow)) = [some true, some false] := by
  decide +kernel

end CedarGo
