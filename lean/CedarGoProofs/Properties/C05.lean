/-
  C05 — Batch authorization equals brute-force authorization of every substitution.

  Model: `CedarGo/Model/Batch.lean` (`cloneSub` with its defect, `Value.subst`, `doBatch`, `batchAuthorize`), tied to
  `x/exp/batch/batch.go` by the correspondence ops `clonesub` and `batch` (whole enumeration: staged partial
  evaluation, substitution, final authorization; the model reproduces the implementation's results INCLUDING the
  known defects).

  PROVED here
    * `C05_cloneSub_counterexample`      — the code's substitution leaves an occurrence of the variable behind
                                           (context `{a: ?x, b: ?x}`): the full property is false for the code as written.
    * `C05_subst_complete`               — the specification (`Value.subst`) really removes every occurrence.
    * `C05_cloneSub_is_subst_partial`    — on values in which every record has at most one field bearing the variable
                                           (`Value.oneBearing`), `cloneSub` IS full substitution and its change flag is
                                           exactly "the variable occurs".
    * `C05_cloneSubEnv_is_substEnv_partial` — the same for the four request parts.
    * `C05_batch_is_fold_over_product`   — the recursive enumeration is a left-to-right pass over the Cartesian product
                                           (the `trace`), consulting the cancellation oracle before and the callback at
                                           every element, stopping at the first failure.
    * `C05_batch_calls_eq_product_partial` — no cancellation, callback never fails, every substituted request well-typed:
                                           the callback is invoked exactly once per element of the product, in order, with
                                           that substitution (`values`) — and with the request obtained by `cloneSub`;
                                           together with `C05_cloneSub_is_subst_partial` this is the fully substituted
                                           request on the `oneBearing` domain.
    * `C05_batch_stops_at_first_failure` — if the callback fails at its (k+1)-th invocation the run returns that error
                                           after exactly k+1 invocations; if the context is cancelled once k invocations
                                           have been made the run returns `cancelled` after exactly k invocations.
  NOT PROVED (stated in the doc comment of `C05_batch_decision_eq_direct`): that each result's decision and reason
  set equal the ordinary authorizer's.  That is C06's soundness applied at every enumeration level; the code violates it
  outside C06's domain (see `C06_*_counterexample`), and inside it the level-by-level composition is not done here.
  The direct oracle (harness/cmd/vh/c05.go) decides exactly that statement on the implementation.
-/
import CedarGo.Model.Batch
import CedarGoProofs.Lemmas.C05
namespace CedarGo

/-! ## substitution -/

/-- witness: context `{a: ?x, b: ?x}`, `x := 1` -/
def c05CeValue : Value := .record [("a", mkVariable "x"), ("b", mkVariable "x")]

/-- `cloneSub` is NOT full substitution: after substituting `x` the value still contains `x`,
    whereas full substitution leaves none. -/
theorem C05_cloneSub_counterexample :
    ∃ (k : String) (v r : Value), v.hasVar k = false ∧
      ((cloneSub k v r).1).hasVar k = true ∧ (Value.subst k v r).hasVar k = false :=
  ⟨"x", .long 1, c05CeValue, by decide +kernel, by decide +kernel, by decide +kernel⟩

/-- the specification side: full substitution by a variable-free value leaves no occurrence of the variable -/
theorem C05_subst_complete (k : String) (v r : Value) (hv : v.hasVar k = false) :
    (Value.subst k v r).hasVar k = false :=
  subst_complete k v hv r

/-- Full statement (false for the code, see the counterexample): `∀ r, cloneSub k v r = (Value.subst k v r, r.hasVar k)`.
    Proved on the domain where every record has at most one field bearing the variable. -/
theorem C05_cloneSub_is_subst_partial (k : String) (v r : Value) (h : r.oneBearing k = true) :
    cloneSub k v r = (Value.subst k v r, r.hasVar k) :=
  cloneSub_eq_subst k v r h

example : c05CeValue.oneBearing "x" = false := by decide +kernel
example : (Value.record [("a", mkVariable "x"), ("b", mkVariable "y"), ("c", .set [mkVariable "x"])]).oneBearing "y" = true := by
  decide +kernel

theorem C05_cloneSubEnv_is_substEnv_partial (k : String) (v : Value) (env : Env)
    (hp : env.principal.oneBearing k = true) (ha : env.action.oneBearing k = true)
    (hr : env.resource.oneBearing k = true) (hc : env.context.oneBearing k = true) :
    cloneSubEnv k v env = substEnv k v env := by
  simp [cloneSubEnv, substEnv, cloneSub_eq_subst, hp, ha, hr, hc]

/-! ## enumeration -/

/-- The recursive enumeration equals one pass over the product trace. -/
theorem C05_batch_is_fold_over_product {ε : Type} (cancelled : Nat → Bool) (cb : BResult → Except ε Unit)
    (vars : List (String × List Value)) (env : Env) (ps : List (PolicyID × Policy))
    (vals : List (String × Value)) (calls : List BResult) (hne : ∀ kv ∈ vars, kv.2 ≠ []) :
    doBatch cancelled cb vars env ps vals calls = runTrace cancelled cb (trace vars env ps vals) calls :=
  doBatch_eq_runTrace cancelled cb vars env ps vals calls hne

/-- exactly once per element of the Cartesian product, in order, with the substitution used -/
theorem C05_batch_calls_eq_product_partial {ε : Type} (cb : BResult → Except ε Unit)
    (vars : List (String × List Value)) (env : Env) (ps : List (PolicyID × Policy))
    (hne : ∀ kv ∈ vars, kv.2 ≠ [])
    (hcb : ∀ r, cb r = .ok ())
    (hvalid : ∀ o ∈ trace vars env ps [], o.2.isSome = true) :
    ∃ calls, doBatch (fun _ => false) cb vars env ps [] [] = .ok calls ∧
      calls.map (·.values) = product vars ∧
      calls.map some = (trace vars env ps []).map (·.2) := by
  rw [doBatch_eq_runTrace _ _ _ _ _ _ _ hne]
  obtain ⟨calls, h1, h2⟩ := runTrace_all_ok cb (trace vars env ps []) hcb hvalid
  refine ⟨calls, h1, ?_, h2⟩
  rw [values_of_trace _ _ h2 (trace_leaf_values vars env ps []), trace_substs]
  simp

example : product [("x", [.long 1, .long 2]), ("y", [.bool true])] =
    [[("x", .long 1), ("y", .bool true)], [("x", .long 2), ("y", .bool true)]] := by rfl

/-- callback failure: the error is returned and exactly the invocations up to and including the failing one happened -/
theorem C05_batch_stops_at_first_failure {ε : Type} (cancelled : Nat → Bool) (cb : BResult → Except ε Unit)
    (vars : List (String × List Value)) (env : Env) (ps : List (PolicyID × Policy))
    (hne : ∀ kv ∈ vars, kv.2 ≠ []) (e : ε) (calls : List BResult)
    (h : doBatch cancelled cb vars env ps [] [] = .error (.callback e, calls)) :
    ∃ (pre : List BResult) (r : BResult) (rest : List (Option BResult)),
      calls = pre ++ [r] ∧ cb r = .error e ∧ (∀ x ∈ pre, cb x = .ok ()) ∧
      (trace vars env ps []).map (·.2) = pre.map some ++ [some r] ++ rest := by
  rw [doBatch_eq_runTrace _ _ _ _ _ _ _ hne] at h
  obtain ⟨pre, r, rest, h1, h2, h3, h4⟩ := runTrace_callback_error cancelled cb (trace vars env ps []) [] e calls h
  exact ⟨pre, r, rest.map (·.2), by simpa using h1, h2, h3, h4⟩

/-- cancellation: the run stops before the next invocation; exactly the invocations made so far are reported -/
theorem C05_batch_stops_when_cancelled {ε : Type} (cancelled : Nat → Bool) (cb : BResult → Except ε Unit)
    (vars : List (String × List Value)) (env : Env) (ps : List (PolicyID × Policy))
    (hne : ∀ kv ∈ vars, kv.2 ≠ []) (calls : List BResult)
    (h : doBatch cancelled cb vars env ps [] [] = .error (.cancelled, calls)) :
    cancelled calls.length = true ∧ (∀ x ∈ calls, cb x = .ok ()) ∧
      ∃ rest, (trace vars env ps []).map (·.2) = calls.map some ++ rest := by
  rw [doBatch_eq_runTrace _ _ _ _ _ _ _ hne] at h
  obtain ⟨hc, pre, rest, h1, h2, h3⟩ := runTrace_cancelled cancelled cb (trace vars env ps []) [] calls h
  have : calls = pre := by simpa using h1
  subst this
  exact ⟨hc, h2, rest.map (·.2), h3⟩

/- `C05_batch_decision_eq_direct` (NOT proved; decided on the implementation by the direct oracle):
     for every call `r` of a run, `r.allow` and the set of `r.reasons` ids equal
     `authorize ps (the fully substituted request)`.
   False for the code as written outside C06's domain: `C06_stale_residual_counterexample`,
   `C06_tainted_container_counterexample`, `C06_isin_eager_counterexample`. -/

end CedarGo
