/-
  C05 — Batch authorization equals brute-force authorization of every substitution.

  Model: `CedarGo/Model/Batch.lean` (`cloneSub`, `Value.subst`, `doBatch`, `batchAuthorize`), tied to
  `x/exp/batch/batch.go` by the correspondence ops `clonesub` and `batch` (whole enumeration: staged partial
  evaluation, substitution, final authorization).

  PROVED here
    * `C05_subst_complete`               — the specification (`Value.subst`) really removes every occurrence.
    * `C05_cloneSub_is_subst`            — `cloneSub` IS full substitution on EVERY value and its change flag is
                                           exactly "the variable occurs" (full strength since the repair of
                                           `clonesub-second-occurrence`; the former counterexample `{a: ?x, b: ?x}` is a
                                           regression `example` now); `C05_cloneSub_complete`: no occurrence survives.
    * `C05_cloneSubEnv_is_substEnv`      — the same for the four request parts.
    * `C05_batch_is_fold_over_product`   — the recursive enumeration is a left-to-right pass over the Cartesian product
                                           (the `trace`), consulting the cancellation oracle before and the callback at
                                           every element, stopping at the first failure.
    * `C05_batch_calls_eq_product`       — no cancellation, callback never fails, every substituted request well-typed:
                                           the callback is invoked exactly once per element of the product, in order, with
                                           that substitution (`values`) and with the FULLY substituted request
                                           (`C05_batch_requests_fully_substituted`).
    * `C05_batch_stops_at_first_failure` — if the callback fails at its (k+1)-th invocation the run returns that error
                                           after exactly k+1 invocations; if the context is cancelled once k invocations
                                           have been made the run returns `cancelled` after exactly k invocations.
    * `C05_runDomain_of_inputs`          — the INPUT-level premises imply the model-level one: for a template and store
                                           without ignore markers (`noIgnoreInput`), value lists without ignore markers and
                                           policies without ignore markers in their literals and with distinct record keys
                                           (`Policy.noIgnoreLits`, `Policy.recKeysDistinct`), no ignore marker is met at any
                                           level of the enumeration (`runDomain`).  The invariant of Lemmas/C06Inv.lean
                                           (partial evaluation of ignore-free inputs never answers `errIgnore`, residuals
                                           are again ignore-free with distinct keys) carried down the enumeration.
    * `C05_batch_decision_eq_direct`     — FULL: every result's decision and reasons (list of ids and positions) equal
                                           the ordinary authorizer's on the fully substituted request, for EVERY policy
                                           set, store and template satisfying the input-level premises above: C06's
                                           soundness composed level by level.
    * `C05_batch_eq_brute_force`         — all of the above in one statement for a run without callback failure /
                                           cancellation: exactly once per element of the product, in order, with that
                                           substitution, the fully substituted request, and `authorize`'s decision and
                                           reasons on it.  The premise "every request is well-typed" is stated on the
                                           inputs too (`requestTyped (substManyEnv σs env)` for every σs of the product).
    * `C05_batchAuthorize_eq_brute_force` — the same for the entry point `batch.Authorize` (which treats the template
                                           without variables separately: one partial evaluation, one leaf).
  NOT PROVED: the diagnostic's error list is not compared (the property does not ask; C06 shows error-NESS agrees per
  policy: `C06_partial_keep_errors_agree`); templates with ignored parts are left to C06's widening clause
  (`C06_partial_ignore_widens`) and the direct oracle.  The direct oracle (harness/cmd/vh/c05.go) decides the full
  statement on the implementation.
  On `noIgnoreInput` (no ignore marker at ANY depth): it cannot be weakened to "no ignored request PART".  The
  statements here claim EQUALITY with the ordinary authorizer; as soon as evaluation meets a marker — a request part or,
  since the repair of `nested-ignore-consumed-whole`, a record / set that merely contains one (`PR.whole`) — batch
  deliberately answers for the WIDENED policy set instead.  Before that repair such a value was compared whole as a
  known value and batch could answer Deny where the ordinary authorizer allows (`context.ls.contains(5)` with
  `ls = [1, ignore]`: regression examples in Properties/C06.lean; table cases `nested-ignore` of the C05 / C06 harness).
-/
import CedarGo.Model.Batch
import CedarGoProofs.Lemmas.C05
import CedarGoProofs.Lemmas.C05Decision
import CedarGoProofs.Lemmas.C05Full
namespace CedarGo

/-! ## substitution -/

/-- the former witness of `clonesub-second-occurrence`: context `{a: ?x, b: ?x}`, `x := 1` -/
def c05CeValue : Value := .record [("a", mkVariable "x"), ("b", mkVariable "x")]

/-- regression (was `C05_cloneSub_counterexample` before the repair of `cloneSub`: only the first field was
    replaced and `b` kept the marker entity): every occurrence is replaced now. -/
example : (cloneSub "x" (.long 1) c05CeValue).1.beq (.record [("a", .long 1), ("b", .long 1)]) = true ∧
    (cloneSub "x" (.long 1) c05CeValue).2 = true := by decide +kernel
example : ((cloneSub "x" (.long 1) c05CeValue).1).hasVar "x" = false := by decide +kernel
/-- a variable twice in a record nested in a set, and in a nested record -/
example : (cloneSub "x" (.long 1)
      (.record [("r", .record [("a", mkVariable "x"), ("b", .set [mkVariable "x"])]),
                ("rs", .set [.record [("a", mkVariable "x"), ("b", mkVariable "x"), ("c", mkVariable "y")]])])).1.beq
    (.record [("r", .record [("a", .long 1), ("b", .set [.long 1])]),
              ("rs", .set [.record [("a", .long 1), ("b", .long 1), ("c", mkVariable "y")]])]) = true := by
  decide +kernel

/-- the specification side: full substitution by a variable-free value leaves no occurrence of the variable -/
theorem C05_subst_complete (k : String) (v r : Value) (hv : v.hasVar k = false) :
    (Value.subst k v r).hasVar k = false :=
  subst_complete k v hv r

/-- `cloneSub` IS full substitution, on every value, and its change flag is exactly "the variable occurs". -/
theorem C05_cloneSub_is_subst (k : String) (v r : Value) :
    cloneSub k v r = (Value.subst k v r, r.hasVar k) :=
  cloneSub_eq_subst k v r

/-- hence no occurrence of the variable survives `cloneSub` -/
theorem C05_cloneSub_complete (k : String) (v r : Value) (hv : v.hasVar k = false) :
    ((cloneSub k v r).1).hasVar k = false := by
  rw [cloneSub_eq_subst]; exact subst_complete k v hv r

theorem C05_cloneSubEnv_is_substEnv (k : String) (v : Value) (env : Env) :
    cloneSubEnv k v env = substEnv k v env := by
  simp [cloneSubEnv, substEnv, cloneSub_eq_subst]

/-! ## enumeration -/

/-- The recursive enumeration equals one pass over the product trace. -/
theorem C05_batch_is_fold_over_product {ε : Type} (cancelled : Nat → Bool) (cb : BResult → Except ε Unit)
    (vars : List (String × List Value)) (env : Env) (ps : List (PolicyID × Policy))
    (vals : List (String × Value)) (calls : List BResult) (hne : ∀ kv ∈ vars, kv.2 ≠ []) :
    doBatch cancelled cb vars env ps vals calls = runTrace cancelled cb (trace vars env ps vals) calls :=
  doBatch_eq_runTrace cancelled cb vars env ps vals calls hne

/-- exactly once per element of the Cartesian product, in order, with the substitution used -/
theorem C05_batch_calls_eq_product {ε : Type} (cb : BResult → Except ε Unit)
    (vars : List (String × List Value)) (env : Env) (ps : List (PolicyID × Policy))
    (hne : ∀ kv ∈ vars, kv.2 ≠ [])
    (hcb : ∀ r, cb r = .ok ())
    (hvalid : ∀ o ∈ trace vars env ps [], o.2.isSome = true) :
    ∃ calls, doBatch (fun _ => false) cb vars env ps [] [] = .ok calls ∧
      calls.map (·.values) = product vars ∧
      calls.map some = (trace vars env ps []).map (·.2) := by
  rw [doBatch_eq_runTrace _ _ _ _ _ _ _ hne]
  obtain ⟨calls, h1, h2⟩ := runTrace_all_ok cb (trace vars env ps []) hcb hvalid
  refine ⟨calls, h1, ?_, h2⟩
  rw [values_of_trace _ _ h2 (trace_leaf_values vars env ps []), trace_substs]
  simp

/-- ... and with the FULLY substituted request: for a template without ignored parts (and value lists without ignore
    markers), the request of the result delivered for the substitution `σs` (in enumeration order) is the template in
    which every occurrence of every variable of `σs` has been replaced (`substMany` = successive `Value.subst`). -/
theorem C05_batch_requests_fully_substituted (vars : List (String × List Value)) (env : Env)
    (ps : List (PolicyID × Policy)) (hi : noIgnoredPart env = true)
    (hv : ∀ kv ∈ vars, ∀ v ∈ kv.2, v.isIgnore = false) :
    ∀ o ∈ trace vars env ps [], o.1.map (·.1) = vars.map (·.1) ∧ ∀ r, o.2 = some r →
      r.principal = substMany o.1 env.principal ∧ r.action = substMany o.1 env.action ∧
      r.resource = substMany o.1 env.resource ∧ r.context = substMany o.1 env.context := by
  intro o ho
  obtain ⟨σs, h1, h2, h3⟩ := trace_leaf_env vars env ps [] hi hv o ho
  have h1' : o.1 = σs := by simpa using h1
  subst h1'
  refine ⟨h2, fun r hr => ?_⟩
  obtain ⟨a, b, c, d⟩ := h3 r hr
  obtain ⟨pa, pb, pc, pd⟩ := substManyEnv_parts o.1 env
  exact ⟨a.trans pa, b.trans pb, c.trans pc, d.trans pd⟩

/-- the variable is gone from the request after its substitution (e.g. the former defect's witness) -/
example : (substMany [("x", .long 1)] c05CeValue).beq (.record [("a", .long 1), ("b", .long 1)]) = true := by
  decide +kernel

example : product [("x", [.long 1, .long 2]), ("y", [.bool true])] =
    [[("x", .long 1), ("y", .bool true)], [("x", .long 2), ("y", .bool true)]] := by rfl

/-- callback failure: the error is returned and exactly the invocations up to and including the failing one happened -/
theorem C05_batch_stops_at_first_failure {ε : Type} (cancelled : Nat → Bool) (cb : BResult → Except ε Unit)
    (vars : List (String × List Value)) (env : Env) (ps : List (PolicyID × Policy))
    (hne : ∀ kv ∈ vars, kv.2 ≠ []) (e : ε) (calls : List BResult)
    (h : doBatch cancelled cb vars env ps [] [] = .error (.callback e, calls)) :
    ∃ (pre : List BResult) (r : BResult) (rest : List (Option BResult)),
      calls = pre ++ [r] ∧ cb r = .error e ∧ (∀ x ∈ pre, cb x = .ok ()) ∧
      (trace vars env ps []).map (·.2) = pre.map some ++ [some r] ++ rest := by
  rw [doBatch_eq_runTrace _ _ _ _ _ _ _ hne] at h
  obtain ⟨pre, r, rest, h1, h2, h3, h4⟩ := runTrace_callback_error cancelled cb (trace vars env ps []) [] e calls h
  exact ⟨pre, r, rest.map (·.2), by simpa using h1, h2, h3, h4⟩

/-- cancellation: the run stops before the next invocation; exactly the invocations made so far are reported -/
theorem C05_batch_stops_when_cancelled {ε : Type} (cancelled : Nat → Bool) (cb : BResult → Except ε Unit)
    (vars : List (String × List Value)) (env : Env) (ps : List (PolicyID × Policy))
    (hne : ∀ kv ∈ vars, kv.2 ≠ []) (calls : List BResult)
    (h : doBatch cancelled cb vars env ps [] [] = .error (.cancelled, calls)) :
    cancelled calls.length = true ∧ (∀ x ∈ calls, cb x = .ok ()) ∧
      ∃ rest, (trace vars env ps []).map (·.2) = calls.map some ++ rest := by
  rw [doBatch_eq_runTrace _ _ _ _ _ _ _ hne] at h
  obtain ⟨hc, pre, rest, h1, h2, h3⟩ := runTrace_cancelled cancelled cb (trace vars env ps []) [] calls h
  have : calls = pre := by simpa using h1
  subst this
  exact ⟨hc, h2, rest.map (·.2), h3⟩

/-! ## decision and reasons -/

/-- The model-level premise of the decision theorem ("no ignore marker is met at any enumeration level", `runDomain`)
    follows from structural premises on the INPUTS: no ignore marker in the template or the store, in the value lists, in
    the literals of the policies; record literals with distinct keys. -/
theorem C05_runDomain_of_inputs (vars : List (String × List Value)) (env : Env) (ps : List (PolicyID × Policy))
    (hE : noIgnoreInput env = true) (hv : ∀ kv ∈ vars, ∀ v ∈ kv.2, v.hasIgnore = false)
    (hp : ∀ ip ∈ ps, ip.2.noIgnoreLits = true ∧ ip.2.recKeysDistinct = true) :
    noIgnoredPart env = true ∧ runDomain vars env ps = true :=
  ⟨noIgnoredPart_of_inputs hE, runDomain_of_inputs vars env ps hE hv hp⟩

/-- Every result carries the decision and the reasons of the ordinary authorizer on ITS fully substituted request.
    FULL: for every policy set, store and template — without ignore markers (the property promises equality for templates
    with variables; ignored parts only widen: C06) and with record literals that list a key once.  The proof is C06's
    policy-level soundness applied at every enumeration level: the final request completes EVERY level's template
    (`completion_substMany`), the residual policies of a level satisfy the premises again (`partialPolicy_good`), and
    `authorize` only looks at which policies are satisfied.  Reasons are equal as LISTS (ids and positions, in policy
    order); the errors of the diagnostic are not compared (the property does not ask). -/
theorem C05_batch_decision_eq_direct (vars : List (String × List Value)) (env : Env)
    (ps : List (PolicyID × Policy)) (hE : noIgnoreInput env = true)
    (hv : ∀ kv ∈ vars, ∀ v ∈ kv.2, v.hasIgnore = false)
    (hp : ∀ ip ∈ ps, ip.2.noIgnoreLits = true ∧ ip.2.recKeysDistinct = true) :
    ∀ o ∈ trace vars env ps [], ∀ r, o.2 = some r →
      r.allow = (authorize ps (substManyEnv o.1 env)).allow ∧
      r.reasons = (authorize ps (substManyEnv o.1 env)).reasons := by
  intro o ho r hr
  obtain ⟨σs, h1, h2⟩ := trace_decision vars env ps [] (noIgnoredPart_of_inputs hE)
    (fun kv hkv v hvm => isIgnore_of_hasIgnore (hv kv hkv v hvm)) (runDomain_of_inputs vars env ps hE hv hp) o ho
  have h1' : o.1 = σs := by simpa using h1
  subst h1'
  exact h2 r hr

/-- The whole statement for a run whose callback never fails and is never cancelled: exactly once per element of the
    product, with that substitution, the fully substituted request, and the ordinary authorizer's decision and reasons.
    Every hypothesis is about the inputs: non-empty value lists, every substituted request well-typed (entities for
    principal / action / resource, a record for the context), no ignore markers, distinct record keys. -/
theorem C05_batch_eq_brute_force {ε : Type} (cb : BResult → Except ε Unit)
    (vars : List (String × List Value)) (env : Env) (ps : List (PolicyID × Policy))
    (hne : ∀ kv ∈ vars, kv.2 ≠ []) (hcb : ∀ r, cb r = .ok ())
    (htyped : ∀ σs ∈ product vars, requestTyped (substManyEnv σs env) = true)
    (hE : noIgnoreInput env = true) (hv : ∀ kv ∈ vars, ∀ v ∈ kv.2, v.hasIgnore = false)
    (hp : ∀ ip ∈ ps, ip.2.noIgnoreLits = true ∧ ip.2.recKeysDistinct = true) :
    ∃ calls, doBatch (fun _ => false) cb vars env ps [] [] = .ok calls ∧
      calls.map (·.values) = product vars ∧
      ∀ r ∈ calls,
        r.principal = substMany r.values env.principal ∧ r.action = substMany r.values env.action ∧
        r.resource = substMany r.values env.resource ∧ r.context = substMany r.values env.context ∧
        r.allow = (authorize ps (substManyEnv r.values env)).allow ∧
        r.reasons = (authorize ps (substManyEnv r.values env)).reasons := by
  have hi := noIgnoredPart_of_inputs hE
  have hv' : ∀ kv ∈ vars, ∀ v ∈ kv.2, v.isIgnore = false := fun kv hkv v hvm => isIgnore_of_hasIgnore (hv kv hkv v hvm)
  have hvalid := trace_valid_of_typed vars env ps hi hv' htyped
  obtain ⟨calls, h1, h2, h3⟩ := C05_batch_calls_eq_product cb vars env ps hne hcb hvalid
  refine ⟨calls, h1, h2, ?_⟩
  intro r hr
  have : some r ∈ (trace vars env ps []).map (·.2) := by rw [← h3]; exact List.mem_map_of_mem hr
  obtain ⟨o, ho, hor⟩ := List.mem_map.mp this
  have hval : r.values = o.1 := trace_leaf_values vars env ps [] o ho r hor
  obtain ⟨_, hreq⟩ := C05_batch_requests_fully_substituted vars env ps hi hv' o ho
  obtain ⟨a, b, c, d⟩ := hreq r hor
  obtain ⟨e, f⟩ := C05_batch_decision_eq_direct vars env ps hE hv hp o ho r hor
  rw [hval]
  exact ⟨a, b, c, d, e, f⟩

/-- The same for the entry point `batch.Authorize` (after its unbound / unused-variable checks).  A template without
    variables is handled separately by the code (ignore markers resolved up front, one partial evaluation, one leaf);
    the statement is the same: one result, for the empty substitution, with `authorize`'s decision and reasons. -/
theorem C05_batchAuthorize_eq_brute_force {ε : Type} (cb : BResult → Except ε Unit)
    (vars : List (String × List Value)) (env : Env) (ps : List (PolicyID × Policy))
    (hne : ∀ kv ∈ vars, kv.2 ≠ []) (hcb : ∀ r, cb r = .ok ())
    (htyped : ∀ σs ∈ product vars, requestTyped (substManyEnv σs env) = true)
    (hE : noIgnoreInput env = true) (hv : ∀ kv ∈ vars, ∀ v ∈ kv.2, v.hasIgnore = false)
    (hp : ∀ ip ∈ ps, ip.2.noIgnoreLits = true ∧ ip.2.recKeysDistinct = true) :
    ∃ calls, batchAuthorize (fun _ => false) cb vars env ps = .ok calls ∧
      calls.map (·.values) = product vars ∧
      ∀ r ∈ calls,
        r.principal = substMany r.values env.principal ∧ r.action = substMany r.values env.action ∧
        r.resource = substMany r.values env.resource ∧ r.context = substMany r.values env.context ∧
        r.allow = (authorize ps (substManyEnv r.values env)).allow ∧
        r.reasons = (authorize ps (substManyEnv r.values env)).reasons := by
  have hany : vars.any (·.2.isEmpty) = false := by
    cases h : vars.any (·.2.isEmpty)
    · rfl
    · obtain ⟨kv, hkv, he⟩ := List.any_eq_true.mp h
      exact absurd (List.isEmpty_iff.mp he) (hne kv hkv)
  cases vars with
  | nil =>
    have ht : requestTyped env = true := htyped [] (by simp [product])
    have hfix : fixIgnores env = env := fixIgnores_noop env (noIgnoredPart_of_inputs hE)
    have hsome := leafResult_isSome env (doPartial env ps) [] ht
    cases hl : leafResult env (doPartial env ps) [] with
    | none => rw [hl] at hsome; cases hsome
    | some r =>
      refine ⟨[r], ?_, ?_, ?_⟩
      · simp [batchAuthorize, doBatch, leaf, hfix, hl, hcb]
      · simp [product, leafResult_values _ _ _ _ hl]
      · intro r' hr'
        simp only [List.mem_singleton] at hr'
        subst hr'
        obtain ⟨a, b, c, d, _⟩ := leafResult_parts _ _ _ _ hl
        obtain ⟨e, f⟩ := leafResult_decision _ _ _ _ hl
        have hd : (ps.all fun ip => partialDomain env ip.2) = true :=
          List.all_eq_true.mpr (fun ip hip => partialDomain_of_inputs hE (hp ip hip).1 (hp ip hip).2)
        obtain ⟨g1, g2⟩ := authorize_doPartial id env env rfl (fun x => by cases x <;> rfl) ps hd
        rw [leafResult_values _ _ _ _ hl]
        exact ⟨a, b, c, d, e.trans g1, f.trans g2⟩
  | cons kv rest =>
    obtain ⟨calls, h1, h2, h3⟩ := C05_batch_eq_brute_force cb (kv :: rest) env ps hne hcb htyped hE hv hp
    refine ⟨calls, ?_, h2, h3⟩
    simp only [batchAuthorize, hany, Bool.false_eq_true, if_false, h1]

/-- non-vacuity: the former stale-residual witness through batch — `context.key && true`, `context = {key: ?k}`,
    `k ∈ [true, false]` — satisfies the input-level premises (hence `runDomain`), and the run allows exactly for `k = true` -/
example :
    let env : Env := { entities := [], principal := .entity "User" "a", action := .entity "Action" "a",
                       resource := .entity "Doc" "a", context := .record [("key", mkVariable "k")] }
    let ps : List (PolicyID × Policy) :=
      [("p0", { effect := .permit, conditions := [(true, .binop .and (.access (.var .context) "key") (.lit (.bool true)))] })]
    (noIgnoreInput env = true ∧ (∀ ip ∈ ps, ip.2.noIgnoreLits = true ∧ ip.2.recKeysDistinct = true)) ∧
      (∀ σs ∈ product [("k", [.bool true, .bool false])], requestTyped (substManyEnv σs env) = true) ∧
      runDomain [("k", [.bool true, .bool false])] env ps = true ∧
      (trace [("k", [.bool true, .bool false])] env ps []).map (fun o => o.2.map (·.allow)) = [some true, some false] := by
  refine ⟨⟨by decide +kernel, ?_⟩, by decide +kernel, by decide +kernel, by decide +kernel⟩
  intro ip hip
  simp only [List.mem_singleton] at hip
  subst hip
  exact ⟨by decide +kernel, by decide +kernel⟩

end CedarGo
