/-
  C11 — Value equality, hashing, sets and records obey their algebraic laws.
  Only `theorem C11_*` statements and non-vacuity examples live here; helper lemmas are in
  CedarGoProofs/Lemmas/C11*.lean.

  Reading guide.  `Value.beq` is the model of `types.Value.Equal` (Model/Value.lean); `newSet hash l` is
  the model of `types.NewSet(l...)` with Go's open-addressed table (Model/SetImpl.lean) over an ARBITRARY
  hash function `hash`; the only thing assumed about it is `C11.HashRespectsEq hash`
  (equal values hash equally), so every theorem holds for every collision pattern.
  `l.length < 2^64` is not a restriction of the property: Go slice lengths are `int`.

  Last section, "Values are immutable": a reference-level heap model of the Go objects (Model/Alias.lean:
  caller-owned slices and maps at addresses, value structs holding references to internal containers, every
  constructor / accessor / iterator / decoder exactly as it copies or aliases) and the theorems
  `C11_immutable_*`: under the separation invariant every operation of a history — constructing from a caller
  container, keeping an accessor's output, mutating any caller-owned container, nested values included —
  leaves the pure value of every existing value object unchanged.  The copy-or-alias discipline the theorems
  are proved for is tied to the source by `C11_facts_alias_discipline` / `C11_facts_alias_writers`
  (factgen/c11.go reads it off /repo on every run) and by the `alias-history` correspondence.
-/
import CedarGoProofs.Lemmas.C11Hash
import CedarGoProofs.Lemmas.C11Rec
import CedarGoProofs.Lemmas.C11AliasStep
import CedarGo.Generated.Facts

namespace CedarGo
open C11

/-! ## Equality is an equivalence relation that separates kinds -/

theorem C11_beq_refl (v : Value) : Value.beq v v = true := beq_refl v

theorem C11_beq_symm (a b : Value) : Value.beq a b = Value.beq b a := beq_symm a b

theorem C11_beq_trans (a b c : Value) (hab : Value.beq a b = true) (hbc : Value.beq b c = true) :
    Value.beq a c = true := beq_trans a b c hab hbc

/-- equal values have the same kind (values of different types are never equal) -/
theorem C11_beq_kind (a b : Value) (h : Value.beq a b = true) : a.kind = b.kind := beq_kind a b h

example : Value.beq (mkSet [.long 1, .bool true, .long 1]) (mkSet [.bool true, .long 1]) = true := by decide +kernel
example : Value.beq (.bool true) (.long 1) = false ∧ Value.beq (.decimal 1) (.duration 1) = false := by decide +kernel

/-! ## Probe termination -/

/-- the probe loops of `NewSet` and `Contains` (`for { … hash++ }`) stop within `size + 1` steps on every
    table with fewer than 2^64 entries, whatever the keys are: the fuel of the model is never exhausted -/
theorem C11_probe_terminates (t : Table) (hl : t.length < 2 ^ 64) (v : Value) (h : UInt64) :
    probe t v (t.length + 1) h ≠ .exhausted := probe_not_exhausted hl v h

example : probe [(18446744073709551615, .long 1), (0, .long 2)] (.long 3) 3 18446744073709551615 = .empty 1 := by
  decide +kernel

/-! ## Sets built by `NewSet` -/

/-- the hypotheses of the theorems below are satisfiable: equality-respecting hashes exist (the real one is
    `C11_goHash_respects_eq` further down), and they are not all injective -/
example : HashRespectsEq constHash ∧ constHash (.long 1) = constHash (.bool true) := ⟨fun _ _ _ => rfl, rfl⟩
example : ([Value.bool true, .long 1, .long 1] : List Value).length < 2 ^ 64 := by decide

/-- membership: `NewSet(l...).Contains(v)` iff `v` equals some element of `l` -/
theorem C11_newSet_mem (hash : Value → UInt64) (hr : HashRespectsEq hash) (l : List Value)
    (hl : l.length < 2 ^ 64) (v : Value) :
    (newSet hash l).contains hash v = true ↔ ∃ w ∈ l, Value.beq v w = true :=
  newSet_contains_iff hr l hl v

/-- length: `Len()` is the number of distinct members — the length of EVERY duplicate-free enumeration
    of the members of `l`; `dedupV [] l` (the member list of `mkSet l`) is one such enumeration -/
theorem C11_newSet_len (hash : Value → UInt64) (hr : HashRespectsEq hash) (l : List Value) (hl : l.length < 2 ^ 64) :
    (∀ ds : List Value, NoDupR Value.beq ds →
        (∀ v, (∃ w ∈ ds, Value.beq v w = true) ↔ ∃ w ∈ l, Value.beq v w = true) →
        (newSet hash l).len = ds.length) ∧
    NoDupR Value.beq (dedupV [] l) ∧
    (∀ v, (∃ w ∈ dedupV [] l, Value.beq v w = true) ↔ ∃ w ∈ l, Value.beq v w = true) := by
  obtain ⟨wf, hv⟩ := newSet_spec hr l hl
  refine ⟨fun ds hds hmem => ?_, dedupV_noDup l, dedupV_mem l⟩
  have hlen : (newSet hash l).len = (dedupV [] l).length := by
    rw [← hv]; simp [SetImpl.len, vals]
  rw [hlen]
  apply length_eq_of_sub_sub beq_symm beq_trans (dedupV_noDup l) hds
  · intro x hx
    exact (hmem x).mpr ((dedupV_mem l x).mp ⟨x, hx, beq_refl x⟩)
  · intro x hx
    exact (dedupV_mem l x).mpr ((hmem x).mp ⟨x, hx, beq_refl x⟩)

/-- equality: two sets built from sequences are `Equal` exactly when the sequences have the same members —
    regardless of order, duplicates and of how the members collide in the table -/
theorem C11_newSet_equal_iff (hash : Value → UInt64) (hr : HashRespectsEq hash) (l₁ l₂ : List Value)
    (h₁ : l₁.length < 2 ^ 64) (h₂ : l₂.length < 2 ^ 64) :
    (newSet hash l₁).equal hash (newSet hash l₂) = true ↔
      ∀ v, (∃ w ∈ l₁, Value.beq v w = true) ↔ (∃ w ∈ l₂, Value.beq v w = true) := by
  rw [equal_iff hr (newSet_spec hr l₁ h₁).1 (newSet_spec hr l₂ h₂).1]
  constructor
  · intro h v
    rw [← newSet_contains_iff hr l₁ h₁ v, ← newSet_contains_iff hr l₂ h₂ v, h v]
  · intro h v
    rw [Bool.eq_iff_iff, newSet_contains_iff hr l₁ h₁ v, newSet_contains_iff hr l₂ h₂ v]
    exact h v

/-- order and duplicates are irrelevant: any two argument lists with the same elements give `Equal` sets -/
theorem C11_newSet_order_dup_irrelevant (hash : Value → UInt64) (hr : HashRespectsEq hash) (l₁ l₂ : List Value)
    (h₁ : l₁.length < 2 ^ 64) (h₂ : l₂.length < 2 ^ 64) (hsame : ∀ x, x ∈ l₁ ↔ x ∈ l₂) :
    (newSet hash l₁).equal hash (newSet hash l₂) = true ∧ (newSet hash l₁).len = (newSet hash l₂).len := by
  have hm : ∀ v, (∃ w ∈ l₁, Value.beq v w = true) ↔ (∃ w ∈ l₂, Value.beq v w = true) := fun v =>
    ⟨fun ⟨w, hw, hb⟩ => ⟨w, (hsame w).mp hw, hb⟩, fun ⟨w, hw, hb⟩ => ⟨w, (hsame w).mpr hw, hb⟩⟩
  refine ⟨(C11_newSet_equal_iff hash hr l₁ l₂ h₁ h₂).mpr hm, ?_⟩
  obtain ⟨hlen₁, _, _⟩ := C11_newSet_len hash hr l₁ h₁
  obtain ⟨_, hnd, hmem₂⟩ := C11_newSet_len hash hr l₂ h₂
  obtain ⟨hlen₂, _, _⟩ := C11_newSet_len hash hr l₂ h₂
  rw [hlen₁ (dedupV [] l₂) hnd (fun v => (hmem₂ v).trans (hm v).symm), hlen₂ (dedupV [] l₂) hnd hmem₂]

/-- `Set.Equal` on any two well-formed sets is extensional equality (DESIGN `set_equal_iff`) -/
theorem C11_set_equal_iff (hash : Value → UInt64) (hr : HashRespectsEq hash) (s b : SetImpl)
    (ws : SetWF hash s) (wb : SetWF hash b) :
    s.equal hash b = true ↔ ∀ v, s.contains hash v = b.contains hash v := equal_iff hr ws wb

/-- `SetWF` is inhabited by a non-empty colliding table -/
example : SetWF goHash (newSet goHash [.bool true, .long 1, .decimal 1]) :=
  (newSet_spec goHash_respects_eq _ (by decide)).1

/-- every set built by `NewSet` is well-formed (table invariant + cached hash) -/
theorem C11_newSet_wf (hash : Value → UInt64) (hr : HashRespectsEq hash) (l : List Value) (hl : l.length < 2 ^ 64) :
    SetWF hash (newSet hash l) := (newSet_spec hr l hl).1

/-- subset operations of the evaluator (`containsAll`, `containsAny`) on sets built from sequences -/
theorem C11_newSet_subset_ops (hash : Value → UInt64) (hr : HashRespectsEq hash) (l₁ l₂ : List Value)
    (h₁ : l₁.length < 2 ^ 64) (h₂ : l₂.length < 2 ^ 64) :
    ((newSet hash l₁).containsAll hash (newSet hash l₂) = true ↔
        ∀ x ∈ l₂, ∃ w ∈ l₁, Value.beq x w = true) ∧
    ((newSet hash l₁).containsAny hash (newSet hash l₂) = true ↔
        ∃ x ∈ l₂, ∃ w ∈ l₁, Value.beq x w = true) := by
  have w₁ := (newSet_spec hr l₁ h₁).1
  have w₂ := (newSet_spec hr l₂ h₂).1
  constructor
  · rw [containsAll_iff hr w₁ w₂]
    constructor
    · intro h x hx
      exact (newSet_contains_iff hr l₁ h₁ x).mp (h x ((newSet_contains_iff hr l₂ h₂ x).mpr ⟨x, hx, beq_refl x⟩))
    · intro h v hv
      obtain ⟨x, hx, hvx⟩ := (newSet_contains_iff hr l₂ h₂ v).mp hv
      obtain ⟨w, hw, hxw⟩ := h x hx
      exact (newSet_contains_iff hr l₁ h₁ v).mpr ⟨w, hw, beq_trans _ _ _ hvx hxw⟩
  · rw [containsAny_iff hr w₁ w₂]
    constructor
    · rintro ⟨v, hv₂, hv₁⟩
      obtain ⟨x, hx, hvx⟩ := (newSet_contains_iff hr l₂ h₂ v).mp hv₂
      obtain ⟨w, hw, hvw⟩ := (newSet_contains_iff hr l₁ h₁ v).mp hv₁
      exact ⟨x, hx, w, hw, beq_trans _ _ _ (by rw [beq_symm]; exact hvx) hvw⟩
    · rintro ⟨x, hx, w, hw, hxw⟩
      exact ⟨x, (newSet_contains_iff hr l₂ h₂ x).mpr ⟨x, hx, beq_refl x⟩,
        (newSet_contains_iff hr l₁ h₁ x).mpr ⟨w, hw, hxw⟩⟩

/-- the hash function is unobservable: any two equality-respecting hash functions (e.g. the real one and
    a constant one) give the same `Len`, `Contains`, `Equal`, `containsAll`, `containsAny` -/
theorem C11_hash_unobservable (hash hash' : Value → UInt64) (hr : HashRespectsEq hash) (hr' : HashRespectsEq hash')
    (l₁ l₂ : List Value) (h₁ : l₁.length < 2 ^ 64) (h₂ : l₂.length < 2 ^ 64) (v : Value) :
    (newSet hash l₁).len = (newSet hash' l₁).len ∧
    (newSet hash l₁).contains hash v = (newSet hash' l₁).contains hash' v ∧
    (newSet hash l₁).equal hash (newSet hash l₂) = (newSet hash' l₁).equal hash' (newSet hash' l₂) ∧
    (newSet hash l₁).containsAll hash (newSet hash l₂) = (newSet hash' l₁).containsAll hash' (newSet hash' l₂) ∧
    (newSet hash l₁).containsAny hash (newSet hash l₂) = (newSet hash' l₁).containsAny hash' (newSet hash' l₂) := by
  refine ⟨?_, ?_, ?_, ?_, ?_⟩
  · obtain ⟨_, hnd, hmem⟩ := C11_newSet_len hash hr l₁ h₁
    rw [(C11_newSet_len hash hr l₁ h₁).1 _ hnd hmem, (C11_newSet_len hash' hr' l₁ h₁).1 _ hnd hmem]
  · rw [Bool.eq_iff_iff, C11_newSet_mem hash hr l₁ h₁, C11_newSet_mem hash' hr' l₁ h₁]
  · rw [Bool.eq_iff_iff, C11_newSet_equal_iff hash hr l₁ l₂ h₁ h₂, C11_newSet_equal_iff hash' hr' l₁ l₂ h₁ h₂]
  · rw [Bool.eq_iff_iff, (C11_newSet_subset_ops hash hr l₁ l₂ h₁ h₂).1, (C11_newSet_subset_ops hash' hr' l₁ l₂ h₁ h₂).1]
  · rw [Bool.eq_iff_iff, (C11_newSet_subset_ops hash hr l₁ l₂ h₁ h₂).2, (C11_newSet_subset_ops hash' hr' l₁ l₂ h₁ h₂).2]

/-! ## Refinement: the list-based set operations of the evaluator model are the table operations -/

/-- `CedarGo.eval` represents `NewSet(l...)` by the list value `mkSet l = .set (dedupV [] l)` and computes
    `.contains` by `Value.memL`, `==` by `Value.beq`, `.containsAll/.containsAny` by `List.all/any ∘ memL`.
    For every equality-respecting hash these are exactly the results of the open-addressed table:
    (1) the table holds precisely the member list of `mkSet l` (in reverse insertion order), so `Len` is its length;
    (2)–(5) `Contains`, `Equal`, `containsAll`, `containsAny` coincide — both on the `mkSet` lists and on raw
    argument lists (a `.set xs` value denotes `NewSet(xs...)`). -/
theorem C11_set_refines_list (hash : Value → UInt64) (hr : HashRespectsEq hash) (l₁ l₂ : List Value)
    (h₁ : l₁.length < 2 ^ 64) (h₂ : l₂.length < 2 ^ 64) (v : Value) :
    mkSet l₁ = .set (newSet hash l₁).slice.reverse ∧
    (newSet hash l₁).len = (dedupV [] l₁).length ∧
    (newSet hash l₁).contains hash v = Value.memL v l₁ ∧
    (newSet hash l₁).contains hash v = Value.memL v (dedupV [] l₁) ∧
    (newSet hash l₁).equal hash (newSet hash l₂) = Value.beq (.set l₁) (.set l₂) ∧
    (newSet hash l₁).equal hash (newSet hash l₂) = Value.beq (mkSet l₁) (mkSet l₂) ∧
    (newSet hash l₁).containsAll hash (newSet hash l₂) = l₂.all (fun x => Value.memL x l₁) ∧
    (newSet hash l₁).containsAll hash (newSet hash l₂) = (dedupV [] l₂).all (fun x => Value.memL x (dedupV [] l₁)) ∧
    (newSet hash l₁).containsAny hash (newSet hash l₂) = l₂.any (fun x => Value.memL x l₁) ∧
    (newSet hash l₁).containsAny hash (newSet hash l₂) = (dedupV [] l₂).any (fun x => Value.memL x (dedupV [] l₁)) := by
  obtain ⟨_, hv₁⟩ := newSet_spec hr l₁ h₁
  have hmemD : ∀ l : List Value, ∀ x, Value.memL x (dedupV [] l) = Value.memL x l := fun l x => by
    rw [Bool.eq_iff_iff, memL_iff, memL_iff]; exact dedupV_mem l x
  have hsame : ∀ l : List Value, ∀ x, (∃ w ∈ dedupV [] l, Value.beq x w = true) ↔ ∃ w ∈ l, Value.beq x w = true :=
    fun l x => dedupV_mem l x
  have hall : (newSet hash l₁).containsAll hash (newSet hash l₂) = l₂.all (fun x => Value.memL x l₁) := by
    rw [Bool.eq_iff_iff, (C11_newSet_subset_ops hash hr l₁ l₂ h₁ h₂).1]
    simp [memL_iff]
  have hany : (newSet hash l₁).containsAny hash (newSet hash l₂) = l₂.any (fun x => Value.memL x l₁) := by
    rw [Bool.eq_iff_iff, (C11_newSet_subset_ops hash hr l₁ l₂ h₁ h₂).2]
    simp [memL_iff]
  have heq : (newSet hash l₁).equal hash (newSet hash l₂) = Value.beq (.set l₁) (.set l₂) := by
    rw [Bool.eq_iff_iff, C11_newSet_equal_iff hash hr l₁ l₂ h₁ h₂, beq_set_iff_same]
  refine ⟨?_, ?_, newSet_contains_eq_memL hr l₁ h₁ v, ?_, heq, ?_, hall, ?_, hany, ?_⟩
  · simp only [mkSet, SetImpl.slice]; rw [← hv₁]; rfl
  · rw [← hv₁]; simp [SetImpl.len, vals]
  · rw [hmemD]; exact newSet_contains_eq_memL hr l₁ h₁ v
  · rw [heq, Bool.eq_iff_iff, beq_set_iff_same, mkSet, mkSet, beq_set_iff_same]
    exact ⟨fun h x => by rw [hsame, hsame]; exact h x, fun h x => by rw [← hsame l₁, ← hsame l₂]; exact h x⟩
  · rw [hall, Bool.eq_iff_iff]
    simp only [List.all_eq_true, hmemD, memL_iff]
    constructor
    · intro h x hx
      have hx' : x ∈ l₂ := by rcases dedupV_sub l₂ [] x hx with h | h; cases h; exact h
      exact h x hx'
    · intro h x hx
      obtain ⟨w, hw, hxw⟩ := dedupV_sup l₂ [] x (Or.inr hx)
      obtain ⟨w', hw', hb⟩ := h w hw
      exact ⟨w', hw', beq_trans _ _ _ hxw hb⟩
  · rw [hany, Bool.eq_iff_iff]
    simp only [List.any_eq_true, hmemD, memL_iff]
    constructor
    · rintro ⟨x, hx, w', hw', hb⟩
      obtain ⟨w, hw, hxw⟩ := dedupV_sup l₂ [] x (Or.inr hx)
      exact ⟨w, hw, w', hw', beq_trans _ _ _ (by rw [beq_symm]; exact hxw) hb⟩
    · rintro ⟨x, hx, w', hw', hb⟩
      have hx' : x ∈ l₂ := by rcases dedupV_sub l₂ [] x hx with h | h; cases h; exact h
      exact ⟨x, hx', w', hw', hb⟩

/-! ## Records -/

/-- a record equals another exactly when they have the same keys with equal values.  Evaluator model:
    `mkRecord kvs` is `NewRecord` of the Go map built by assigning `kvs` in order (`lastGet` = the value the map
    holds for a key); `optBeq` is "both absent, or both present and Equal". -/
theorem C11_record_equal_iff (kvs₁ kvs₂ : List (String × Value)) :
    Value.beq (mkRecord kvs₁) (mkRecord kvs₂) = true ↔ ∀ q, optBeq (lastGet q kvs₁) (lastGet q kvs₂) = true := by
  obtain ⟨l₁, e₁, s₁, g₁⟩ := mkRecord_spec kvs₁
  obtain ⟨l₂, e₂, s₂, g₂⟩ := mkRecord_spec kvs₂
  rw [e₁, e₂, beq_record, beqKV_iff_sorted l₁ l₂ s₁ s₂]
  simp only [g₁, g₂]

/-- the same for any two key-sorted attribute lists (the well-formedness predicate `SortedKeys` is decidable and
    holds of everything `mkRecord` builds) -/
theorem C11_record_equal_iff_sorted (a b : List (String × Value)) (ha : SortedKeys a) (hb : SortedKeys b) :
    Value.beq (.record a) (.record b) = true ↔ ∀ q, optBeq (kvGet q a) (kvGet q b) = true := by
  rw [beq_record]; exact beqKV_iff_sorted a b ha hb

theorem C11_mkRecord_sorted (kvs : List (String × Value)) :
    ∃ l, mkRecord kvs = .record l ∧ SortedKeys l ∧ ∀ q, kvGet q l = lastGet q kvs := mkRecord_spec kvs

/-- Go-map model of `types.Record` (`RecImpl`: unordered map + cached FNV hash over the sorted keys, `Equal` =
    length, cached hash, one-directional lookup loop): for every equality-respecting value hash, `Equal` holds
    exactly when the two maps have the same keys with equal values -/
theorem C11_recImpl_equal_iff (hash : Value → UInt64) (hr : HashRespectsEq hash) (kvs₁ kvs₂ : List (String × Value)) :
    (newRecord hash kvs₁).equal (newRecord hash kvs₂) = true ↔ ∀ q, optBeq (lastGet q kvs₁) (lastGet q kvs₂) = true := by
  rw [recEqual_iff hr (ofList_nodup kvs₁) (ofList_nodup kvs₂) rfl rfl]
  simp only [newRecord, ofList_get]

/-- refinement for records: the key-sorted list model of the evaluator agrees with the Go-map model on
    equality and on attribute lookup -/
theorem C11_record_refines_list (hash : Value → UInt64) (hr : HashRespectsEq hash) (kvs₁ kvs₂ : List (String × Value)) :
    (newRecord hash kvs₁).equal (newRecord hash kvs₂) = Value.beq (mkRecord kvs₁) (mkRecord kvs₂) ∧
    ∃ l, mkRecord kvs₁ = .record l ∧ ∀ q, (newRecord hash kvs₁).m.get q = kvGet q l := by
  refine ⟨?_, ?_⟩
  · rw [Bool.eq_iff_iff, C11_recImpl_equal_iff hash hr, C11_record_equal_iff]
  · obtain ⟨l, e, _, g⟩ := mkRecord_spec kvs₁
    exact ⟨l, e, fun q => by rw [g q]; exact ofList_get kvs₁ q⟩

example : Value.beq (mkRecord [("b", .long 2), ("a", .long 1), ("a", .long 3)]) (mkRecord [("a", .long 3), ("b", .long 2)]) = true ∧
    Value.beq (mkRecord [("a", .long 1)]) (mkRecord [("a", .bool true)]) = false ∧
    (newRecord goHash [("b", .long 2), ("a", .long 1), ("a", .long 3)]).equal (newRecord goHash [("a", .long 3), ("b", .long 2)]) = true ∧
    (newRecord goHash [("a", .long 1)]).hashVal = (newRecord goHash [("a", .bool true)]).hashVal ∧
    (newRecord goHash [("a", .long 1)]).equal (newRecord goHash [("a", .bool true)]) = false := by decide +kernel

example : SortedKeys [("a", Value.long 1), ("b", .long 2)] := by decide +kernel

/-! ## The real hash functions -/

/-- `goHash` (the transcription of every `hash()` method of types/*.go) gives equal values equal hashes,
    so all theorems above apply to the real `types.Set` — and so do the deliberately bad ones run by the driver -/
theorem C11_goHash_respects_eq : HashRespectsEq goHash := goHash_respects_eq

theorem C11_badHashes_respect_eq : HashRespectsEq kindHash ∧ HashRespectsEq constHash ∧ HashRespectsEq wrapHash :=
  ⟨kindHash_respects_eq, constHash_respects_eq, wrapHash_respects_eq⟩

/-- the hash a `types.Set` / `types.Record` caches at construction (`hashVal`, what `hash()` returns when the value
    is later nested in another set or record) is the value-level `goHash` of the evaluator-model value -/
theorem C11_hashVal_consistent (l : List Value) (hl : l.length < 2 ^ 64) (kvs : List (String × Value)) :
    (newSet goHash l).hashVal = goHash (mkSet l) ∧ (newRecord goHash kvs).hashVal = goHash (mkRecord kvs) :=
  ⟨newSet_hashVal_eq_goHash l hl, newRecord_hashVal_eq_goHash kvs⟩

/-- non-vacuity: the colliding universe really collides under the real hash -/
example : goHash (.bool true) = 1 ∧ goHash (.long 1) = 1 ∧ goHash (.decimal 1) = 1 ∧ goHash (.duration 1) = 1 ∧
    goHash (.datetime 1) = 1 ∧ goHash (mkSet [.long 1]) = 1 ∧ goHash (mkSet [.bool true]) = 1 ∧
    goHash (.long 0) = goHash (mkSet []) := by decide +kernel

/-- non-vacuity: five mutually colliding, mutually unequal values occupy five consecutive slots; order and
    duplicates do not matter; the same answers come out of the constant and the wrap-around hash -/
example :
    (newSet goHash [.bool true, .long 1, .decimal 1, .duration 1, .datetime 1, .long 1]).len = 5 ∧
    ((newSet goHash [.bool true, .long 1, .decimal 1, .duration 1, .datetime 1]).tbl.map (·.1)) = [5, 4, 3, 2, 1] ∧
    (newSet goHash [.bool true, .long 1, .decimal 1]).equal goHash (newSet goHash [.decimal 1, .long 1, .long 1, .bool true]) = true ∧
    (newSet wrapHash [.bool true, .long 1, .decimal 1]).equal wrapHash (newSet wrapHash [.decimal 1, .long 1, .long 1, .bool true]) = true ∧
    ((newSet wrapHash [.bool true, .long 1, .decimal 1]).tbl.map (·.1)) = [1, 0, 18446744073709551615] ∧
    (newSet goHash [.bool true, .long 1]).contains goHash (.decimal 1) = false ∧
    (newSet goHash [.bool true, .long 1]).equal goHash (newSet goHash [.bool true, .decimal 1]) = false := by
  decide +kernel

/-! ## Values are immutable (reference-level model: CedarGo/Model/Alias.lean)

  `State` = heap (address ↦ container) + the references of slice / map type the caller holds (`owned`) + the
  value objects it keeps (`live`).  `abs h v` is the pure `Value` a value object denotes.  `Inv` is the
  separation invariant: no container referred to by a value object (anywhere: in a variable or stored in a
  container, at any nesting depth) is a container the caller holds a slice / map reference to; plus
  well-formedness (references point into the heap, internal containers refer to older containers only).
  `Disc` says which constructors / accessors copy; `goDisc` (all copy) is the unchanged tree. -/

open Alias in
/-- **One step.**  Under the discipline of the unchanged tree, EVERY operation — allocation by the caller,
    `NewRecord` / `NewSet` / `NewEntityUIDSet` on a caller container or on nil, `Map()`, `Get`, the iterators,
    `Slice()`, `UnmarshalJSON` into a copy of a value, set / delete / clear on a caller map, overwrite / fill /
    append (in place when capacity allows) / reslice on a caller slice, reading a value back out of a caller
    container (entity fields) — preserves the invariant, keeps every live value object, and leaves the pure
    value of every live value object exactly as it was. -/
theorem C11_immutable_step (d : Disc) (hd : d.Safe) (s : State) (hs : Inv s) (op : Op) :
    Inv (step d s op) ∧ ∀ v ∈ s.live, v ∈ (step d s op).live ∧ abs (step d s op).heap v = abs s.heap v := by
  have hd' : d = goDisc := hd
  subst hd'
  have st := step_isStep s hs op
  exact ⟨st.inv, fun v hv => ⟨st.live v hv, st.abs_eq hs hv⟩⟩

open Alias in
/-- **Every history.**  From any state satisfying the invariant, after any list of operations, every value
    object that was live denotes the value it denoted. -/
theorem C11_immutable_histories (d : Disc) (hd : d.Safe) (ops : List Op) (s : State) (hs : Inv s) :
    Inv (run d ops s) ∧ ∀ v ∈ s.live, v ∈ (run d ops s).live ∧ abs (run d ops s).heap v = abs s.heap v := by
  induction ops generalizing s with
  | nil => exact ⟨hs, fun v hv => ⟨hv, rfl⟩⟩
  | cons op rest ih =>
    obtain ⟨hi, hl⟩ := C11_immutable_step d hd s hs op
    obtain ⟨hi', hl'⟩ := ih (step d s op) hi
    refine ⟨hi', fun v hv => ?_⟩
    obtain ⟨hv₁, e₁⟩ := hl v hv
    obtain ⟨hv₂, e₂⟩ := hl' v hv₁
    exact ⟨hv₂, e₂.trans e₁⟩

open Alias in
/-- the invariant holds initially (nothing allocated, nothing held) -/
theorem C11_immutable_inv_init : Inv init := by
  refine ⟨?_, ?_, ?_, ?_⟩ <;> simp [init, State.objs]

open Alias in
/-- **From creation on.**  Whatever history `before` created a value object, and whatever history `after`
    follows — any constructor-input or accessor-output mutation included — the object denotes, in the final
    heap, the value it denoted in the heap at its creation. -/
theorem C11_immutable_histories_from_creation (d : Disc) (hd : d.Safe) (before after : List Op) :
    ∀ v ∈ (run d before init).live,
      v ∈ (run d (before ++ after) init).live ∧
      abs (run d (before ++ after) init).heap v = abs (run d before init).heap v := by
  have h₁ := (C11_immutable_histories d hd before init C11_immutable_inv_init).1
  have h₂ := (C11_immutable_histories d hd after (run d before init) h₁).2
  simpa [run, List.foldl_append] using h₂

open Alias in
/-- the discipline of the unchanged tree is the safe one (so the theorems above are about it) -/
theorem C11_immutable_go_discipline_safe : goDisc.Safe := rfl

open Alias in
/-- **Tie to the source (a).**  What factgen's alias extractor (factgen/c11.go) reads off types/record.go,
    set.go, entity.go, entity_uid.go and internal/mapset on this run — for each modelled constructor / accessor
    / iterator / decoder: parameter cloned or only read, result a clone / a fresh struct / an element / a
    read-only iterator, receiver replaced with fresh storage, value-typed struct fields — is exactly the
    discipline `goDisc` the model runs with.  `NewRecord` starting to alias an empty map (seeded C11-m2, -m5)
    turns `types.NewRecord.param.m` into `cloned-if(len(m)>0)` and this theorem no longer checks. -/
theorem C11_facts_alias_discipline : Facts.aliasFacts = Alias.modelDiscipline := by decide

open Alias in
/-- the only functions of the analysed types that write through their receiver are the decoders (which
    replace the receiver with fresh storage) and `Add` / `Remove` of the mutable builder `mapset.MapSet` -/
theorem C11_facts_alias_writers : Facts.aliasWriters = Alias.modelWriters := by decide

/-! ### the hypothesis is needed: the same model with a constructor / accessor / decoder that aliases -/

namespace Alias
/-- the caller's map `{"a": 1}` at address 0 -/
def exMap : State := run goDisc [.mkMap [("a", .scalar (.long 1))]] init
/-- an EMPTY non-nil caller map at address 0 -/
def exEmptyMap : State := run goDisc [.mkMap []] init
def aliasCtor : Disc := { goDisc with newRecord := .alias }
def aliasEmptyCtor : Disc := { goDisc with newRecord := .aliasWhenEmpty }
def aliasAccessor : Disc := { goDisc with recordMap := .alias }
def aliasDecoder : Disc := { goDisc with unmarshalRecord := .alias }
end Alias

open Alias in
/-- **Contrast: an aliasing constructor.**  The same model in which `NewRecord` stores the caller's map
    instead of a clone.  From the state holding the caller's map `{"a": 1}` (which satisfies the invariant),
    the two-step history `r := NewRecord(m); m["a"] = 2` breaks the invariant at the first step and changes
    the value of `r` at the second: `{"a": 1}` before, `{"a": 2}` after. -/
theorem C11_alias_constructor_counterexample :
    Inv exMap ∧
    ¬ Inv (run aliasCtor [.newRecord (some 0)] exMap) ∧
    ∃ v, (run aliasCtor [.newRecord (some 0)] exMap).live[0]? = some v ∧
      (run aliasCtor [.newRecord (some 0), .setKey 0 "a" (.scalar (.long 2))] exMap).live[0]? = some v ∧
      Value.beq (abs (run aliasCtor [.newRecord (some 0)] exMap).heap v) (mkRecord [("a", .long 1)]) = true ∧
      Value.beq (abs (run aliasCtor [.newRecord (some 0), .setKey 0 "a" (.scalar (.long 2))] exMap).heap v)
        (mkRecord [("a", .long 2)]) = true ∧
      Value.beq (abs (run aliasCtor [.newRecord (some 0), .setKey 0 "a" (.scalar (.long 2))] exMap).heap v)
        (abs (run aliasCtor [.newRecord (some 0)] exMap).heap v) = false := by
  refine ⟨(C11_immutable_histories goDisc rfl _ init C11_immutable_inv_init).1, ?_, .ref .record (some 0), rfl, rfl, ?_, ?_, ?_⟩
  · intro h
    exact h.sep ⟨0, 1⟩ (List.mem_of_getElem? (i := 0) rfl) (.ref .record (some 0))
      (mem_objs.mpr (.inl (List.mem_of_getElem? (i := 0) rfl))) rfl
  · decide +kernel
  · decide +kernel
  · decide +kernel

open Alias in
/-- **Contrast: the shape of seeded defects C11-m2 / C11-m5** (clone only under `len(m) > 0`): a record built
    from an empty non-nil map changes when the caller fills the map in; built from a non-empty map it does not. -/
theorem C11_alias_when_empty_counterexample :
    Inv exEmptyMap ∧
    ¬ Inv (run aliasEmptyCtor [.newRecord (some 0)] exEmptyMap) ∧
    ∃ v, (run aliasEmptyCtor [.newRecord (some 0)] exEmptyMap).live[0]? = some v ∧
      Value.beq (abs (run aliasEmptyCtor [.newRecord (some 0)] exEmptyMap).heap v) (.record []) = true ∧
      Value.beq (abs (run aliasEmptyCtor [.newRecord (some 0), .setKey 0 "a" (.scalar (.long 2))] exEmptyMap).heap v)
        (mkRecord [("a", .long 2)]) = true := by
  refine ⟨(C11_immutable_histories goDisc rfl _ init C11_immutable_inv_init).1, ?_, .ref .record (some 0), rfl, ?_, ?_⟩
  · intro h
    exact h.sep ⟨0, 0⟩ (List.mem_of_getElem? (i := 0) rfl) (.ref .record (some 0))
      (mem_objs.mpr (.inl (List.mem_of_getElem? (i := 0) rfl))) rfl
  · decide +kernel
  · decide +kernel

open Alias in
/-- **Contrast: an aliasing accessor** (`Map()` returning the internal map) and **an in-place decoder**
    (`UnmarshalJSON` filling the receiver's existing map): in both, a value built correctly (by the copying
    constructor) changes — through the accessor's output, resp. through a decode into a COPY of the value. -/
theorem C11_alias_accessor_decoder_counterexample :
    (∃ v, (run aliasAccessor [.newRecord (some 0)] exMap).live[0]? = some v ∧
      Value.beq (abs (run aliasAccessor [.newRecord (some 0), .recordMap 0, .setKey 1 "a" (.scalar (.long 2))] exMap).heap v)
        (abs (run aliasAccessor [.newRecord (some 0)] exMap).heap v) = false) ∧
    (∃ v, (run aliasDecoder [.newRecord (some 0)] exMap).live[0]? = some v ∧
      Value.beq (abs (run aliasDecoder [.newRecord (some 0), .unmarshalRecord 0 [("b", .bool true)]] exMap).heap v)
        (abs (run aliasDecoder [.newRecord (some 0)] exMap).heap v) = false) := by
  refine ⟨⟨.ref .record (some 1), rfl, ?_⟩, ⟨.ref .record (some 1), rfl, ?_⟩⟩
  · decide +kernel
  · decide +kernel

/-! ### non-vacuity: a history with nested values on the real discipline -/

namespace Alias
/-- s := []Value{1, 2}; A := NewSet(s...); m := RecordMap{"k": A, "n": 7}; R := NewRecord(m);
    s[0] = 9; m["k"] = 0; delete(m, "n"); m2 := R.Map(); m2["k"] = false; A' := R.Get("k");
    sl := A'.Slice(); fill sl with 5; append(s[:1], 8) (in place); R2 := copy of R; R2.UnmarshalJSON({"z": 1});
    e := Entity{Attributes: R}; e2 := e; e2.Attributes = R2; T := NewSet(s...) -/
def exHistory : List Op := [
  .mkSlice [.scalar (.long 1), .scalar (.long 2)], .newSet (some 0),
  .mkMap [("k", .live 0), ("n", .scalar (.long 7))], .newRecord (some 1),
  .setElem 0 0 (.scalar (.long 9)), .setKey 1 "k" (.scalar (.long 0)), .delKey 1 "n",
  .recordMap 1, .setKey 2 "k" (.scalar (.bool false)), .recordGet 1 "k",
  .setSlice 2, .fillSlice 3 (.scalar (.long 5)), .reslice 0 1, .appendElem 4 (.scalar (.long 8)),
  .unmarshalRecord 1 [("z", .long 1)],
  .mkSlice [.live 1], .copyCont 6, .setElem 7 0 (.live 3), .newSet (some 0)]
end Alias

open Alias in
/-- the hypotheses are satisfiable and the conclusion is about something: after the history above — every
    caller container mutated, the set `A` nested in the record `R` — `A` still denotes `[1, 2]`, `R` still
    `{"k": [1, 2], "n": 7}`, the value handed out by `Get` is `[1, 2]`, the decoded copy is `{"z": 1}`, while
    the caller's slice is now `[9, 8]` (the set built from it last is `[9, 8]`) and its map `{"k": 0}`. -/
example :
    Inv (run goDisc exHistory init) ∧
    ((run goDisc exHistory init).live.zipWith (fun v w => Value.beq (abs (run goDisc exHistory init).heap v) w)
      [mkSet [.long 1, .long 2],
       mkRecord [("k", mkSet [.long 1, .long 2]), ("n", .long 7)],
       mkSet [.long 1, .long 2],
       mkRecord [("z", .long 1)],
       mkSet [.long 9, .long 8]]) = [true, true, true, true, true] ∧
    (run goDisc exHistory init).live.length = 5 :=
  ⟨(C11_immutable_histories goDisc rfl _ init C11_immutable_inv_init).1, by decide +kernel, by decide +kernel⟩

end CedarGo
