/-
  C11 — Value equality, hashing, sets and records obey their algebraic laws.
  Only `theorem C11_*` statements and non-vacuity examples live here; helper lemmas are in
  CedarGoProofs/Lemmas/C11*.lean.

  Reading guide.  `Value.beq` is the model of `types.Value.Equal` (Model/Value.lean); `newSet hash l` is
  the model of `types.NewSet(l...)` with Go's open-addressed table (Model/SetImpl.lean) over an ARBITRARY
  hash function `hash`; the only thing assumed about it is `C11.HashRespectsEq hash`
  (equal values hash equally), so every theorem holds for every collision pattern.
  `l.length < 2^64` is not a restriction of the property: Go slice lengths are `int`.
-/
import CedarGoProofs.Lemmas.C11Hash
import CedarGoProofs.Lemmas.C11Rec

namespace CedarGo
open C11

/-! ## Equality is an equivalence relation that separates kinds -/

theorem C11_beq_refl (v : Value) : Value.beq v v = true := beq_refl v

theorem C11_beq_symm (a b : Value) : Value.beq a b = Value.beq b a := beq_symm a b

theorem C11_beq_trans (a b c : Value) (hab : Value.beq a b = true) (hbc : Value.beq b c = true) :
    Value.beq a c = true := beq_trans a b c hab hbc

/-- equal values have the same kind (values of different types are never equal) -/
theorem C11_beq_kind (a b : Value) (h : Value.beq a b = true) : a.kind = b.kind := beq_kind a b h

example : Value.beq (mkSet [.long 1, .bool true, .long 1]) (mkSet [.bool true, .long 1]) = true := by decide +kernel
example : Value.beq (.bool true) (.long 1) = false ∧ Value.beq (.decimal 1) (.duration 1) = false := by decide +kernel

/-! ## Probe termination -/

/-- the probe loops of `NewSet` and `Contains` (`for { … hash++ }`) stop within `size + 1` steps on every
    table with fewer than 2^64 entries, whatever the keys are: the fuel of the model is never exhausted -/
theorem C11_probe_terminates (t : Table) (hl : t.length < 2 ^ 64) (v : Value) (h : UInt64) :
    probe t v (t.length + 1) h ≠ .exhausted := probe_not_exhausted hl v h

example : probe [(18446744073709551615, .long 1), (0, .long 2)] (.long 3) 3 18446744073709551615 = .empty 1 := by
  decide +kernel

/-! ## Sets built by `NewSet` -/

/-- the hypotheses of the theorems below are satisfiable: equality-respecting hashes exist (the real one is
    `C11_goHash_respects_eq` further down), and they are not all injective -/
example : HashRespectsEq constHash ∧ constHash (.long 1) = constHash (.bool true) := ⟨fun _ _ _ => rfl, rfl⟩
example : ([Value.bool true, .long 1, .long 1] : List Value).length < 2 ^ 64 := by decide

/-- membership: `NewSet(l...).Contains(v)` iff `v` equals some element of `l` -/
theorem C11_newSet_mem (hash : Value → UInt64) (hr : HashRespectsEq hash) (l : List Value)
    (hl : l.length < 2 ^ 64) (v : Value) :
    (newSet hash l).contains hash v = true ↔ ∃ w ∈ l, Value.beq v w = true :=
  newSet_contains_iff hr l hl v

/-- length: `Len()` is the number of distinct members — the length of EVERY duplicate-free enumeration
    of the members of `l`; `dedupV [] l` (the member list of `mkSet l`) is one such enumeration -/
theorem C11_newSet_len (hash : Value → UInt64) (hr : HashRespectsEq hash) (l : List Value) (hl : l.length < 2 ^ 64) :
    (∀ ds : List Value, NoDupR Value.beq ds →
        (∀ v, (∃ w ∈ ds, Value.beq v w = true) ↔ ∃ w ∈ l, Value.beq v w = true) →
        (newSet hash l).len = ds.length) ∧
    NoDupR Value.beq (dedupV [] l) ∧
    (∀ v, (∃ w ∈ dedupV [] l, Value.beq v w = true) ↔ ∃ w ∈ l, Value.beq v w = true) := by
  obtain ⟨wf, hv⟩ := newSet_spec hr l hl
  refine ⟨fun ds hds hmem => ?_, dedupV_noDup l, dedupV_mem l⟩
  have hlen : (newSet hash l).len = (dedupV [] l).length := by
    rw [← hv]; simp [SetImpl.len, vals]
  rw [hlen]
  apply length_eq_of_sub_sub beq_symm beq_trans (dedupV_noDup l) hds
  · intro x hx
    exact (hmem x).mpr ((dedupV_mem l x).mp ⟨x, hx, beq_refl x⟩)
  · intro x hx
    exact (dedupV_mem l x).mpr ((hmem x).mp ⟨x, hx, beq_refl x⟩)

/-- equality: two sets built from sequences are `Equal` exactly when the sequences have the same members —
    regardless of order, duplicates and of how the members collide in the table -/
theorem C11_newSet_equal_iff (hash : Value → UInt64) (hr : HashRespectsEq hash) (l₁ l₂ : List Value)
    (h₁ : l₁.length < 2 ^ 64) (h₂ : l₂.length < 2 ^ 64) :
    (newSet hash l₁).equal hash (newSet hash l₂) = true ↔
      ∀ v, (∃ w ∈ l₁, Value.beq v w = true) ↔ (∃ w ∈ l₂, Value.beq v w = true) := by
  rw [equal_iff hr (newSet_spec hr l₁ h₁).1 (newSet_spec hr l₂ h₂).1]
  constructor
  · intro h v
    rw [← newSet_contains_iff hr l₁ h₁ v, ← newSet_contains_iff hr l₂ h₂ v, h v]
  · intro h v
    rw [Bool.eq_iff_iff, newSet_contains_iff hr l₁ h₁ v, newSet_contains_iff hr l₂ h₂ v]
    exact h v

/-- order and duplicates are irrelevant: any two argument lists with the same elements give `Equal` sets -/
theorem C11_newSet_order_dup_irrelevant (hash : Value → UInt64) (hr : HashRespectsEq hash) (l₁ l₂ : List Value)
    (h₁ : l₁.length < 2 ^ 64) (h₂ : l₂.length < 2 ^ 64) (hsame : ∀ x, x ∈ l₁ ↔ x ∈ l₂) :
    (newSet hash l₁).equal hash (newSet hash l₂) = true ∧ (newSet hash l₁).len = (newSet hash l₂).len := by
  have hm : ∀ v, (∃ w ∈ l₁, Value.beq v w = true) ↔ (∃ w ∈ l₂, Value.beq v w = true) := fun v =>
    ⟨fun ⟨w, hw, hb⟩ => ⟨w, (hsame w).mp hw, hb⟩, fun ⟨w, hw, hb⟩ => ⟨w, (hsame w).mpr hw, hb⟩⟩
  refine ⟨(C11_newSet_equal_iff hash hr l₁ l₂ h₁ h₂).mpr hm, ?_⟩
  obtain ⟨hlen₁, _, _⟩ := C11_newSet_len hash hr l₁ h₁
  obtain ⟨_, hnd, hmem₂⟩ := C11_newSet_len hash hr l₂ h₂
  obtain ⟨hlen₂, _, _⟩ := C11_newSet_len hash hr l₂ h₂
  rw [hlen₁ (dedupV [] l₂) hnd (fun v => (hmem₂ v).trans (hm v).symm), hlen₂ (dedupV [] l₂) hnd hmem₂]

/-- `Set.Equal` on any two well-formed sets is extensional equality (DESIGN `set_equal_iff`) -/
theorem C11_set_equal_iff (hash : Value → UInt64) (hr : HashRespectsEq hash) (s b : SetImpl)
    (ws : SetWF hash s) (wb : SetWF hash b) :
    s.equal hash b = true ↔ ∀ v, s.contains hash v = b.contains hash v := equal_iff hr ws wb

/-- `SetWF` is inhabited by a non-empty colliding table -/
example : SetWF goHash (newSet goHash [.bool true, .long 1, .decimal 1]) :=
  (newSet_spec goHash_respects_eq _ (by decide)).1

/-- every set built by `NewSet` is well-formed (table invariant + cached hash) -/
theorem C11_newSet_wf (hash : Value → UInt64) (hr : HashRespectsEq hash) (l : List Value) (hl : l.length < 2 ^ 64) :
    SetWF hash (newSet hash l) := (newSet_spec hr l hl).1

/-- subset operations of the evaluator (`containsAll`, `containsAny`) on sets built from sequences -/
theorem C11_newSet_subset_ops (hash : Value → UInt64) (hr : HashRespectsEq hash) (l₁ l₂ : List Value)
    (h₁ : l₁.length < 2 ^ 64) (h₂ : l₂.length < 2 ^ 64) :
    ((newSet hash l₁).containsAll hash (newSet hash l₂) = true ↔
        ∀ x ∈ l₂, ∃ w ∈ l₁, Value.beq x w = true) ∧
    ((newSet hash l₁).containsAny hash (newSet hash l₂) = true ↔
        ∃ x ∈ l₂, ∃ w ∈ l₁, Value.beq x w = true) := by
  have w₁ := (newSet_spec hr l₁ h₁).1
  have w₂ := (newSet_spec hr l₂ h₂).1
  constructor
  · rw [containsAll_iff hr w₁ w₂]
    constructor
    · intro h x hx
      exact (newSet_contains_iff hr l₁ h₁ x).mp (h x ((newSet_contains_iff hr l₂ h₂ x).mpr ⟨x, hx, beq_refl x⟩))
    · intro h v hv
      obtain ⟨x, hx, hvx⟩ := (newSet_contains_iff hr l₂ h₂ v).mp hv
      obtain ⟨w, hw, hxw⟩ := h x hx
      exact (newSet_contains_iff hr l₁ h₁ v).mpr ⟨w, hw, beq_trans _ _ _ hvx hxw⟩
  · rw [containsAny_iff hr w₁ w₂]
    constructor
    · rintro ⟨v, hv₂, hv₁⟩
      obtain ⟨x, hx, hvx⟩ := (newSet_contains_iff hr l₂ h₂ v).mp hv₂
      obtain ⟨w, hw, hvw⟩ := (newSet_contains_iff hr l₁ h₁ v).mp hv₁
      exact ⟨x, hx, w, hw, beq_trans _ _ _ (by rw [beq_symm]; exact hvx) hvw⟩
    · rintro ⟨x, hx, w, hw, hxw⟩
      exact ⟨x, (newSet_contains_iff hr l₂ h₂ x).mpr ⟨x, hx, beq_refl x⟩,
        (newSet_contains_iff hr l₁ h₁ x).mpr ⟨w, hw, hxw⟩⟩

/-- the hash function is unobservable: any two equality-respecting hash functions (e.g. the real one and
    a constant one) give the same `Len`, `Contains`, `Equal`, `containsAll`, `containsAny` -/
theorem C11_hash_unobservable (hash hash' : Value → UInt64) (hr : HashRespectsEq hash) (hr' : HashRespectsEq hash')
    (l₁ l₂ : List Value) (h₁ : l₁.length < 2 ^ 64) (h₂ : l₂.length < 2 ^ 64) (v : Value) :
    (newSet hash l₁).len = (newSet hash' l₁).len ∧
    (newSet hash l₁).contains hash v = (newSet hash' l₁).contains hash' v ∧
    (newSet hash l₁).equal hash (newSet hash l₂) = (newSet hash' l₁).equal hash' (newSet hash' l₂) ∧
    (newSet hash l₁).containsAll hash (newSet hash l₂) = (newSet hash' l₁).containsAll hash' (newSet hash' l₂) ∧
    (newSet hash l₁).containsAny hash (newSet hash l₂) = (newSet hash' l₁).containsAny hash' (newSet hash' l₂) := by
  refine ⟨?_, ?_, ?_, ?_, ?_⟩
  · obtain ⟨_, hnd, hmem⟩ := C11_newSet_len hash hr l₁ h₁
    rw [(C11_newSet_len hash hr l₁ h₁).1 _ hnd hmem, (C11_newSet_len hash' hr' l₁ h₁).1 _ hnd hmem]
  · rw [Bool.eq_iff_iff, C11_newSet_mem hash hr l₁ h₁, C11_newSet_mem hash' hr' l₁ h₁]
  · rw [Bool.eq_iff_iff, C11_newSet_equal_iff hash hr l₁ l₂ h₁ h₂, C11_newSet_equal_iff hash' hr' l₁ l₂ h₁ h₂]
  · rw [Bool.eq_iff_iff, (C11_newSet_subset_ops hash hr l₁ l₂ h₁ h₂).1, (C11_newSet_subset_ops hash' hr' l₁ l₂ h₁ h₂).1]
  · rw [Bool.eq_iff_iff, (C11_newSet_subset_ops hash hr l₁ l₂ h₁ h₂).2, (C11_newSet_subset_ops hash' hr' l₁ l₂ h₁ h₂).2]

/-! ## Refinement: the list-based set operations of the evaluator model are the table operations -/

/-- `CedarGo.eval` represents `NewSet(l...)` by the list value `mkSet l = .set (dedupV [] l)` and computes
    `.contains` by `Value.memL`, `==` by `Value.beq`, `.containsAll/.containsAny` by `List.all/any ∘ memL`.
    For every equality-respecting hash these are exactly the results of the open-addressed table:
    (1) the table holds precisely the member list of `mkSet l` (in reverse insertion order), so `Len` is its length;
    (2)–(5) `Contains`, `Equal`, `containsAll`, `containsAny` coincide — both on the `mkSet` lists and on raw
    argument lists (a `.set xs` value denotes `NewSet(xs...)`). -/
theorem C11_set_refines_list (hash : Value → UInt64) (hr : HashRespectsEq hash) (l₁ l₂ : List Value)
    (h₁ : l₁.length < 2 ^ 64) (h₂ : l₂.length < 2 ^ 64) (v : Value) :
    mkSet l₁ = .set (newSet hash l₁).slice.reverse ∧
    (newSet hash l₁).len = (dedupV [] l₁).length ∧
    (newSet hash l₁).contains hash v = Value.memL v l₁ ∧
    (newSet hash l₁).contains hash v = Value.memL v (dedupV [] l₁) ∧
    (newSet hash l₁).equal hash (newSet hash l₂) = Value.beq (.set l₁) (.set l₂) ∧
    (newSet hash l₁).equal hash (newSet hash l₂) = Value.beq (mkSet l₁) (mkSet l₂) ∧
    (newSet hash l₁).containsAll hash (newSet hash l₂) = l₂.all (fun x => Value.memL x l₁) ∧
    (newSet hash l₁).containsAll hash (newSet hash l₂) = (dedupV [] l₂).all (fun x => Value.memL x (dedupV [] l₁)) ∧
    (newSet hash l₁).containsAny hash (newSet hash l₂) = l₂.any (fun x => Value.memL x l₁) ∧
    (newSet hash l₁).containsAny hash (newSet hash l₂) = (dedupV [] l₂).any (fun x => Value.memL x (dedupV [] l₁)) := by
  obtain ⟨_, hv₁⟩ := newSet_spec hr l₁ h₁
  have hmemD : ∀ l : List Value, ∀ x, Value.memL x (dedupV [] l) = Value.memL x l := fun l x => by
    rw [Bool.eq_iff_iff, memL_iff, memL_iff]; exact dedupV_mem l x
  have hsame : ∀ l : List Value, ∀ x, (∃ w ∈ dedupV [] l, Value.beq x w = true) ↔ ∃ w ∈ l, Value.beq x w = true :=
    fun l x => dedupV_mem l x
  have hall : (newSet hash l₁).containsAll hash (newSet hash l₂) = l₂.all (fun x => Value.memL x l₁) := by
    rw [Bool.eq_iff_iff, (C11_newSet_subset_ops hash hr l₁ l₂ h₁ h₂).1]
    simp [memL_iff]
  have hany : (newSet hash l₁).containsAny hash (newSet hash l₂) = l₂.any (fun x => Value.memL x l₁) := by
    rw [Bool.eq_iff_iff, (C11_newSet_subset_ops hash hr l₁ l₂ h₁ h₂).2]
    simp [memL_iff]
  have heq : (newSet hash l₁).equal hash (newSet hash l₂) = Value.beq (.set l₁) (.set l₂) := by
    rw [Bool.eq_iff_iff, C11_newSet_equal_iff hash hr l₁ l₂ h₁ h₂, beq_set_iff_same]
  refine ⟨?_, ?_, newSet_contains_eq_memL hr l₁ h₁ v, ?_, heq, ?_, hall, ?_, hany, ?_⟩
  · simp only [mkSet, SetImpl.slice]; rw [← hv₁]; rfl
  · rw [← hv₁]; simp [SetImpl.len, vals]
  · rw [hmemD]; exact newSet_contains_eq_memL hr l₁ h₁ v
  · rw [heq, Bool.eq_iff_iff, beq_set_iff_same, mkSet, mkSet, beq_set_iff_same]
    exact ⟨fun h x => by rw [hsame, hsame]; exact h x, fun h x => by rw [← hsame l₁, ← hsame l₂]; exact h x⟩
  · rw [hall, Bool.eq_iff_iff]
    simp only [List.all_eq_true, hmemD, memL_iff]
    constructor
    · intro h x hx
      have hx' : x ∈ l₂ := by rcases dedupV_sub l₂ [] x hx with h | h; cases h; exact h
      exact h x hx'
    · intro h x hx
      obtain ⟨w, hw, hxw⟩ := dedupV_sup l₂ [] x (Or.inr hx)
      obtain ⟨w', hw', hb⟩ := h w hw
      exact ⟨w', hw', beq_trans _ _ _ hxw hb⟩
  · rw [hany, Bool.eq_iff_iff]
    simp only [List.any_eq_true, hmemD, memL_iff]
    constructor
    · rintro ⟨x, hx, w', hw', hb⟩
      obtain ⟨w, hw, hxw⟩ := dedupV_sup l₂ [] x (Or.inr hx)
      exact ⟨w, hw, w', hw', beq_trans _ _ _ (by rw [beq_symm]; exact hxw) hb⟩
    · rintro ⟨x, hx, w', hw', hb⟩
      have hx' : x ∈ l₂ := by rcases dedupV_sub l₂ [] x hx with h | h; cases h; exact h
      exact ⟨x, hx', w', hw', hb⟩

/-! ## Records -/

/-- a record equals another exactly when they have the same keys with equal values.  Evaluator model:
    `mkRecord kvs` is `NewRecord` of the Go map built by assigning `kvs` in order (`lastGet` = the value the map
    holds for a key); `optBeq` is "both absent, or both present and Equal". -/
theorem C11_record_equal_iff (kvs₁ kvs₂ : List (String × Value)) :
    Value.beq (mkRecord kvs₁) (mkRecord kvs₂) = true ↔ ∀ q, optBeq (lastGet q kvs₁) (lastGet q kvs₂) = true := by
  obtain ⟨l₁, e₁, s₁, g₁⟩ := mkRecord_spec kvs₁
  obtain ⟨l₂, e₂, s₂, g₂⟩ := mkRecord_spec kvs₂
  rw [e₁, e₂, beq_record, beqKV_iff_sorted l₁ l₂ s₁ s₂]
  simp only [g₁, g₂]

/-- the same for any two key-sorted attribute lists (the well-formedness predicate `SortedKeys` is decidable and
    holds of everything `mkRecord` builds) -/
theorem C11_record_equal_iff_sorted (a b : List (String × Value)) (ha : SortedKeys a) (hb : SortedKeys b) :
    Value.beq (.record a) (.record b) = true ↔ ∀ q, optBeq (kvGet q a) (kvGet q b) = true := by
  rw [beq_record]; exact beqKV_iff_sorted a b ha hb

theorem C11_mkRecord_sorted (kvs : List (String × Value)) :
    ∃ l, mkRecord kvs = .record l ∧ SortedKeys l ∧ ∀ q, kvGet q l = lastGet q kvs := mkRecord_spec kvs

/-- Go-map model of `types.Record` (`RecImpl`: unordered map + cached FNV hash over the sorted keys, `Equal` =
    length, cached hash, one-directional lookup loop): for every equality-respecting value hash, `Equal` holds
    exactly when the two maps have the same keys with equal values -/
theorem C11_recImpl_equal_iff (hash : Value → UInt64) (hr : HashRespectsEq hash) (kvs₁ kvs₂ : List (String × Value)) :
    (newRecord hash kvs₁).equal (newRecord hash kvs₂) = true ↔ ∀ q, optBeq (lastGet q kvs₁) (lastGet q kvs₂) = true := by
  rw [recEqual_iff hr (ofList_nodup kvs₁) (ofList_nodup kvs₂) rfl rfl]
  simp only [newRecord, ofList_get]

/-- refinement for records: the key-sorted list model of the evaluator agrees with the Go-map model on
    equality and on attribute lookup -/
theorem C11_record_refines_list (hash : Value → UInt64) (hr : HashRespectsEq hash) (kvs₁ kvs₂ : List (String × Value)) :
    (newRecord hash kvs₁).equal (newRecord hash kvs₂) = Value.beq (mkRecord kvs₁) (mkRecord kvs₂) ∧
    ∃ l, mkRecord kvs₁ = .record l ∧ ∀ q, (newRecord hash kvs₁).m.get q = kvGet q l := by
  refine ⟨?_, ?_⟩
  · rw [Bool.eq_iff_iff, C11_recImpl_equal_iff hash hr, C11_record_equal_iff]
  · obtain ⟨l, e, _, g⟩ := mkRecord_spec kvs₁
    exact ⟨l, e, fun q => by rw [g q]; exact ofList_get kvs₁ q⟩

example : Value.beq (mkRecord [("b", .long 2), ("a", .long 1), ("a", .long 3)]) (mkRecord [("a", .long 3), ("b", .long 2)]) = true ∧
    Value.beq (mkRecord [("a", .long 1)]) (mkRecord [("a", .bool true)]) = false ∧
    (newRecord goHash [("b", .long 2), ("a", .long 1), ("a", .long 3)]).equal (newRecord goHash [("a", .long 3), ("b", .long 2)]) = true ∧
    (newRecord goHash [("a", .long 1)]).hashVal = (newRecord goHash [("a", .bool true)]).hashVal ∧
    (newRecord goHash [("a", .long 1)]).equal (newRecord goHash [("a", .bool true)]) = false := by decide +kernel

example : SortedKeys [("a", Value.long 1), ("b", .long 2)] := by decide +kernel

/-! ## The real hash functions -/

/-- `goHash` (the transcription of every `hash()` method of types/*.go) gives equal values equal hashes,
    so all theorems above apply to the real `types.Set` — and so do the deliberately bad ones run by the driver -/
theorem C11_goHash_respects_eq : HashRespectsEq goHash := goHash_respects_eq

theorem C11_badHashes_respect_eq : HashRespectsEq kindHash ∧ HashRespectsEq constHash ∧ HashRespectsEq wrapHash :=
  ⟨kindHash_respects_eq, constHash_respects_eq, wrapHash_respects_eq⟩

/-- the hash a `types.Set` / `types.Record` caches at construction (`hashVal`, what `hash()` returns when the value
    is later nested in another set or record) is the value-level `goHash` of the evaluator-model value -/
theorem C11_hashVal_consistent (l : List Value) (hl : l.length < 2 ^ 64) (kvs : List (String × Value)) :
    (newSet goHash l).hashVal = goHash (mkSet l) ∧ (newRecord goHash kvs).hashVal = goHash (mkRecord kvs) :=
  ⟨newSet_hashVal_eq_goHash l hl, newRecord_hashVal_eq_goHash kvs⟩

/-- non-vacuity: the colliding universe really collides under the real hash -/
example : goHash (.bool true) = 1 ∧ goHash (.long 1) = 1 ∧ goHash (.decimal 1) = 1 ∧ goHash (.duration 1) = 1 ∧
    goHash (.datetime 1) = 1 ∧ goHash (mkSet [.long 1]) = 1 ∧ goHash (mkSet [.bool true]) = 1 ∧
    goHash (.long 0) = goHash (mkSet []) := by decide +kernel

/-- non-vacuity: five mutually colliding, mutually unequal values occupy five consecutive slots; order and
    duplicates do not matter; the same answers come out of the constant and the wrap-around hash -/
example :
    (newSet goHash [.bool true, .long 1, .decimal 1, .duration 1, .datetime 1, .long 1]).len = 5 ∧
    ((newSet goHash [.bool true, .long 1, .decimal 1, .duration 1, .datetime 1]).tbl.map (·.1)) = [5, 4, 3, 2, 1] ∧
    (newSet goHash [.bool true, .long 1, .decimal 1]).equal goHash (newSet goHash [.decimal 1, .long 1, .long 1, .bool true]) = true ∧
    (newSet wrapHash [.bool true, .long 1, .decimal 1]).equal wrapHash (newSet wrapHash [.decimal 1, .long 1, .long 1, .bool true]) = true ∧
    ((newSet wrapHash [.bool true, .long 1, .decimal 1]).tbl.map (·.1)) = [1, 0, 18446744073709551615] ∧
    (newSet goHash [.bool true, .long 1]).contains goHash (.decimal 1) = false ∧
    (newSet goHash [.bool true, .long 1]).equal goHash (newSet goHash [.bool true, .decimal 1]) = false := by
  decide +kernel

end CedarGo
