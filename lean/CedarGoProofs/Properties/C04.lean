/-
  C04 — Policy compilation (constant folding) never changes a policy's meaning.
  `fold` is the transcription of internal/eval/fold.go; `compile` of `eval.Compile`.
  Main theorem: for EVERY expression and EVERY environment, evaluating the folded tree gives the
  same value or the same error kind as evaluating the original tree.
-/
import CedarGo.Model.Fold
import CedarGo.Generated.Facts
import CedarGoProofs.Lemmas.RecordLit
namespace CedarGo

/-! ### Literal-only operands make the closed operators independent of the environment -/

theorem isLit_eq {e : Expr} (h : e.isLit = true) : ∃ v, e = .lit v := by
  cases e <;> simp [Expr.isLit] at h
  exact ⟨_, rfl⟩

theorem evalList_lits (es : List Expr) (h : es.all Expr.isLit = true) (env env' : Env) :
    evalList es env = evalList es env' := by
  induction es with
  | nil => rfl
  | cons e es ih =>
    simp only [List.all_cons, Bool.and_eq_true] at h
    obtain ⟨v, rfl⟩ := isLit_eq h.1
    simp only [evalList, eval, ih h.2]

/-- a record literal whose entries are all literals evaluates alike in every environment -/
theorem evalRecord_lits (kes : List (String × Expr)) (h : kes.all (fun ke => ke.2.isLit) = true) (env env' : Env) :
    eval (.record kes) env = eval (.record kes) env' := by
  apply eval_recordLit_congr
  apply List.map_congr_left
  intro ke hke
  obtain ⟨v, hv⟩ := isLit_eq (List.all_eq_true.mp h ke hke)
  simp only [hv, eval]

theorem foldKVs_eq_map (kes : List (String × Expr)) : foldKVs kes = kes.map (fun ke => (ke.1, fold ke.2)) := by
  induction kes with
  | nil => simp [foldKVs]
  | cons ke kes ih => obtain ⟨k, e⟩ := ke; simp only [foldKVs, List.map_cons, ih]

theorem evalTyped_lits (es : List Expr) (ks : List Kind) (h : es.all Expr.isLit = true) (env env' : Env) :
    evalTyped es ks env = evalTyped es ks env' := by
  induction es generalizing ks with
  | nil => rfl
  | cons e es ih =>
    simp only [List.all_cons, Bool.and_eq_true] at h
    obtain ⟨v, rfl⟩ := isLit_eq h.1
    simp only [evalTyped, eval, ih _ h.2]

/-- the last step of `tryFold`: replacing a closed operator by the literal it evaluates to (in the
    empty environment) preserves meaning, provided the operator's value does not depend on the
    environment; an erroring evaluation keeps the operator, so errors are never folded away. -/
theorem tryFoldNode_preserves (allLit forced : Bool) (node : Expr)
    (h : (allLit && !forced) = true → ∀ env env', eval node env = eval node env') (env : Env) :
    eval (tryFoldNode allLit forced node) env = eval node env := by
  unfold tryFoldNode
  split
  · rename_i hc
    cases he : eval node emptyEnv with
    | ok v => simp only; rw [h hc env emptyEnv, he]; simp [eval]
    | error k => rfl
  · rfl

/-- Which operators `fold.go` evaluates over literals, and that none of them reads the environment. -/
theorem C04_closedOp_env_irrelevant_binop (op : BinOp) (a b : Value)
    (hop : (op == .in_ || op == .getTag || op == .hasTag) = false) (env env' : Env) :
    eval (.binop op (.lit a) (.lit b)) env = eval (.binop op (.lit a) (.lit b)) env' := by
  cases op <;> simp at hop <;> simp [eval]

theorem C04_closedOp_env_irrelevant_access (v : Value) (attr : String) (hv : isEntityLit (.lit v) = false) (env env' : Env) :
    eval (.access (.lit v) attr) env = eval (.access (.lit v) attr) env' ∧
    eval (.has (.lit v) attr) env = eval (.has (.lit v) attr) env' := by
  cases v <;> simp [isEntityLit] at hv <;> simp [eval, bind, Except.bind]

mutual
/-- **Folding preserves meaning**: same value, or same error kind, in every environment. -/
theorem C04_fold_preserves : ∀ (e : Expr) (env : Env), eval (fold e) env = eval e env
  | .lit v, env => by simp [fold]
  | .var v, env => by simp [fold]
  | .unop op e, env => by
    have ih := C04_fold_preserves e
    simp only [fold]
    rw [tryFoldNode_preserves]
    · cases op <;> simp only [eval, ih]
    · intro hc env env'
      simp only [Bool.not_false, Bool.and_true] at hc
      obtain ⟨v, hv⟩ := isLit_eq hc
      rw [hv]; cases op <;> simp [eval]
  | .binop op l r, env => by
    have ihl := C04_fold_preserves l
    have ihr := C04_fold_preserves r
    simp only [fold]
    rw [tryFoldNode_preserves]
    · cases op <;> simp only [eval, ihl, ihr]
    · intro hc env env'
      simp only [Bool.and_eq_true, Bool.not_eq_true'] at hc
      obtain ⟨⟨hl, hr⟩, hforced⟩ := hc
      obtain ⟨a, ha⟩ := isLit_eq hl
      obtain ⟨b, hb⟩ := isLit_eq hr
      rw [ha, hb]
      exact C04_closedOp_env_irrelevant_binop op a b hforced env env'
  | .ite c t e, env => by
    have ihc := C04_fold_preserves c
    have iht := C04_fold_preserves t
    have ihe := C04_fold_preserves e
    simp only [fold]
    rw [tryFoldNode_preserves]
    · simp only [eval, ihc, iht, ihe]
    · intro hc env env'
      simp only [Bool.not_false, Bool.and_true, Bool.and_eq_true] at hc
      obtain ⟨a, ha⟩ := isLit_eq hc.1.1
      obtain ⟨b, hb⟩ := isLit_eq hc.1.2
      obtain ⟨d, hd⟩ := isLit_eq hc.2
      rw [ha, hb, hd]; simp [eval]
  | .access e a, env => by
    have ih := C04_fold_preserves e
    simp only [fold]
    rw [tryFoldNode_preserves]
    · simp only [eval, ih]
    · intro hc env env'
      simp only [Bool.and_eq_true, Bool.not_eq_true'] at hc
      obtain ⟨v, hv⟩ := isLit_eq hc.1
      rw [hv] at hc ⊢
      exact (C04_closedOp_env_irrelevant_access v a hc.2 env env').1
  | .has e a, env => by
    have ih := C04_fold_preserves e
    simp only [fold]
    rw [tryFoldNode_preserves]
    · simp only [eval, ih]
    · intro hc env env'
      simp only [Bool.and_eq_true, Bool.not_eq_true'] at hc
      obtain ⟨v, hv⟩ := isLit_eq hc.1
      rw [hv] at hc ⊢
      exact (C04_closedOp_env_irrelevant_access v a hc.2 env env').2
  | .like e p, env => by
    have ih := C04_fold_preserves e
    simp only [fold]
    rw [tryFoldNode_preserves]
    · simp only [eval, ih]
    · intro hc env env'
      simp only [Bool.not_false, Bool.and_true] at hc
      obtain ⟨v, hv⟩ := isLit_eq hc
      rw [hv]; simp [eval]
  | .is e ty, env => by
    have ih := C04_fold_preserves e
    simp only [fold]
    rw [tryFoldNode_preserves]
    · simp only [eval, ih]
    · intro hc env env'
      simp only [Bool.not_false, Bool.and_true] at hc
      obtain ⟨v, hv⟩ := isLit_eq hc
      rw [hv]; simp [eval]
  | .isIn e ty r, env => by
    have ihe := C04_fold_preserves e
    have ihr := C04_fold_preserves r
    simp only [fold]
    rw [tryFoldNode_preserves]
    · simp only [eval, ihe, ihr]
    · intro hc; simp at hc
  | .set es, env => by
    have ih := C04_foldList_preserves es
    simp only [fold]
    rw [tryFoldNode_preserves]
    · simp only [eval, ih]
    · intro hc env env'
      simp only [Bool.not_false, Bool.and_true] at hc
      simp only [eval, evalList_lits _ hc env env']
  | .record kes, env => by
    have ih := C04_foldKVs_preserves kes env
    simp only [fold]
    rw [tryFoldNode_preserves]
    · rw [foldKVs_eq_map]; exact eval_recordLit_map fold kes env ih
    · intro hc env env'
      simp only [Bool.not_false, Bool.and_true] at hc
      exact evalRecord_lits _ hc env env'
  | .call fn args, env => by
    have ih := C04_foldTyped_preserves args
    have hlen : (foldList args).length = args.length := foldList_length args
    simp only [fold]
    rw [tryFoldNode_preserves]
    · simp only [eval, ih, hlen]
    · intro hc env env'
      simp only [Bool.not_false, Bool.and_true] at hc
      simp only [eval, evalTyped_lits _ _ hc env env']
theorem C04_foldList_preserves : ∀ (es : List Expr) (env : Env), evalList (foldList es) env = evalList es env
  | [], _ => rfl
  | e :: es, env => by
    simp only [foldList, evalList, C04_fold_preserves e env, C04_foldList_preserves es env]
/-- every entry of a record literal keeps its meaning (the literal evaluates its entries in key order,
    `eval_recordLit`; `foldKVs` keeps keys and positions, so the folded literal evaluates the same
    entries in the same order) -/
theorem C04_foldKVs_preserves : ∀ (kes : List (String × Expr)) (env : Env), ∀ ke ∈ kes, eval (fold ke.2) env = eval ke.2 env
  | [], _ => by intro ke h; cases h
  | (k, e) :: kes, env => by
    intro ke h
    rcases List.mem_cons.mp h with h | h
    · rw [h]; exact C04_fold_preserves e env
    · exact C04_foldKVs_preserves kes env ke h
theorem C04_foldTyped_preserves : ∀ (es : List Expr) (ks : List Kind) (env : Env),
    evalTyped (foldList es) ks env = evalTyped es ks env
  | [], _, _ => rfl
  | e :: es, ks, env => by
    simp only [foldList, evalTyped, C04_fold_preserves e env, C04_foldTyped_preserves es ks.tail env]
theorem foldList_length : ∀ (es : List Expr), (foldList es).length = es.length
  | [] => rfl
  | e :: es => by simp [foldList, foldList_length es]
end

/-- Folding never turns an error into a value nor a value into an error (corollary). -/
theorem C04_fold_keeps_errors (e : Expr) (env : Env) (k : Err) :
    eval e env = .error k ↔ eval (fold e) env = .error k := by rw [C04_fold_preserves]

/-- `andAll` evaluates its conjuncts only through `eval`, so conjunct-wise equal meaning gives equal meaning -/
theorem eval_andAll_congr (e e' : Expr) (rest rest' : List Expr) (env : Env)
    (h0 : eval e env = eval e' env) (hlen : rest.length = rest'.length)
    (h : ∀ i (h1 : i < rest.length) (h2 : i < rest'.length), eval rest[i] env = eval rest'[i] env) :
    eval (andAll e rest) env = eval (andAll e' rest') env := by
  induction rest generalizing e e' rest' with
  | nil =>
    cases rest' with
    | nil => simpa [andAll] using h0
    | cons _ _ => simp at hlen
  | cons x xs ih =>
    cases rest' with
    | nil => simp at hlen
    | cons y ys =>
      simp only [andAll, eval, h0]
      have hxy := h 0 (by simp) (by simp)
      simp only [List.getElem_cons_zero] at hxy
      have := ih x y ys hxy (by simpa using hlen) (fun i h1 h2 => by
        have := h (i + 1) (by simp; omega) (by simp; omega)
        simpa using this)
      rw [this]

/-- **What the authorizer runs means what the policy says**: the compiled (folded) policy
    evaluates, in every environment, exactly like `PolicyToNode` of the original AST. -/
theorem C04_compile_preserves (p : Policy) (env : Env) :
    evalBool (compile p) env = evalBool (policyToExpr p) env := by
  unfold evalBool compile
  congr 1
  unfold policyToExpr foldPolicy
  simp only [List.map_map]
  generalize hs : (if p.principal.isAll && p.action.isAll && p.resource.isAll then [Expr.lit (.bool true)]
      else (if p.principal.isAll then [] else [scopeToExpr .principal p.principal])
        ++ (if p.action.isAll then [] else [scopeToExpr .action p.action])
        ++ (if p.resource.isAll then [] else [scopeToExpr .resource p.resource])) = scopes
  have hcond : ∀ c : Bool × Expr, eval (condToExpr (c.1, fold c.2)) env = eval (condToExpr c) env := by
    intro c
    unfold condToExpr
    split
    · exact C04_fold_preserves c.2 env
    · simp only [eval, C04_fold_preserves c.2 env]
  -- both sides are `andAll` over lists of equal length with pointwise equal meaning
  have hall : ∀ (l1 l2 : List Expr), l1.length = l2.length →
      (∀ i (h1 : i < l1.length) (h2 : i < l2.length), eval l1[i] env = eval l2[i] env) →
      eval (match l1 with | [] => .lit (.bool true) | e :: rest => andAll e rest) env =
      eval (match l2 with | [] => .lit (.bool true) | e :: rest => andAll e rest) env := by
    intro l1 l2 hlen h
    cases l1 with
    | nil => cases l2 with
      | nil => rfl
      | cons _ _ => simp at hlen
    | cons a as => cases l2 with
      | nil => simp at hlen
      | cons b bs =>
        simp only
        apply eval_andAll_congr
        · have := h 0 (by simp) (by simp)
          simpa only [List.getElem_cons_zero] using this
        · simpa using hlen
        · intro i h1 h2
          have := h (i + 1) (by simp; omega) (by simp; omega)
          simpa using this
  apply hall
  · simp
  · intro i h1 h2
    by_cases hi : i < scopes.length
    · simp [List.getElem_append_left, hi]
    · have hi' : scopes.length ≤ i := by omega
      simp only [List.getElem_append_right hi', List.getElem_map, Function.comp]
      exact hcond _

/-- Folding is a pure function of the policy: it never consults an environment (by construction —
    `fold : Expr → Expr` has no environment argument), and it leaves scope, effect, annotations and
    position untouched. -/
theorem C04_foldPolicy_keeps_header (p : Policy) :
    (foldPolicy p).effect = p.effect ∧ (foldPolicy p).annotations = p.annotations ∧
    (foldPolicy p).principal = p.principal ∧ (foldPolicy p).action = p.action ∧
    (foldPolicy p).resource = p.resource ∧ (foldPolicy p).position = p.position ∧
    (foldPolicy p).conditions.map (·.1) = p.conditions.map (·.1) := by
  simp [foldPolicy]

/-- The decision computed with compiled policies equals the decision computed with unfolded ones. -/
theorem C04_authorize_eq_unfolded (ps : List (PolicyID × Policy)) (env : Env) :
    authorize ps env = authorizeWith policyToExpr ps env := by
  unfold authorize authorizeWith
  have : ∀ acc, ps.foldl (authStep compile env) acc = ps.foldl (authStep policyToExpr env) acc := by
    induction ps with
    | nil => intro acc; rfl
    | cons ip ps ih =>
      intro acc
      simp only [List.foldl_cons]
      have : authStep compile env acc ip = authStep policyToExpr env acc ip := by
        unfold authStep; rw [C04_compile_preserves]
      rw [this, ih]
  rw [this]

/-! ### Non-vacuity -/

-- a constant sub-expression that errors is kept; a short-circuit with an ill-typed skipped operand
-- folds to its value; entity-dependent operators are never folded
example : (fold (.binop .add (.lit (.long 9223372036854775807)) (.lit (.long 1)))).isLit = false := by decide +kernel
example : (match fold (.binop .or (.lit (.bool true)) (.lit (.long 1))) with | .lit (.bool true) => true | _ => false) = true := by
  decide +kernel
example : (fold (.binop .in_ (.lit (.entity "A" "a")) (.lit (.entity "A" "a")))).isLit = false := by decide +kernel
example : (fold (.binop .mul (.lit (.long 6)) (.binop .add (.lit (.long 3)) (.lit (.long 4))))).isLit = true := by decide +kernel

end CedarGo

/-! ### Tie to the source: which arms of `fold`'s type switch refuse to fold (regenerated facts) -/
namespace CedarGo
/-- The Go `fold` forces an error evaluator (i.e. never folds) exactly for the four operators the
    model's `forced` flag names, and guards `.`/`has` on an entity literal; and `fold`/`ToEval` cover
    the same node kinds.  A removed guard or a new arm changes `Facts` and breaks this theorem. -/
theorem C04_facts_fold_guards :
    Facts.foldForced = ["ast.NodeTypeGetTag", "ast.NodeTypeHasTag", "ast.NodeTypeIn", "ast.NodeTypeIsIn"] ∧
    Facts.foldEntityGuard = ["ast.NodeTypeAccess", "ast.NodeTypeHas"] ∧
    Facts.foldArms = Facts.toEvalArms := by decide
end CedarGo
