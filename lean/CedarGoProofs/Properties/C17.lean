/-
  C17 — Schema codecs round-trip and preserve the resolved schema.

  * JSON: `Schema.MarshalJSON` / `UnmarshalJSON` at the level of the Go structs `encoding/json` reads and writes
    (CedarGo/Model/Schema/Json.lean) round-trip every schema the JSON form can represent (`SchemaJsonOk`); hence
    resolution commutes with the JSON trip.  What `SchemaJsonOk` excludes is what the code loses: an enum with no
    values comes back as an entity type (`C17_schema_json_roundtrip_counterexample`), memberOfTypes are sorted.
  * Cedar text: the printer (CedarGo/Model/Schema/Text.lean, byte-identical to `MarshalCedar` on the generated
    corpus) is NOT injective modulo resolution: two schemas that resolve differently print to the same bytes, so no
    parser can round-trip both (`C17_print_primitive_shadow_counterexample`,
    `C17_print_entity_ref_counterexample`).
  * `quoteCedar` (attribute names, action names, enum values, annotation values) is undone by the lexer's
    `rust.Unquote`: `C17_quoteCedar_unquote`.
  The text LEXER/PARSER is modelled executably only (CedarGo/Model/Schema/Parser.lean, `partial def` loops, tied to the
  Go parser by the `schema-parse` and `schema-text-roundtrip` correspondence ops — rendered, hand-written and mutated
  texts); no theorem is stated about it.  text→AST→text, text→JSON→text and JSON→text→JSON are checked by the search
  oracle of harness/cmd/vh/c17.go on the implementation.
-/
import CedarGoProofs.Lemmas.C17Quote
namespace CedarGo
open CedarGo.Schema

/-- FULL STATEMENT (false, see the counterexample): `unmarshalSchema (marshalSchema s) = .ok s` for every schema.
    PROVED PART: for every schema the JSON form can represent — entity parent lists sorted (the encoder sorts
    `memberOfTypes`), no enum without values, no name declared both as entity and enum in one namespace, no
    annotations on the empty namespace, no namespace called "". -/
theorem C17_schema_json_roundtrip_partial (s : Schema) (h : SchemaJsonOk s) : unmarshalSchema (marshalSchema s) = .ok s :=
  unmarshal_marshalSchema s h

instance {ε α} [DecidableEq ε] [DecidableEq α] : DecidableEq (Except ε α)
  | .ok a, .ok b => if h : a = b then isTrue (by rw [h]) else isFalse (by intro h'; cases h'; exact h rfl)
  | .error a, .error b => if h : a = b then isTrue (by rw [h]) else isFalse (by intro h'; cases h'; exact h rfl)
  | .ok _, .error _ => isFalse (by intro h; cases h)
  | .error _, .ok _ => isFalse (by intro h; cases h)

/-- `entity A in [B]; entity B; entity Color enum ["r"]; type T = {a?: Set<Long>}; action "view" appliesTo {…}` in a namespace -/
def c17SampleNs : Namespace where
  anns := [("doc", "x")]
  enums := [("Color", { values := ["r"] })]
  commonTypes := [("T", { ty := .record (.cons "a" true [] (.set .long) .nil) })]
  actions := [("view", { parents := [("", "edit")],
                         appliesTo := some { principals := ["A"], resources := ["B"], context := some (.typeRef "T") } }),
              ("edit", {})]

def c17Sample : Schema where
  bare := { entities := [("A", { parents := ["B"] }), ("B", {})] }
  namespaces := [("NS", c17SampleNs)]

example : SchemaJsonOk c17Sample := by
  refine ⟨⟨?_, ?_, ?_⟩, rfl, ?_⟩
  · intro e he
    simp only [c17Sample, List.mem_cons, List.not_mem_nil, or_false] at he
    rcases he with rfl | rfl <;> decide
  · intro e he; simp [c17Sample] at he
  · intro e _ en hen; simp [c17Sample] at hen
  · intro nd hnd
    simp only [c17Sample, List.mem_cons, List.not_mem_nil, or_false] at hnd
    subst hnd
    refine ⟨⟨?_, ?_, ?_⟩, by decide⟩
    · intro e he; simp [c17SampleNs] at he
    · intro e he; simp [c17SampleNs] at he; subst he; simp
    · intro e he; simp [c17SampleNs] at he

/-- `entity Color enum [];` (accepted by the text parser): the JSON trip turns the enum into an entity type. -/
theorem C17_schema_json_roundtrip_counterexample :
    ∃ s : Schema, unmarshalSchema (marshalSchema s) ≠ .ok s :=
  ⟨{ bare := { enums := [("Color", {})] } }, by
    have : unmarshalSchema (marshalSchema { bare := { enums := [("Color", {})] } }) =
        .ok { bare := { entities := [("Color", {})] } } := by decide +kernel
    rw [this]
    intro h
    injection h with h
    exact absurd h (by decide)⟩

/-- Converting to JSON and back commutes with resolution (for every schema the JSON form can represent). -/
theorem C17_json_commutes_with_resolve_partial (s : Schema) (h : SchemaJsonOk s) :
    (unmarshalSchema (marshalSchema s)).toOption.map resolve = some (resolve s) := by
  rw [C17_schema_json_roundtrip_partial s h]
  rfl

/-- JSON `{"entityTypes": {"Long": {}, "X": {"shape": {… "a": {"type": "Long"}}}}}`: `a` is the PRIMITIVE Long -/
def shadowJson : Schema :=
  { bare := { entities := [("Long", {}), ("X", { shape := some (.cons "a" false [] .long .nil) })] } }

/-- what the text `entity Long; entity X { a: Long };` denotes: `a` refers to the name `Long` -/
def shadowText : Schema :=
  { bare := { entities := [("Long", {}), ("X", { shape := some (.cons "a" false [] (.typeRef "Long") .nil) })] } }

/-- The printer writes the primitive type node as the bare name `Long`: `shadowJson` and `shadowText` print to the same
    bytes, yet the first resolves `a` to the primitive `Long` and the second to the ENTITY type `Long`.
    So `MarshalCedar` followed by any parser cannot preserve the resolved schema of both. -/
theorem C17_print_primitive_shadow_counterexample :
    ∃ s s' : Schema, printSchema s = printSchema s' ∧ resolve s ≠ resolve s' ∧
      (∃ rs, resolve s = some (.ok rs)) ∧ (∃ rs', resolve s' = some (.ok rs')) := by
  refine ⟨shadowJson, shadowText, by decide +kernel, by decide +kernel, ?_, ?_⟩
  · have : (match resolve shadowJson with | some (.ok _) => true | _ => false) = true := by decide +kernel
    revert this
    cases resolve shadowJson with
    | none => simp
    | some r => cases r with
      | error _ => simp
      | ok rs => exact fun _ => ⟨rs, rfl⟩
  · have : (match resolve shadowText with | some (.ok _) => true | _ => false) = true := by decide +kernel
    revert this
    cases resolve shadowText with
    | none => simp
    | some r => cases r with
      | error _ => simp
      | ok rs => exact fun _ => ⟨rs, rfl⟩

/-- The same loss for `{"type": "Entity", "name": "X"}` when a common type `X` is in scope: printed as `X`, which
    denotes the common type. -/
theorem C17_print_entity_ref_counterexample :
    ∃ s s' : Schema, printSchema s = printSchema s' ∧ resolve s ≠ resolve s' := by
  refine ⟨{ bare := { entities := [("X", {}), ("Y", { shape := some (.cons "b" false [] (.entityRef "X") .nil) })], commonTypes := [("X", { ty := .long })] } },
          { bare := { entities := [("X", {}), ("Y", { shape := some (.cons "b" false [] (.typeRef "X") .nil) })], commonTypes := [("X", { ty := .long })] } },
          by decide +kernel, by decide +kernel⟩

/-- `quoteCedar` uses only escapes the lexer understands: unquoting the body of `quoteCedar s` (what the schema lexer
    does with a string token, `rust.Unquote(raw, false)`) gives back `s`, for every string. -/
theorem C17_quoteCedar_unquote (s : String) : unquoteCedar (quoteBody s.toList) = some s.toList :=
  unquoteFuel_quoteBody s.toList _ (Nat.le_refl _)

example : quoteCedar "a\"b\\\n\x00é" = "\"a\\\"b\\\\\\n\\0\\u{e9}\"" := by decide +kernel

/-- and the quoted form is the body between two double quotes -/
theorem C17_quoteCedar_shape (s : String) : (quoteCedar s).toList = '"' :: quoteBody s.toList ++ ['"'] := by
  simp [quoteCedar]

end CedarGo
