/-
  C17 — Schema codecs round-trip and preserve the resolved schema.

  * JSON: `Schema.MarshalJSON` / `UnmarshalJSON` at the level of the Go structs `encoding/json` reads and writes
    (CedarGo/Model/Schema/Json.lean) round-trip every schema the JSON form can represent (`SchemaJsonOk`); hence
    resolution commutes with the JSON trip.  What `SchemaJsonOk` excludes: an enum with no values (not a schema: both
    parsers reject it), unsorted memberOfTypes (the encoder sorts them), and a hand-built AST declaring one name as
    entity type and enum (`C17_schema_json_roundtrip_counterexample`).
  * Cedar text: the printer (CedarGo/Model/Schema/Text.lean, byte-identical to `MarshalCedar` on the generated
    corpus) writes a built-in type node (String/Long/Bool/extension) as `__cedar::Name` whenever the current or the empty
    namespace declares a type of that name; the printed name re-resolves to the same built-in in every resolver state
    (`C17_print_builtin_reresolves`, `C17_print_builtin_resolves_same` — formerly the counterexample
    `C17_print_primitive_shadow_counterexample`).  One ambiguity is left, for which the text syntax has no remedy: an
    explicit entity reference and a reference to a common type of the same name print alike
    (`C17_print_entity_ref_counterexample`).
  * `quoteCedar` (attribute names, action names, enum values, annotation values) is undone by the lexer's
    `rust.Unquote`: `C17_quoteCedar_unquote`.
  * The text LEXER / PARSER (CedarGo/Model/Schema/Parser.lean: a total, fuelled transcription of token.go / parser.go,
    tied to the Go parser by the `schema-parse` and `schema-text-roundtrip` correspondence ops — rendered, hand-written and
    mutated texts) — THE TEXT HALF OF THE PROPERTY:
      C17_schema_text_roundtrip_partial            parseSchema (printSchema s) = ok (normSchema s) on the decidable fragment
                                                   `SchemaTextOk` (every construct of the grammar; names needing quotes;
                                                   keywords as names); `normSchema` = key order + dropped annotations of the
                                                   empty namespace + built-in / entity-reference NODES as the NAMES printed
      C17_schema_text_lex_parse_partial            the two halves: bytes → tokens `toksSchema s`, tokens → `normSchema s`
      C17_schema_print_normal_form_stable          printSchema (normSchema s) = printSchema s for EVERY schema (full)
      C17_schema_print_stable_partial              second rendering byte-identical to the first (on the fragment)
      C17_schema_text_roundtrip_resolved_partial   (parse (print s)).map resolve = resolve s under `SchemaTextOk`, `KeysSorted`
                                                   (representation invariant) and `EntityRefsOk` (extension nodes known,
                                                   explicit entity references unambiguous; decidable) — nothing is assumed
                                                   about built-in names: C17_builtin_nodes_always_reresolve;
                                                   …_resolved_plain_partial (no ext / entity-ref nodes: no such hypothesis);
                                                   C17_normSchema_resolves_same (resolver level, `ResolvesAlike`)
      C17_formats_commute_partial                  text→AST→JSON→AST is the identical AST (needs only sorted memberOf lists:
                                                   C17_text_normal_form_json_representable); JSON→AST→text→AST resolves alike
      C17_schema_parser_total / _lexer_total       the fuel is never exhausted on ANY token list / character list, so an
                                                   error always means rejection; C17_schema_parser_fuel_irrelevant,
                                                   C17_schema_parse_ok_iff / _error_iff
    Lemma files: Lemmas/C17TextDefs (token rendering, normal form, fragment), C17TextLex* (lexer half), C17TextParse*
    (parser half), C17TextPrint (print stability), C17TextResolve* (resolver invariance), C17TextShadow (built-in names
    are never captured), C17TextJson* (the normal form is JSON-representable), C17TextTotal (totality).
    WHAT IS STILL EXCLUDED (why the theorems keep `_partial`): ASTs that are not the AST of any Cedar text (see
    `SchemaTextOk`), among them the open finding `appliesTo-without-principal-or-resource-renders-unparseable`; for the
    RESOLVED statement additionally unsorted association lists (the model's maps are key-sorted by construction) and the
    schemas where the text form genuinely loses information (`EntityRefsOk`: unknown extension node, undefined or
    captured entity reference = finding `entity-ref-rendered-as-ambiguous-name`).  Layout other than the printer's
    (comments, other white space) is covered by correspondence only.
  text→AST→text, text→JSON→text and JSON→text→JSON are also checked by the search oracle of harness/cmd/vh/c17.go on the
  implementation.
-/
import CedarGoProofs.Lemmas.C17Quote
import CedarGoProofs.Lemmas.C17TextLex
import CedarGoProofs.Lemmas.C17TextParse
import CedarGoProofs.Lemmas.C17TextPrint
import CedarGoProofs.Lemmas.C17TextResolve
import CedarGoProofs.Lemmas.C17TextTotal
import CedarGoProofs.Lemmas.C17TextShadow
import CedarGoProofs.Lemmas.C17TextJson
import CedarGoProofs.Lemmas.C17TextJsonB
namespace CedarGo
open CedarGo.Schema

/-- FULL STATEMENT (false, see the counterexample): `unmarshalSchema (marshalSchema s) = .ok s` for every schema.
    PROVED PART: for every schema the JSON form can represent — entity parent lists sorted (the encoder sorts
    `memberOfTypes`), no enum without values, no name declared both as entity and enum in one namespace, no
    annotations on the empty namespace, no namespace called "", and every name one the grammar allows where it stands
    (`NamespaceJsonOk.names`, namespace names are paths: since the repair of `unvalidated-identifier-renders-unparseable`
    the JSON parser checks names exactly as the text parser does, so this holds for every AST a parser produces). -/
theorem C17_schema_json_roundtrip_partial (s : Schema) (h : SchemaJsonOk s) : unmarshalSchema (marshalSchema s) = .ok s :=
  unmarshal_marshalSchema s h

instance {ε α} [DecidableEq ε] [DecidableEq α] : DecidableEq (Except ε α)
  | .ok a, .ok b => if h : a = b then isTrue (by rw [h]) else isFalse (by intro h'; cases h'; exact h rfl)
  | .error a, .error b => if h : a = b then isTrue (by rw [h]) else isFalse (by intro h'; cases h'; exact h rfl)
  | .ok _, .error _ => isFalse (by intro h; cases h)
  | .error _, .ok _ => isFalse (by intro h; cases h)

/-- `entity A in [B]; entity B; entity Color enum ["r"]; type T = {a?: Set<Long>}; action "view" appliesTo {…}` in a namespace -/
def c17SampleNs : Namespace where
  anns := [("doc", "x")]
  enums := [("Color", { values := ["r"] })]
  commonTypes := [("T", { ty := .record (.cons "a" true [] (.set .long) .nil) })]
  actions := [("view", { parents := [("", "edit")],
                         appliesTo := some { principals := ["A"], resources := ["B"], context := some (.typeRef "T") } }),
              ("edit", {})]

def c17Sample : Schema where
  bare := { entities := [("A", { parents := ["B"] }), ("B", {})] }
  namespaces := [("NS", c17SampleNs)]

example : SchemaJsonOk c17Sample := by
  refine ⟨⟨?_, ?_, ?_, by decide +kernel⟩, rfl, ?_⟩
  · intro e he
    simp only [c17Sample, List.mem_cons, List.not_mem_nil, or_false] at he
    rcases he with rfl | rfl <;> decide
  · intro e he; simp [c17Sample] at he
  · intro e _ en hen; simp [c17Sample] at hen
  · intro nd hnd
    simp only [c17Sample, List.mem_cons, List.not_mem_nil, or_false] at hnd
    subst hnd
    refine ⟨⟨?_, ?_, ?_, by decide +kernel⟩, by decide, by decide +kernel⟩
    · intro e he; simp [c17SampleNs] at he
    · intro e he; simp [c17SampleNs] at he; subst he; simp
    · intro e he; simp [c17SampleNs] at he

/-- The full statement stays false for hand-built ASTs the JSON form cannot represent: the same name declared as entity
    type AND as enum in one namespace (`Resolve` rejects it as declared twice) — both go into the one `entityTypes`
    map and the entity is lost (finding `ast-entity-and-enum-same-name`, programmatic ASTs only). -/
theorem C17_schema_json_roundtrip_counterexample :
    ∃ s : Schema, unmarshalSchema (marshalSchema s) ≠ .ok s :=
  ⟨{ bare := { entities := [("X", {})], enums := [("X", { values := ["a"] })] } }, by
    have : unmarshalSchema (marshalSchema { bare := { entities := [("X", {})], enums := [("X", { values := ["a"] })] } }) =
        .ok { bare := { enums := [("X", { values := ["a"] })] } } := by decide +kernel
    rw [this]
    intro h
    injection h with h
    exact absurd h (by decide)⟩

/-- regression (the former witness of the counterexample, `entity Color enum [];`): an enum without values is no longer
    turned into an ordinary entity type by the JSON trip — `MarshalJSON` writes `"enum":[]` and `UnmarshalJSON` rejects it
    (as the text parser now rejects `enum []`: the grammar requires at least one value) -/
example : unmarshalSchema (marshalSchema { bare := { enums := [("Color", {})] } }) =
    .error "an enum entity type needs at least one value" := by decide +kernel
example : renderSchemaJson { bare := { enums := [("Color", {})] } } =
    "{\"\":{\"entityTypes\":{\"Color\":{\"enum\":[]}},\"actions\":{}}}" := by decide +kernel

/-- regression (`unvalidated-identifier-renders-unparseable`, `reserved-common-type-name-renders-unparseable`): the JSON
    parser rejects `{"": {"entityTypes": {"a b": {}}}}`, a common type named `Record`, a type reference `in`, a namespace
    `A::in`; it accepts `__cedar::Long` as a reference and keywords as annotation keys -/
example : unmarshalSchema [("", { entityTypes := [("a b", {})] })] = .error "invalid name" := by decide +kernel
example : unmarshalSchema [("", { commonTypes := [("Record", { ty := .mk "Long" .none .nil "" })] })] = .error "invalid name" := by
  decide +kernel
example : unmarshalSchema [("", { entityTypes := [("X", { tags := some (.mk "Entity" .none .nil "in") })] })] = .error "invalid name" := by
  decide +kernel
example : unmarshalSchema [("A::in", {})] = .error "not a valid namespace name" := by decide +kernel
example : unmarshalSchema [("A::B", { entityTypes := [("X", { anns := [("in", "x")], tags := some (.mk "__cedar::Long" .none .nil "") })] })] =
    .ok { namespaces := [("A::B", { entities := [("X", { anns := [("in", "x")], tags := some (.typeRef "__cedar::Long") })] })] } := by
  decide +kernel

/-- Converting to JSON and back commutes with resolution (for every schema the JSON form can represent). -/
theorem C17_json_commutes_with_resolve_partial (s : Schema) (h : SchemaJsonOk s) :
    (unmarshalSchema (marshalSchema s)).toOption.map resolve = some (resolve s) := by
  rw [C17_schema_json_roundtrip_partial s h]
  rfl

/-- JSON `{"entityTypes": {"Long": {}, "X": {"shape": {… "a": {"type": "Long"}}}}}`: `a` is the PRIMITIVE Long -/
def shadowJson : Schema :=
  { bare := { entities := [("Long", {}), ("X", { shape := some (.cons "a" false [] .long .nil) })] } }

/-- what the text `entity Long; entity X { a: Long };` denotes: `a` refers to the name `Long` -/
def shadowText : Schema :=
  { bare := { entities := [("Long", {}), ("X", { shape := some (.cons "a" false [] (.typeRef "Long") .nil) })] } }

/-- The repaired printer writes a built-in type node (`builtinRTy t = some rt`: String, Long, Bool, a known extension) as
    `__cedar::Name` when `sh` — the names declared by the current and the empty namespace, which is what `printSchema`
    passes — contains its name, and as the bare name otherwise.  Read back as a type reference in namespace `ns` (that
    is what the text parser makes of a name), the printed name denotes the SAME built-in type, whatever else the schema
    declares: the only hypothesis is that a name NOT in `sh` is indeed not declared in those two namespaces (`Undeclared`).
    (Was `C17_print_primitive_shadow_counterexample`: `entity Long; entity X { a: Long }` printed for the primitive.) -/
theorem C17_print_builtin_reresolves (r : RState) (ns : String) (sh : List String) (indent : Nat) (t : Ty) (rt : RTy)
    (ht : builtinRTy t = some rt) (hsh : ∀ n, builtinTyName t = some n → n ∉ sh → Undeclared r ns n) :
    lookupTypeRef r ns (printTy sh indent t) = .builtin rt :=
  print_builtin_reresolves r ns sh indent t rt ht hsh

/-- …hence the printed name, read back as a type reference, RESOLVES exactly as the node it was printed for. -/
theorem C17_print_builtin_resolves_same (r : RState) (k : String → Ty → Fuelled RTy) (ns : String) (sh : List String)
    (indent : Nat) (t : Ty) (rt : RTy) (ht : builtinRTy t = some rt)
    (hsh : ∀ n, builtinTyName t = some n → n ∉ sh → Undeclared r ns n) :
    resolveTyWith r k ns (.typeRef (printTy sh indent t)) = resolveTyWith r k ns t := by
  have h := C17_print_builtin_reresolves r ns sh indent t rt ht hsh
  have hl : resolveTyWith r k ns (.typeRef (printTy sh indent t)) = some (.ok rt) := by
    unfold resolveTyWith
    rw [h]
  rw [hl]
  cases t with
  | string => simp only [builtinRTy, Option.some.injEq] at ht; subst ht; simp [resolveTyWith]
  | long => simp only [builtinRTy, Option.some.injEq] at ht; subst ht; simp [resolveTyWith]
  | bool => simp only [builtinRTy, Option.some.injEq] at ht; subst ht; simp [resolveTyWith]
  | ext n =>
    simp only [builtinRTy] at ht
    split at ht
    · rename_i hn
      simp only [Option.some.injEq] at ht; subst ht
      rcases hn with rfl | rfl | rfl | rfl <;> simp [resolveTyWith, lookupBuiltin]
    · cases ht
  | set _ => cases ht
  | record _ => cases ht
  | entityRef _ => cases ht
  | typeRef _ => cases ht

/-- the hypotheses are satisfiable with a shadowing declaration present — the resolver state and the name list of
    `entity Long; entity X { a: <primitive Long> }` (shadowed: printed `__cedar::Long`) and of a namespace `NS` declaring
    nothing called `String` (not shadowed: printed bare) -/
example : (match registerAll shadowJson with
      | .ok r => r.entityTypes == ["Long", "X"] && r.enumTypes.isEmpty && r.commonTypes.isEmpty
      | .error _ => false) = true ∧ declNames shadowJson.bare = ["Long", "X"] ∧
    (∀ n, builtinTyName .long = some n → n ∉ ["Long", "X"] → Undeclared { entityTypes := ["Long", "X"] } "" n) ∧
    lookupTypeRef { entityTypes := ["Long", "X"] } "" (printTy ["Long", "X"] 1 .long) = .builtin .long := by
  refine ⟨by decide +kernel, by decide +kernel, ?_, by decide +kernel⟩
  intro n hn hnot
  simp only [builtinTyName, Option.some.injEq] at hn
  subst hn
  exact absurd (by decide) hnot
example : ∀ n, builtinTyName .string = some n → n ∉ ["A", "Long"] →
    Undeclared { entityTypes := ["NS::A", "Long"] } "NS" n := by
  intro n hn _
  simp only [builtinTyName, Option.some.injEq] at hn
  subst hn
  decide +kernel

/-- regression (the old counterexample): the primitive `Long` next to an entity type `Long` is now printed as
    `__cedar::Long`, so the two schemas that resolve differently no longer print to the same bytes -/
example : printSchema shadowJson = "entity Long;\n\nentity X {\n\ta: __cedar::Long\n};\n" ∧
    printSchema shadowText = "entity Long;\n\nentity X {\n\ta: Long\n};\n" ∧ resolve shadowJson ≠ resolve shadowText := by
  decide +kernel

/-- regression (`unknown-extension-name-accepted`): `{"type": "Extension", "name": "nope"}` no longer resolves (its text
    rendering `nope` never did: undefined type), nor does an "extension" called like a primitive -/
example : resolve { bare := { entities := [("X", { shape := some (.cons "a" false [] (.ext "nope") .nil) })] } } =
    some (.error .unknownExtension) := by decide +kernel
example : resolve { bare := { entities := [("X", { shape := some (.cons "a" false [] (.typeRef "nope") .nil) })] } } =
    some (.error .undefinedType) := by decide +kernel
example : resolve { bare := { entities := [("X", { tags := some (.ext "Long") })] } } = some (.error .unknownExtension) := by
  decide +kernel

/-- The same loss for `{"type": "Entity", "name": "X"}` when a common type `X` is in scope: printed as `X`, which
    denotes the common type. -/
theorem C17_print_entity_ref_counterexample :
    ∃ s s' : Schema, printSchema s = printSchema s' ∧ resolve s ≠ resolve s' := by
  refine ⟨{ bare := { entities := [("X", {}), ("Y", { shape := some (.cons "b" false [] (.entityRef "X") .nil) })], commonTypes := [("X", { ty := .long })] } },
          { bare := { entities := [("X", {}), ("Y", { shape := some (.cons "b" false [] (.typeRef "X") .nil) })], commonTypes := [("X", { ty := .long })] } },
          by decide +kernel, by decide +kernel⟩

/-- `quoteCedar` uses only escapes the lexer understands: unquoting the body of `quoteCedar s` (what the schema lexer
    does with a string token, `rust.Unquote(raw, false)`) gives back `s`, for every string. -/
theorem C17_quoteCedar_unquote (s : String) : unquoteCedar (quoteBody s.toList) = some s.toList :=
  unquoteFuel_quoteBody s.toList _ (Nat.le_refl _)

example : quoteCedar "a\"b\\\n\x00é" = "\"a\\\"b\\\\\\n\\0\\u{e9}\"" := by decide +kernel

/-- and the quoted form is the body between two double quotes -/
theorem C17_quoteCedar_shape (s : String) : (quoteCedar s).toList = '"' :: quoteBody s.toList ++ ['"'] := by
  simp [quoteCedar]

/-! ## the TEXT half: printer → lexer → parser -/

/-- FULL STATEMENT (false, see `C17_print_entity_ref_counterexample` and the open findings): for EVERY schema `s`,
    `parseSchema (printSchema s) = .ok s'` with `s'` resolving like `s`.
    PROVED PART — the AST level: for every schema in the decidable fragment `SchemaTextOk` (every construct of the grammar:
    any number of namespaces incl. the empty one, entity types with memberOf lists / shapes / tags, enum entity types,
    common types, actions with qualified and unqualified parents and appliesTo, all type forms arbitrarily nested,
    annotations with and without value everywhere, attribute / action names and enum / annotation values that are
    ARBITRARY strings (quoted by the printer when they are not identifiers), keywords used as names wherever the grammar
    allows), lexing and parsing the printed text yields exactly `normSchema s`: `s` with
      * every association list (declarations per kind, namespaces, annotations) in ascending key order — the order in
        which the printer writes them; the attribute order of records is kept,
      * the annotations of the empty namespace dropped (no text form),
      * `String`/`Long`/`Bool`/extension type nodes and explicit entity references replaced by the type reference of the
        name they are printed under (`Long`, or `__cedar::Long` if the current or the empty namespace declares a `Long`).
    On key-sorted input (the representation invariant of the model's maps) only the last two change anything.
    What `SchemaTextOk` excludes are ASTs that are not the AST of any Cedar text: see its doc comment
    (Lemmas/C17TextDefs.lean). -/
theorem C17_schema_text_roundtrip_partial (s : Schema) (h : SchemaTextOk s = true) :
    parseSchema (printSchema s) = .ok (normSchema s) := by
  unfold parseSchema
  rw [TextLex.lex_printSchema s h]
  simp only [TextParse.parseToks_toksSchema s h]

/-- the two halves separately: the printed bytes lex to the token rendering `toksSchema s` (every string quoted by the printer
    is read back by `scanString` + `rust.Unquote`, every name is one token, no two tokens merge), and the parser maps those
    tokens to `normSchema s` with fuel to spare -/
theorem C17_schema_text_lex_parse_partial (s : Schema) (h : SchemaTextOk s = true) :
    lexAll (printSchema s).toList = .ok (toksSchema s ++ [.eof]) ∧
    parseToks (toksSchema s ++ [.eof]) = some (.ok (normSchema s, [.eof])) :=
  ⟨TextLex.lex_printSchema s h, TextParse.parseToks_toksSchema s h⟩

/-- **the second rendering is byte-identical to the first** — at full strength for the normal form: for EVERY schema (no
    hypothesis, duplicate keys and ill-formed names included) printing `normSchema s` gives the bytes of printing `s` -/
theorem C17_schema_print_normal_form_stable (s : Schema) : printSchema (normSchema s) = printSchema s :=
  TextPrint.printSchema_normSchema s

/-- FULL STATEMENT: for every schema whose rendering parses to `s'`, `printSchema s' = printSchema s`.
    PROVED PART: on the fragment `SchemaTextOk` (where the parse result is known). -/
theorem C17_schema_print_stable_partial (s s' : Schema) (h : SchemaTextOk s = true)
    (hp : parseSchema (printSchema s) = .ok s') : printSchema s' = printSchema s := by
  rw [C17_schema_text_roundtrip_partial s h] at hp
  injection hp with hp
  rw [← hp]
  exact C17_schema_print_normal_form_stable s

/-- non-vacuity: a schema using every construct of the fragment — unsorted declarations, the empty namespace with an
    annotation that is dropped, three namespaces (one with a path name, one empty), annotations with and without
    value and with reserved words as keys, entity types called `enum`, `tags`, `Set`, `Long` (shadowing the primitive:
    printed `__cedar::Long`), memberOf lists with one and several (qualified) parents, an empty shape, attribute names
    that need quoting (`"a b"`, `"in"`), optional attributes, `Set<Set<…>>`, nested and empty records, an extension type,
    an explicit entity reference, a `__cedar::`-qualified reference, a reference to `Set` as a NAME, enum values with
    quotes / newline / empty string, actions with quoted names, unqualified and qualified parents, appliesTo with one or
    several principals, with and without context, a context attribute called `principal`, an action called `appliesTo` -/
def c17TextShape : Attrs :=
  .cons "name" false [] .string (.cons "a b" true [("if", "")] (.set (.set .long))
    (.cons "in" false [] (.record (.cons "x" false [] (.ext "ipaddr") .nil))
      (.cons "r" true [] (.entityRef "Group") (.cons "e" false [] (.record .nil) .nil))))

def c17TextUser : Entity :=
  { anns := [("in", "k\"w")], parents := ["Group", "Other::T"], shape := some c17TextShape, tags := some (.set .string) }

def c17TextNs : Namespace where
  anns := [("doc", "x"), ("a", "")]
  entities := [("User", c17TextUser), ("Group", {}), ("Long", { parents := ["Group"] }),
               ("enum", { tags := some (.typeRef "Set") }), ("Set", { shape := some .nil })]
  enums := [("Color", { values := ["red", "gr\"een\n", ""] , anns := [("z", "1")] }), ("tags", { values := ["x"] })]
  commonTypes := [("T", { ty := .record (.cons "a" true [] (.set .long) .nil) }),
                  ("Ctx", { anns := [("d", "")], ty := .record (.cons "ip" false [] (.typeRef "__cedar::ipaddr") (.cons "b" false [] .bool .nil)) })]
  actions := [("view", { parents := [("", "edit"), ("", "read all"), ("Other::Action", "x y")],
                         appliesTo := some { principals := ["User"], resources := ["Group", "User"], context := some (.typeRef "Ctx") } }),
              ("edit", { appliesTo := some { principals := ["User", "Group"], resources := ["Group"] } }),
              ("read all", { anns := [("doc", "")], parents := [("", "edit")] }),
              ("appliesTo", { parents := [("NS::Action", "edit")],
                              appliesTo := some { principals := ["User"], resources := ["User"],
                                                  context := some (.record (.cons "principal" false [] .long .nil)) } })]

def c17TextSample : Schema where
  bare := { anns := [("lost", "")], entities := [("B", {}), ("A", { parents := ["B"] })],
            commonTypes := [("String2", { ty := .string })], actions := [("a", {})] }
  namespaces := [("NS", c17TextNs), ("Other", { entities := [("T", {})], actions := [("x y", {})] }), ("A::B", {})]

example : SchemaTextOk c17TextSample = true := by decide +kernel
/-- …and the theorem's conclusion on it, evaluated: the text trip is not the identity (it sorts, drops the annotation,
    turns `.long` into the reference `__cedar::Long`) but the re-parsed schema prints to the same bytes -/
example : parseSchema (printSchema c17TextSample) = .ok (normSchema c17TextSample) ∧ normSchema c17TextSample ≠ c17TextSample ∧
    ((normSchema c17TextSample).namespaces.lookup "NS").map (fun d => d.commonTypes.lookup "T") =
      some (some { ty := .record (.cons "a" true [] (.set (.typeRef "__cedar::Long")) .nil) }) :=
  ⟨C17_schema_text_roundtrip_partial _ (by decide +kernel), by decide +kernel, by decide +kernel⟩

/-- FULL STATEMENT (false: `C17_print_entity_ref_counterexample`): `(parseSchema (printSchema s)).map resolve = ok (resolve s)` for
    every schema.  PROVED PART — **the text half of the property**: for every schema in `SchemaTextOk` whose association lists
    are key-sorted (`KeysSorted`: the representation invariant of the model's Go maps; `resolve` walks them in order, so
    its output lists follow it) and whose extension-type NODES are known extensions and explicit entity-reference NODES
    are unambiguous (`EntityRefsOk`, decidable, computed from `registerAll s`: every `.entityRef n` denotes a declared
    entity type and no common type of that name is in scope), the re-parsed schema resolves to the SAME resolved schema —
    same entity types, shapes, tags, enums, actions, applies-to sets, contexts, annotations — or fails with the same
    error.  NO hypothesis about built-in type names is needed: on the fragment a String/Long/Bool/extension node ALWAYS
    re-resolves (`C17_builtin_nodes_always_reresolve`: the printer writes `__cedar::Long` exactly when a declaration of the
    current or the empty namespace would capture `Long` — repair 81385ad — and nothing else can capture it).
    What `EntityRefsOk` excludes is exactly where the text form loses information: an extension type node of unknown
    name (`unknownExtension` becomes `undefinedType`), an entity reference that is undefined or shadowed by a common
    type (open finding `entity-ref-rendered-as-ambiguous-name`). -/
theorem C17_schema_text_roundtrip_resolved_partial (s : Schema) (h : SchemaTextOk s = true)
    (hs : TextResolve.KeysSorted s = true) (he : TextShadow.EntityRefsOk s = true) :
    (parseSchema (printSchema s)).toOption.map resolve = some (resolve s) := by
  rw [C17_schema_text_roundtrip_partial s h]
  show some (resolve (normSchema s)) = some (resolve s)
  rw [TextResolve.resolve_normSchema s hs (TextShadow.resolvesAlike_of_textOk s h he)]

/-- in particular for schemas WITHOUT extension-type and entity-reference nodes — every AST the text parser itself
    produces is one (it only builds type references, sets and records) — nothing but the fragment and the key order is
    assumed -/
theorem C17_schema_text_roundtrip_resolved_plain_partial (s : Schema) (h : SchemaTextOk s = true)
    (hs : TextResolve.KeysSorted s = true) (hp : TextShadow.noExtNoEntityRef s = true) :
    (parseSchema (printSchema s)).toOption.map resolve = some (resolve s) :=
  C17_schema_text_roundtrip_resolved_partial s h hs (TextShadow.entityRefsOk_of_plain s hp)

/-- **built-in type nodes always re-resolve** on the fragment: the hypothesis "no built-in type name is shadowed ambiguously"
    (`ResolvesAlike`: the printed name of every String/Long/Bool/known-extension node looks up, in the registration state of
    the schema, as that built-in and is not the path of a common type) is a THEOREM for every schema in `SchemaTextOk`, up to
    the conditions on extension / entity-reference nodes (`EntityRefsOk`).  Uses `C17_print_builtin_reresolves` with
    `Undeclared` derived from the registration pass: a captured bare name would have to be declared in the empty or the
    current namespace (then it is in the printer's list and `__cedar::` is written), since qualified names of other
    namespaces differ and no namespace of the fragment is called `__cedar`. -/
theorem C17_builtin_nodes_always_reresolve (s : Schema) (h : SchemaTextOk s = true) (he : TextShadow.EntityRefsOk s = true) :
    TextResolve.ResolvesAlike s = true := TextShadow.resolvesAlike_of_textOk s h he

/-- the resolver-level statement alone, without the text fragment: the normal form resolves like the schema whenever the
    printed names re-resolve (`ResolvesAlike`) -/
theorem C17_normSchema_resolves_same (s : Schema) (hs : TextResolve.KeysSorted s = true) (hr : TextResolve.ResolvesAlike s = true) :
    resolve (normSchema s) = resolve s := TextResolve.resolve_normSchema s hs hr

/-- non-vacuity: `entity Long` next to primitive `.long` attributes (printed `__cedar::Long`), `NS::Bool` next to a primitive
    `.bool` tag, unshadowed String/Bool, `ipaddr`, entity references, common types across namespaces, an action with
    appliesTo and context; it resolves successfully and the text trip changes the AST -/
example : SchemaTextOk TextResolve.exSchema = true ∧ TextResolve.KeysSorted TextResolve.exSchema = true ∧
    TextShadow.EntityRefsOk TextResolve.exSchema = true ∧ normSchema TextResolve.exSchema ≠ TextResolve.exSchema ∧
    (match resolve TextResolve.exSchema with | some (.ok _) => true | _ => false) = true := by decide +kernel
/-- …and every built-in name shadowed in the empty namespace, in `A`, in `A::B` and in `B` -/
example : SchemaTextOk TextShadow.exShadow = true ∧ TextShadow.EntityRefsOk TextShadow.exShadow = true := by decide +kernel

/-! ## the two formats commute -/

/-- FULL STATEMENT: converting between the two formats in either direction commutes with resolution, for every schema.
    PROVED PART, composing the text theorems with the JSON struct-level theorems:
    (1) text → AST → JSON → AST: for `s` in `SchemaTextOk` whose entity memberOf lists are in the order the JSON encoder
        writes them (`ParentsSorted`; everything else `SchemaJsonOk` demands follows from the fragment — the name checks
        of the JSON parser, names.go, and of the text parser agree on it: `TextJson.schemaJsonOk_normSchema`), converting
        the parsed text to JSON and back returns the IDENTICAL AST, hence it resolves like text → AST;
    (2) JSON → AST → text → AST: for `s` the JSON form can represent (`SchemaJsonOk`), in `SchemaTextOk`, key-sorted and
        `EntityRefsOk`, the schema read from JSON, printed as text and parsed again resolves like `s`. -/
theorem C17_formats_commute_partial (s : Schema) (ht : SchemaTextOk s = true) :
    (TextJson.ParentsSorted s = true →
      ((parseSchema (printSchema s)).bind fun s' => unmarshalSchema (marshalSchema s')) = parseSchema (printSchema s) ∧
      (((parseSchema (printSchema s)).bind fun s' => unmarshalSchema (marshalSchema s')).toOption.map resolve =
        (parseSchema (printSchema s)).toOption.map resolve)) ∧
    (SchemaJsonOk s → TextResolve.KeysSorted s = true → TextShadow.EntityRefsOk s = true →
      ((unmarshalSchema (marshalSchema s)).bind fun s1 => parseSchema (printSchema s1)).toOption.map resolve = some (resolve s)) := by
  refine ⟨fun hj => ?_, fun hj hs hr => ?_⟩
  · have e : ((parseSchema (printSchema s)).bind fun s' => unmarshalSchema (marshalSchema s')) = parseSchema (printSchema s) := by
      rw [C17_schema_text_roundtrip_partial s ht]
      show unmarshalSchema (marshalSchema (normSchema s)) = _
      exact C17_schema_json_roundtrip_partial _ (TextJson.schemaJsonOk_normSchema s ht hj)
    exact ⟨e, by rw [e]⟩
  · rw [C17_schema_json_roundtrip_partial s hj]
    exact C17_schema_text_roundtrip_resolved_partial s ht hs hr

/-- every schema of the text fragment, once through the text trip, is one the JSON form represents faithfully -/
theorem C17_text_normal_form_json_representable (s : Schema) (ht : SchemaTextOk s = true) (hp : TextJson.ParentsSorted s = true) :
    SchemaJsonOk (normSchema s) := TextJson.schemaJsonOk_normSchema s ht hp

example : TextJson.ParentsSorted c17TextSample = true ∧ TextJson.ParentsSorted TextResolve.exSchema = true := by decide +kernel
/-- a witness for (2): the same schema without the annotation on the empty namespace (the JSON form has no place for one) -/
def c17BothSample : Schema := { TextResolve.exSchema with bare := { TextResolve.exSchema.bare with anns := [] } }
example : SchemaJsonOk c17BothSample := schemaJsonOkB_sound _ (by decide +kernel)
example : SchemaTextOk c17BothSample = true ∧ TextResolve.KeysSorted c17BothSample = true ∧
    TextShadow.EntityRefsOk c17BothSample = true := by decide +kernel

/-! ## totality of the lexer and parser models -/

/-- **the parser model never runs out of fuel**, on ANY token list (Go has no fuel: every loop iteration and every nested
    call of the recursive descent consumes a token), so `some (.error _)` always means that the parser rejects -/
theorem C17_schema_parser_total (toks : List Tok) : parseToks toks ≠ none := TextTotal.parseToks_total toks

/-- the same for the lexer on any character sequence -/
theorem C17_schema_lexer_total (src : List Char) : lexAllF src ≠ none := TextTotal.lexAllF_total src

/-- more fuel never changes an answer of the parser or the lexer -/
theorem C17_schema_parser_fuel_irrelevant (n m : Nat) (s : Schema) (ts : List Tok) (r : Except String (Schema × List Tok))
    (h : parseSchemaF n s ts = some r) (hnm : n ≤ m) : parseSchemaF m s ts = some r :=
  TextTotal.parseSchemaF_mono n m s ts r h hnm

theorem C17_schema_lexer_fuel_irrelevant (n m : Nat) (cs : List Char) (r : Except String (List Tok))
    (h : lexFuel n cs = some r) (hnm : n ≤ m) : lexFuel m cs = some r :=
  TextTotal.lexFuel_mono n m cs r h hnm

/-- hence `parseSchema` accepts / rejects exactly as the fuelled lexer and parser do: the two "out of fuel" branches of
    its definition are never taken -/
theorem C17_schema_parse_ok_iff (src : String) (s : Schema) :
    parseSchema src = .ok s ↔ ∃ toks r, lexAllF src.toList = some (.ok toks) ∧ parseToks toks = some (.ok (s, r)) :=
  TextTotal.parseSchema_ok_iff src s

theorem C17_schema_parse_error_iff (src : String) (e : String) :
    parseSchema src = .error e ↔
      lexAllF src.toList = some (.error e) ∨ ∃ toks, lexAllF src.toList = some (.ok toks) ∧ parseToks toks = some (.error e) :=
  TextTotal.parseSchema_error_iff src e

/-- the parser rejects what the grammar forbids (regressions of repaired classes, evaluated on the model): an enum without
    values, `appliesTo` without resource, a reserved common type name, a namespace containing `__cedar`, a repeated
    annotation; and it accepts `Set` as a name -/
example : parseSchema "entity E enum [];" = .error "an enum entity type needs at least one value" ∧
    parseSchema "action a appliesTo { principal: A };" = .error "appliesTo must include a resource declaration" ∧
    parseSchema "type Long = String;" = .error "reserved type name" ∧
    parseSchema "namespace A::__cedar {}" = .error "expected identifier after '::'" ∧
    parseSchema "@a @a entity E;" = .error "duplicate annotation" ∧
    parseSchema "entity Set; entity E { s: Set, t: Set<Set> };" =
      .ok { bare := { entities := [("Set", {}), ("E", { shape := some (.cons "s" false [] (.typeRef "Set")
        (.cons "t" false [] (.set (.typeRef "Set")) .nil)) })] } } := by
  decide +kernel

end CedarGo
