/-
  C17 — Schema codecs round-trip and preserve the resolved schema.

  * JSON: `Schema.MarshalJSON` / `UnmarshalJSON` at the level of the Go structs `encoding/json` reads and writes
    (CedarGo/Model/Schema/Json.lean) round-trip every schema the JSON form can represent (`SchemaJsonOk`); hence
    resolution commutes with the JSON trip.  What `SchemaJsonOk` excludes: an enum with no values (not a schema: both
    parsers reject it), unsorted memberOfTypes (the encoder sorts them), and a hand-built AST declaring one name as
    entity type and enum (`C17_schema_json_roundtrip_counterexample`).
  * Cedar text: the printer (CedarGo/Model/Schema/Text.lean, byte-identical to `MarshalCedar` on the generated
    corpus) writes a built-in type node (String/Long/Bool/extension) as `__cedar::Name` whenever the current or the empty
    namespace declares a type of that name; the printed name re-resolves to the same built-in in every resolver state
    (`C17_print_builtin_reresolves`, `C17_print_builtin_resolves_same` — formerly the counterexample
    `C17_print_primitive_shadow_counterexample`).  One ambiguity is left, for which the text syntax has no remedy: an
    explicit entity reference and a reference to a common type of the same name print alike
    (`C17_print_entity_ref_counterexample`).
  * `quoteCedar` (attribute names, action names, enum values, annotation values) is undone by the lexer's
    `rust.Unquote`: `C17_quoteCedar_unquote`.
  The text LEXER/PARSER is modelled executably only (CedarGo/Model/Schema/Parser.lean, `partial def` loops, tied to the
  Go parser by the `schema-parse` and `schema-text-roundtrip` correspondence ops — rendered, hand-written and mutated
  texts); no theorem is stated about it.  text→AST→text, text→JSON→text and JSON→text→JSON are checked by the search
  oracle of harness/cmd/vh/c17.go on the implementation.
-/
import CedarGoProofs.Lemmas.C17Quote
namespace CedarGo
open CedarGo.Schema

/-- FULL STATEMENT (false, see the counterexample): `unmarshalSchema (marshalSchema s) = .ok s` for every schema.
    PROVED PART: for every schema the JSON form can represent — entity parent lists sorted (the encoder sorts
    `memberOfTypes`), no enum without values, no name declared both as entity and enum in one namespace, no
    annotations on the empty namespace, no namespace called "", and every name one the grammar allows where it stands
    (`NamespaceJsonOk.names`, namespace names are paths: since the repair of `unvalidated-identifier-renders-unparseable`
    the JSON parser checks names exactly as the text parser does, so this holds for every AST a parser produces). -/
theorem C17_schema_json_roundtrip_partial (s : Schema) (h : SchemaJsonOk s) : unmarshalSchema (marshalSchema s) = .ok s :=
  unmarshal_marshalSchema s h

instance {ε α} [DecidableEq ε] [DecidableEq α] : DecidableEq (Except ε α)
  | .ok a, .ok b => if h : a = b then isTrue (by rw [h]) else isFalse (by intro h'; cases h'; exact h rfl)
  | .error a, .error b => if h : a = b then isTrue (by rw [h]) else isFalse (by intro h'; cases h'; exact h rfl)
  | .ok _, .error _ => isFalse (by intro h; cases h)
  | .error _, .ok _ => isFalse (by intro h; cases h)

/-- `entity A in [B]; entity B; entity Color enum ["r"]; type T = {a?: Set<Long>}; action "view" appliesTo {…}` in a namespace -/
def c17SampleNs : Namespace where
  anns := [("doc", "x")]
  enums := [("Color", { values := ["r"] })]
  commonTypes := [("T", { ty := .record (.cons "a" true [] (.set .long) .nil) })]
  actions := [("view", { parents := [("", "edit")],
                         appliesTo := some { principals := ["A"], resources := ["B"], context := some (.typeRef "T") } }),
              ("edit", {})]

def c17Sample : Schema where
  bare := { entities := [("A", { parents := ["B"] }), ("B", {})] }
  namespaces := [("NS", c17SampleNs)]

example : SchemaJsonOk c17Sample := by
  refine ⟨⟨?_, ?_, ?_, by decide +kernel⟩, rfl, ?_⟩
  · intro e he
    simp only [c17Sample, List.mem_cons, List.not_mem_nil, or_false] at he
    rcases he with rfl | rfl <;> decide
  · intro e he; simp [c17Sample] at he
  · intro e _ en hen; simp [c17Sample] at hen
  · intro nd hnd
    simp only [c17Sample, List.mem_cons, List.not_mem_nil, or_false] at hnd
    subst hnd
    refine ⟨⟨?_, ?_, ?_, by decide +kernel⟩, by decide, by decide +kernel⟩
    · intro e he; simp [c17SampleNs] at he
    · intro e he; simp [c17SampleNs] at he; subst he; simp
    · intro e he; simp [c17SampleNs] at he

/-- The full statement stays false for hand-built ASTs the JSON form cannot represent: the same name declared as entity
    type AND as enum in one namespace (`Resolve` rejects it as declared twice) — both go into the one `entityTypes`
    map and the entity is lost (finding `ast-entity-and-enum-same-name`, programmatic ASTs only). -/
theorem C17_schema_json_roundtrip_counterexample :
    ∃ s : Schema, unmarshalSchema (marshalSchema s) ≠ .ok s :=
  ⟨{ bare := { entities := [("X", {})], enums := [("X", { values := ["a"] })] } }, by
    have : unmarshalSchema (marshalSchema { bare := { entities := [("X", {})], enums := [("X", { values := ["a"] })] } }) =
        .ok { bare := { enums := [("X", { values := ["a"] })] } } := by decide +kernel
    rw [this]
    intro h
    injection h with h
    exact absurd h (by decide)⟩

/-- regression (the former witness of the counterexample, `entity Color enum [];`): an enum without values is no longer
    turned into an ordinary entity type by the JSON trip — `MarshalJSON` writes `"enum":[]` and `UnmarshalJSON` rejects it
    (as the text parser now rejects `enum []`: the grammar requires at least one value) -/
example : unmarshalSchema (marshalSchema { bare := { enums := [("Color", {})] } }) =
    .error "an enum entity type needs at least one value" := by decide +kernel
example : renderSchemaJson { bare := { enums := [("Color", {})] } } =
    "{\"\":{\"entityTypes\":{\"Color\":{\"enum\":[]}},\"actions\":{}}}" := by decide +kernel

/-- regression (`unvalidated-identifier-renders-unparseable`, `reserved-common-type-name-renders-unparseable`): the JSON
    parser rejects `{"": {"entityTypes": {"a b": {}}}}`, a common type named `Record`, a type reference `in`, a namespace
    `A::in`; it accepts `__cedar::Long` as a reference and keywords as annotation keys -/
example : unmarshalSchema [("", { entityTypes := [("a b", {})] })] = .error "invalid name" := by decide +kernel
example : unmarshalSchema [("", { commonTypes := [("Record", { ty := .mk "Long" .none .nil "" })] })] = .error "invalid name" := by
  decide +kernel
example : unmarshalSchema [("", { entityTypes := [("X", { tags := some (.mk "Entity" .none .nil "in") })] })] = .error "invalid name" := by
  decide +kernel
example : unmarshalSchema [("A::in", {})] = .error "not a valid namespace name" := by decide +kernel
example : unmarshalSchema [("A::B", { entityTypes := [("X", { anns := [("in", "x")], tags := some (.mk "__cedar::Long" .none .nil "") })] })] =
    .ok { namespaces := [("A::B", { entities := [("X", { anns := [("in", "x")], tags := some (.typeRef "__cedar::Long") })] })] } := by
  decide +kernel

/-- Converting to JSON and back commutes with resolution (for every schema the JSON form can represent). -/
theorem C17_json_commutes_with_resolve_partial (s : Schema) (h : SchemaJsonOk s) :
    (unmarshalSchema (marshalSchema s)).toOption.map resolve = some (resolve s) := by
  rw [C17_schema_json_roundtrip_partial s h]
  rfl

/-- JSON `{"entityTypes": {"Long": {}, "X": {"shape": {… "a": {"type": "Long"}}}}}`: `a` is the PRIMITIVE Long -/
def shadowJson : Schema :=
  { bare := { entities := [("Long", {}), ("X", { shape := some (.cons "a" false [] .long .nil) })] } }

/-- what the text `entity Long; entity X { a: Long };` denotes: `a` refers to the name `Long` -/
def shadowText : Schema :=
  { bare := { entities := [("Long", {}), ("X", { shape := some (.cons "a" false [] (.typeRef "Long") .nil) })] } }

/-- The repaired printer writes a built-in type node (`builtinRTy t = some rt`: String, Long, Bool, a known extension) as
    `__cedar::Name` when `sh` — the names declared by the current and the empty namespace, which is what `printSchema`
    passes — contains its name, and as the bare name otherwise.  Read back as a type reference in namespace `ns` (that
    is what the text parser makes of a name), the printed name denotes the SAME built-in type, whatever else the schema
    declares: the only hypothesis is that a name NOT in `sh` is indeed not declared in those two namespaces (`Undeclared`).
    (Was `C17_print_primitive_shadow_counterexample`: `entity Long; entity X { a: Long }` printed for the primitive.) -/
theorem C17_print_builtin_reresolves (r : RState) (ns : String) (sh : List String) (indent : Nat) (t : Ty) (rt : RTy)
    (ht : builtinRTy t = some rt) (hsh : ∀ n, builtinTyName t = some n → n ∉ sh → Undeclared r ns n) :
    lookupTypeRef r ns (printTy sh indent t) = .builtin rt :=
  print_builtin_reresolves r ns sh indent t rt ht hsh

/-- …hence the printed name, read back as a type reference, RESOLVES exactly as the node it was printed for. -/
theorem C17_print_builtin_resolves_same (r : RState) (k : String → Ty → Fuelled RTy) (ns : String) (sh : List String)
    (indent : Nat) (t : Ty) (rt : RTy) (ht : builtinRTy t = some rt)
    (hsh : ∀ n, builtinTyName t = some n → n ∉ sh → Undeclared r ns n) :
    resolveTyWith r k ns (.typeRef (printTy sh indent t)) = resolveTyWith r k ns t := by
  have h := C17_print_builtin_reresolves r ns sh indent t rt ht hsh
  have hl : resolveTyWith r k ns (.typeRef (printTy sh indent t)) = some (.ok rt) := by
    unfold resolveTyWith
    rw [h]
  rw [hl]
  cases t with
  | string => simp only [builtinRTy, Option.some.injEq] at ht; subst ht; simp [resolveTyWith]
  | long => simp only [builtinRTy, Option.some.injEq] at ht; subst ht; simp [resolveTyWith]
  | bool => simp only [builtinRTy, Option.some.injEq] at ht; subst ht; simp [resolveTyWith]
  | ext n =>
    simp only [builtinRTy] at ht
    split at ht
    · rename_i hn
      simp only [Option.some.injEq] at ht; subst ht
      rcases hn with rfl | rfl | rfl | rfl <;> simp [resolveTyWith, lookupBuiltin]
    · cases ht
  | set _ => cases ht
  | record _ => cases ht
  | entityRef _ => cases ht
  | typeRef _ => cases ht

/-- the hypotheses are satisfiable with a shadowing declaration present — the resolver state and the name list of
    `entity Long; entity X { a: <primitive Long> }` (shadowed: printed `__cedar::Long`) and of a namespace `NS` declaring
    nothing called `String` (not shadowed: printed bare) -/
example : (match registerAll shadowJson with
      | .ok r => r.entityTypes == ["Long", "X"] && r.enumTypes.isEmpty && r.commonTypes.isEmpty
      | .error _ => false) = true ∧ declNames shadowJson.bare = ["Long", "X"] ∧
    (∀ n, builtinTyName .long = some n → n ∉ ["Long", "X"] → Undeclared { entityTypes := ["Long", "X"] } "" n) ∧
    lookupTypeRef { entityTypes := ["Long", "X"] } "" (printTy ["Long", "X"] 1 .long) = .builtin .long := by
  refine ⟨by decide +kernel, by decide +kernel, ?_, by decide +kernel⟩
  intro n hn hnot
  simp only [builtinTyName, Option.some.injEq] at hn
  subst hn
  exact absurd (by decide) hnot
example : ∀ n, builtinTyName .string = some n → n ∉ ["A", "Long"] →
    Undeclared { entityTypes := ["NS::A", "Long"] } "NS" n := by
  intro n hn _
  simp only [builtinTyName, Option.some.injEq] at hn
  subst hn
  decide +kernel

/-- regression (the old counterexample): the primitive `Long` next to an entity type `Long` is now printed as
    `__cedar::Long`, so the two schemas that resolve differently no longer print to the same bytes -/
example : printSchema shadowJson = "entity Long;\n\nentity X {\n\ta: __cedar::Long\n};\n" ∧
    printSchema shadowText = "entity Long;\n\nentity X {\n\ta: Long\n};\n" ∧ resolve shadowJson ≠ resolve shadowText := by
  decide +kernel

/-- regression (`unknown-extension-name-accepted`): `{"type": "Extension", "name": "nope"}` no longer resolves (its text
    rendering `nope` never did: undefined type), nor does an "extension" called like a primitive -/
example : resolve { bare := { entities := [("X", { shape := some (.cons "a" false [] (.ext "nope") .nil) })] } } =
    some (.error .unknownExtension) := by decide +kernel
example : resolve { bare := { entities := [("X", { shape := some (.cons "a" false [] (.typeRef "nope") .nil) })] } } =
    some (.error .undefinedType) := by decide +kernel
example : resolve { bare := { entities := [("X", { tags := some (.ext "Long") })] } } = some (.error .unknownExtension) := by
  decide +kernel

/-- The same loss for `{"type": "Entity", "name": "X"}` when a common type `X` is in scope: printed as `X`, which
    denotes the common type. -/
theorem C17_print_entity_ref_counterexample :
    ∃ s s' : Schema, printSchema s = printSchema s' ∧ resolve s ≠ resolve s' := by
  refine ⟨{ bare := { entities := [("X", {}), ("Y", { shape := some (.cons "b" false [] (.entityRef "X") .nil) })], commonTypes := [("X", { ty := .long })] } },
          { bare := { entities := [("X", {}), ("Y", { shape := some (.cons "b" false [] (.typeRef "X") .nil) })], commonTypes := [("X", { ty := .long })] } },
          by decide +kernel, by decide +kernel⟩

/-- `quoteCedar` uses only escapes the lexer understands: unquoting the body of `quoteCedar s` (what the schema lexer
    does with a string token, `rust.Unquote(raw, false)`) gives back `s`, for every string. -/
theorem C17_quoteCedar_unquote (s : String) : unquoteCedar (quoteBody s.toList) = some s.toList :=
  unquoteFuel_quoteBody s.toList _ (Nat.le_refl _)

example : quoteCedar "a\"b\\\n\x00é" = "\"a\\\"b\\\\\\n\\0\\u{e9}\"" := by decide +kernel

/-- and the quoted form is the body between two double quotes -/
theorem C17_quoteCedar_shape (s : String) : (quoteCedar s).toList = '"' :: quoteBody s.toList ++ ['"'] := by
  simp [quoteCedar]

end CedarGo
