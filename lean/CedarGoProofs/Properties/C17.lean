/-
  C17 — property theorems (only `theorem C17_*` statements and non-vacuity examples live here;
  helper lemmas go to CedarGoProofs/Lemmas/).
-/
import CedarGo.Model.Fold
namespace CedarGo

end CedarGo
