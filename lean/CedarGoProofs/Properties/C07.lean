/-
  C07 — The Cedar text parser builds exactly the tree the grammar prescribes.

  Objects.  `Text.policy` / `Text.exprF` … (CedarGo/Model/Text/Parser.lean) are the recursive-descent functions of
  internal/parser/cedar_unmarshal.go over the token list of `Tokenize`; `Text.render false/true`
  (= renderMin / renderFull, Model/Text/Printer.lean) are the spec-side printers; `Text.Rend`
  (Lemmas/C07Round.lean) is the relational form of the grammar: "token list ts spells expression x where
  level ≥ lvl is expected", with the documented precedence / associativity, parentheses optional where
  allowed and mandatory where needed.  The model parser is tied to the Go parser by `./check C07`
  (same AST incl. position or both reject, on ~30 000 token lists per run; escape classes of every code point).

  WHAT IS PROVED (no sorry, axioms: propext / Classical.choice / Quot.sound only)
  * C07_unquote_escape                Unquote(EscapeString s) = s for EVERY string (full statement; the former
                                      exclusion of U+FFFD went away with the repair of `replacement-char-rejected`;
                                      the old counterexample is now a regression example)
  * C07_precedence_table, C07_precedence_levels, C07_marshal_table_agrees   table lemmas
  * C07_parser_total, C07_parser_total_list, C07_parseExpr_total   the fuel `|tokens| + 2` is never exhausted,
    for ARBITRARY token lists; C07_fuel_irrelevant: more fuel never changes the answer
  * C07_parse_any_rendering           every valid rendering in the sense of `Rend` (ANY admissible placement
                                      of parentheses) of an expression is parsed back to that expression
  * C07_parse_renderMin_partial / C07_parse_renderFull_partial (expressions) and
    C07_parse_policy_renderMin_partial / …renderFull_partial (policies), C07_parse_policies_render_partial (lists)
    on the decidable fragment `inFrag` / `policyOK` (see below)
    (the former counterexample `-5.foo` = renderMin (Negate (5.foo)) is now a regression example: repaired defect
    `negated-int-receiver`)
  * C07_rejects_chained_relation, C07_rejects_reserved_*, C07_rejects_duplicate_annotation,
    C07_rejects_duplicate_record_key, C07_rejects_unknown_function, C07_rejects_method_as_function,
    C07_rejects_function_as_method, C07_rejects_unknown_method

  THE FRAGMENT (`Text.inFrag full e`, `Text.policyOK full p` in CedarGo/Model/Text/Fragment.lean; decidable; the
  harness reports the share of generated cases inside it: ≈ 94 %):
  expressions: boolean / long (int64 range) / string / entity literals (entity type = `::`-separated identifiers), the
  four variables, `!`, unary `-`, all 17 binary operators and methods (|| && == != < <= > >= in + - * contains
  containsAll containsAny getTag hasTag), isEmpty, if-then-else, attribute access in both forms, `has` in both forms,
  `is`, `is … in`, set and record literals (unique keys), extension function calls and extension method calls,
  arbitrarily nested; policies: effect, any number of annotations with distinct keys (identifiers or reserved
  words), every scope form of the grammar (all / == / in / in [..] / is / is..in), any sequence of when / unless
  conditions; lists of policies.
  NOT covered by the round-trip theorems (they are in the executable model and in the correspondence check):
  `like` (pattern literals);
  `has a.b.c` paths (parser sugar, never a rendering; covered by correspondence); whitespace / comment layout and
  "unterminated literal" (these concern the scanner, which is C18's model; here they are checked on the Go
  implementation by the harness only).
-/
import CedarGoProofs.Lemmas.C07Head
import CedarGo.Model.Text.Marshal
namespace CedarGo
open CedarGo.Text

/-! ## string escapes -/

/-- `rust.Unquote(rust.EscapeString(s)) = s` for EVERY string, also at the level of the string-literal token the
    printers emit: the value the parser computes for the token `"EscapeString(s)"` is `s`. -/
theorem C07_unquote_escape (s : String) :
    unquote false (escapeString s.toList) = .ok (s.toList, []) ∧ stringValue (strT s).text = .ok s :=
  ⟨unquote_escapeString s.toList, stringValue_strT s⟩

/-- regression (repaired defect `replacement-char-rejected`): U+FFFD is printable, so it is written raw, and
    `Unquote` reads it back — `nextRune` used to reject every decoded `utf8.RuneError` -/
example : escapeString [replacementChar] = [replacementChar] ∧
    unquoteErr (unquote false (escapeString [replacementChar])) = none ∧
    stringValue (strT (String.ofList ['a', replacementChar, 'b'])).text = .ok (String.ofList ['a', replacementChar, 'b']) :=
  ⟨by decide +kernel, by decide +kernel, (C07_unquote_escape _).2⟩

/-! ## precedence table -/

/-- left-associative operators take their own level on the left and the next level on the right;
    comparison operators are non-associative (next level on both sides) -/
theorem C07_precedence_table (op : BinOp) (tok : Token) (lp rp : Nat) (h : binForm op = .infixOp tok lp rp) :
    (op ∈ [.or, .and, .add, .sub, .mul] → lp = binPrec op ∧ rp = binPrec op + 1) ∧
    (op ∈ [.eq, .ne, .lt, .le, .gt, .ge, .in_] → lp = binPrec op + 1 ∧ rp = binPrec op + 1) := by
  cases op <;> simp [binForm] at h <;> obtain ⟨rfl, rfl, rfl⟩ := h <;> simp [binPrec]

/-- if < or < and < relation < add < mult < unary < member < primary -/
theorem C07_precedence_levels :
    prec (.ite (.var .context) (.var .context) (.var .context)) = 0 ∧ binPrec .or = 1 ∧ binPrec .and = 2 ∧
    binPrec .eq = 3 ∧ prec (.has (.var .context) "a") = 3 ∧ binPrec .add = 4 ∧ binPrec .sub = 4 ∧ binPrec .mul = 5 ∧
    prec (.unop .not (.var .context)) = 6 ∧ prec (.unop .neg (.var .context)) = 6 ∧ prec (.lit (.long (-1))) = 6 ∧
    prec (.access (.var .context) "a") = 7 ∧ binPrec .contains = 7 ∧ prec (.var .context) = 8 ∧ prec (.lit (.long 1)) = 8 := by
  decide

/-- Go's marshaller (`node.go`, `cedar_marshal.go`) uses the same operator table as the grammar, and the same
    levels except for negative long literals (always primary in Go: the `-5.foo` defect) and
    function-style extension calls (access level in Go: harmless extra parentheses) -/
theorem C07_marshal_table_agrees (op : BinOp) :
    (∀ tok lp rp, goInfix op = some (tok, lp, rp) ↔ binForm op = .infixOp tok lp rp) ∧
    (goInfix op = none ↔ binForm op = .method (goMethodName op)) := by
  cases op <;> simp [goInfix, binForm, goMethodName] <;> intros <;> constructor <;> rintro ⟨rfl, rfl, rfl⟩ <;> simp

/-! ## totality -/

/-- `Policy.UnmarshalCedar` terminates on EVERY token list: the model's fuel `|tokens| + 2` is never exhausted -/
theorem C07_parser_total (ts : List Token) : ∃ r, parsePolicy ts = some r := by
  obtain ⟨r, hr, _⟩ := tot_policy ts
  unfold parsePolicy parseFuel
  rw [hr]
  cases r <;> exact ⟨_, rfl⟩

theorem C07_parser_total_list (ts : List Token) : ∃ r, parsePolicies ts = some r :=
  tot_policiesLoop _ _ ts (by unfold parseFuel; omega) (by unfold parseFuel; omega)

theorem C07_parseExpr_total (ts : List Token) : ∃ r, parseExpr ts = some r := by
  obtain ⟨r, hr, _⟩ := goodE_exprF ts.length ts (Nat.le_refl _)
  exact ⟨r, hr⟩

/-- fuel is an artefact: any larger fuel gives the same answer -/
theorem C07_fuel_irrelevant (ts : List Token) (n : Nat) (hn : parseFuel ts ≤ n) : policy n ts = policy (parseFuel ts) ts := by
  obtain ⟨r, hr, _⟩ := tot_policy ts
  have h1 : policy (parseFuel ts) ts = some r := hr
  rw [h1]
  exact mono_policy hn ts r h1

example : ∃ r, parsePolicy [opT "-", opT "-", opT "(", idT "x"] = some r := C07_parser_total _

/-! ## the parser inverts every valid rendering -/

/-- **any admissible parenthesisation**: if `ts` spells `x` according to the grammar (`Rend`, level 0), then
    parsing `ts` as a complete expression yields `x` and consumes everything -/
theorem C07_parse_any_rendering (x : Expr) (ts : List Token) (h : Rend (.e 0 x) ts) : parseExpr ts = some (.ok (x, [])) :=
  parseExpr_of_reads (rend_spec h (Nat.zero_le _)).1

/-- `parse (renderMin e) = e` on the fragment.  The full statement (all of `InGrammar`) is in the header. -/
theorem C07_parse_renderMin_partial (e : Expr) (h : inFrag false e = true) :
    parseExpr (render false e) = some (.ok (e, [])) :=
  parseExpr_of_reads (reads_of_inFrag h)

/-- `parse (renderFull e) = e` on the fragment -/
theorem C07_parse_renderFull_partial (e : Expr) (h : inFrag true e = true) :
    parseExpr (render true e) = some (.ok (e, [])) :=
  parseExpr_of_reads (reads_of_inFrag h)

/-- policies: effect, annotations, scope clauses, condition kinds and order, and every condition tree are
    recovered from `renderMin p` -/
theorem C07_parse_policy_renderMin_partial (p : Policy) (h : policyOK false p = true) :
    parsePolicy (renderMin p) = some (.ok p) := parsePolicy_of_reads (policyReads_render h)

theorem C07_parse_policy_renderFull_partial (p : Policy) (h : policyOK true p = true) :
    parsePolicy (renderFull p) = some (.ok p) := parsePolicy_of_reads (policyReads_render h)

/-- a document of several policies is read back as the same sequence -/
theorem C07_parse_policies_render_partial (full : Bool) (ps : List Policy) (h : ps.all (policyOK full) = true) :
    parsePolicies (renderListToks full ps) = some (.ok ps) := parsePolicies_of_reads (polsReads_render ps h)

/-- the hypotheses are satisfiable by a tree that exercises precedence, associativity, unary stacks, negative
    literals, member chains, methods, sets, records and extension calls -/
example : inFrag false
    (.ite (.binop .or (.binop .and (.var .principal) (.binop .lt (.binop .sub (.binop .sub (.lit (.long 1)) (.lit (.long (-2))))
        (.binop .mul (.lit (.long 3)) (.unop .neg (.unop .neg (.var .context))))) (.lit (.long 4)))) (.unop .not (.has (.var .context) "if")))
      (.binop .contains (.set [.lit (.str "a\"b"), .access (.access (.lit (.long (-5))) "x") "a b"]) (.call "ip" [.lit (.str "::1")]))
      (.record [("k", .call "isInRange" [.var .resource, .unop .isEmpty (.set [])]), ("if", .lit (.bool true))])) = true := by
  decide +kernel

example : policyOK false { effect := .forbid, annotations := [("id", "a\"b"), ("if", "")], principal := .isIn "NS::User" ("Group", "g 1"), action := .inSet [("Action", "a"), ("A::B::Action", "b")], resource := .eq ("Doc", "d"), conditions := [(true, .binop .add (.lit (.long 1)) (.lit (.long 2))), (false, .isIn (.var .principal) "A::B" (.lit (.entity "C" "x")))] } = true := by
  decide +kernel

/-- regression (repaired defect `negated-int-receiver`): `-5.foo` is the minimal rendering of
    Negate(Access(5, "foo")) (grammar: Unary ::= '-' Member); it is inside the fragment and parsed back — the
    negative-literal special case used to swallow `-5` and reject `.foo`.  The bare `-5` is still the literal. -/
example :
    let p : Policy := { effect := .permit, conditions := [(true, .unop .neg (.access (.lit (.long 5)) "foo"))] }
    policyOK false p = true ∧ parsePolicy (renderMin p) = some (.ok p) ∧
      (renderMin p).map (·.text) = ["permit", "(", "principal", ",", "action", ",", "resource", ")", "when", "{", "-", "5", ".", "foo", "}", ";"] :=
  ⟨by decide +kernel, C07_parse_policy_renderMin_partial _ (by decide +kernel), by decide +kernel⟩

example : errKind (parseExpr [opT "-", intT 5, opT "[", strT "a", opT "]", opT ".", idT "isEmpty", opT "(", opT ")"]) = none ∧
    parseExpr (render false (.unop .neg (.unop .isEmpty (.access (.lit (.long 5)) "a b")))) =
      some (.ok (.unop .neg (.unop .isEmpty (.access (.lit (.long 5)) "a b")), [])) ∧
    parseExpr (render false (.lit (.long (-5)))) = some (.ok (.lit (.long (-5)), [])) :=
  ⟨by decide +kernel, C07_parse_renderMin_partial _ (by decide +kernel), C07_parse_renderMin_partial _ (by decide +kernel)⟩

/-! ## texts outside the grammar are rejected -/

/-- **chained relations**: `{ a OP b X …` with `OP` a comparison operator and `X` a comparison operator, `has`,
    `like` or `is` is a parse error, for all operand texts `ta`, `tb` that spell level-4 expressions -/
theorem C07_rejects_chained_relation (a b : Expr) (ta tb : List Token) (op : BinOp) (t1 t2 : Token) (X : List Token)
    (h1 : IsRelTok t1 op) (h2 : contLevel t2.text = some 3) (ha : Rend (.e 4 a) ta) (hb : Rend (.e 4 b) tb) :
    ∃ d, ∀ n, d ≤ n → condition n (opT "{" :: (ta ++ t1 :: (tb ++ t2 :: X))) = some (.error .exact) := by
  have sa := rend_spec ha (by decide)
  have sb := rend_spec hb (by decide)
  exact condition_rejects_chain op t1 t2 X h1 h2 sa.1 sa.2 sb.1

example : IsRelTok (opT "<") .lt := ⟨rfl, rfl, rfl, rfl, rfl⟩
example : IsRelTok (kwT "in") .in_ := ⟨rfl, rfl, rfl, rfl, rfl⟩
example : contLevel (kwT "has").text = some 3 := rfl

/-- `1 < 2 < 3`, concretely and with the canonical fuel -/
theorem C07_rejects_chained_relation_example :
    errKind (parsePolicy (simpleHead .permit ++ [idT "when", opT "{", intT 1, opT "<", intT 2, opT "<", intT 3, opT "}", opT ";"])) = some .exact := by
  decide +kernel

/-- **reserved words as identifiers**: a reserved word other than `true`/`false` cannot start a primary
    (so it is no variable, entity type or function name) … -/
theorem C07_rejects_reserved_primary (E : EP) (n : Nat) (t : Token) (rest : List Token) (hty : t.ty = .keyword)
    (hkw : t.text ∈ reservedKeywords) (h1 : t.text ≠ "true") (h2 : t.text ≠ "false") :
    primary E n (t :: rest) = some (.error .primary) := primary_rejects_reserved E n t rest hty hkw h1 h2

/-- … nor be an attribute or method name after `.`, a record key, the operand of `has`, or a path component -/
theorem C07_rejects_reserved_elsewhere (E : EP) (n : Nat) (lhs : Expr) (t : Token) (rest : List Token) (hty : t.ty = .keyword) :
    accessLoop E (n + 1) lhs (opT "." :: t :: rest) = some (.error .ident) ∧ recordKey t = .error .token ∧
    parseHas lhs (t :: rest) = .error .token ∧ path (t :: rest) = .error .ident ∧ entity (t :: rest) = .error .ident :=
  ⟨access_rejects_reserved E n lhs t rest hty, recordKey_rejects_reserved t hty, has_rejects_reserved lhs t rest hty,
   path_rejects_reserved t rest hty, entity_rejects_reserved t rest hty⟩

theorem C07_rejects_duplicate_annotation (k v1 v2 : String) (rest : List Token) :
    annotations [] (opT "@" :: idT k :: opT "(" :: strT v1 :: opT ")" :: opT "@" :: idT k :: opT "(" :: strT v2 :: opT ")" :: rest)
      = .error .dupAnnotation := annotations_two_equal k v1 v2 rest

theorem C07_rejects_duplicate_record_key (E : EP) (n : Nat) (known : List String) (kt : Token) (k : String) (ts1 : List Token)
    (v : Expr) (ts2 : List Token) (hne : (kt.text == "}") = false) (hk : recordKey kt = .ok k)
    (hv : E ts1 = okP (v, ts2)) (hdup : known.contains k = true) :
    recordLoop E (n + 1) known (kt :: opT ":" :: ts1) = some (.error .dupKey) :=
  recordLoop_rejects_duplicate E n known kt k ts1 v ts2 hne hk hv hdup

theorem C07_rejects_duplicate_record_key_example :
    errKind (parsePolicy (simpleHead .permit ++ [idT "when", opT "{", opT "{", idT "a", opT ":", intT 1, opT ",", strT "a", opT ":", intT 2, opT "}", opT "}", opT ";"])) = some .dupKey := by
  decide +kernel

theorem C07_rejects_unknown_function (E : EP) (n : Nat) (name : String) (rest : List Token) (h : extLookup name = none) :
    entityOrExtFun E n name (opT "(" :: rest) = some (.error .notFunction) := call_rejects_unknown E n name rest h

theorem C07_rejects_method_as_function (E : EP) (n : Nat) (name : String) (ar : Nat) (rest : List Token)
    (h : extLookup name = some (ar, true)) :
    entityOrExtFun E n name (opT "(" :: rest) = some (.error .methodAsFunction) := call_rejects_method_as_function E n name ar rest h

theorem C07_rejects_function_as_method (name : String) (ar : Nat) (lhs : Expr) (args : List Expr) (hb : name ∉ builtinMethods)
    (h : extLookup name = some (ar, false)) : mkMethod name lhs args = .error .functionAsMethod :=
  method_rejects_function_as_method name ar lhs args hb h

theorem C07_rejects_unknown_method (name : String) (lhs : Expr) (args : List Expr) (hb : name ∉ builtinMethods)
    (h : extLookup name = none) : mkMethod name lhs args = .error .notMethod := method_rejects_unknown name lhs args hb h

example : extLookup "foo" = none := by decide
example : extLookup "isIpv4" = some (1, true) := by decide
example : extLookup "ip" = some (1, false) ∧ "ip" ∉ builtinMethods := by decide

end CedarGo
