/-
  C07 — The Cedar text parser builds exactly the tree the grammar prescribes.

  Objects.  `Text.policy` / `Text.exprF` … (CedarGo/Model/Text/Parser.lean) are the recursive-descent functions of
  internal/parser/cedar_unmarshal.go over the token list of `Tokenize`; `Text.render false/true`
  (= renderMin / renderFull, Model/Text/Printer.lean) are the spec-side printers; `Text.Rend`
  (Lemmas/C07Round.lean) is the relational form of the grammar: "token list ts spells expression x where
  level ≥ lvl is expected", with the documented precedence / associativity, parentheses optional where
  allowed and mandatory where needed.  The model parser is tied to the Go parser by `./check C07`
  (same AST incl. position or both reject, on ~30 000 token lists per run; escape classes of every code point).

  WHAT IS PROVED (no sorry, axioms: propext / Classical.choice / Quot.sound only)
  * C07_unquote_escape                Unquote(EscapeString s) = s for EVERY string (full statement; the former
                                      exclusion of U+FFFD went away with the repair of `replacement-char-rejected`;
                                      the old counterexample is now a regression example)
  * C07_pattern_roundtrip             ParsePattern(Pattern.MarshalCedar(p)) = p for EVERY pattern in `NewPattern` normal
                                      form (`patOK`): chunks escaped with `EscapeCharAll` + `\*`, re-scanned with the
                                      wildcard-aware `Unquote`, components rebuilt by `NewPattern`; C07_patOK_iff: the
                                      normal form is C01's `WFPattern` + "≥ 1 component" + "chunks are valid UTF-8";
                                      C07_pattern_empty_normalised: the component-less `Pattern{}` (the only other value
                                      `NewPattern` can return) is written `""` and read back as the single empty literal,
                                      which matches the same strings; C07_parsePattern_normal_form: EVERY pattern the
                                      parser returns is in the normal form (no `like` node the parser can build is
                                      outside the fragment), so parse ∘ print ∘ parse = parse on every pattern literal
  * C07_precedence_table, C07_precedence_levels, C07_marshal_table_agrees   table lemmas
  * C07_parser_total, C07_parser_total_list, C07_parseExpr_total   the fuel `|tokens| + 2` is never exhausted,
    for ARBITRARY token lists; C07_fuel_irrelevant: more fuel never changes the answer
  * C07_parse_any_rendering           every valid rendering in the sense of `Rend` (ANY admissible placement
                                      of parentheses) of an expression is parsed back to that expression
  * C07_parse_renderMin_partial / C07_parse_renderFull_partial (expressions) and
    C07_parse_policy_renderMin_partial / …renderFull_partial (policies), C07_parse_policies_render_partial (lists)
    on the decidable fragment `inFrag` / `policyOK` (see below)
    (the former counterexample `-5.foo` = renderMin (Negate (5.foo)) is now a regression example: repaired defect
    `negated-int-receiver`)
  * C07_rejects_chained_relation, C07_rejects_reserved_*, C07_rejects_duplicate_annotation,
    C07_rejects_duplicate_record_key, C07_rejects_unknown_function, C07_rejects_method_as_function,
    C07_rejects_function_as_method, C07_rejects_unknown_method

  THE FRAGMENT (`Text.inFrag full e`, `Text.policyOK full p` in CedarGo/Model/Text/Fragment.lean; decidable; the
  harness reports the share of generated cases inside it: ≈ 94 %):
  EVERY node kind of the AST is covered:
  expressions: boolean / long (int64 range) / string / entity literals (entity type = `::`-separated identifiers), the
  four variables, `!`, unary `-`, all 17 binary operators and methods (|| && == != < <= > >= in + - * contains
  containsAll containsAny getTag hasTag), isEmpty, if-then-else, attribute access in both forms, `has` in both forms,
  `like` with any pattern in `NewPattern` normal form (`patOK`), `is`, `is … in`, set and record literals (unique keys),
  extension function calls and extension method calls, arbitrarily nested; policies: effect, any number of annotations
  with distinct keys (identifiers or reserved words), every scope form of the grammar (all / == / in / in [..] / is /
  is..in), any sequence of when / unless conditions; lists of policies.
  WHAT THE HYPOTHESIS `inFrag` / `policyOK` STILL EXCLUDES — trees of the Go AST (or of the Lean model's larger types)
  that are not the tree of any Cedar text, which is why the theorems keep the suffix `_partial`:
  * `NodeValue`s holding a set, a record or an extension value (no literal syntax: they are WRITTEN as `[…]`, `{…}`,
    `decimal("…")` and read back as set / record literals and constructor calls — a different tree with the same
    meaning: C08_marshal_value_meaning_partial); long literals outside int64 (not representable in Go);
  * entity types / `is` types that are not `::`-separated identifiers; record literals with a repeated key, calls of
    unknown functions, a method-style extension call without receiver, a function-style call of a method (all
    REJECTED by the parser: C07_rejects_*);
  * patterns outside `NewPattern` normal form: the component-less `Pattern{}` (read back as the equivalent single
    empty literal: C07_pattern_empty_normalised), component lists `NewPattern` cannot build, chunks that are not
    valid UTF-8 (Go strings outside the model);
  * policies: repeated annotation keys (rejected), `principal/resource in [..]`, `action is ..` (not in the grammar),
    a non-default `position` (the parser sets it: C07_parse_text_roundtrip_partial states the position it gets).
  Texts that are never a rendering: `has a.b.c` paths (parser sugar; covered by correspondence); "unterminated
  literal" (a scanner error: C18's model, checked on the Go implementation by the harness).

  TEXT (bridge to C18's pure lexer `Lx.tokensWithPos`, Model/Text/Layout.lean, Lemmas/C07Lex*.lean)
  * C07_lex_layout                    FULL strength: for every token list whose tokens are `Lexable` (identifier /
                                      keyword / integer / string literal with any escapes / operator / unknown
                                      character) and every layout of whitespace, `// …` and `/* … */` comments whose
                                      neighbours do not merge (`sepOK`), lexing the BYTES of the text gives back exactly
                                      those classes and texts, each at the byte offset where it was written
  * C07_lex_layout_invariant          two admissible layouts of one token list lex to the same tokens up to positions
  * C07_admissible_of_pairs           the hypothesis in its pairwise form (`Separated t₁ sep t₂` for neighbours)
  * C07_separator_skipped             a separator alone lexes to the single EOF token
  * C07_render_tokens_lexable         the printers' tokens are `Lexable`; the single-space layout is admissible
  * C07_parse_text_roundtrip_partial  bytes of `renderMin p` / `renderFull p` under ANY admissible layout → lexer →
                                      parser = `[p]` positioned at its first token (partial: the fragment `policyOK`);
                                      C07_parse_text_single_space_partial: the same without the admissibility
                                      hypothesis for the single-space layout
  * C07_parse_text_list_roundtrip_partial  texts of several policies: every policy is read back positioned at ITS
                                      first token
-/
import CedarGoProofs.Lemmas.C07Head
import CedarGoProofs.Lemmas.C07LikeWF
import CedarGoProofs.Lemmas.C07LikeNormal
import CedarGoProofs.Lemmas.C07LexProps
import CedarGoProofs.Lemmas.C07LexList
import CedarGo.Model.Text.Marshal
namespace CedarGo
open CedarGo.Text

/-! ## string escapes -/

/-- `rust.Unquote(rust.EscapeString(s)) = s` for EVERY string, also at the level of the string-literal token the
    printers emit: the value the parser computes for the token `"EscapeString(s)"` is `s`. -/
theorem C07_unquote_escape (s : String) :
    unquote false (escapeString s.toList) = .ok (s.toList, []) ∧ stringValue (strT s).text = .ok s :=
  ⟨unquote_escapeString s.toList, stringValue_strT s⟩

/-- regression (repaired defect `replacement-char-rejected`): U+FFFD is printable, so it is written raw, and
    `Unquote` reads it back — `nextRune` used to reject every decoded `utf8.RuneError` -/
example : escapeString [replacementChar] = [replacementChar] ∧
    unquoteErr (unquote false (escapeString [replacementChar])) = none ∧
    stringValue (strT (String.ofList ['a', replacementChar, 'b'])).text = .ok (String.ofList ['a', replacementChar, 'b']) :=
  ⟨by decide +kernel, by decide +kernel, (C07_unquote_escape _).2⟩

/-! ## pattern literals (`like`) -/

/-- **`ParsePattern ∘ Pattern.MarshalCedar = id`** on every pattern in `NewPattern` normal form (`patOK`: at least one
    component, a component without wildcard only first, an empty literal only last, chunks valid UTF-8):
    the text `cs` that `MarshalCedar` writes between the quotes (`*` for a wildcard, each chunk through `EscapeCharAll`
    and `*` → `\*`) exists and `ParsePattern` (wildcard-aware `Unquote` chunk by chunk, then `types.NewPattern`) reads it
    back to the IDENTICAL component list; the same at the level of the pattern-literal token the printers emit and the
    value the parser computes for it (`parseLike`: `ParsePattern` on the token text without its quotes). -/
theorem C07_pattern_roundtrip (p : Pattern) (h : patOK p = true) :
    (∃ cs, escapePattern p = some cs ∧ parsePattern cs = .ok p) ∧
    (∃ t, patT p = some t ∧ t.ty = .string ∧ parsePattern (trimQuotes t.text.toList) = .ok p) := by
  obtain ⟨t, ht, hty, _, hp⟩ := patT_roundtrip p h
  exact ⟨pattern_roundtrip p h, t, ht, hty, hp⟩

/-- the normal form is exactly what `types.NewPattern` guarantees (`WFPattern`, the hypothesis of
    `C01_patternMatch_spec`), for a pattern with at least one component whose chunks are valid UTF-8 -/
theorem C07_patOK_iff (p : Pattern) : patOK p = true ↔ p ≠ [] ∧ WFPattern p ∧ p.all litUtf8OK = true := patOK_iff p

/-- the one value of `NewPattern` outside the normal form, `NewPattern()` = the component-less pattern: it is written
    `""`, read back as the single empty literal, and the two match exactly the same strings -/
theorem C07_pattern_empty_normalised :
    escapePattern [] = some [] ∧ parsePattern [] = .ok [⟨false, []⟩] ∧ ∀ s, matchComps [] s = matchComps [⟨false, []⟩] s :=
  ⟨rfl, by decide +kernel, matchComps_nil_eq⟩

/-- **every pattern the parser can return is in `NewPattern` normal form**: no `like` node built by the parser lies
    outside the fragment of the round-trip theorems; hence printing what was parsed and parsing it again changes
    nothing, for EVERY pattern literal text `raw` that `ParsePattern` accepts -/
theorem C07_parsePattern_normal_form (raw : List Char) (p : Pattern) (h : parsePattern raw = .ok p) :
    patOK p = true ∧ ∃ cs, escapePattern p = some cs ∧ parsePattern cs = .ok p :=
  ⟨parsePattern_patOK raw p h, pattern_roundtrip p (parsePattern_patOK raw p h)⟩

/-- `**a\*` is accepted: two wildcards collapse; the text is normalised to `*a\*` by the first round trip -/
example : parsePattern ['*', '*', 'a', '\\', '*'] = .ok [⟨true, [97, 42]⟩] ∧ escapePattern [⟨true, [97, 42]⟩] = some ['*', 'a', '\\', '*'] := by
  decide +kernel

/-- `a\**é*` : a literal chunk with an escaped star, a wildcard, a non-ASCII chunk, a trailing wildcard -/
example : patOK [⟨false, [97, 42]⟩, ⟨true, [0xC3, 0xA9]⟩, ⟨true, []⟩] = true ∧ patOK [⟨true, []⟩] = true ∧ patOK [⟨false, []⟩] = true ∧
    escapePattern [⟨false, [97, 42]⟩, ⟨true, [0xC3, 0xA9]⟩, ⟨true, []⟩] = some ['a', '\\', '*', '*', 'é', '*'] := by
  decide +kernel

/-- outside the normal form the text is read back to a DIFFERENT component list: an empty first literal is dropped,
    two wildcards in a row collapse — `NewPattern` never builds these -/
example : patOK [⟨false, []⟩, ⟨true, [97]⟩] = false ∧ (escapePattern [⟨false, []⟩, ⟨true, [97]⟩]).map parsePattern = some (.ok [⟨true, [97]⟩]) ∧
    patOK [⟨true, []⟩, ⟨true, []⟩] = false ∧ (escapePattern [⟨true, []⟩, ⟨true, []⟩]).map parsePattern = some (.ok [⟨true, []⟩]) := by
  decide +kernel

/-! ## precedence table -/

/-- left-associative operators take their own level on the left and the next level on the right;
    comparison operators are non-associative (next level on both sides) -/
theorem C07_precedence_table (op : BinOp) (tok : Token) (lp rp : Nat) (h : binForm op = .infixOp tok lp rp) :
    (op ∈ [.or, .and, .add, .sub, .mul] → lp = binPrec op ∧ rp = binPrec op + 1) ∧
    (op ∈ [.eq, .ne, .lt, .le, .gt, .ge, .in_] → lp = binPrec op + 1 ∧ rp = binPrec op + 1) := by
  cases op <;> simp [binForm] at h <;> obtain ⟨rfl, rfl, rfl⟩ := h <;> simp [binPrec]

/-- if < or < and < relation < add < mult < unary < member < primary -/
theorem C07_precedence_levels :
    prec (.ite (.var .context) (.var .context) (.var .context)) = 0 ∧ binPrec .or = 1 ∧ binPrec .and = 2 ∧
    binPrec .eq = 3 ∧ prec (.has (.var .context) "a") = 3 ∧ binPrec .add = 4 ∧ binPrec .sub = 4 ∧ binPrec .mul = 5 ∧
    prec (.unop .not (.var .context)) = 6 ∧ prec (.unop .neg (.var .context)) = 6 ∧ prec (.lit (.long (-1))) = 6 ∧
    prec (.access (.var .context) "a") = 7 ∧ binPrec .contains = 7 ∧ prec (.var .context) = 8 ∧ prec (.lit (.long 1)) = 8 := by
  decide

/-- Go's marshaller (`node.go`, `cedar_marshal.go`) uses the same operator table as the grammar, and the same
    levels except for negative long literals (always primary in Go: the `-5.foo` defect) and
    function-style extension calls (access level in Go: harmless extra parentheses) -/
theorem C07_marshal_table_agrees (op : BinOp) :
    (∀ tok lp rp, goInfix op = some (tok, lp, rp) ↔ binForm op = .infixOp tok lp rp) ∧
    (goInfix op = none ↔ binForm op = .method (goMethodName op)) := by
  cases op <;> simp [goInfix, binForm, goMethodName] <;> intros <;> constructor <;> rintro ⟨rfl, rfl, rfl⟩ <;> simp

/-! ## totality -/

/-- `Policy.UnmarshalCedar` terminates on EVERY token list: the model's fuel `|tokens| + 2` is never exhausted -/
theorem C07_parser_total (ts : List Token) : ∃ r, parsePolicy ts = some r := by
  obtain ⟨r, hr, _⟩ := tot_policy ts
  unfold parsePolicy parseFuel
  rw [hr]
  cases r <;> exact ⟨_, rfl⟩

theorem C07_parser_total_list (ts : List Token) : ∃ r, parsePolicies ts = some r :=
  tot_policiesLoop _ _ ts (by unfold parseFuel; omega) (by unfold parseFuel; omega)

theorem C07_parseExpr_total (ts : List Token) : ∃ r, parseExpr ts = some r := by
  obtain ⟨r, hr, _⟩ := goodE_exprF ts.length ts (Nat.le_refl _)
  exact ⟨r, hr⟩

/-- fuel is an artefact: any larger fuel gives the same answer -/
theorem C07_fuel_irrelevant (ts : List Token) (n : Nat) (hn : parseFuel ts ≤ n) : policy n ts = policy (parseFuel ts) ts := by
  obtain ⟨r, hr, _⟩ := tot_policy ts
  have h1 : policy (parseFuel ts) ts = some r := hr
  rw [h1]
  exact mono_policy hn ts r h1

example : ∃ r, parsePolicy [opT "-", opT "-", opT "(", idT "x"] = some r := C07_parser_total _

/-! ## the parser inverts every valid rendering -/

/-- **any admissible parenthesisation**: if `ts` spells `x` according to the grammar (`Rend`, level 0), then
    parsing `ts` as a complete expression yields `x` and consumes everything -/
theorem C07_parse_any_rendering (x : Expr) (ts : List Token) (h : Rend (.e 0 x) ts) : parseExpr ts = some (.ok (x, [])) :=
  parseExpr_of_reads (rend_spec h (Nat.zero_le _)).1

/-- `parse (renderMin e) = e` on the fragment.  The full statement (all of `InGrammar`) is in the header. -/
theorem C07_parse_renderMin_partial (e : Expr) (h : inFrag false e = true) :
    parseExpr (render false e) = some (.ok (e, [])) :=
  parseExpr_of_reads (reads_of_inFrag h)

/-- `parse (renderFull e) = e` on the fragment -/
theorem C07_parse_renderFull_partial (e : Expr) (h : inFrag true e = true) :
    parseExpr (render true e) = some (.ok (e, [])) :=
  parseExpr_of_reads (reads_of_inFrag h)

/-- policies: effect, annotations, scope clauses, condition kinds and order, and every condition tree are
    recovered from `renderMin p` -/
theorem C07_parse_policy_renderMin_partial (p : Policy) (h : policyOK false p = true) :
    parsePolicy (renderMin p) = some (.ok p) := parsePolicy_of_reads (policyReads_render h)

theorem C07_parse_policy_renderFull_partial (p : Policy) (h : policyOK true p = true) :
    parsePolicy (renderFull p) = some (.ok p) := parsePolicy_of_reads (policyReads_render h)

/-- a document of several policies is read back as the same sequence -/
theorem C07_parse_policies_render_partial (full : Bool) (ps : List Policy) (h : ps.all (policyOK full) = true) :
    parsePolicies (renderListToks full ps) = some (.ok ps) := parsePolicies_of_reads (polsReads_render ps h)

/-- the hypotheses are satisfiable by a tree that exercises precedence, associativity, unary stacks, negative
    literals, member chains, methods, sets, records and extension calls -/
example : inFrag false
    (.ite (.binop .or (.binop .and (.var .principal) (.binop .lt (.binop .sub (.binop .sub (.lit (.long 1)) (.lit (.long (-2))))
        (.binop .mul (.lit (.long 3)) (.unop .neg (.unop .neg (.var .context))))) (.lit (.long 4)))) (.unop .not (.has (.var .context) "if")))
      (.binop .contains (.set [.lit (.str "a\"b"), .access (.access (.lit (.long (-5))) "x") "a b"]) (.call "ip" [.lit (.str "::1")]))
      (.record [("k", .call "isInRange" [.var .resource, .unop .isEmpty (.set [])]), ("if", .lit (.bool true))])) = true := by
  decide +kernel

/-- `like`: the operand is parenthesised when it is below the additive level; the pattern is `a\**` -/
example : inFrag false (.binop .and (.like (.binop .add (.access (.var .context) "s") (.lit (.str "x"))) [⟨false, [97, 42]⟩, ⟨true, []⟩])
      (.unop .not (.like (.ite (.var .context) (.lit (.str "")) (.lit (.str "b"))) [⟨true, [0xC3, 0xA9]⟩]))) = true ∧
    (render false (.like (.binop .lt (.var .context) (.lit (.long 1))) [⟨false, [97, 42]⟩, ⟨true, []⟩])).map (·.text) =
      ["(", "context", "<", "1", ")", "like", "\"a\\**\""] := by
  decide +kernel

example : policyOK false { effect := .forbid, annotations := [("id", "a\"b"), ("if", "")], principal := .isIn "NS::User" ("Group", "g 1"), action := .inSet [("Action", "a"), ("A::B::Action", "b")], resource := .eq ("Doc", "d"), conditions := [(true, .binop .add (.lit (.long 1)) (.lit (.long 2))), (false, .isIn (.var .principal) "A::B" (.lit (.entity "C" "x")))] } = true := by
  decide +kernel

/-- regression (repaired defect `negated-int-receiver`): `-5.foo` is the minimal rendering of
    Negate(Access(5, "foo")) (grammar: Unary ::= '-' Member); it is inside the fragment and parsed back — the
    negative-literal special case used to swallow `-5` and reject `.foo`.  The bare `-5` is still the literal. -/
example :
    let p : Policy := { effect := .permit, conditions := [(true, .unop .neg (.access (.lit (.long 5)) "foo"))] }
    policyOK false p = true ∧ parsePolicy (renderMin p) = some (.ok p) ∧
      (renderMin p).map (·.text) = ["permit", "(", "principal", ",", "action", ",", "resource", ")", "when", "{", "-", "5", ".", "foo", "}", ";"] :=
  ⟨by decide +kernel, C07_parse_policy_renderMin_partial _ (by decide +kernel), by decide +kernel⟩

example : errKind (parseExpr [opT "-", intT 5, opT "[", strT "a", opT "]", opT ".", idT "isEmpty", opT "(", opT ")"]) = none ∧
    parseExpr (render false (.unop .neg (.unop .isEmpty (.access (.lit (.long 5)) "a b")))) =
      some (.ok (.unop .neg (.unop .isEmpty (.access (.lit (.long 5)) "a b")), [])) ∧
    parseExpr (render false (.lit (.long (-5)))) = some (.ok (.lit (.long (-5)), [])) :=
  ⟨by decide +kernel, C07_parse_renderMin_partial _ (by decide +kernel), C07_parse_renderMin_partial _ (by decide +kernel)⟩

/-! ## texts outside the grammar are rejected -/

/-- **chained relations**: `{ a OP b X …` with `OP` a comparison operator and `X` a comparison operator, `has`,
    `like` or `is` is a parse error, for all operand texts `ta`, `tb` that spell level-4 expressions -/
theorem C07_rejects_chained_relation (a b : Expr) (ta tb : List Token) (op : BinOp) (t1 t2 : Token) (X : List Token)
    (h1 : IsRelTok t1 op) (h2 : contLevel t2.text = some 3) (ha : Rend (.e 4 a) ta) (hb : Rend (.e 4 b) tb) :
    ∃ d, ∀ n, d ≤ n → condition n (opT "{" :: (ta ++ t1 :: (tb ++ t2 :: X))) = some (.error .exact) := by
  have sa := rend_spec ha (by decide)
  have sb := rend_spec hb (by decide)
  exact condition_rejects_chain op t1 t2 X h1 h2 sa.1 sa.2 sb.1

example : IsRelTok (opT "<") .lt := ⟨rfl, rfl, rfl, rfl, rfl⟩
example : IsRelTok (kwT "in") .in_ := ⟨rfl, rfl, rfl, rfl, rfl⟩
example : contLevel (kwT "has").text = some 3 := rfl

/-- `1 < 2 < 3`, concretely and with the canonical fuel -/
theorem C07_rejects_chained_relation_example :
    errKind (parsePolicy (simpleHead .permit ++ [idT "when", opT "{", intT 1, opT "<", intT 2, opT "<", intT 3, opT "}", opT ";"])) = some .exact := by
  decide +kernel

/-- **reserved words as identifiers**: a reserved word other than `true`/`false` cannot start a primary
    (so it is no variable, entity type or function name) … -/
theorem C07_rejects_reserved_primary (E : EP) (n : Nat) (t : Token) (rest : List Token) (hty : t.ty = .keyword)
    (hkw : t.text ∈ reservedKeywords) (h1 : t.text ≠ "true") (h2 : t.text ≠ "false") :
    primary E n (t :: rest) = some (.error .primary) := primary_rejects_reserved E n t rest hty hkw h1 h2

/-- … nor be an attribute or method name after `.`, a record key, the operand of `has`, or a path component -/
theorem C07_rejects_reserved_elsewhere (E : EP) (n : Nat) (lhs : Expr) (t : Token) (rest : List Token) (hty : t.ty = .keyword) :
    accessLoop E (n + 1) lhs (opT "." :: t :: rest) = some (.error .ident) ∧ recordKey t = .error .token ∧
    parseHas lhs (t :: rest) = .error .token ∧ path (t :: rest) = .error .ident ∧ entity (t :: rest) = .error .ident :=
  ⟨access_rejects_reserved E n lhs t rest hty, recordKey_rejects_reserved t hty, has_rejects_reserved lhs t rest hty,
   path_rejects_reserved t rest hty, entity_rejects_reserved t rest hty⟩

theorem C07_rejects_duplicate_annotation (k v1 v2 : String) (rest : List Token) :
    annotations [] (opT "@" :: idT k :: opT "(" :: strT v1 :: opT ")" :: opT "@" :: idT k :: opT "(" :: strT v2 :: opT ")" :: rest)
      = .error .dupAnnotation := annotations_two_equal k v1 v2 rest

theorem C07_rejects_duplicate_record_key (E : EP) (n : Nat) (known : List String) (kt : Token) (k : String) (ts1 : List Token)
    (v : Expr) (ts2 : List Token) (hne : (kt.text == "}") = false) (hk : recordKey kt = .ok k)
    (hv : E ts1 = okP (v, ts2)) (hdup : known.contains k = true) :
    recordLoop E (n + 1) known (kt :: opT ":" :: ts1) = some (.error .dupKey) :=
  recordLoop_rejects_duplicate E n known kt k ts1 v ts2 hne hk hv hdup

theorem C07_rejects_duplicate_record_key_example :
    errKind (parsePolicy (simpleHead .permit ++ [idT "when", opT "{", opT "{", idT "a", opT ":", intT 1, opT ",", strT "a", opT ":", intT 2, opT "}", opT "}", opT ";"])) = some .dupKey := by
  decide +kernel

theorem C07_rejects_unknown_function (E : EP) (n : Nat) (name : String) (rest : List Token) (h : extLookup name = none) :
    entityOrExtFun E n name (opT "(" :: rest) = some (.error .notFunction) := call_rejects_unknown E n name rest h

theorem C07_rejects_method_as_function (E : EP) (n : Nat) (name : String) (ar : Nat) (rest : List Token)
    (h : extLookup name = some (ar, true)) :
    entityOrExtFun E n name (opT "(" :: rest) = some (.error .methodAsFunction) := call_rejects_method_as_function E n name ar rest h

theorem C07_rejects_function_as_method (name : String) (ar : Nat) (lhs : Expr) (args : List Expr) (hb : name ∉ builtinMethods)
    (h : extLookup name = some (ar, false)) : mkMethod name lhs args = .error .functionAsMethod :=
  method_rejects_function_as_method name ar lhs args hb h

theorem C07_rejects_unknown_method (name : String) (lhs : Expr) (args : List Expr) (hb : name ∉ builtinMethods)
    (h : extLookup name = none) : mkMethod name lhs args = .error .notMethod := method_rejects_unknown name lhs args hb h

example : extLookup "foo" = none := by decide
example : extLookup "isIpv4" = some (1, true) := by decide
example : extLookup "ip" = some (1, false) ∧ "ip" ∉ builtinMethods := by decide

/-! ## text: whitespace, comments and the lexer (bridge to C18) -/

/-- **a separator is what the lexer skips**: the bytes of a separator alone (whitespace, `// …` closed by a
    newline or by the end of the input, `/* … */`) lex to the single EOF token, placed after them -/
theorem C07_separator_skipped (sep : String) (h : IsSeparator true sep) :
    Lx.tokensWithPos (strBytes sep) = .ok [⟨.eof, Lx.goPos (strBytes sep) (strBytes sep).length, ""⟩] := by
  have := tokensWithPos_layout [sep] [] h
  simpa [renderBytes, renderChars, placed, strBytes] using this

/-- a separator that may stand between two tokens may also end the text -/
theorem C07_separator_final (sep : String) (h : IsSeparator false sep) : IsSeparator true sep := sepChars_mono h

/-- **lexing inverts every admissible layout** (full strength).  For every token list `ts` and layout `lay` with
    `Admissible lay ts` — one separator before each token and one at the end, each made of whitespace and comments;
    every token `Lexable`; every token `sepOK` with respect to the character that follows it — the pure lexer of
    C18 on the BYTES of the text succeeds and returns `placed …`:
    (1) the classes and texts are exactly those of `ts`, followed by the EOF token;
    (2) every token sits at the byte offset where it was written and its position is `Lx.goPos bytes offset`
        (= `Lx.posOf bytes offset`, i.e. offset / line / column, for a non-empty text — `C18_position_exact`). -/
theorem C07_lex_layout (lay : Layout) (ts : List Token) (h : Admissible lay ts) :
    Lx.tokensWithPos (renderBytes lay ts) = .ok (placed (renderBytes lay ts) 0 lay ts) ∧
    (placed (renderBytes lay ts) 0 lay ts).map (fun t => (t.ty, t.text)) = ts.map (fun t => (t.ty, t.text)) ++ [(.eof, "")] ∧
    (∀ t ∈ placed (renderBytes lay ts) 0 lay ts, t.pos = Lx.goPos (renderBytes lay ts) t.pos.offset) ∧
    (parserInput (placed (renderBytes lay ts) 0 lay ts)).map stripPos = ts.map stripPos :=
  ⟨tokensWithPos_layout lay ts h, placed_classes _ ts lay 0 (admissible_length ts lay h), placed_positions _ ts lay 0,
   by rw [parserInput_placed _ ts lay 0 (admissible_length ts lay h)]; exact placedToks_strip _ ts lay 0 (admissible_length ts lay h)⟩

/-- the PAIRWISE form of the hypothesis: separators are whitespace / comments, tokens are `Lexable`, every two
    neighbours `t₁ sep t₂` are `Separated` (and the last token is `sepOK` before the final separator) — this is all
    `Admissible` asks for -/
theorem C07_admissible_of_pairs (lay : Layout) (ts : List Token) (h : AdmissiblePairs lay ts) : Admissible lay ts :=
  admissible_of_pairs ts lay h

/-- separators as BYTE strings: exactly the UTF-8 bytes of the separators above (bytes that are not valid UTF-8 are a
    scanner error wherever they occur, comments included, so no byte-level separator is lost) -/
theorem C07_separator_bytes (fin : Bool) (bs : List UInt8) :
    IsSeparatorBytes fin bs ↔ ∃ s : String, bs = strBytes s ∧ IsSeparator fin s := isSeparatorBytes_iff fin bs

/-- **layout invariance**: two admissible layouts of the same token list lex to token lists that are equal up to
    positions (same length, same classes, same texts) -/
theorem C07_lex_layout_invariant (lay₁ lay₂ : Layout) (ts : List Token) (h₁ : Admissible lay₁ ts) (h₂ : Admissible lay₂ ts) :
    ∃ toks₁ toks₂, Lx.tokensWithPos (renderBytes lay₁ ts) = .ok toks₁ ∧ Lx.tokensWithPos (renderBytes lay₂ ts) = .ok toks₂ ∧
      toks₁.map stripPos = toks₂.map stripPos := by
  obtain ⟨a₁, b₁, _, _⟩ := C07_lex_layout lay₁ ts h₁
  obtain ⟨a₂, b₂, _, _⟩ := C07_lex_layout lay₂ ts h₂
  exact ⟨_, _, a₁, a₂, map_stripPos_of_classes _ _ (b₁.trans b₂.symm)⟩

/-- the hypothesis is satisfiable by a layout with whitespace, a block comment and a line comment -/
example : Admissible [" ", "/**/", "//x\n", ""] [idT "a", opT "<", intT 1] := by
  have e1 : "/**/".toList = '/' :: '*' :: ([] ++ '*' :: '/' :: []) := by decide +kernel
  have e2 : "//x\n".toList = '/' :: '/' :: (['x'] ++ '\n' :: []) := by decide +kernel
  have s2 : IsSeparator false "/**/" := by
    unfold IsSeparator; rw [e1]; exact .block false [] [] ⟨rfl, by simp⟩ (.nil _)
  have s3 : IsSeparator false "//x\n" := by
    unfold IsSeparator; rw [e2]; exact .line false ['x'] [] (by intro c hc; simp at hc; subst hc; decide) (.nil _)
  exact ⟨isSeparator_space false, lexable_id "a" (by decide +kernel), by decide +kernel,
    s2, lexable_op "<" (by decide +kernel), by decide +kernel,
    s3, lexable_int 1, by decide +kernel, isSeparator_empty true⟩

/-- a layout with every comment form, and tokens of every class (`=` is an UNKNOWN token; `1a` is INT then IDENT) -/
example : Lx.tokensWithPos (renderBytes [" /* c */\n", "", "// x\n\t", "", " ", "/**/", "//é"]
      [idT "a1", opT "<=", ⟨.int, noPos, "1"⟩, idT "a", ⟨.unknown, noPos, "="⟩, strT "q\"\n"])
    = .ok [⟨.ident, ⟨9, 2, 1⟩, "a1"⟩, ⟨.operator, ⟨11, 2, 3⟩, "<="⟩, ⟨.int, ⟨19, 3, 2⟩, "1"⟩, ⟨.ident, ⟨20, 3, 3⟩, "a"⟩,
           ⟨.unknown, ⟨22, 3, 5⟩, "="⟩, ⟨.string, ⟨27, 3, 10⟩, "\"q\\\"\\n\""⟩, ⟨.eof, ⟨38, 3, 20⟩, ""⟩] := by
  decide +kernel

/-- **the printers write lexable text**: every token of `renderMin p` / `renderFull p` (p in the fragment, annotation
    keys identifiers or reserved words) is `Lexable`; any two of them may be written with one space in between; and
    the single-space layout of the whole rendering is admissible -/
theorem C07_render_tokens_lexable (full : Bool) (p : Policy) (h : policyOK full p = true) (ha : annKeysOK p = true) :
    (∀ t ∈ renderPolicy full p, Lexable t) ∧
    (∀ t₁ ∈ renderPolicy full p, ∀ t₂ ∈ renderPolicy full p, Separated t₁ " " t₂) ∧
    Admissible (spaceLayout (renderPolicy full p).length) (renderPolicy full p) :=
  ⟨allLex_renderPolicy full p h ha, fun t₁ h₁ t₂ _ => separated_space (allLex_renderPolicy full p h ha t₁ h₁) t₂,
   admissible_spaceLayout _ (allLex_renderPolicy full p h ha)⟩

/-- **text round trip**: for every policy `p` of the proved fragment and EVERY admissible layout of its rendering
    (`renderMin` for `full = false`, `renderFull` for `full = true`), lexing the bytes with C18's pure lexer and parsing
    the tokens yields exactly `[p]`, with `position` = offset / line / column (`Lx.posOf`) of its first token, which
    starts right after the first separator.
    FULL statement: the same for every policy of the grammar.
    Missing: nothing that is Cedar syntax — `policyOK` excludes only trees that are the tree of no text (header).
    Texts of several policies:
    `C07_parse_text_list_roundtrip_partial`. -/
theorem C07_parse_text_roundtrip_partial (full : Bool) (p : Policy) (lay : Layout) (h : policyOK full p = true)
    (hadm : Admissible lay (renderPolicy full p)) :
    parseBytes (renderBytes lay (renderPolicy full p)) =
      .ok (some (.ok [{ p with position := positionAt (renderBytes lay (renderPolicy full p)) (strBytes (lay.headD "")).length }])) := by
  have hpos : p.position = {} := by
    simp only [policyOK, Bool.and_eq_true, beq_iff_eq] at h; exact h.1.2
  have h1 : parsePolicies (renderPolicy full p) = some (.ok [p]) := by
    have := C07_parse_policies_render_partial full [p] (by simp [h])
    simpa [renderListToks] using this
  exact parseBytes_position lay _ p hadm (renderPolicy_ne_nil full p)
    (parsePolicies_SP_of_default h1 (by intro q hq; simp at hq; rw [hq]; exact hpos))

/-- **texts of several policies**: for every list `ps` of policies of the proved fragment and every admissible
    layout of `renderList full ps` (the renderings one after the other), lexing the bytes and parsing yields exactly
    `ps`, EVERY policy positioned at its own first token (`positioned`: the k-th policy starts where the tokens of the
    first k-1 renderings end), and every token position is offset / line / column (`positionAt` = `Lx.posOf`) of
    the byte where the token was written.  (Needs that the parser leaves a SUFFIX of its input: `policy_suf`.) -/
theorem C07_parse_text_list_roundtrip_partial (full : Bool) (ps : List Policy) (lay : Layout) (h : ps.all (policyOK full) = true)
    (hadm : Admissible lay (renderList full ps)) :
    parseBytes (renderBytes lay (renderList full ps)) =
      .ok (some (.ok (positioned full ps (parserInput (placed (renderBytes lay (renderList full ps)) 0 lay (renderList full ps)))))) ∧
    (ps ≠ [] → ∀ t ∈ parserInput (placed (renderBytes lay (renderList full ps)) 0 lay (renderList full ps)),
      posOfC07 t = positionAt (renderBytes lay (renderList full ps)) t.pos.offset) := by
  rw [renderList_eq] at hadm ⊢
  refine ⟨?_, fun hne => parserInput_positions lay _ hadm ?_⟩
  · rw [parserInput_placed _ _ lay 0 (admissible_length _ lay hadm)]
    exact parseBytes_positioned full ps lay h hadm
  · cases ps with
    | nil => exact absurd rfl hne
    | cons p ps =>
      intro e
      have := congrArg List.length e
      simp [renderListToks, renderPolicy] at this

/-- two policies in one text: the second one is positioned at ITS first token (byte 36, line 2, column 2) -/
example : (match parseBytes (strBytes "permit(principal,action,resource);\n forbid(principal,action,resource);") with
    | .ok (some (.ok [q₁, q₂])) => decide (q₁.position = { filename := "", offset := 0, line := 1, column := 1 }) &&
        decide (q₂.position = { filename := "", offset := 36, line := 2, column := 2 })
    | _ => false) = true := by
  decide +kernel

/-- the single-space text of `renderMin p` / `renderFull p` needs no admissibility hypothesis: it is read back as `[p]`
    at offset 0, line 1, column 1 -/
theorem C07_parse_text_single_space_partial (full : Bool) (p : Policy) (h : policyOK full p = true) (ha : annKeysOK p = true) :
    parseBytes (renderBytes (spaceLayout (renderPolicy full p).length) (renderPolicy full p)) =
      .ok (some (.ok [{ p with position := { filename := "", offset := 0, line := 1, column := 1 } }])) := by
  rw [C07_parse_text_roundtrip_partial full p _ h (C07_render_tokens_lexable full p h ha).2.2]
  have : (spaceLayout (renderPolicy full p).length).headD "" = "" := by
    cases (renderPolicy full p).length <;> rfl
  rw [this]
  simp [positionAt, strBytes, encChars, posOf_zero]

example : policyOK false { effect := .permit, annotations := [("id", "a b"), ("if", "")], conditions := [(true, .binop .lt (.lit (.long 1)) (.lit (.long (-2))))] } = true ∧
    annKeysOK { effect := .permit, annotations := [("id", "a b"), ("if", "")], conditions := [(true, .binop .lt (.lit (.long 1)) (.lit (.long (-2))))] } = true := by
  decide +kernel

/-- the composed pipeline on a concrete text with comments (the policy starts at byte 9 = line 3, column 1) -/
example : (match parseBytes (strBytes "// head\n\npermit /* all */ (principal,action,resource)when{1<2};") with
    | .ok (some (.ok [q])) => decide (q.position = { filename := "", offset := 9, line := 3, column := 1 }) && q.conditions.length == 1
    | _ => false) = true := by
  decide +kernel

end CedarGo
