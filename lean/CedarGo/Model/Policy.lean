/-
  Policies, `PolicyToNode` (internal/eval/compile.go) and the authorizer loop (authorize.go) — C02.
-/
import CedarGo.Model.Eval
namespace CedarGo

inductive Effect where | permit | forbid
deriving DecidableEq, Repr, Inhabited

inductive Scope where
  | all
  | eq (e : UID)
  | in_ (e : UID)
  | inSet (es : List UID)
  | is (ty : String)
  | isIn (ty : String) (e : UID)
deriving Repr, Inhabited

structure Position where
  filename : String := ""
  offset : Nat := 0
  line : Nat := 0
  column : Nat := 0
deriving DecidableEq, Repr, Inhabited

structure Policy where
  effect : Effect
  annotations : List (String × String) := []
  principal : Scope := .all
  action : Scope := .all
  resource : Scope := .all
  conditions : List (Bool × Expr) := []     -- (true = when, false = unless, body)
  position : Position := {}
deriving Repr, Inhabited

def uidVal (u : UID) : Value := .entity u.1 u.2

/-- `scopeToNode` -/
def scopeToExpr (v : Var) : Scope → Expr
  | .all => .lit (.bool true)
  | .eq e => .binop .eq (.var v) (.lit (uidVal e))
  | .in_ e => .binop .in_ (.var v) (.lit (uidVal e))
  | .inSet es => .binop .in_ (.var v) (.lit (mkSet (es.map uidVal)))
  | .is ty => .is (.var v) ty
  | .isIn ty e => .isIn (.var v) ty (.lit (uidVal e))

def Scope.isAll : Scope → Bool | .all => true | _ => false

def condToExpr (c : Bool × Expr) : Expr := if c.1 then c.2 else .unop .not c.2

/-- right-nested conjunction of a non-empty node list: `nodes[0] && (nodes[1] && (… && nodes[n-1]))` -/
def andAll : Expr → List Expr → Expr
  | e, [] => e
  | e, e' :: rest => .binop .and e (andAll e' rest)

/-- `PolicyToNode` -/
def policyToExpr (p : Policy) : Expr :=
  let scopes : List Expr :=
    if p.principal.isAll && p.action.isAll && p.resource.isAll then [.lit (.bool true)]
    else (if p.principal.isAll then [] else [scopeToExpr .principal p.principal])
      ++ (if p.action.isAll then [] else [scopeToExpr .action p.action])
      ++ (if p.resource.isAll then [] else [scopeToExpr .resource p.resource])
  match scopes ++ p.conditions.map condToExpr with
  | [] => .lit (.bool true)      -- unreachable: `scopes` is never empty
  | e :: rest => andAll e rest

abbrev PolicyID := String

structure AuthzResult where
  allow : Bool
  reasons : List (PolicyID × Position)
  errors : List (PolicyID × Position × Err)
deriving Repr

/-- one iteration of the loop in `Authorize` for an already compiled policy expression -/
structure Acc where
  forbids : List (PolicyID × Position) := []
  permits : List (PolicyID × Position) := []
  errors : List (PolicyID × Position × Err) := []

def authStep (compile : Policy → Expr) (env : Env) (acc : Acc) (ip : PolicyID × Policy) : Acc :=
  match evalBool (compile ip.2) env with
  | .error e => { acc with errors := acc.errors ++ [(ip.1, ip.2.position, e)] }
  | .ok false => acc
  | .ok true =>
    match ip.2.effect with
    | .forbid => { acc with forbids := acc.forbids ++ [(ip.1, ip.2.position)] }
    | .permit => { acc with permits := acc.permits ++ [(ip.1, ip.2.position)] }

/-- `cedar.Authorize` over the sequence yielded by any `PolicyIterator` -/
def authorizeWith (compile : Policy → Expr) (ps : List (PolicyID × Policy)) (env : Env) : AuthzResult :=
  let acc := ps.foldl (authStep compile env) {}
  if !acc.forbids.isEmpty then ⟨false, acc.forbids, acc.errors⟩
  else if !acc.permits.isEmpty then ⟨true, acc.permits, acc.errors⟩
  else ⟨false, [], acc.errors⟩

end CedarGo
