/-
  C05: batch authorization — `x/exp/batch/batch.go`.

  * `cloneSub k v r`   : substitution of ONE variable inside a value, as the code does it: entities are compared with
                         the marker, every record field whose value changes is replaced in a clone of the map, a set
                         with a changed member is rebuilt with `types.NewSet`.  (Before the repair of
                         `clonesub-second-occurrence` only the first changed field of a record was replaced.)
  * `Value.subst k v r`: full substitution (every occurrence) — what the property demands; `cloneSub` equals it
                         (`C05_cloneSub_is_subst`).
  * `doBatch`          : the recursive enumeration: at each level partially evaluate all policies against the
                         current environment (`doPartial`), replace ignore markers at the last level
                         (`fixIgnores`), loop over the level's value list substituting with `cloneSub`, recurse;
                         at the leaf convert the parts (`ValueToEntity` / `ValueToRecord`), authorize over the
                         residual policies and hand the result to the callback.
                         The callback is `BResult → Except ε Unit`; cancellation is an oracle `Nat → Bool`
                         consulted with the number of callbacks made so far at every `doBatch` entry.
-/
import CedarGo.Model.Partial
namespace CedarGo

/-! ## substitution -/

mutual
/-- `cloneSub`: returns the new value and whether anything changed -/
def cloneSub (k : String) (v : Value) : Value → Value × Bool
  | .entity ty id => if ty == variableEntityType && id == k then (v, true) else (.entity ty id, false)
  | .record kvs =>
    match cloneSubKVs k v kvs with
    | (kvs', true) => (.record kvs', true)
    | (_, false) => (.record kvs, false)
  | .set xs => if cloneSubAny k v xs then (mkSet (cloneSubMap k v xs), true) else (.set xs, false)
  | .bool b => (.bool b, false)
  | .long n => (.long n, false)
  | .str s => (.str s, false)
  | .decimal n => (.decimal n, false)
  | .datetime n => (.datetime n, false)
  | .duration n => (.duration n, false)
  | .ip a => (.ip a, false)
/-- the record loop: EVERY field with a delta is replaced in the cloned map (`newMap[kk] = vv`); the flag says
    whether any field changed (`newMap != nil`).  The keys are unchanged, so the key-sorted list stays sorted. -/
def cloneSubKVs (k : String) (v : Value) : List (String × Value) → List (String × Value) × Bool
  | [] => ([], false)
  | (kk, vv) :: rest =>
    ((kk, (cloneSub k v vv).1) :: (cloneSubKVs k v rest).1, (cloneSub k v vv).2 || (cloneSubKVs k v rest).2)
def cloneSubAny (k : String) (v : Value) : List Value → Bool
  | [] => false
  | x :: xs => (cloneSub k v x).2 || cloneSubAny k v xs
def cloneSubMap (k : String) (v : Value) : List Value → List Value
  | [] => []
  | x :: xs => (cloneSub k v x).1 :: cloneSubMap k v xs
end

mutual
/-- the variable `k` occurs in the value -/
def Value.hasVar (k : String) : Value → Bool
  | .entity ty id => ty == variableEntityType && id == k
  | .record kvs => Value.hasVarKVs k kvs
  | .set xs => Value.hasVarList k xs
  | _ => false
def Value.hasVarKVs (k : String) : List (String × Value) → Bool
  | [] => false
  | (_, x) :: rest => Value.hasVar k x || Value.hasVarKVs k rest
def Value.hasVarList (k : String) : List Value → Bool
  | [] => false
  | x :: xs => Value.hasVar k x || Value.hasVarList k xs
end

mutual
/-- full substitution of the variable `k` by `v` -/
def Value.subst (k : String) (v : Value) : Value → Value
  | .entity ty id => if ty == variableEntityType && id == k then v else .entity ty id
  | .record kvs => .record (Value.substKVs k v kvs)
  | .set xs => if Value.hasVarList k xs then mkSet (Value.substList k v xs) else .set xs
  | .bool b => .bool b
  | .long n => .long n
  | .str s => .str s
  | .decimal n => .decimal n
  | .datetime n => .datetime n
  | .duration n => .duration n
  | .ip a => .ip a
def Value.substKVs (k : String) (v : Value) : List (String × Value) → List (String × Value)
  | [] => []
  | (kk, x) :: rest => (kk, Value.subst k v x) :: Value.substKVs k v rest
def Value.substList (k : String) (v : Value) : List Value → List Value
  | [] => []
  | x :: xs => Value.subst k v x :: Value.substList k v xs
end

/-! ## the enumeration -/

/-- `fixIgnores` -/
def fixIgnores (env : Env) : Env :=
  { env with
    principal := if env.principal.isIgnore then .entity "__cedar::unknown" "principal" else env.principal
    action := if env.action.isIgnore then .entity "__cedar::unknown" "action" else env.action
    resource := if env.resource.isIgnore then .entity "__cedar::unknown" "resource" else env.resource
    context := if env.context.isIgnore then .record [] else env.context }

/-- `doPartial`: residuals of the kept policies -/
def doPartial (env : Env) (ps : List (PolicyID × Policy)) : List (PolicyID × Policy) :=
  ps.filterMap fun ip => (partialPolicy env ip.2).map (ip.1, ·)

/-- the loop body's four `cloneSub` calls (a part is only replaced when `cloneSub` reports a change) -/
def cloneSubEnv (k : String) (v : Value) (env : Env) : Env :=
  { env with
    principal := (cloneSub k v env.principal).1
    action := (cloneSub k v env.action).1
    resource := (cloneSub k v env.resource).1
    context := (cloneSub k v env.context).1 }

/-- full substitution in the four request parts -/
def substEnv (k : String) (v : Value) (env : Env) : Env :=
  { env with
    principal := Value.subst k v env.principal
    action := Value.subst k v env.action
    resource := Value.subst k v env.resource
    context := Value.subst k v env.context }

structure BResult where
  principal : Value
  action : Value
  resource : Value
  context : Value
  values : List (String × Value)          -- the substitution, in enumeration order
  allow : Bool
  reasons : List (PolicyID × Position)
  errors : List (PolicyID × Position × Err)
deriving Repr

inductive BErr (ε : Type) where
  | cancelled                 -- `ctx.Err()`
  | invalidPart               -- `errInvalidPart`
  | callback (e : ε)
deriving Repr

def isEntityV : Value → Bool | .entity .. => true | _ => false
def isRecordV : Value → Bool | .record _ => true | _ => false

/-- `diagnosticAuthzWithCallback` without the callback: the result for the current environment -/
def leafResult (env : Env) (ps : List (PolicyID × Policy)) (vals : List (String × Value)) : Option BResult :=
  if isEntityV env.principal && isEntityV env.action && isEntityV env.resource && isRecordV env.context then
    let r := authorize ps env
    some ⟨env.principal, env.action, env.resource, env.context, vals, r.allow, r.reasons, r.errors⟩
  else none

/-- outcome of a run: the callback invocations made (in order) and, if the run stopped early, why -/
abbrev BRun (ε : Type) := Except (BErr ε × List BResult) (List BResult)

/-- `diagnosticAuthzWithCallback`: `calls` are the invocations made so far; the new one is appended
    whether or not the callback accepts it -/
def leaf {ε : Type} (cb : BResult → Except ε Unit) (env : Env) (ps : List (PolicyID × Policy))
    (vals : List (String × Value)) (calls : List BResult) : BRun ε :=
  match leafResult env ps vals with
  | none => .error (.invalidPart, calls)
  | some r =>
    match cb r with
    | .ok () => .ok (calls ++ [r])
    | .error e => .error (.callback e, calls ++ [r])

/-- `for _, v := range u.Values { … if err := doBatch(ctx, be); err != nil { return err } }` -/
def loopM {ε : Type} (body : Value → List BResult → BRun ε) : List Value → List BResult → BRun ε
  | [], calls => .ok calls
  | v :: vs, calls =>
    match body v calls with
    | .error e => .error e
    | .ok calls' => loopM body vs calls'

/-- `doBatch` (`vars` = `be.Variables`, already sorted by list length, then by name: `bindingOrder`, Model/BatchOrder.lean).  `cancelled n` = the context is
    cancelled when `n` callback invocations have been made. -/
def doBatch {ε : Type} (cancelled : Nat → Bool) (cb : BResult → Except ε Unit) :
    List (String × List Value) → Env → List (PolicyID × Policy) → List (String × Value) → List BResult → BRun ε
  | [], env, ps, vals, calls =>
      if cancelled calls.length then .error (.cancelled, calls) else leaf cb env ps vals calls
  | (k, vs) :: rest, env, ps, vals, calls =>
      if cancelled calls.length then .error (.cancelled, calls) else
      let ps' := doPartial env ps
      let env' := if rest.isEmpty then fixIgnores env else env
      loopM (fun v => doBatch cancelled cb rest (cloneSubEnv k v env') ps' (vals ++ [(k, v)])) vs calls

/-- `batch.Authorize` after the unbound / unused checks: an empty value list returns at once (nothing to
    enumerate, the context is not even consulted); with no variables the ignore markers are resolved up front -/
def batchAuthorize {ε : Type} (cancelled : Nat → Bool) (cb : BResult → Except ε Unit)
    (vars : List (String × List Value)) (env : Env) (ps : List (PolicyID × Policy)) : BRun ε :=
  if vars.any (·.2.isEmpty) then .ok [] else
  let r := match vars with
    | [] => doBatch cancelled cb [] (fixIgnores env) (doPartial env ps) [] []
    | _ => doBatch cancelled cb vars env ps [] []
  -- `errors.Join(doBatch(ctx, be), ctx.Err())`: a context cancelled during the last callback is still reported
  match r with
  | .ok calls => if cancelled calls.length then .error (.cancelled, calls) else .ok calls
  | .error e => .error e

/-- the substitutions of the Cartesian product, in enumeration order -/
def product : List (String × List Value) → List (List (String × Value))
  | [] => [[]]
  | (k, vs) :: rest => vs.flatMap fun v => (product rest).map ((k, v) :: ·)

end CedarGo
