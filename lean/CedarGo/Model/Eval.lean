/-
  C01: `Model.eval` mirrors `internal/eval/evalers.go` + `convert.go` node by node:
  operand evaluation order, which conversion fails first, wrap-based overflow tests,
  `ComparableValue` dispatch, forced errors, extension dispatch.
-/
import CedarGo.Model.Expr
import CedarGo.Model.Scalars
import CedarGo.Model.Hierarchy
import CedarGo.Model.Pattern
namespace CedarGo
open Scalars

/-! ## Machine arithmetic (DESIGN §3.2): the Go checks transcribed literally -/

def checkedAdd (l r : Int) : Int × Bool :=
  let res := wrap (l + r)
  if (decide (res > l)) != (decide (r > 0)) then (res, false) else (res, true)

def checkedSub (l r : Int) : Int × Bool :=
  let res := wrap (l - r)
  if (decide (res > l)) != (decide (r < 0)) then (res, false) else (res, true)

def checkedMul (l r : Int) : Int × Bool :=
  if l == 0 || r == 0 then (0, true) else
  let res := wrap (l * r)
  if (decide (res < 0)) != ((decide (l < 0)) != (decide (r < 0))) then (res, false)
  else if wrap (Int.tdiv res l) != r then (res, false)
  else (res, true)

def checkedNeg (a : Int) : Int × Bool :=
  if a == minI64 then (0, false) else (-a, true)

/-! ## Conversions (`internal/eval/util.go`) -/

def toBool : Value → Except Err Bool | .bool b => .ok b | _ => .error .type
def toLong : Value → Except Err Int | .long n => .ok n | _ => .error .type
def toStr : Value → Except Err String | .str s => .ok s | _ => .error .type
def toSet : Value → Except Err (List Value) | .set xs => .ok xs | _ => .error .type
def toEntity : Value → Except Err UID | .entity t i => .ok (t, i) | _ => .error .type
def toDatetime : Value → Except Err Int | .datetime n => .ok n | _ => .error .type
def toDecimal : Value → Except Err Int | .decimal n => .ok n | _ => .error .type
def toDuration : Value → Except Err Int | .duration n => .ok n | _ => .error .type
def toIP : Value → Except Err IPNet | .ip a => .ok a | _ => .error .type

/-- `evalComparableValue`: Long, Datetime and Duration implement `ComparableValue` -/
def toComparable : Value → Except Err Value
  | .long n => .ok (.long n) | .datetime n => .ok (.datetime n) | .duration n => .ok (.duration n)
  | _ => .error .type

/-- `lhs.LessThan(rhs)` / `LessThanOrEqual`: `none` = `ErrNotComparable` -/
def cmpLT : Value → Value → Option Bool
  | .long a, .long b => some (a < b) | .datetime a, .datetime b => some (a < b)
  | .duration a, .duration b => some (a < b) | _, _ => none
def cmpLE : Value → Value → Option Bool
  | .long a, .long b => some (a ≤ b) | .datetime a, .datetime b => some (a ≤ b)
  | .duration a, .duration b => some (a ≤ b) | _, _ => none

def doIn (env : Env) (lhs : UID) (rhs : Value) : Res :=
  match rhs with
  | .entity t i =>
    match entityInOne env.entities lhs (t, i) with
    | some b => .ok (.bool b) | none => .error .panic
  | .set xs =>
    match xs.mapM toEntity with
    | .error e => .error e
    | .ok us =>
      match entityInSet env.entities lhs us with
      | some b => .ok (.bool b) | none => .error .panic
  | _ => .error .type

/-- `extensions.ExtMap`: name ↦ (arity, isMethod).  Checked against the source by `Generated.Facts`. -/
def extMap : List (String × Nat × Bool) := [
  ("ip", 1, false), ("decimal", 1, false), ("datetime", 1, false), ("duration", 1, false),
  ("lessThan", 2, true), ("lessThanOrEqual", 2, true), ("greaterThan", 2, true), ("greaterThanOrEqual", 2, true),
  ("isIpv4", 1, true), ("isIpv6", 1, true), ("isLoopback", 1, true), ("isMulticast", 1, true), ("isInRange", 2, true),
  ("toDate", 1, true), ("toTime", 1, true), ("offset", 2, true), ("durationSince", 2, true),
  ("toDays", 1, true), ("toHours", 1, true), ("toMinutes", 1, true), ("toSeconds", 1, true), ("toMilliseconds", 1, true)]

def extLookup (fn : String) : Option (Nat × Bool) := (extMap.find? (·.1 == fn)).map (·.2)

/-- argument kinds an extension evaluator converts to (`evalString`, `evalDecimal`, …) -/
inductive Kind where | any | str | decimal | datetime | duration | ip
deriving DecidableEq, Repr, Inhabited

def checkKind : Kind → Value → Except Err Unit
  | .any, _ => .ok ()
  | .str, .str _ => .ok ()
  | .decimal, .decimal _ => .ok ()
  | .datetime, .datetime _ => .ok ()
  | .duration, .duration _ => .ok ()
  | .ip, .ip _ => .ok ()
  | _, _ => .error .type

def partialErrorName : String := "__cedar::partialError"

/-- which conversion each `new…Eval` applies to each argument -/
def extSig (fn : String) : List Kind :=
  if fn == "decimal" || fn == "datetime" || fn == "duration" || fn == "ip" then [.str]
  else if fn == "lessThan" || fn == "lessThanOrEqual" || fn == "greaterThan" || fn == "greaterThanOrEqual" then [.decimal, .decimal]
  else if fn == "isIpv4" || fn == "isIpv6" || fn == "isLoopback" || fn == "isMulticast" then [.ip]
  else if fn == "isInRange" then [.ip, .ip]
  else if fn == "toDate" || fn == "toTime" then [.datetime]
  else if fn == "toMilliseconds" || fn == "toSeconds" || fn == "toMinutes" || fn == "toHours" || fn == "toDays" then [.duration]
  else if fn == "offset" then [.datetime, .duration]
  else if fn == "durationSince" then [.datetime, .datetime]
  else []

/-- `millisSinceMidnight` (evalers.go): Go's truncated `ms % MillisPerDay`, moved into `[0, MillisPerDay)`
    by adding one day when it is negative (no wrap needed: the sum is below one day) -/
def millisSinceMidnight (ms : Int) : Int :=
  if Int.tmod ms 86400000 < 0 then Int.tmod ms 86400000 + 86400000 else Int.tmod ms 86400000

/-- the body of each extension evaluator once its arguments are evaluated and converted -/
def callExt (fn : String) (vals : List Value) : Res :=
  match vals with
  | [.str s] =>
    if fn == "decimal" then (parseDecimal s).map .decimal
    else if fn == "datetime" then (parseDatetime s).map .datetime
    else if fn == "duration" then (parseDuration s).map .duration
    else if fn == "ip" then (parseIP s).map .ip
    else .error .unknownFn
  | [.decimal x, .decimal y] =>
    if fn == "lessThan" then .ok (.bool (x < y))
    else if fn == "lessThanOrEqual" then .ok (.bool (x ≤ y))
    else if fn == "greaterThan" then .ok (.bool (x > y))
    else if fn == "greaterThanOrEqual" then .ok (.bool (x ≥ y))
    else .error .unknownFn
  | [.ip i] =>
    if fn == "isIpv4" then .ok (.bool (!i.v6))
    else if fn == "isIpv6" then .ok (.bool i.v6)
    else if fn == "isLoopback" then .ok (.bool i.isLoopback)
    else if fn == "isMulticast" then .ok (.bool i.isMulticast)
    else .error .unknownFn
  | [.ip x, .ip y] => if fn == "isInRange" then .ok (.bool (y.contains x)) else .error .unknownFn
  | [.datetime t] =>
    -- Go (repaired, C01 `todate-totime-negative-truncation`): `checkedSubI64(ms, millisSinceMidnight(ms))`
    -- with errOverflow / `millisSinceMidnight(ms)`
    if fn == "toDate" then
      let (x, ok) := checkedSub t (millisSinceMidnight t)
      if ok then .ok (.datetime x) else .error .overflow
    else if fn == "toTime" then .ok (.duration (millisSinceMidnight t))
    else .error .unknownFn
  | [.duration d] =>
    if fn == "toMilliseconds" then .ok (.long d)
    else if fn == "toSeconds" then .ok (.long (Int.tdiv d 1000))
    else if fn == "toMinutes" then .ok (.long (Int.tdiv d 60000))
    else if fn == "toHours" then .ok (.long (Int.tdiv d 3600000))
    else if fn == "toDays" then .ok (.long (Int.tdiv d 86400000))
    else .error .unknownFn
  | [.datetime t, .duration d] =>
    if fn == "offset" then
      let (x, ok) := checkedAdd t d
      if ok then .ok (.datetime x) else .error .overflow
    else .error .unknownFn
  | [.datetime t, .datetime u] =>
    if fn == "durationSince" then
      let (x, ok) := checkedSub t u
      if ok then .ok (.duration x) else .error .overflow
    else .error .unknownFn
  | _ => .error .unknownFn

mutual
/-- `Evaler.Eval` for the evaluator built by `ToEval` from an AST node -/
def eval : Expr → Env → Res
  | .lit v, _ => .ok v
  | .var .principal, env => .ok env.principal
  | .var .action, env => .ok env.action
  | .var .resource, env => .ok env.resource
  | .var .context, env => .ok env.context
  | .unop .not e, env => do let b ← (eval e env).bind toBool; .ok (.bool (!b))
  | .unop .neg e, env => do
      let n ← (eval e env).bind toLong
      let (r, ok) := checkedNeg n
      if ok then .ok (.long r) else .error .overflow
  | .unop .isEmpty e, env => do let s ← (eval e env).bind toSet; .ok (.bool s.isEmpty)
  | .binop .and l r, env => do
      let v ← eval l env
      let b ← toBool v
      if !b then .ok v else
      let v ← eval r env
      let _ ← toBool v
      .ok v
  | .binop .or l r, env => do
      let v ← eval l env
      let b ← toBool v
      if b then .ok v else
      let v ← eval r env
      let _ ← toBool v
      .ok v
  | .binop .eq l r, env => do let a ← eval l env; let b ← eval r env; .ok (.bool (a.beq b))
  | .binop .ne l r, env => do let a ← eval l env; let b ← eval r env; .ok (.bool (!a.beq b))
  | .binop .lt l r, env => do
      let a ← (eval l env).bind toComparable
      let b ← (eval r env).bind toComparable
      match cmpLT a b with | some x => .ok (.bool x) | none => .error .type
  | .binop .le l r, env => do
      let a ← (eval l env).bind toComparable
      let b ← (eval r env).bind toComparable
      match cmpLE a b with | some x => .ok (.bool x) | none => .error .type
  | .binop .gt l r, env => do
      let a ← (eval l env).bind toComparable
      let b ← (eval r env).bind toComparable
      match cmpLE a b with | some x => .ok (.bool (!x)) | none => .error .type
  | .binop .ge l r, env => do
      let a ← (eval l env).bind toComparable
      let b ← (eval r env).bind toComparable
      match cmpLT a b with | some x => .ok (.bool (!x)) | none => .error .type
  | .binop .add l r, env => do
      let a ← (eval l env).bind toLong
      let b ← (eval r env).bind toLong
      let (x, ok) := checkedAdd a b
      if ok then .ok (.long x) else .error .overflow
  | .binop .sub l r, env => do
      let a ← (eval l env).bind toLong
      let b ← (eval r env).bind toLong
      let (x, ok) := checkedSub a b
      if ok then .ok (.long x) else .error .overflow
  | .binop .mul l r, env => do
      let a ← (eval l env).bind toLong
      let b ← (eval r env).bind toLong
      let (x, ok) := checkedMul a b
      if ok then .ok (.long x) else .error .overflow
  | .binop .in_ l r, env => do
      let a ← (eval l env).bind toEntity
      let b ← eval r env
      doIn env a b
  | .binop .contains l r, env => do
      let s ← (eval l env).bind toSet
      let b ← eval r env
      .ok (.bool (b.memL s))
  | .binop .containsAll l r, env => do
      let s ← (eval l env).bind toSet
      let t ← (eval r env).bind toSet
      .ok (.bool (t.all (fun x => x.memL s)))
  | .binop .containsAny l r, env => do
      let s ← (eval l env).bind toSet
      let t ← (eval r env).bind toSet
      .ok (.bool (t.any (fun x => x.memL s)))
  | .binop .getTag l r, env => do
      let u ← (eval l env).bind toEntity
      if u == ("", "") then .error .unspecified else
      let t ← (eval r env).bind toStr
      match env.entities.get u with
      | none => .error .entity
      | some d => match kvGet t d.tags with | some v => .ok v | none => .error .tag
  | .binop .hasTag l r, env => do
      let u ← (eval l env).bind toEntity
      let t ← (eval r env).bind toStr
      match env.entities.get u with
      | none => .ok (.bool false)
      | some d => .ok (.bool (kvGet t d.tags).isSome)
  | .ite c t e, env => do
      let b ← (eval c env).bind toBool
      if b then eval t env else eval e env
  | .access e a, env => do
      let v ← eval e env
      match v with
      | .entity ty id =>
        if (ty, id) == ("", "") then .error .unspecified else
        match env.entities.get (ty, id) with
        | none => .error .entity
        | some d => match kvGet a d.attrs with | some x => .ok x | none => .error .attr
      | .record kvs => match kvGet a kvs with | some x => .ok x | none => .error .attr
      | _ => .error .type
  | .has e a, env => do
      let v ← eval e env
      match v with
      | .entity ty id =>
        match env.entities.get (ty, id) with
        | none => .ok (.bool false)
        | some d => .ok (.bool (kvGet a d.attrs).isSome)
      | .record kvs => .ok (.bool (kvGet a kvs).isSome)
      | _ => .error .type
  | .like e p, env => do let s ← (eval e env).bind toStr; .ok (.bool (Pattern.matches p s))
  | .is e ty, env => do let u ← (eval e env).bind toEntity; .ok (.bool (u.1 == ty))
  | .isIn e ty r, env => do
      let u ← (eval e env).bind toEntity
      if u.1 != ty then .ok (.bool false) else
      let b ← eval r env
      doIn env u b
  | .set es, env => do let vs ← evalList es env; .ok (mkSet vs)
  -- `ToEval` stores the entries in a Go map (a later duplicate key overwrites the earlier one);
  -- `recordLiteralEval.Eval` visits the keys of that map in ascending order, the first error wins.
  -- Evaluation is pure and total, so "every entry's own result, then the first error in key order" is
  -- the same function (`eval_record` in CedarGoProofs/Lemmas/RecordLit.lean: `evalKVs (canonKVs kes) env`).
  | .record kes, env => do let kvs ← seqKVs (canonKVs (evalEach kes env)); .ok (mkRecord kvs)
  | .call fn args, env =>
    -- `newExtensionEval`: arity and dispatch are decided when the evaluator is built; every
    -- extension evaluator evaluates and converts its arguments left to right, then applies
    if fn == partialErrorName && args.length == 1 then
      (do let _ ← evalTyped args [.str] env; .error .partialErr)
    else
    match extLookup fn with
    | none => .error .unknownFn
    | some (arity, _) =>
      if arity != args.length then .error .arity else
      do let vs ← evalTyped args (extSig fn) env; callExt fn vs
/-- evaluate argument `i`, convert it to the kind the extension function expects, then go on -/
def evalTyped : List Expr → List Kind → Env → Except Err (List Value)
  | [], _, _ => .ok []
  | e :: es, ks, env => do
    let v ← eval e env
    let _ ← checkKind (ks.headD .any) v
    let vs ← evalTyped es ks.tail env
    .ok (v :: vs)
/-- set literal elements: left to right, first error wins -/
def evalList : List Expr → Env → Except Err (List Value)
  | [], _ => .ok []
  | e :: es, env => do let v ← eval e env; let vs ← evalList es env; .ok (v :: vs)
/-- every entry of a record literal with its own result, in source order -/
def evalEach : List (String × Expr) → Env → List (String × Res)
  | [], _ => []
  | (k, e) :: kes, env => (k, eval e env) :: evalEach kes env
end

/-- entries evaluated in the given order, first error wins.  A record literal evaluates
    `evalKVs (canonKVs kes)`: the distinct keys in ascending order (since the repair of
    `recordLiteralEval.Eval`, which used to range over the Go map: C14). -/
def evalKVs : List (String × Expr) → Env → Except Err (List (String × Value))
  | [], _ => .ok []
  | (k, e) :: kes, env => do let v ← eval e env; let vs ← evalKVs kes env; .ok ((k, v) :: vs)

/-- `BoolEvaler.Eval` -/
def evalBool (e : Expr) (env : Env) : Except Err Bool := (eval e env).bind toBool

end CedarGo
