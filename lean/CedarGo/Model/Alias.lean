/-
  C11, last clause: "Values are immutable: mutating the inputs of a constructor or the outputs of an
  accessor never changes an existing value."

  A small executable REFERENCE-LEVEL model of the Go objects involved (types/record.go, types/set.go,
  types/entity.go, types/entity_uid.go, internal/mapset/*.go).

  * The heap is a list of containers, an address is an index.  A container is the backing array of a Go
    slice (`[]Value`, `[]EntityUID`, the three value-typed fields `Parents/Attributes/Tags` of a
    `types.Entity` struct variable, and — abstracting the hash slots away — the internal table
    `map[uint64]Value` of a `types.Set` / `map[EntityUID]struct{}` of an `EntityUIDSet`) or a Go map
    `map[String]Value` (`RecordMap`, and the internal map of a `types.Record`).
  * What sits in a variable, a slice element or a map entry is a `VObj`: either a value without storage of
    its own in the heap (`scalar`: Boolean, Long, String, EntityUID, Decimal, … — and, for decoded data, any
    closed `Value`), or a struct holding a REFERENCE to its internal container: `types.Set{s}`,
    `types.Record{m}`, `mapset.ImmutableMapSet{m}`; `none` is the nil map of the zero values
    `Set{}`/`Record{}`/`EntityUIDSet{}` (and of `NewRecord(nil)`, `NewSet()`).
  * A caller holds references of slice and map type (`owned`: slice headers `(addr, len)` and map references)
    and value objects (`live`).  The fields `s`, `m` of the value structs are unexported, so the only
    containers a caller can write to are those it holds a slice/map reference to — Go's type system,
    part of the modelled-not-verified base (no `unsafe`, no `reflect`).
  * `step d s op` is one operation of a history: the caller allocates a container, calls a constructor
    on one of its containers, calls an accessor and keeps what it returns, or mutates one of its
    containers (set/delete a key, overwrite an element, append within capacity, …), nested values included.
    Every constructor and accessor is modelled exactly as the Go code aliases or copies; WHICH it does is the
    discipline `d : Disc`, so that the same model also describes the code after a change that starts to
    alias.  `goDisc` is what the unchanged tree does; `Disc.toFacts goDisc` (`modelDiscipline`) is compared,
    as a theorem, with what factgen's extractor (factgen/c11.go) reads off the source on every run.
  * `abs h v` is the pure `Value` (Model/Value.lean) a value object denotes in heap `h`.

  Theorems: CedarGoProofs/Properties/C11.lean (`C11_immutable_*`), lemmas in Lemmas/C11Alias*.lean.
-/
import CedarGo.Model.Value
namespace CedarGo.Alias
open CedarGo

/-- addresses are indices into the heap -/
abbrev Addr := Nat

/-- the three immutable types that hold a reference -/
inductive Kind where
  | set | record | uidset
deriving DecidableEq, Repr, Inhabited

/-- a Go value as it sits in a variable, a slice element or a map entry -/
inductive VObj where
  | scalar (v : Value)
  | ref (k : Kind) (a : Option Nat)
deriving Repr, Inhabited

/-- the address of the internal container a value object refers to -/
def VObj.addr? : VObj → Option Nat
  | .ref _ (some a) => some a
  | _ => none

inductive Cont where
  | seq (xs : List VObj)
  | map (kvs : List (String × VObj))
deriving Repr, Inhabited

def Cont.elems : Cont → List VObj
  | .seq xs => xs
  | .map kvs => kvs.map (·.2)

abbrev Heap := List Cont

/-- a caller-owned reference: a slice header (backing array, length) or a map reference (`len` unused) -/
structure Ref where
  addr : Nat
  len : Nat
deriving DecidableEq, Repr, Inhabited

structure State where
  heap : Heap
  owned : List Ref
  live : List VObj
deriving Repr, Inhabited

def init : State := ⟨[], [], []⟩

/-- every value object stored anywhere: in a variable the caller keeps or in a container -/
def State.objs (s : State) : List VObj := s.live ++ s.heap.flatMap Cont.elems

/-! ## Abstraction -/

def Kind.empty : Kind → Value
  | .record => .record []
  | _ => .set []

/-- the value denoted by a value object of kind `k` whose container is `c`, given the denotation `f` of the
    objects stored in it -/
def absCont (k : Kind) (c : Option Cont) (f : VObj → Value) : Value :=
  match k, c with
  | .record, some (.map kvs) => mkRecord (kvs.map fun kv => (kv.1, f kv.2))
  | .record, _ => .record []
  | _, some (.seq xs) => mkSet (xs.map f)
  | _, _ => .set []

/-- `abs` with explicit recursion depth (a container refers to older containers only, so the heap size is
    always enough: `absF_fuel` in Lemmas/C11Alias.lean) -/
def absF : Nat → Heap → VObj → Value
  | _, _, .scalar v => v
  | 0, _, .ref k _ => k.empty
  | _ + 1, _, .ref k none => k.empty
  | n + 1, h, .ref k (some a) => absCont k h[a]? (absF n h)

/-- the pure value a value object denotes -/
def abs (h : Heap) (v : VObj) : Value := absF h.length h v

/-! ## Go maps and slices -/

/-- `m[k] = x` -/
def mapSet (k : String) (x : VObj) : List (String × VObj) → List (String × VObj)
  | [] => [(k, x)]
  | (k', y) :: rest => if k' == k then (k, x) :: rest else (k', y) :: mapSet k x rest

/-- `delete(m, k)` -/
def mapDel (k : String) (kvs : List (String × VObj)) : List (String × VObj) := kvs.filter (fun kv => !(kv.1 == k))

def mapGet (k : String) : List (String × VObj) → Option VObj
  | [] => none
  | (k', y) :: rest => if k' == k then some y else mapGet k rest

/-- the map built by assigning the pairs in order -/
def mapOf (kvs : List (String × VObj)) : List (String × VObj) := kvs.foldl (fun m kv => mapSet kv.1 kv.2 m) []

/-- one entry per distinct member, first occurrence kept (`NewSet`'s probing loop, `MapSet.Add`) -/
def dedupO (eq : VObj → VObj → Bool) : List VObj → List VObj
  | [] => []
  | x :: xs => x :: (dedupO eq xs).filter (fun y => !eq x y)

/-- `Value.Equal` on value objects -/
def eqO (h : Heap) (x y : VObj) : Bool := Value.beq (abs h x) (abs h y)

/-! ## The discipline: which constructor / accessor copies and which aliases -/

inductive Mode where
  | copy            -- a fresh container is allocated
  | alias           -- the very container is stored / handed out
  | aliasWhenEmpty  -- copied only under `len(m) > 0` (the shape of seeded defects C11-m2 / C11-m5)
deriving DecidableEq, Repr, Inhabited

def Mode.aliases : Mode → Bool → Bool
  | .copy, _ => false
  | .alias, _ => true
  | .aliasWhenEmpty, empty => empty

structure Disc where
  newRecord : Mode        -- NewRecord: parameter m
  recordMap : Mode        -- Record.Map: result
  newSet : Mode           -- NewSet: parameter v
  setSlice : Mode         -- Set.Slice: result
  newUIDSet : Mode        -- NewEntityUIDSet / mapset.Immutable / FromItems: parameter
  uidSlice : Mode         -- ImmutableMapSet.Slice: result
  unmarshalRecord : Mode  -- (*Record).UnmarshalJSON: copy = the receiver gets fresh storage, alias = decodes into the receiver's map
  unmarshalSet : Mode     -- (*Set).UnmarshalJSON, (*ImmutableMapSet).UnmarshalJSON
deriving DecidableEq, Repr, Inhabited

/-- what the unchanged tree does -/
def goDisc : Disc := ⟨.copy, .copy, .copy, .copy, .copy, .copy, .copy, .copy⟩

/-- no constructor keeps, no accessor hands out, a caller-reachable container -/
def Disc.Safe (d : Disc) : Prop := d = goDisc
instance (d : Disc) : Decidable d.Safe := by unfold Disc.Safe; infer_instance

/-! ## Operations of a history -/

/-- what a caller can store into a container of its own: a scalar, or a value it holds -/
inductive Src where
  | scalar (v : Value)
  | live (i : Nat)
deriving Repr, Inhabited

inductive Op where
  -- the caller allocates containers of its own
  | mkSlice (xs : List Src)                 -- []Value{…}, []EntityUID{…}, Entity{Parents:…, Attributes:…, Tags:…}
  | mkMap (kvs : List (String × Src))       -- RecordMap{…}
  | copyCont (j : Nat)                      -- slices.Clone / maps.Clone / struct copy `e2 := e` / EntityMap.Get by the caller
  -- constructors; `none` = nil map / no arguments, `some j` = the j-th caller reference
  | newRecord (j : Option Nat)
  | newSet (j : Option Nat)
  | newUIDSet (j : Option Nat)
  -- accessors on the i-th live value; what they return is kept
  | recordMap (i : Nat)
  | recordGet (i : Nat) (k : String)
  | recordAll (i : Nat)                     -- All / Keys / Values / Iterate: every yielded value is kept
  | setSlice (i : Nat)                      -- Set.Slice, EntityUIDSet.Slice
  | setAll (i : Nat)                        -- Set.All / Iterate, EntityUIDSet.All / Iterate
  | unmarshalRecord (i : Nat) (kvs : List (String × Value))  -- r2 := r; r2.UnmarshalJSON(data); r2 is kept
  | unmarshalSet (i : Nat) (xs : List Value)
  -- mutation of caller-owned containers
  | setKey (j : Nat) (k : String) (x : Src)
  | delKey (j : Nat) (k : String)
  | clearMap (j : Nat)
  | setElem (j : Nat) (i : Nat) (x : Src)
  | fillSlice (j : Nat) (x : Src)           -- for k := range s { s[k] = x }
  | appendElem (j : Nat) (x : Src)          -- append(s, x): in place when len < cap, else a new array
  | reslice (j : Nat) (n : Nat)             -- s[:n], n ≤ cap
  -- the caller reads a value out of a container of its own and keeps it (`e.Attributes`, `s[i]`, `m[k]`)
  | readElem (j : Nat) (i : Nat)
  | readKey (j : Nat) (k : String)
deriving Repr, Inhabited

def State.src (s : State) : Src → Option VObj
  | .scalar v => some (.scalar v)
  | .live i => s.live[i]?

def State.srcs (s : State) (xs : List Src) : List VObj := xs.filterMap s.src

def State.srcKVs (s : State) (kvs : List (String × Src)) : List (String × VObj) :=
  kvs.filterMap fun kv => (s.src kv.2).map fun x => (kv.1, x)

/-! primitive state changes -/

/-- a constructor allocates an internal container and returns the value object referring to it -/
def State.allocInternal (s : State) (k : Kind) (c : Cont) : State :=
  { heap := s.heap ++ [c], owned := s.owned, live := s.live ++ [.ref k (some s.heap.length)] }

/-- a container the caller gets a reference to (allocated by the caller, or a copy handed out by an accessor) -/
def State.allocOwned (s : State) (c : Cont) : State :=
  { heap := s.heap ++ [c], owned := s.owned ++ [⟨s.heap.length, c.elems.length⟩], live := s.live }

def State.write (s : State) (a : Nat) (c : Cont) : State := { s with heap := s.heap.set a c }

def State.keep (s : State) (xs : List VObj) : State := { s with live := s.live ++ xs }

def State.own (s : State) (r : Ref) : State := { s with owned := s.owned ++ [r] }

/-- the container behind the j-th caller reference -/
def State.ownedCont (s : State) (j : Nat) : Option (Ref × Cont) :=
  match s.owned[j]? with
  | none => none
  | some r => (s.heap[r.addr]?).map fun c => (r, c)

/-- the i-th live value, when it is a value struct with a non-nil container -/
def State.liveCont (s : State) (i : Nat) : Option (Kind × Nat × Cont) :=
  match s.live[i]? with
  | some (.ref k (some a)) => (s.heap[a]?).map fun c => (k, a, c)
  | _ => none

def fill (n : Nat) (x : VObj) (xs : List VObj) : List VObj := List.replicate (min n xs.length) x ++ xs.drop n

/-- a decoder (`UnmarshalJSON`) stores container `c` as the new contents of a variable that held `old` -/
def State.decodeInto (s : State) (m : Mode) (k : Kind) (old : Option Nat) (c : Cont) : State :=
  match m.aliases false, old with
  | true, some a => (s.write a c).keep [.ref k (some a)]     -- decodes into the receiver's existing container
  | _, _ => s.allocInternal k c

def step (d : Disc) (s : State) : Op → State
  | .mkSlice xs => s.allocOwned (.seq (s.srcs xs))
  | .mkMap kvs => s.allocOwned (.map (mapOf (s.srcKVs kvs)))
  | .copyCont j =>
    match s.ownedCont j with
    | some (r, .seq xs) => s.allocOwned (.seq (xs.take r.len))
    | some (_, .map kvs) => s.allocOwned (.map kvs)
    | none => s
  -- NewRecord: `if m != nil { m = maps.Clone(m) }; return Record{m: m, …}`
  | .newRecord none => s.keep [.ref .record none]
  | .newRecord (some j) =>
    match s.ownedCont j with
    | some (r, .map kvs) =>
      if d.newRecord.aliases kvs.isEmpty then s.keep [.ref .record (some r.addr)] else s.allocInternal .record (.map kvs)
    | _ => s
  -- NewSet: `if v != nil { set = make(…) }`, then every element is inserted unless an Equal one is present
  | .newSet none => s.keep [.ref .set none]
  | .newSet (some j) =>
    match s.ownedCont j with
    | some (r, .seq xs) =>
      if d.newSet.aliases (r.len == 0) then s.keep [.ref .set (some r.addr)]
      else s.allocInternal .set (.seq (dedupO (eqO s.heap) (xs.take r.len)))
    | _ => s
  -- NewEntityUIDSet = mapset.Immutable = *FromItems(args...): Make(len(items)) always allocates
  | .newUIDSet none => s.allocInternal .uidset (.seq [])
  | .newUIDSet (some j) =>
    match s.ownedCont j with
    | some (r, .seq xs) =>
      if d.newUIDSet.aliases (r.len == 0) then s.keep [.ref .uidset (some r.addr)]
      else s.allocInternal .uidset (.seq (dedupO (eqO s.heap) (xs.take r.len)))
    | _ => s
  -- Record.Map: `if r.m == nil { return nil }; return maps.Clone(r.m)`
  | .recordMap i =>
    match s.liveCont i with
    | some (.record, a, .map kvs) =>
      if d.recordMap.aliases kvs.isEmpty then s.own ⟨a, kvs.length⟩ else s.allocOwned (.map kvs)
    | _ => s
  | .recordGet i k =>
    match s.liveCont i with
    | some (.record, _, .map kvs) => match mapGet k kvs with | some x => s.keep [x] | none => s
    | _ => s
  | .recordAll i =>
    match s.liveCont i with
    | some (.record, _, .map kvs) => s.keep (kvs.map (·.2))
    | _ => s
  -- Set.Slice / MapSet.Slice: `if s.s == nil { return nil }; return slices.Collect(maps.Values(s.s))`;
  -- `slices.Collect` of no elements is nil as well: an empty set hands out nothing the caller could write to
  | .setSlice i =>
    match s.liveCont i with
    | some (.set, a, .seq xs) =>
      if xs.isEmpty then s else if d.setSlice.aliases false then s.own ⟨a, xs.length⟩ else s.allocOwned (.seq xs)
    | some (.uidset, a, .seq xs) =>
      if xs.isEmpty then s else if d.uidSlice.aliases false then s.own ⟨a, xs.length⟩ else s.allocOwned (.seq xs)
    | _ => s
  | .setAll i =>
    match s.liveCont i with
    | some (.set, _, .seq xs) => s.keep xs
    | some (.uidset, _, .seq xs) => s.keep xs
    | _ => s
  -- (*Record).UnmarshalJSON: `if len(res) == 0 { *r = Record{} } else { m := make(…); …; *r = NewRecord(m) }`
  | .unmarshalRecord i kvs =>
    match s.live[i]? with
    | some (.ref .record old) =>
      if kvs.isEmpty then s.keep [.ref .record none]
      else s.decodeInto d.unmarshalRecord .record old (.map (mapOf (kvs.map fun kv => (kv.1, .scalar kv.2))))
    | _ => s
  -- (*Set).UnmarshalJSON: `vals := make([]Value, len(res)); …; *s = NewSet(vals...)`;
  -- (*ImmutableMapSet).UnmarshalJSON: `var s MapSet[T]; json.Unmarshal(b, &s)` = `*FromItems(items...)`
  | .unmarshalSet i xs =>
    match s.live[i]? with
    | some (.ref .set old) => s.decodeInto d.unmarshalSet .set old (.seq (dedupO (eqO s.heap) (xs.map .scalar)))
    | some (.ref .uidset old) => s.decodeInto d.unmarshalSet .uidset old (.seq (dedupO (eqO s.heap) (xs.map .scalar)))
    | _ => s
  -- mutations: only through a reference the caller holds
  | .setKey j k x =>
    match s.ownedCont j, s.src x with
    | some (r, .map kvs), some v => s.write r.addr (.map (mapSet k v kvs))
    | _, _ => s
  | .delKey j k =>
    match s.ownedCont j with
    | some (r, .map kvs) => s.write r.addr (.map (mapDel k kvs))
    | _ => s
  | .clearMap j =>
    match s.ownedCont j with
    | some (r, .map _) => s.write r.addr (.map [])
    | _ => s
  | .setElem j i x =>
    match s.ownedCont j, s.src x with
    | some (r, .seq xs), some v => if i < r.len then s.write r.addr (.seq (xs.set i v)) else s
    | _, _ => s
  | .fillSlice j x =>
    match s.ownedCont j, s.src x with
    | some (r, .seq xs), some v => s.write r.addr (.seq (fill r.len v xs))
    | _, _ => s
  | .appendElem j x =>
    match s.ownedCont j, s.src x with
    | some (r, .seq xs), some v =>
      if r.len < xs.length then (s.write r.addr (.seq (xs.set r.len v))).own ⟨r.addr, r.len + 1⟩
      else s.allocOwned (.seq (xs.take r.len ++ [v]))
    | _, _ => s
  | .reslice j n =>
    match s.ownedCont j with
    | some (r, .seq xs) => if n ≤ xs.length then s.own ⟨r.addr, n⟩ else s
    | _ => s
  | .readElem j i =>
    match s.ownedCont j with
    | some (r, .seq xs) => if i < r.len then (match xs[i]? with | some x => s.keep [x] | none => s) else s
    | _ => s
  | .readKey j k =>
    match s.ownedCont j with
    | some (_, .map kvs) => match mapGet k kvs with | some x => s.keep [x] | none => s
    | _ => s

/-- a history -/
def run (d : Disc) (ops : List Op) (s : State) : State := ops.foldl (step d) s

/-! ## The separation invariant -/

structure Inv (s : State) : Prop where
  /-- every reference points into the heap -/
  refs_lt : ∀ x ∈ s.objs, ∀ a, x.addr? = some a → a < s.heap.length
  owned_lt : ∀ r ∈ s.owned, r.addr < s.heap.length
  /-- SEPARATION: no internal container of a value object is a container the caller holds a reference to -/
  sep : ∀ r ∈ s.owned, ∀ x ∈ s.objs, x.addr? ≠ some r.addr
  /-- internal containers refer to older containers only (constructors build values bottom-up) -/
  strat : ∀ x ∈ s.objs, ∀ a, x.addr? = some a → ∀ c, s.heap[a]? = some c → ∀ y ∈ c.elems, ∀ b, y.addr? = some b → b < a

/-! ## The discipline as facts

  `Disc.toFacts d` spells the discipline in the vocabulary of factgen's extractor (factgen/c11.go): one
  entry per constructor / accessor / iterator / decoder the model has an operation for, in the extractor's
  key order.  `C11_facts_alias_discipline : Facts.aliasFacts = modelDiscipline` is then the statement that
  the source, as read on this run, follows the discipline the immutability theorems are proved for. -/

def Mode.paramFact : Mode → String
  | .copy => "cloned-unless-nil"
  | .alias => "aliased"
  | .aliasWhenEmpty => "cloned-if(len(m)>0)"

/-- a variadic / slice parameter whose elements are inserted one by one into a fresh table -/
def Mode.readFact : Mode → String
  | .copy => "elements-read"
  | _ => "aliased"

/-- the reference held by the struct a constructor returns -/
def Mode.heldFact (fresh param : String) : Mode → String
  | .copy => fresh
  | _ => param

def Mode.resultFact : Mode → String
  | .copy => "clone|nil"
  | _ => "field-alias|nil"

def Mode.recvFact (fresh : String) : Mode → String
  | .copy => fresh
  | _ => "writes-field"

def Disc.toFacts (d : Disc) : List (String × String) := [
  ("mapset.(*ImmutableMapSet).UnmarshalJSON.recv", d.unmarshalSet.recvFact "replaced(decoded)"),
  ("mapset.(*MapSet).UnmarshalJSON.recv", d.unmarshalSet.recvFact "replaced(struct{m=fresh})"),
  ("mapset.FromItems.param.items", d.newUIDSet.readFact),
  ("mapset.FromItems.result", d.newUIDSet.heldFact "struct{m=fresh}" "struct{m=param(items)}"),
  ("mapset.Immutable.param.args", d.newUIDSet.readFact),
  ("mapset.Immutable.result", d.newUIDSet.heldFact "struct{m=fresh}" "struct{m=param(items)}"),
  ("mapset.ImmutableMapSet.All.result", "iterator-readonly"),
  ("mapset.ImmutableMapSet.Slice.result", d.uidSlice.resultFact),
  ("mapset.MapSet.All.result", "iterator-readonly"),
  ("mapset.MapSet.Slice.result", d.uidSlice.resultFact),
  ("types.(*Record).UnmarshalJSON.recv", d.unmarshalRecord.recvFact "replaced(struct{m=param(m)})|replaced(struct{})"),
  ("types.(*Set).UnmarshalJSON.recv", d.unmarshalSet.recvFact "replaced(struct{s=fresh/zero})"),
  -- the fields of an Entity are value structs, not raw maps / slices: copying the struct copies the values
  ("types.Entity.type", "defined struct{UID:EntityUID,Parents:EntityUIDSet,Attributes:Record,Tags:Record}"),
  ("types.EntityUIDSet.type", "alias mapset.ImmutableMapSet[EntityUID]"),
  ("types.NewEntityUIDSet.param.args", d.newUIDSet.readFact),
  ("types.NewEntityUIDSet.result", d.newUIDSet.heldFact "struct{m=fresh}" "struct{m=param(items)}"),
  ("types.NewRecord.param.m", d.newRecord.paramFact),
  ("types.NewRecord.result", "struct{m=param(m)}"),
  ("types.NewSet.param.v", d.newSet.readFact),
  ("types.NewSet.result", d.newSet.heldFact "struct{s=fresh/zero}" "struct{s=param(v)}"),
  ("types.Record.All.result", "iterator-readonly"),
  ("types.Record.Get.result", "element"),
  ("types.Record.Keys.result", "iterator-readonly"),
  ("types.Record.Map.result", d.recordMap.resultFact),
  ("types.Record.Values.result", "iterator-readonly"),
  -- the references are held in unexported fields: a caller cannot reach the containers
  ("types.Record.type", "defined struct{m:RecordMap,hashVal:uint64}"),
  ("types.Set.All.result", "iterator-readonly"),
  ("types.Set.Slice.result", d.setSlice.resultFact),
  ("types.Set.type", "defined struct{s:map[uint64]Value,hashVal:uint64}")
]

/-- the discipline of the unchanged tree, as facts -/
def modelDiscipline : List (String × String) := goDisc.toFacts

/-- every function of the analysed types that is not read-only through its receiver: the decoders REPLACE the
    contents of the variable they are called on (with fresh storage: the classes in parentheses), and `Add` /
    `Remove` belong to the mutable builder type `mapset.MapSet`, which `ImmutableMapSet` (a distinct defined
    type) does not inherit.  No method of `Record`, `Set`, `ImmutableMapSet` writes through its receiver's map. -/
def modelWriters : List (String × String) := [
  ("mapset.(*ImmutableMapSet).UnmarshalJSON.recv", "replaced(decoded)"),
  ("mapset.(*MapSet).Add.recv", "sets-field(m=fresh)|writes-field(m)"),
  ("mapset.(*MapSet).Remove.recv", "writes-field(m)"),
  ("mapset.(*MapSet).UnmarshalJSON.recv", "replaced(struct{m=fresh})"),
  ("types.(*EntityMap).UnmarshalJSON.recv", "replaced(fresh)"),
  ("types.(*Record).UnmarshalJSON.recv", "replaced(struct{m=param(m)})|replaced(struct{})"),
  ("types.(*Set).UnmarshalJSON.recv", "replaced(struct{s=fresh/zero})")
]

end CedarGo.Alias
