/-
  `types.Pattern.Match` (types/pattern.go): greedy leftmost chunk matcher over bytes.
-/
import CedarGo.Model.Expr
namespace CedarGo

/-- `matchChunk(chunk, s)`: `some rest` when `chunk` is a prefix of `s` -/
def matchChunk : List UInt8 → List UInt8 → Option (List UInt8)
  | [], s => some s
  | _ :: _, [] => none
  | c :: cs, x :: xs => if c == x then matchChunk cs xs else none

/-- the inner `for i := 0; i < len(arg); i++` loop: try suffixes `arg[1:]`, `arg[2:]`, … -/
def scanFrom (lit : List UInt8) (last : Bool) : List UInt8 → Option (List UInt8)
  | [] => none
  | _ :: rest =>
    match matchChunk lit rest with
    | some t => if last && !t.isEmpty then scanFrom lit last rest else some t
    | none => scanFrom lit last rest

def matchComps : Pattern → List UInt8 → Bool
  | [], arg => arg.isEmpty
  | c :: rest, arg =>
    let last := rest.isEmpty
    if c.wildcard && c.literal.isEmpty then true else
    let direct : Option (List UInt8) :=
      match matchChunk c.literal arg with
      | some t => if t.isEmpty || !last then some t else none
      | none => none
    match direct with
    | some t => matchComps rest t
    | none =>
      if c.wildcard then
        match scanFrom c.literal last arg with
        | some t => matchComps rest t
        | none => false
      else false

def Pattern.matches (p : Pattern) (s : String) : Bool := matchComps p s.toUTF8.toList

end CedarGo
