/-
  String escapes of the Cedar text codec (C07/C08): transcription of `internal/rust/rust.go`
  (`EscapeString`, `EscapeCharAll`, `escapeRune`, `Unquote`, `parseHexEscape`, `parseUnicodeEscape`),
  of the pattern escape in `types/pattern.go` (`Pattern.MarshalCedar`) and of `parser/pattern.go`
  (`ParsePattern`) + `types.NewPattern`.

  Strings are `List Char` (valid UTF-8 only; Go's behaviour on invalid UTF-8 is outside the model).
  `nextRune` reports an error only for an encoding error or the end of the input (`utf8.RuneError` with
  width ≤ 1); a validly encoded U+FFFD is an ordinary character (repaired defect `replacement-char-rejected`).
-/
import CedarGo.Model.Text.UnicodeTables
import CedarGo.Model.Expr
namespace CedarGo.Text

/-! ## character classes -/

/-- binary search in a sorted table of inclusive ranges -/
def inRangesAux (tbl : Array (Nat × Nat)) (x : Nat) : Nat → Nat → Nat → Bool
  | 0, _, _ => false
  | fuel + 1, lo, hi =>
    if lo ≥ hi then false else
    let mid := (lo + hi) / 2
    let r := tbl[mid]!
    if x < r.1 then inRangesAux tbl x fuel lo mid
    else if x > r.2 then inRangesAux tbl x fuel (mid + 1) hi
    else true

def inRanges (tbl : Array (Nat × Nat)) (x : Nat) : Bool := inRangesAux tbl x 40 0 tbl.size

/-- `rust.isPrintable` (Rust's `is_printable` tables, generated) -/
def isPrintable (c : Char) : Bool := inRanges printableRanges c.toNat

/-- `rust.isGraphemeExtended` -/
def isGraphemeExtended (c : Char) : Bool := inRanges graphemeExtendRanges c.toNat

def replacementChar : Char := Char.ofNat 0xFFFD

/-- `rust.IsDecimal` -/
def isDecimal (c : Char) : Bool := 48 ≤ c.toNat && c.toNat ≤ 57

/-- `lower(ch) = ('a'-'A') | ch` -/
def lowerNat (c : Char) : Nat := c.toNat ||| 32

/-- `rust.IsHexadecimal` -/
def isHexadecimal (c : Char) : Bool := isDecimal c || (97 ≤ lowerNat c && lowerNat c ≤ 102)

/-- `rust.digitVal` (only used on hexadecimal characters) -/
def digitVal (c : Char) : Nat :=
  if isDecimal c then c.toNat - 48
  else if 97 ≤ lowerNat c && lowerNat c ≤ 102 then lowerNat c - 97 + 10
  else 16

/-- `utf8.ValidRune` -/
def validRune (n : Nat) : Bool := n < 0xD800 || (0xE000 ≤ n && n ≤ 0x10FFFF)

/-! ## `fmt.Sprintf("%x", r)` -/

def hexChar (d : Nat) : Char := if d < 10 then Char.ofNat (48 + d) else Char.ofNat (87 + d)

/-- lower-case hexadecimal digits of `n`, most significant first, no leading zeros (`"0"` for 0) -/
def hexDigitsAux : Nat → Nat → List Char → List Char
  | 0, _, acc => acc
  | fuel + 1, n, acc => if n < 16 then hexChar n :: acc else hexDigitsAux fuel (n / 16) (hexChar (n % 16) :: acc)

def hexDigits (n : Nat) : List Char := hexDigitsAux 64 n []

/-! ## `escapeRune`, `EscapeString`, `EscapeCharAll` -/

def uEscape (c : Char) : List Char := ['\\', 'u', '{'] ++ hexDigits c.toNat ++ ['}']

/-- `escapeRune(r, escapeGraphemeExtend)` -/
def escapeRune (c : Char) (egx : Bool) : List Char :=
  if c.toNat == 0 then ['\\', '0']
  else if c == '\t' then ['\\', 't']
  else if c == '\r' then ['\\', 'r']
  else if c == '\n' then ['\\', 'n']
  else if c == '\\' then ['\\', '\\']
  else if c == '"' then ['\\', '"']
  else if c == '\'' then ['\\', '\'']
  else if egx && isGraphemeExtended c then uEscape c
  else if isPrintable c then [c]
  else uEscape c

def escapeRest : List Char → List Char
  | [] => []
  | c :: cs => escapeRune c false ++ escapeRest cs

/-- `rust.EscapeString`: the first character escapes grapheme-extend characters, the others do not -/
def escapeString : List Char → List Char
  | [] => []
  | c :: cs => escapeRune c true ++ escapeRest cs

/-- `rust.EscapeCharAll` -/
def escapeCharAll : List Char → List Char
  | [] => []
  | c :: cs => escapeRune c true ++ escapeCharAll cs

/-- `strings.ReplaceAll(s, "*", "\\*")` -/
def escapeStars : List Char → List Char
  | [] => []
  | c :: cs => if c == '*' then '\\' :: '*' :: escapeStars cs else c :: escapeStars cs

/-! ## `Unquote` as a one-character-at-a-time state machine (structural recursion)

  states = the places in `Unquote` / `parseHexEscape` / `parseUnicodeEscape` where the next rune is read -/

inductive UErr where
  | badRune | badHex | badUnicode | badEscape
deriving DecidableEq, Repr, Inhabited

inductive USt where
  | normal                     -- top of the loop in `Unquote`
  | esc                        -- after a backslash
  | hex1                       -- `parseHexEscape`: first digit
  | hex2 (d : Nat)             -- second digit
  | uOpen                      -- `parseUnicodeEscape`: expects `{`
  | uDigits (res n : Nat)      -- inside the braces: value so far, number of digits
deriving Repr, Inhabited

/-- `Unquote(b, star)`: returns (unquoted prefix, unconsumed rest).  `acc` is the reversed output so far. -/
def unquoteAux (star : Bool) : USt → List Char → List Char → Except UErr (List Char × List Char)
  | .normal, acc, [] => .ok (acc.reverse, [])
  | _, _, [] => .error .badRune           -- `nextRune` at the end of the input
  | st, acc, c :: cs =>
    match st with
    | .normal =>
      if star && c == '*' then .ok (acc.reverse, c :: cs)
      else if c == '\\' then unquoteAux star .esc acc cs
      else unquoteAux star .normal (c :: acc) cs
    | .esc =>
      if c == 'n' then unquoteAux star .normal ('\n' :: acc) cs
      else if c == 'r' then unquoteAux star .normal ('\r' :: acc) cs
      else if c == 't' then unquoteAux star .normal ('\t' :: acc) cs
      else if c == '\\' then unquoteAux star .normal ('\\' :: acc) cs
      else if c == '0' then unquoteAux star .normal (Char.ofNat 0 :: acc) cs
      else if c == '\'' then unquoteAux star .normal ('\'' :: acc) cs
      else if c == '"' then unquoteAux star .normal ('"' :: acc) cs
      else if c == 'x' then unquoteAux star .hex1 acc cs
      else if c == 'u' then unquoteAux star .uOpen acc cs
      else if c == '*' then (if star then unquoteAux star .normal ('*' :: acc) cs else .error .badEscape)
      else .error .badEscape
    | .hex1 => if !isHexadecimal c then .error .badHex else unquoteAux star (.hex2 (digitVal c)) acc cs
    | .hex2 d =>
      if !isHexadecimal c then .error .badHex
      else if 16 * d + digitVal c > 127 then .error .badHex
      else unquoteAux star .normal (Char.ofNat (16 * d + digitVal c) :: acc) cs
    | .uOpen => if c == '{' then unquoteAux star (.uDigits 0 0) acc cs else .error .badUnicode
    | .uDigits res n =>
      if c == '}' then
        (if n == 0 || n > 6 || !validRune res then .error .badUnicode
         else unquoteAux star .normal (Char.ofNat res :: acc) cs)
      else if !isHexadecimal c then .error .badUnicode
      else unquoteAux star (.uDigits (16 * res + digitVal c) (n + 1)) acc cs

/-- `rust.Unquote(b, star)` -/
def unquote (star : Bool) (s : List Char) : Except UErr (List Char × List Char) := unquoteAux star .normal [] s

/-- `strings.TrimPrefix(s, "\"")` then `strings.TrimSuffix(s, "\"")` -/
def trimQuotes (s : List Char) : List Char :=
  let s1 := match s with | '"' :: r => r | _ => s
  match s1.reverse with | '"' :: r => r.reverse | _ => s1

/-- `Token.stringValue` -/
def stringValue (text : String) : Except UErr String :=
  match unquote false (trimQuotes text.toList) with
  | .ok (s, _) => .ok (String.ofList s)
  | .error e => .error e

/-! ## patterns: `ParsePattern`, `types.NewPattern`, `Pattern.MarshalCedar` -/

/-- argument of `types.NewPattern` -/
inductive PArg where
  | wild
  | lit (s : List Char)
deriving Repr, Inhabited

def dropStars : List Char → List PArg → List PArg × List Char
  | '*' :: cs, acc => dropStars cs (.wild :: acc)
  | cs, acc => (acc, cs)

/-- the loop of `ParsePattern`: fuel = an upper bound on the number of iterations (each consumes ≥ 1 char) -/
def parsePatternAux : Nat → List Char → List PArg → Except UErr (List PArg)
  | 0, _, acc => .ok acc.reverse
  | _, [], acc => .ok acc.reverse
  | fuel + 1, b, acc =>
    let (acc1, b1) := dropStars b acc
    match unquote true b1 with
    | .error e => .error e
    | .ok (l, b2) => parsePatternAux fuel b2 (.lit l :: acc1)

def utf8 (s : List Char) : List UInt8 := (String.ofList s).toUTF8.toList

/-- `types.NewPattern(components...)`.  A wildcard after a component with an empty literal sets that component's
    wildcard flag instead of starting a new component (since `fix: NewPattern keeps a wildcard which follows a leading
    empty literal`; before, it was dropped, which is right after a wildcard component and wrong after a leading empty
    literal — `ParsePattern` never passes such a list, so the parser's results are unchanged). -/
def newPattern : List PArg → Pattern → Pattern
  | [], acc => acc
  | .lit s :: rest, acc =>
    (match acc.reverse with
     | [] => newPattern rest [⟨false, utf8 s⟩]
     | last :: revInit => newPattern rest ((⟨last.wildcard, last.literal ++ utf8 s⟩ :: revInit).reverse))
  | .wild :: rest, acc =>
    (match acc.reverse with
     | [] => newPattern rest [⟨true, []⟩]
     | last :: revInit =>
       if last.literal.isEmpty then newPattern rest ((⟨true, last.literal⟩ :: revInit).reverse)
       else newPattern rest (acc ++ [⟨true, []⟩]))

/-- `parser.ParsePattern(v)` -/
def parsePattern (raw : List Char) : Except UErr Pattern :=
  match parsePatternAux (raw.length + 1) raw [] with
  | .error e => .error e
  | .ok [] => .ok (newPattern [.lit []] [])
  | .ok comps => .ok (newPattern comps [])

/-- bytes → characters (valid UTF-8 only; `none` otherwise) -/
def ofUtf8 (bs : List UInt8) : Option (List Char) :=
  match String.fromUTF8? (ByteArray.mk bs.toArray) with
  | some s => some s.toList
  | none => none

/-- `Pattern.MarshalCedar` without the surrounding quotes; `none` = literal is not valid UTF-8 (unmodelled) -/
def escapePattern : Pattern → Option (List Char)
  | [] => some []
  | c :: rest =>
    match ofUtf8 c.literal, escapePattern rest with
    | some l, some r => some ((if c.wildcard then ['*'] else []) ++ escapeStars (escapeCharAll l) ++ r)
    | _, _ => none

end CedarGo.Text
