/-
  C18 — the PURE lexer (specification side) and the token-level control flow of
  internal/parser/cedar_tokenize.go.

  Layout of this file
  1. UTF-8 decoding exactly as Go's `utf8.DecodeRune` / `utf8.FullRune` (total on arbitrary bytes).
  2. `Src σ`: the five primitive operations the token-level code of the Go scanner performs on its
     state (`next`, `error`, "stop collecting text", "start collecting text + set position",
     "end of token text + tokenText()").  `scanIdentifier … nextToken`, `tokenizeLoop` are transcribed
     ONCE over `Src`; the buffered scanner (Scanner.lean) and the pure lexer below instantiate them.
  3. `posOf` (the position specification) and the pure source `PState` (whole document + offset),
     `tokensWithPos`.
-/
import CedarGo.Model.Text.Token
namespace CedarGo.Text.Lx

abbrev Rune := Int

def runeError : Rune := 0xFFFD
def runeEOF : Rune := -1   -- specialRuneEOF
def runeBOF : Rune := -2   -- specialRuneBOF
def runeSelf : Nat := 0x80
def utfMax : Nat := 4

/-! ## 1. UTF-8 (unicode/utf8: `first`, `acceptRanges`, `DecodeRune`, `FullRune`) -/

/-- `first[b] & 7`: 0 for ASCII (`as`), 1 for invalid lead bytes (`xx`), else the sequence length -/
def seqLen (b : Nat) : Nat :=
  if b < 0x80 then 0 else if b < 0xC2 then 1 else if b < 0xE0 then 2
  else if b < 0xF0 then 3 else if b < 0xF5 then 4 else 1

/-- `acceptRanges[first[b] >> 4].lo` -/
def acceptLo (b : Nat) : Nat := if b = 0xE0 then 0xA0 else if b = 0xF0 then 0x90 else 0x80
/-- `acceptRanges[first[b] >> 4].hi` -/
def acceptHi (b : Nat) : Nat := if b = 0xED then 0x9F else if b = 0xF4 then 0x8F else 0xBF

/-- second byte acceptable for lead byte `b0` -/
def ok1 (b0 b1 : Nat) : Bool := acceptLo b0 ≤ b1 && b1 ≤ acceptHi b0
/-- continuation byte (`locb ≤ b ≤ hicb`) -/
def okc (b : Nat) : Bool := 0x80 ≤ b && b ≤ 0xBF

/-- two-, three- and four-byte cases of `DecodeRune` (`b0` is the lead byte, `rest` what follows it) -/
def dec2 (b0 : Nat) : List UInt8 → Rune × Nat
  | p1 :: _ => if ok1 b0 p1.toNat then (Int.ofNat ((b0 % 32) * 64 + p1.toNat % 64), 2) else (runeError, 1)
  | _ => (runeError, 1)
def dec3 (b0 : Nat) : List UInt8 → Rune × Nat
  | p1 :: p2 :: _ =>
    if ok1 b0 p1.toNat && okc p2.toNat then
      (Int.ofNat ((b0 % 16) * 4096 + (p1.toNat % 64) * 64 + p2.toNat % 64), 3) else (runeError, 1)
  | _ => (runeError, 1)
def dec4 (b0 : Nat) : List UInt8 → Rune × Nat
  | p1 :: p2 :: p3 :: _ =>
    if ok1 b0 p1.toNat && okc p2.toNat && okc p3.toNat then
      (Int.ofNat ((b0 % 8) * 262144 + (p1.toNat % 64) * 4096 + (p2.toNat % 64) * 64 + p3.toNat % 64), 4)
    else (runeError, 1)
  | _ => (runeError, 1)

/-- `utf8.DecodeRune`: (rune, width); invalid or short encodings give (RuneError, 1); empty gives (RuneError, 0) -/
def decodeRune : List UInt8 → Rune × Nat
  | [] => (runeError, 0)
  | p0 :: rest =>
    let b0 := p0.toNat
    if b0 < 0x80 then (Int.ofNat b0, 1)
    else if seqLen b0 = 2 then dec2 b0 rest
    else if seqLen b0 = 3 then dec3 b0 rest
    else if seqLen b0 = 4 then dec4 b0 rest
    else (runeError, 1)

/-- `utf8.FullRune`: does `p` begin with a full encoding (invalid encodings count as full: they decode to width-1 errors) -/
def fullRune : List UInt8 → Bool
  | [] => false
  | p0 :: rest =>
    let b0 := p0.toNat
    if rest.length + 1 ≥ seqLen b0 then true
    else match rest with
      | [] => false
      | p1 :: r1 =>
        if !ok1 b0 p1.toNat then true
        else match r1 with
          | [] => false
          | p2 :: _ => !okc p2.toNat

/-- all runes of a byte string with their widths (used by the position specification) -/
def decodeAll (bs : List UInt8) : List (Rune × Nat) :=
  go (bs.length) bs
where
  go : Nat → List UInt8 → List (Rune × Nat)
    | 0, _ => []
    | _, [] => []
    | fuel + 1, b :: bs =>
      let rw := decodeRune (b :: bs)
      rw :: go fuel ((b :: bs).drop rw.2)

/-! character classes (`isIdentRune`, `rust.IsDecimal`, `rust.IsHexadecimal`, `isWhitespace`) -/

def isASCIILetter (ch : Rune) : Bool := (65 ≤ ch && ch ≤ 90) || (97 ≤ ch && ch ≤ 122)
def isDecimal (ch : Rune) : Bool := 48 ≤ ch && ch ≤ 57
def isIdentRune (ch : Rune) (first : Bool) : Bool := ch == 95 || isASCIILetter ch || (isDecimal ch && !first)
/-- `IsDecimal(ch) || 'a' <= (0x20|ch) <= 'f'` -/
def isHexadecimal (ch : Rune) : Bool := isDecimal ch || (97 ≤ ch && ch ≤ 102) || (65 ≤ ch && ch ≤ 70)
def isWhitespace (ch : Rune) : Bool := ch == 9 || ch == 10 || ch == 13 || ch == 32

/-! ## 2. The token-level code of the scanner, over abstract primitive operations -/

/-- error kinds (`s.error(msg)` call sites of cedar_tokenize.go); `fuel` is the model's out-of-fuel marker
    (never produced: `C18_fuel_suffices`) -/
inductive LexErr where
  | read | invalidUTF8 | nul | invalidEscape | unterminatedString | unterminatedComment | fuel
deriving DecidableEq, Repr, Inhabited

/-- token with its raw bytes (a `Token` before UTF-8 decoding of the text) -/
structure RawTok where
  ty : TokType
  pos : Pos
  text : List UInt8
deriving DecidableEq, Repr, Inhabited

/-- the primitive operations `nextToken` and the `scan*` functions perform on the scanner state -/
structure Src (σ : Type) where
  /-- `s.next()` -/
  next : σ → Rune × σ
  /-- `s.error(msg)` -/
  error : LexErr → σ → σ
  /-- `s.tokPos = -1` (and `s.position.Line = 0`) -/
  tokKill : σ → σ
  /-- `s.tokBuf.Reset(); s.tokPos = s.srcPos - s.lastCharLen; s.position = …` -/
  tokMark : σ → σ
  /-- `s.tokEnd = s.srcPos - s.lastCharLen; text := s.tokenText()`; returns (`s.position`, text) -/
  tokEnd : σ → (Pos × List UInt8) × σ
  /-- `s.err` -/
  err : σ → Option LexErr

section Generic
variable {σ : Type} (S : Src σ)

/-- `for isIdentRune(ch, false) { ch = s.next() }` -/
def identLoop : Nat → Rune → σ → Rune × σ
  | 0, ch, s => (ch, S.error .fuel s)
  | f + 1, ch, s => if isIdentRune ch false then identLoop f (S.next s).1 (S.next s).2 else (ch, s)

def scanIdentifier (F : Nat) (s : σ) : Rune × σ := identLoop S F (S.next s).1 (S.next s).2

/-- `scanInteger`: `for rust.IsDecimal(ch) { ch = s.next() }` -/
def scanInteger : Nat → Rune → σ → Rune × σ
  | 0, ch, s => (ch, S.error .fuel s)
  | f + 1, ch, s => if isDecimal ch then scanInteger f (S.next s).1 (S.next s).2 else (ch, s)

/-- loop of `scanHexDigits`: `rem = maxDigits - n`; returns (n, ch, s) -/
def hexLoop : Nat → Nat → Rune → σ → Nat × Rune × σ
  | 0, n, ch, s => (n, ch, s)
  | rem + 1, n, ch, s => if isHexadecimal ch then hexLoop rem (n + 1) (S.next s).1 (S.next s).2 else (n, ch, s)

def scanHexDigits (ch : Rune) (minDigits maxDigits : Nat) (s : σ) : Rune × σ :=
  let r := hexLoop S maxDigits 0 ch s
  if r.1 < minDigits || r.1 > maxDigits then (r.2.1, S.error .invalidEscape r.2.2) else r.2

def scanEscape (s : σ) : Rune × σ :=
  let n1 := S.next s   -- read character after '\\'
  let ch := n1.1
  if ch == 110 || ch == 114 || ch == 116 || ch == 92 || ch == 48 || ch == 39 || ch == 34 || ch == 42 then
    S.next n1.2
  else if ch == 120 then  -- 'x'
    let n2 := S.next n1.2
    scanHexDigits S n2.1 2 2 n2.2
  else if ch == 117 then  -- 'u'
    let n2 := S.next n1.2
    if n2.1 != 123 then (n2.1, S.error .invalidEscape n2.2) else
    let n3 := S.next n2.2
    let h := scanHexDigits S n3.1 1 6 n3.2
    if h.1 != 125 then (h.1, S.error .invalidEscape h.2) else
    S.next h.2
  else (ch, S.error .invalidEscape n1.2)

/-- loop of `scanString` (the count `n` is not used by any caller) -/
def stringLoop : Nat → Rune → σ → σ
  | 0, _, s => S.error .fuel s
  | f + 1, ch, s =>
    if ch == 34 then s
    else if ch == 10 || ch < 0 then S.error .unterminatedString s
    else if ch == 92 then stringLoop f (scanEscape S s).1 (scanEscape S s).2
    else stringLoop f (S.next s).1 (S.next s).2

def scanString (F : Nat) (s : σ) : σ := stringLoop S F (S.next s).1 (S.next s).2

/-- `for ch != '\n' && ch >= 0 { ch = s.next() }` -/
def lineCommentLoop : Nat → Rune → σ → Rune × σ
  | 0, ch, s => (ch, S.error .fuel s)
  | f + 1, ch, s => if ch != 10 && ch ≥ 0 then lineCommentLoop f (S.next s).1 (S.next s).2 else (ch, s)

def blockCommentLoop : Nat → Rune → σ → Rune × σ
  | 0, ch, s => (ch, S.error .fuel s)
  | f + 1, ch, s =>
    if ch < 0 then (ch, S.error .unterminatedComment s)
    else
      let n := S.next s
      if ch == 42 && n.1 == 47 then S.next n.2 else blockCommentLoop f n.1 n.2

def scanComment (F : Nat) (ch : Rune) (s : σ) : Rune × σ :=
  if ch == 47 then lineCommentLoop S F (S.next s).1 (S.next s).2
  else blockCommentLoop S F (S.next s).1 (S.next s).2

def scanOperator (ch0 ch : Rune) (s : σ) : TokType × Rune × σ :=
  if ch0 == 64 || ch0 == 46 || ch0 == 44 || ch0 == 59 || ch0 == 40 || ch0 == 41 || ch0 == 123 || ch0 == 125
      || ch0 == 91 || ch0 == 93 || ch0 == 43 || ch0 == 45 || ch0 == 42 then (.operator, ch, s)
  else if ch0 == 58 then
    if ch == 58 then (.operator, S.next s) else (.operator, ch, s)
  else if ch0 == 33 || ch0 == 60 || ch0 == 62 then
    if ch == 61 then (.operator, S.next s) else (.operator, ch, s)
  else if ch0 == 61 then
    if ch != 61 then (.unknown, ch, s) else (.operator, S.next s)
  else if ch0 == 124 then
    if ch != 124 then (.unknown, ch, s) else (.operator, S.next s)
  else if ch0 == 38 then
    if ch != 38 then (.unknown, ch, s) else (.operator, S.next s)
  else (.unknown, ch, s)

/-- `for isWhitespace(ch) { ch = s.next() }` -/
def skipWhitespace : Nat → Rune → σ → Rune × σ
  | 0, ch, s => (ch, S.error .fuel s)
  | f + 1, ch, s => if isWhitespace ch then skipWhitespace f (S.next s).1 (S.next s).2 else (ch, s)

/-- reserved keywords as byte strings (`IsReservedKeyword(text)`) -/
def reservedKeywordBytes : List (List UInt8) := reservedKeywords.map fun k => k.toUTF8.toList

/-- result of `nextToken`: the token, the look-ahead `s.ch`, the state -/
structure TokRes (σ : Type) where
  tok : RawTok
  ch : Rune
  st : σ

/-- end of `nextToken`: `s.tokEnd = …; s.ch = ch; text := s.tokenText(); keyword check` -/
def finishToken (tt : TokType) (ch : Rune) (s : σ) : TokRes σ :=
  let e := S.tokEnd s
  let tt := if tt == .ident && reservedKeywordBytes.contains e.1.2 then .keyword else tt
  ⟨⟨tt, e.1.1, e.1.2⟩, ch, e.2⟩

/-- `nextToken` from label `redo` on; the outer fuel counts `goto redo` (one per comment) -/
def tokenFrom (F : Nat) : Nat → Rune → σ → TokRes σ
  | 0, ch, s => finishToken S .unknown ch (S.tokMark (S.error .fuel s))   -- out of fuel (never reached)
  | f + 1, ch, s =>
    let w := skipWhitespace S F ch s
    let ch := w.1
    let s := S.tokMark w.2
    if ch == runeEOF then finishToken S .eof ch s
    else if isIdentRune ch true then
      let r := scanIdentifier S F s
      finishToken S .ident r.1 r.2
    else if isDecimal ch then
      let r := scanInteger S F ch s
      finishToken S .int r.1 r.2
    else if ch == 34 then
      let r := S.next (scanString S F s)
      finishToken S .string r.1 r.2
    else if ch == 47 then
      let n := S.next s
      if n.1 == 47 || n.1 == 42 then
        let r := scanComment S F n.1 (S.tokKill n.2)
        tokenFrom F f r.1 r.2
      else
        let o := scanOperator S ch n.1 n.2
        finishToken S o.1 o.2.1 o.2.2
    else
      let n := S.next s
      let o := scanOperator S ch n.1 n.2
      finishToken S o.1 o.2.1 o.2.2

/-- `nextToken`; `ch` is the field `s.ch` -/
def nextToken (F : Nat) (ch : Rune) (s : σ) : TokRes σ :=
  let n := if ch == runeBOF then S.next s else (ch, s)
  tokenFrom S F F n.1 (S.tokKill n.2)

/-- the loop of `TokenizeReader` -/
def tokenizeLoop (F : Nat) : Nat → Rune → σ → Except LexErr (List RawTok)
  | 0, _, _ => .error .fuel
  | f + 1, ch, s =>
    let r := nextToken S F ch s
    match S.err r.st with
    | some e => .error e
    | none =>
      if r.tok.ty == .eof then .ok [⟨.eof, r.tok.pos, []⟩]
      else match tokenizeLoop F f r.ch r.st with
        | .ok ts => .ok (r.tok :: ts)
        | .error e => .error e

/-- `TokenizeReader` on an initialised state; `F` bounds every loop (F ≥ document length + 2 suffices) -/
def tokenize (F : Nat) (s : σ) : Except LexErr (List RawTok) := tokenizeLoop S F F runeBOF s

end Generic

/-! ## 3. Position specification and the pure lexer -/

/-- bytes after the last `'\n'` -/
def lastLine (bs : List UInt8) : List UInt8 := (bs.reverse.takeWhile (· != 10)).reverse

/-- SPEC of a source position: byte offset, 1 + number of newlines before it, 1 + number of characters
    (as `utf8.DecodeRune` counts them) since the last newline -/
def posOf (doc : List UInt8) (off : Nat) : Pos :=
  let pre := doc.take off
  ⟨off, 1 + pre.count 10, 1 + (decodeAll (lastLine pre)).length⟩

/-- what the Go scanner reports: `posOf`, except that the only token of the EMPTY document (EOF) gets
    line 0, column 0 (`s.column == 0` branch of `nextToken` taken at the beginning of the source) -/
def goPos (doc : List UInt8) (off : Nat) : Pos :=
  if doc.isEmpty then ⟨0, 0, 0⟩ else posOf doc off

/-- state of the pure lexer: the whole document and the current offset (`rest = doc.drop off`) -/
structure PState where
  doc : List UInt8
  fails : Bool               -- the reader fails (instead of EOF) once all bytes are delivered
  rest : List UInt8
  off : Nat
  lastCharLen : Nat
  tokStart : Option Nat      -- offset of the first byte of the token being collected
  position : Pos
  err : Option LexErr
deriving Repr

def PState.init (doc : List UInt8) (fails : Bool) : PState :=
  { doc, fails, rest := doc, off := 0, lastCharLen := 0, tokStart := none, position := ⟨0, 0, 0⟩, err := none }

def PState.next (s : PState) : Rune × PState :=
  match s.rest with
  | [] => (runeEOF, { s with lastCharLen := 0, err := if s.fails then some .read else s.err })
  | b :: bs =>
    let rw := decodeRune (b :: bs)
    let s' := { s with rest := (b :: bs).drop rw.2, off := s.off + rw.2, lastCharLen := rw.2 }
    if rw.1 == runeError && rw.2 == 1 then (rw.1, { s' with err := some .invalidUTF8 })
    else if rw.1 == 0 then (rw.1, { s' with err := some .nul })
    else (rw.1, s')

def PState.tokEnd (s : PState) : (Pos × List UInt8) × PState :=
  let text := match s.tokStart with
    | none => []
    | some st => (s.doc.drop st).take (s.off - s.lastCharLen - st)
  ((s.position, text), s)

/-- the pure lexer as a `Src` -/
def pureSrc : Src PState where
  next := PState.next
  error := fun e s => { s with err := some e }
  tokKill := fun s => { s with tokStart := none, position := { s.position with line := 0 } }
  tokMark := fun s => { s with tokStart := some (s.off - s.lastCharLen), position := goPos s.doc (s.off - s.lastCharLen) }
  tokEnd := PState.tokEnd
  err := fun s => s.err

/-- tokens (raw text bytes) of a whole document; `fails`: the reader reports a failure instead of EOF -/
def rawTokens (doc : List UInt8) (fails : Bool := false) : Except LexErr (List RawTok) :=
  tokenize pureSrc (doc.length + 2) (PState.init doc fails)

/-- token text as a `String` (the text of a successfully scanned token is valid UTF-8) -/
def bytesToString (bs : List UInt8) : String :=
  String.ofList ((decodeAll bs).map fun rw => Char.ofNat rw.1.toNat)

def RawTok.toToken (t : RawTok) : Token := ⟨t.ty, t.pos, bytesToString t.text⟩

/-- THE PURE LEXER: token classes, texts and positions of a document given as one byte string -/
def tokensWithPos (doc : List UInt8) : Except LexErr (List Token) :=
  (rawTokens doc).map (·.map RawTok.toToken)

end CedarGo.Text.Lx
