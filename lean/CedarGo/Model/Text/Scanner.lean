/-
  C18 — the buffered scanner of internal/parser/cedar_tokenize.go as a state machine over an abstract
  `io.Reader`.  `next` (refill loop, sentinel, copy-down of a partial multi-byte character, spill of the
  token text into `tokBuf`), `error`, the token-text bookkeeping of `nextToken` and `tokenText` are
  transcribed literally; the token-level control flow (`scan*`, `nextToken`, `TokenizeReader`) is the
  generic code of Lexer.lean instantiated with these primitives (`scanSrc`).
  `bufLen` is a parameter (Go: 1024; must be ≥ utf8.UTFMax = 4).
  The look-ahead `s.ch` is threaded through `nextToken` as an argument/result (`TokRes.ch`).
  Not modelled: a reader that returns (0, nil) for ever (chunk lists are finite; Go would loop for ever),
  and a reader that returns data together with a non-EOF error.
-/
import CedarGo.Model.Text.Lexer
namespace CedarGo.Text.Lx

/-- how the reader ends once all chunks are delivered: `(0, io.EOF)`; `io.EOF` together with the last
    data; or `(0, err)` with a non-EOF error. The final status is repeated on every further `Read`. -/
inductive Final where
  | eof | eofData | fail
deriving DecidableEq, Repr, Inhabited

/-- an `io.Reader`: the chunks it is willing to deliver per `Read` call (possibly empty: `(0, nil)`) -/
structure Reader where
  chunks : List (List UInt8)
  final : Final
deriving Repr, Inhabited

/-- the `err` result of `Read` -/
inductive ReadErr where
  | none | eof | fail
deriving DecidableEq, Repr, Inhabited

/-- all bytes the reader will ever deliver -/
def Reader.bytes (r : Reader) : List UInt8 := r.chunks.flatten

/-- termination measure of repeated reads with room ≥ 1 -/
def Reader.measure (r : Reader) : Nat := (r.chunks.map (·.length + 1)).sum

/-- `src.Read(p)` with `len(p) = m`: a chunk larger than `m` is delivered in pieces -/
def Reader.read (r : Reader) (m : Nat) : List UInt8 × ReadErr × Reader :=
  match r.chunks with
  | [] => ([], if r.final == .fail then .fail else .eof, r)
  | c :: cs =>
    if c.length ≤ m then
      (c, if cs.isEmpty && r.final == .eofData then .eof else .none, { r with chunks := cs })
    else (c.take m, .none, { r with chunks := c.drop m :: cs })

/-- `b[i:j]` -/
def slice (b : List UInt8) (i j : Nat) : List UInt8 := (b.drop i).take (j - i)

/-- `copy(b[i:], d)` for `i + len(d) ≤ len(b)` -/
def writeAt (b : List UInt8) (i : Nat) (d : List UInt8) : List UInt8 := b.take i ++ d ++ b.drop (i + d.length)

structure ScanState where
  rd : Reader
  srcBuf : List UInt8          -- [bufLen+1]byte
  srcPos : Nat
  srcEnd : Nat
  srcBufOffset : Nat
  line : Nat
  column : Nat
  lastLineLen : Nat
  lastCharLen : Nat
  tokBuf : List UInt8
  tokPos : Option Nat          -- `none` is Go's `tokPos = -1`
  tokEnd : Nat
  position : Pos
  err : Option LexErr
  /-- model artefact (not a Go field): bound on the number of `Read` calls inside one `next()`; set by
      `Init` to `rd.measure + 1`, which suffices for ever because reads never increase the measure -/
  readFuel : Nat
deriving Repr

/-- `Init` -/
def ScanState.init (bufLen : Nat) (rd : Reader) : ScanState :=
  { rd, srcBuf := 0x80 :: List.replicate bufLen 0, srcPos := 0, srcEnd := 0, srcBufOffset := 0,
    line := 1, column := 0, lastLineLen := 0, lastCharLen := 0, tokBuf := [], tokPos := none, tokEnd := 0,
    position := ⟨0, 0, 0⟩, err := none, readFuel := rd.measure + 1 }

namespace ScanState

/-- `s.error(msg)` -/
def error (e : LexErr) (s : ScanState) : ScanState :=
  { s with tokEnd := s.srcPos - s.lastCharLen, err := some e }

/-- the tail of `next`: `advance` and `special situations` -/
def advance (ch : Rune) (width : Nat) (s : ScanState) : Rune × ScanState :=
  let s := { s with srcPos := s.srcPos + width, lastCharLen := width, column := s.column + 1 }
  if ch == 0 then (ch, s.error .nul)
  else if ch == 10 then (ch, { s with line := s.line + 1, lastLineLen := s.column, column := 0 })
  else (ch, s)

/-- one iteration of the refill loop of `next` up to and including the `Read` and the sentinel store:
    spill the token text, move the unread bytes to the front, read into `srcBuf[i:bufLen]` -/
def refillStep (bufLen : Nat) (s : ScanState) : ScanState × ReadErr :=
  -- save away token text if any
  let s := match s.tokPos with
    | some tp => { s with tokBuf := s.tokBuf ++ slice s.srcBuf tp s.srcPos, tokPos := some 0 }
    | none => s
  -- move unread bytes to beginning of buffer
  let i := s.srcEnd - s.srcPos
  let s := { s with srcBuf := writeAt s.srcBuf 0 (slice s.srcBuf s.srcPos s.srcEnd),
                    srcBufOffset := s.srcBufOffset + s.srcPos }
  let r := s.rd.read (bufLen - i)
  let srcEnd := i + r.1.length
  ({ s with rd := r.2.2, srcBuf := writeAt (writeAt s.srcBuf i r.1) srcEnd [0x80], srcPos := 0, srcEnd }, r.2.1)

/-- the refill loop of `next`; result `true` = `return specialRuneEOF` from inside the loop.
    Fuel: one iteration per `Read`; `rd.measure + 1` (≤ `readFuel`) suffices when `bufLen ≥ 4`. -/
def refillLoop (bufLen : Nat) : Nat → ScanState → ScanState × Bool
  | 0, s => (s.error .fuel, false)
  | f + 1, s =>
    if s.srcPos + utfMax > s.srcEnd && !fullRune (slice s.srcBuf s.srcPos s.srcEnd) then
      let r := refillStep bufLen s
      match r.2 with
      | .none => refillLoop bufLen f r.1
      | e =>
        let s := if e == .fail then r.1.error .read else r.1
        if s.srcEnd == 0 then
          -- `if s.lastCharLen > 0 { s.column++ }; s.lastCharLen = 0; return specialRuneEOF`
          ({ s with column := if s.lastCharLen > 0 then s.column + 1 else s.column, lastCharLen := 0 }, true)
        else (s, false)
    else (s, false)

/-- `next()` -/
def next (bufLen : Nat) (s : ScanState) : Rune × ScanState :=
  let ch := (s.srcBuf.getD s.srcPos 0).toNat
  if ch < runeSelf then s.advance (Int.ofNat ch) 1
  else
    let r := refillLoop bufLen s.readFuel s
    if r.2 then (runeEOF, r.1) else
    let s := r.1
    let ch := (s.srcBuf.getD s.srcPos 0).toNat
    if ch < runeSelf then s.advance (Int.ofNat ch) 1
    else
      let rw := decodeRune (slice s.srcBuf s.srcPos s.srcEnd)
      if rw.1 == runeError && rw.2 == 1 then
        (rw.1, ({ s with srcPos := s.srcPos + rw.2, lastCharLen := rw.2, column := s.column + 1 }).error .invalidUTF8)
      else s.advance rw.1 rw.2

/-- `s.tokPos = -1; s.position.Line = 0` -/
def tokKill (s : ScanState) : ScanState :=
  { s with tokPos := none, position := { s.position with line := 0 } }

/-- `nextToken`: "start collecting token text" and "set token Position" -/
def tokMark (s : ScanState) : ScanState :=
  let tp := s.srcPos - s.lastCharLen
  let s := { s with tokBuf := [], tokPos := some tp }
  if s.column > 0 then
    { s with position := ⟨s.srcBufOffset + tp, s.line, s.column⟩ }
  else
    { s with position := ⟨s.srcBufOffset + tp, s.line - 1, s.lastLineLen⟩ }

/-- `tokenText()` -/
def tokenText (s : ScanState) : List UInt8 × ScanState :=
  match s.tokPos with
  | none => ([], s)
  | some tp =>
    if s.tokBuf.isEmpty then (slice s.srcBuf tp s.tokEnd, s)
    else
      let s := { s with tokBuf := s.tokBuf ++ slice s.srcBuf tp s.tokEnd, tokPos := some s.tokEnd }
      (s.tokBuf, s)

/-- `nextToken`: "end of token text" followed by `s.tokenText()`; returns `s.position` as well -/
def tokEndText (s : ScanState) : (Pos × List UInt8) × ScanState :=
  let s := { s with tokEnd := s.srcPos - s.lastCharLen }
  let (text, s) := s.tokenText
  ((s.position, text), s)

end ScanState

/-- the buffered scanner's primitives -/
def scanSrc (bufLen : Nat) : Src ScanState where
  next := ScanState.next bufLen
  error := ScanState.error
  tokKill := ScanState.tokKill
  tokMark := ScanState.tokMark
  tokEnd := ScanState.tokEndText
  err := fun s => s.err

/-- `TokenizeReader(r)` with buffer size `bufLen` -/
def scan (bufLen : Nat) (rd : Reader) : Except LexErr (List RawTok) :=
  tokenize (scanSrc bufLen) (rd.bytes.length + 2) (ScanState.init bufLen rd)

/-- `scan` with `Token`s (text decoded) -/
def scanTokens (bufLen : Nat) (rd : Reader) : Except LexErr (List Token) :=
  (scan bufLen rd).map (·.map RawTok.toToken)

/-- cut `bytes` into chunks of the given sizes (the rest, if any, becomes a last chunk) -/
def chunksOf : List Nat → List UInt8 → List (List UInt8)
  | [], [] => []
  | [], bs => [bs]
  | n :: ns, bs => bs.take n :: chunksOf ns (bs.drop n)

end CedarGo.Text.Lx
