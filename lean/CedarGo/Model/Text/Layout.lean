/-
  C07 ∘ C18 — TEXT of a token list: layouts (whitespace and comments between tokens), the byte rendering
  of a token list under a layout, and the spec-side predicates that say when a token is written the way
  the scanner of cedar_tokenize.go reads it back (`Lexable`) and when two neighbours do not merge
  (`sepOK`).  These are NOT a model of Go code; they are the hypotheses of `C07_lex_layout`
  (CedarGoProofs/Properties/C07.lean), which ties the pure lexer of C18 (`Lx.tokensWithPos`) to the
  token-level parser / printers of C07.

  Comment forms: the Go scanner (`nextToken`, `scanComment`) skips BOTH `// … \n` (also `// …` EOF)
  and `/* … */` (not nested, unterminated = error); `isWhitespace` is exactly TAB, LF, CR, SPACE.
-/
import CedarGo.Model.Text.Lexer
import CedarGo.Model.Text.Scanner
import CedarGo.Model.Text.Printer
import CedarGo.Model.Text.Parser
namespace CedarGo.Text

/-! ## bytes of characters -/

/-- UTF-8 bytes of a character list (`String.utf8EncodeChar` is core's reference encoder) -/
def encChars (cs : List Char) : List UInt8 := cs.flatMap String.utf8EncodeChar

/-- UTF-8 bytes of a string -/
def strBytes (s : String) : List UInt8 := encChars s.toList

/-- bytes of a token = bytes of its source text -/
def tokenBytes (t : Token) : List UInt8 := strBytes t.text

/-! ## separators: what the scanner skips between tokens -/

/-- `isWhitespace` -/
def isWsChar (c : Char) : Bool := c.toNat == 9 || c.toNat == 10 || c.toNat == 13 || c.toNat == 32

/-- no `*/` inside -/
def noStarSlash : List Char → Bool
  | [] => true
  | c :: cs => !(c.toNat == 42 && (cs.head?.map Char.toNat) == some 47) && noStarSlash cs

/-- body of a line comment: no newline (and no NUL: the scanner rejects NUL everywhere) -/
def LineBody (body : List Char) : Prop := ∀ c ∈ body, c.toNat ≠ 10 ∧ c.toNat ≠ 0

/-- body of a block comment: no `*/`, no NUL -/
def BlockBody (body : List Char) : Prop := noStarSlash body = true ∧ ∀ c ∈ body, c.toNat ≠ 0

/-- `SepChars final cs`: `cs` is a sequence of whitespace characters, line comments `// body \n` and
    block comments `/* body */`; the LAST separator of a document (`final = true`) may also end in a
    line comment that is closed by the end of the input. -/
inductive SepChars : Bool → List Char → Prop where
  | nil (fin : Bool) : SepChars fin []
  | ws (fin : Bool) (c : Char) (cs : List Char) : isWsChar c = true → SepChars fin cs → SepChars fin (c :: cs)
  | line (fin : Bool) (body cs : List Char) : LineBody body → SepChars fin cs →
      SepChars fin ('/' :: '/' :: (body ++ '\n' :: cs))
  | lineEnd (body : List Char) : LineBody body → SepChars true ('/' :: '/' :: body)
  | block (fin : Bool) (body cs : List Char) : BlockBody body → SepChars fin cs →
      SepChars fin ('/' :: '*' :: (body ++ '*' :: '/' :: cs))

/-- a separator as a string -/
def IsSeparator (final : Bool) (s : String) : Prop := SepChars final s.toList

/-- a separator as a byte string: the UTF-8 bytes of such a character sequence (bytes that are not valid
    UTF-8 are an error of the scanner wherever they occur, comments included) -/
def IsSeparatorBytes (final : Bool) (bs : List UInt8) : Prop := ∃ cs, bs = encChars cs ∧ SepChars final cs

/-! ## token classes as the scanner produces them -/

/-- identifier / keyword text: `isIdentRune(ch, true)` then `isIdentRune(ch, false)`* -/
def identText : List Char → Bool
  | [] => false
  | c :: cs => isIdentChar c true && identCharsRest cs

/-- integer text: decimal digits, at least one -/
def intText (cs : List Char) : Bool := !cs.isEmpty && cs.all isDecimal

/-- characters that are an operator token on their own (`scanOperator`; `:`, `!`, `<`, `>` unless merged) -/
def singleOps : List Nat := [64, 46, 44, 59, 40, 41, 123, 125, 91, 93, 43, 45, 42, 58, 33, 60, 62]

/-- `c0 c1` is scanned as ONE two-character operator: `::  !=  <=  >=  ==  ||  &&` -/
def merges (c0 c1 : Char) : Bool :=
  (c0.toNat == 58 && c1.toNat == 58) ||
  ((c0.toNat == 33 || c0.toNat == 60 || c0.toNat == 62 || c0.toNat == 61) && c1.toNat == 61) ||
  (c0.toNat == 124 && c1.toNat == 124) || (c0.toNat == 38 && c1.toNat == 38)

/-- operator text -/
def opText : List Char → Bool
  | [c] => singleOps.contains c.toNat
  | [c0, c1] => merges c0 c1
  | _ => false

/-- the character starts a token of another class (or is skipped) -/
def startsOther (c : Char) : Bool := isWsChar c || isIdentChar c true || isDecimal c || c.toNat == 34

/-- text of an UNKNOWN token: one character that starts nothing else (`=`, `|`, `&`, `/`, `%`, `#`, `é`, …) -/
def unknownText : List Char → Bool
  | [c] => c.toNat != 0 && !startsOther c && !singleOps.contains c.toNat
  | _ => false

/-- `rust.IsHexadecimal` on the code point (as the scanner tests it) -/
def isHexChar (c : Char) : Bool :=
  isDecimal c || (97 ≤ c.toNat && c.toNat ≤ 102) || (65 ≤ c.toNat && c.toNat ≤ 70)

/-- Body of a string literal as `scanString` / `scanEscape` accept it: raw characters other than `"`, `\`,
    newline, NUL; the escapes `\n \r \t \\ \0 \' \" \*`; `\xHH`; `\u{H…}` with 1–6 hexadecimal digits.
    (The scanner does not check the VALUE of an escape: that is `Unquote`'s job in the parser.) -/
inductive StrBody : List Char → Prop where
  | nil : StrBody []
  | raw (c : Char) (cs : List Char) : c.toNat ≠ 34 → c.toNat ≠ 92 → c.toNat ≠ 10 → c.toNat ≠ 0 → StrBody cs → StrBody (c :: cs)
  | esc (c : Char) (cs : List Char) : c.toNat ∈ [110, 114, 116, 92, 48, 39, 34, 42] → StrBody cs → StrBody ('\\' :: c :: cs)
  | hex (a b : Char) (cs : List Char) : isHexChar a = true → isHexChar b = true → StrBody cs →
      StrBody ('\\' :: 'x' :: a :: b :: cs)
  | uni (ds cs : List Char) : 1 ≤ ds.length → ds.length ≤ 6 → (∀ d ∈ ds, isHexChar d = true) → StrBody cs →
      StrBody ('\\' :: 'u' :: '{' :: (ds ++ '}' :: cs))

/-- `LexChars ty T`: the characters `T` are what the scanner produces for a token of class `ty`
    (identifiers are classified `keyword` exactly when reserved) -/
def LexChars (ty : TokType) (T : List Char) : Prop :=
  match ty with
  | .ident => identText T = true ∧ reservedKeywords.contains (String.ofList T) = false
  | .keyword => identText T = true ∧ reservedKeywords.contains (String.ofList T) = true
  | .int => intText T = true
  | .string => ∃ body, T = '"' :: (body ++ ['"']) ∧ StrBody body
  | .operator => opText T = true
  | .unknown => unknownText T = true
  | .eof => False

/-- `Lexable t`: the text of `t` is what the scanner produces for the class `t.ty` -/
def Lexable (t : Token) : Prop := LexChars t.ty t.text.toList

/-- `sepOKChars ty T nx`: a token of class `ty` with text `T` followed by the character `nx` (`none` = end
    of input) is scanned as that token alone: an identifier / keyword must not be followed by an identifier
    character, an integer not by a digit, a one-character operator not by the character that completes a
    two-character operator, `/` not by `/` or `*` (that would open a comment).  Strings and two-character
    operators end by themselves. -/
def sepOKChars (ty : TokType) (T : List Char) (nx : Option Char) : Bool :=
  match nx with
  | none => true
  | some c =>
    match ty with
    | .ident | .keyword => !isIdentChar c false
    | .int => !isDecimal c
    | .operator | .unknown =>
      (match T with
       | [c0] => !merges c0 c && !(c0.toNat == 47 && (c.toNat == 47 || c.toNat == 42))
       | _ => true)
    | _ => true

def sepOK (t : Token) (nx : Option Char) : Bool := sepOKChars t.ty t.text.toList nx

/-! ## layouts -/

/-- a layout: one separator before each token and one after the last -/
abbrev Layout := List String

/-- characters of the text of `ts` under `lay` -/
def renderChars : Layout → List Token → List Char
  | sep :: seps, t :: ts => sep.toList ++ (t.text.toList ++ renderChars seps ts)
  | [sep], [] => sep.toList
  | _, _ => []

/-- BYTES of the text of `ts` under `lay` -/
def renderBytes (lay : Layout) (ts : List Token) : List UInt8 := encChars (renderChars lay ts)

/-- `Admissible lay ts`: as many separators as tokens plus one, every separator is whitespace / comments,
    every token is `Lexable`, and every token is `sepOK` with respect to the character that follows it
    in the text (the first character of the next separator, else of the next token, else the end) -/
def Admissible : Layout → List Token → Prop
  | [sep], [] => IsSeparator true sep
  | sep :: seps, t :: ts =>
    IsSeparator false sep ∧ Lexable t ∧ sepOK t (renderChars seps ts).head? = true ∧ Admissible seps ts
  | _, _ => False

/-- two tokens that may be written with `sep` between them, whatever follows -/
def Separated (t₁ : Token) (sep : String) (t₂ : Token) : Prop :=
  IsSeparator false sep ∧ sepOK t₁ (sep.toList ++ t₂.text.toList).head? = true

/-- the PAIRWISE reading of admissibility: every separator is whitespace / comments, every token is `Lexable`,
    every two neighbours `t₁ sep t₂` are `Separated`, and the last token is `sepOK` before the final separator
    (`C07_admissible_of_pairs`: this implies `Admissible`) -/
def AdmissiblePairs : Layout → List Token → Prop
  | [sep], [] => IsSeparator true sep
  | [s0, s1], [t] => IsSeparator false s0 ∧ Lexable t ∧ IsSeparator true s1 ∧ sepOK t s1.toList.head? = true
  | s0 :: s1 :: seps, t1 :: t2 :: ts =>
    IsSeparator false s0 ∧ Lexable t1 ∧ Separated t1 s1 t2 ∧ AdmissiblePairs (s1 :: seps) (t2 :: ts)
  | _, _ => False

/-- separators after the first token of the single-space layout, `n` tokens remaining -/
def spaceSeps : Nat → Layout
  | 0 => [""]
  | n + 1 => " " :: spaceSeps n

/-- the single-space layout for `n` tokens: nothing before the first token and after the last, one
    space in between -/
def spaceLayout : Nat → Layout
  | 0 => [""]
  | n + 1 => "" :: spaceSeps n

/-- what the lexer returns for `renderBytes lay ts` (C07_lex_layout): the tokens of `ts` placed at their
    byte offsets (positions by `Lx.goPos doc`, = `Lx.posOf doc` for a non-empty document) and the EOF token -/
def placed (doc : List UInt8) : Nat → Layout → List Token → List Token
  | k, sep :: seps, t :: ts =>
    ⟨t.ty, Lx.goPos doc (k + (strBytes sep).length), t.text⟩ ::
      placed doc (k + (strBytes sep).length + (tokenBytes t).length) seps ts
  | k, [sep], [] => [⟨.eof, Lx.goPos doc (k + (strBytes sep).length), ""⟩]
  | _, _, _ => []

/-- annotation keys that can be WRITTEN: identifiers or reserved words (`policyOK` does not ask for this: at the
    token level any key text round-trips) -/
def annKeysOK (p : Policy) : Bool := p.annotations.all fun a => isAnnotationKey a.1

/-- a token without its position -/
def stripPos (t : Token) : Token := { t with pos := noPos }

/-- the token slice the parser model consumes: the scanner's tokens WITHOUT the final EOF token
    (Parser.lean: `peek [] = eofTok`) -/
def parserInput (toks : List Token) : List Token := toks.dropLast

/-- text → policies: pure lexer, then the parser (`PolicySlice.UnmarshalCedar` on `Tokenize(bytes)`);
    `.error` = scanner error, `.ok none` never happens (`C07_parser_total_list`) -/
def parseBytes (bytes : List UInt8) : Except Lx.LexErr (Option (Except PErr (List Policy))) :=
  (Lx.tokensWithPos bytes).map fun toks => parsePolicies (parserInput toks)

/-- tokens of a text of several policies (one rendering after the other) -/
def renderList (full : Bool) : List Policy → List Token
  | [] => []
  | p :: ps => renderPolicy full p ++ renderList full ps

/-- the policies `ps`, each with the position of ITS first token in `toks` (`toks` = the tokens, with positions,
    lexed from a text of `renderList full ps`): the first policy starts at the first token, the next one
    `|renderPolicy full p|` tokens later, … -/
def positioned (full : Bool) : List Policy → List Token → List Policy
  | [], _ => []
  | p :: ps, toks =>
    { p with position := posOfC07 (peek toks) } :: positioned full ps (toks.drop (renderPolicy full p).length)

/-- `Policy.Position` of the token that starts at byte offset `off` of `bytes`: offset, line and column as
    `Lx.posOf` specifies them (C18) -/
def positionAt (bytes : List UInt8) (off : Nat) : Position :=
  { filename := "", offset := (Lx.posOf bytes off).offset, line := (Lx.posOf bytes off).line, column := (Lx.posOf bytes off).column }

/-- streaming decode: the buffered scanner over a reader (any chunk schedule), then the parser
    (`NewDecoder(r)` … / `PolicySlice.UnmarshalCedar` on the scanner's tokens) -/
def parseStream (bufLen : Nat) (rd : Lx.Reader) : Except Lx.LexErr (Option (Except PErr (List Policy))) :=
  (Lx.scanTokens bufLen rd).map fun toks => parsePolicies (parserInput toks)

end CedarGo.Text
