/-
  Model of the Cedar policy text parser: the recursive-descent functions of
  `internal/parser/cedar_unmarshal.go`, over the TOKEN LIST produced by `Tokenize`.

  * The token list is the Go token slice WITHOUT its final EOF token: `peek [] = eofTok`, and
    `adv [] = []` mirrors `advance` not moving past the last (EOF) token.
  * No `do`: steps are sequenced with the explicit combinator `bindP` (Go's `if err != nil { return }`).
    Functions that can re-enter `expression` carry fuel:
    out-of-fuel = `none`, a parse error = `some (.error _)`, so fuel is never confused with rejection.
    The recursion knot is tied through a parameter `E` (the parser for a nested `expression`):
    `exprF (n+1) = expression (exprF n) n`; every loop (`||`, `&&`, `+ -`, `*`, member accesses,
    expression lists, record entries, conditions) is its own small structurally recursive function.
    `C07_parser_total` shows the fuel `parseFuel ts` is never exhausted (Go has no fuel).
  * Loops that only consume tokens (entity paths, `has` paths, unary operators, annotations, entity
    lists) are structurally recursive on the token list and need no fuel.
  * Error values carry a kind for diagnostics only; messages are not modelled.
-/
import CedarGo.Model.Text.Token
import CedarGo.Model.Text.Escape
import CedarGo.Model.Policy
namespace CedarGo.Text
open CedarGo

inductive PErr where
  | exact | ident | string | int | primary | token | comma | effect
  | dupAnnotation | dupKey | notFunction | methodAsFunction | notMethod | functionAsMethod | arity
  | unquote (e : UErr)
deriving DecidableEq, Repr, Inhabited

def eofTok : Token := ⟨.eof, ⟨0, 0, 0⟩, ""⟩

/-- `p.peek()` -/
def peek : List Token → Token
  | [] => eofTok
  | t :: _ => t

/-- the token list after `p.advance()` -/
def adv : List Token → List Token
  | [] => []
  | _ :: r => r

/-- `p.exact(tok)` -/
def exact (s : String) (ts : List Token) : Except PErr (List Token) :=
  if (peek ts).text == s then .ok (adv ts) else .error .exact

/-- `strconv.ParseInt(text, 10, 64)` on the text of an INT token (decimal digits), as a natural number -/
def parseNatAux : List Char → Nat → Option Nat
  | [], acc => some acc
  | c :: cs, acc => if isDecimal c then parseNatAux cs (acc * 10 + (c.toNat - 48)) else none

def parseNat (s : String) : Option Nat :=
  match s.toList with
  | [] => none
  | cs => parseNatAux cs 0

/-- `t.intValue()` -/
def intValue (s : String) : Option Int :=
  match parseNat s with
  | some n => if n ≤ 9223372036854775807 then some (Int.ofNat n) else none
  | none => none

/-- `strconv.ParseInt("-"+text, 10, 64)` -/
def negIntValue (s : String) : Option Int :=
  match parseNat s with
  | some n => if n ≤ 9223372036854775808 then some (-(Int.ofNat n)) else none
  | none => none

def strVal (t : Token) : Except PErr String :=
  match stringValue t.text with
  | .ok s => .ok s
  | .error e => .error (.unquote e)

/-! ## entity references and paths (no fuel: structural on the token list) -/

/-- `entityFirstPathPreread`: `{ '::' IDENT } '::' STR` -/
def entityPath : String → List Token → Except PErr (UID × List Token)
  | _, [] => .error .exact
  | ty, c :: rest =>
    if c.text != "::" then .error .exact else
    match rest with
    | [] => .error .token
    | t :: rest' =>
      if t.ty == .ident then entityPath (ty ++ "::" ++ t.text) rest'
      else if t.ty == .string then
        (match strVal t with
         | .ok id => .ok ((ty, id), rest')
         | .error e => .error e)
      else .error .token

/-- `p.entity()` -/
def entity (ts : List Token) : Except PErr (UID × List Token) :=
  if (peek ts).ty == .ident then entityPath (peek ts).text (adv ts) else .error .ident

/-- `pathFirstPathPreread`: `{ '::' IDENT }` -/
def pathRest : String → List Token → Except PErr (String × List Token)
  | ty, [] => .ok (ty, [])
  | ty, c :: rest =>
    if c.text != "::" then .ok (ty, c :: rest) else
    match rest with
    | [] => .error .token
    | t :: rest' => if t.ty == .ident then pathRest (ty ++ "::" ++ t.text) rest' else .error .token

/-- `p.path()` -/
def path (ts : List Token) : Except PErr (String × List Token) :=
  if (peek ts).ty == .ident then pathRest (peek ts).text (adv ts) else .error .ident

/-! ## expressions -/

abbrev PRL (α : Type) := Option (Except PErr (α × List Token))
abbrev PR := PRL Expr
/-- a parser for a nested `expression` -/
abbrev EP := List Token → PR

/-- sequencing of parser steps: out-of-fuel and errors propagate (this is Go's `if err != nil { return … }`) -/
def bindP {α β : Type} (a : Option (Except PErr α)) (k : α → Option (Except PErr β)) : Option (Except PErr β) :=
  match a with
  | none => none
  | some (.error e) => some (.error e)
  | some (.ok v) => k v

def okP {α : Type} (v : α) : Option (Except PErr α) := some (.ok v)
def errP {α : Type} (e : PErr) : Option (Except PErr α) := some (.error e)

/-- `p.expressions(endOfListMarker)`; the caller consumes the marker -/
def exprList (E : EP) (close : String) : Nat → List Token → PRL (List Expr)
  | 0, _ => none
  | n + 1, ts =>
    if (peek ts).text == close then okP ([], ts) else
    bindP (E ts) fun r =>
      if (peek r.2).text == "," then
        bindP (exprList E close n (adv r.2)) fun rs => okP (r.1 :: rs.1, rs.2)
      else if (peek r.2).text == close then okP ([r.1], r.2)
      else errP .comma

/-- the key of `recordEntry` -/
def recordKey (t : Token) : Except PErr String :=
  if t.ty == .ident then .ok t.text
  else if t.ty == .string then strVal t
  else .error .token

/-- the loop of `p.record()` including `recordEntry` and the duplicate-key test -/
def recordLoop (E : EP) : Nat → List String → List Token → PRL (List (String × Expr))
  | 0, _, _ => none
  | n + 1, known, ts =>
    if (peek ts).text == "}" then okP ([], adv ts) else
    bindP (some (recordKey (peek ts))) fun k =>
    bindP (some (exact ":" (adv ts))) fun ts1 =>
    bindP (E ts1) fun r =>
      if known.contains k then errP .dupKey
      else if (peek r.2).text == "," then
        bindP (recordLoop E n (k :: known) (adv r.2)) fun rs => okP ((k, r.1) :: rs.1, rs.2)
      else if (peek r.2).text == "}" then okP ([(k, r.1)], adv r.2)
      else errP .comma

/-- the `(` arm of `entityOrExtFun`: known, non-method extension function -/
def checkFunction (name : String) : Except PErr Unit :=
  match extLookup name with
  | none => .error .notFunction
  | some (_, isMethod) => if isMethod then .error .methodAsFunction else .ok ()

/-- `p.entityOrExtFun(prefix)` -/
def entityOrExtFun (E : EP) (n : Nat) : String → List Token → PR
  | _, [] => errP .token
  | pre, t :: rest =>
    if t.text == "::" then
      (match rest with
       | [] => errP .token
       | t2 :: rest2 =>
         if t2.ty == .ident then entityOrExtFun E n (pre ++ "::" ++ t2.text) rest2
         else if t2.ty == .string then bindP (some (strVal t2)) fun id => okP (.lit (.entity pre id), rest2)
         else errP .token)
    else if t.text == "(" then
      bindP (some (checkFunction pre)) fun _ =>
      bindP (exprList E ")" n rest) fun r => okP (.call pre r.1, adv r.2)
    else errP .token

inductive PrimKind where
  | int | str | tru | fls | identCall | var (v : Var) | badIdent | lparen | lbrack | lbrace | bad

def varOf (s : String) : Option Var :=
  if s == "principal" then some .principal
  else if s == "action" then some .action
  else if s == "resource" then some .resource
  else if s == "context" then some .context
  else none

/-- the `switch` of `p.primary()` (`t` = consumed token, `next` = `p.peek()` after it) -/
def primKind (t next : Token) : PrimKind :=
  if t.ty == .int then .int
  else if t.ty == .string then .str
  else if t.text == "true" then .tru
  else if t.text == "false" then .fls
  else if t.ty == .ident then
    (if next.text == "::" || next.text == "(" then .identCall
     else match varOf t.text with
       | some v => .var v
       | none => .badIdent)
  else if t.text == "(" then .lparen
  else if t.text == "[" then .lbrack
  else if t.text == "{" then .lbrace
  else .bad

def intLit (t : Token) : Except PErr Expr :=
  match intValue t.text with
  | some i => .ok (.lit (.long i))
  | none => .error .int

/-- `p.primary()` -/
def primary (E : EP) (n : Nat) (ts : List Token) : PR :=
  match primKind (peek ts) (peek (adv ts)) with
  | .int => bindP (some (intLit (peek ts))) fun e => okP (e, adv ts)
  | .str => bindP (some (strVal (peek ts))) fun s => okP (.lit (.str s), adv ts)
  | .tru => okP (.lit (.bool true), adv ts)
  | .fls => okP (.lit (.bool false), adv ts)
  | .identCall => entityOrExtFun E n (peek ts).text (adv ts)
  | .var v => okP (.var v, adv ts)
  | .badIdent => errP .primary
  | .lparen => bindP (E (adv ts)) fun r => bindP (some (exact ")" r.2)) fun ts3 => okP (r.1, ts3)
  | .lbrack => bindP (exprList E "]" n (adv ts)) fun r => okP (.set r.1, adv r.2)
  | .lbrace => bindP (recordLoop E n [] (adv ts)) fun r => okP (.record r.1, r.2)
  | .bad => errP .primary

/-- the method-name `switch` of `p.access()` -/
def mkMethod (name : String) (lhs : Expr) (args : List Expr) : Except PErr Expr :=
  let one (op : BinOp) : Except PErr Expr :=
    match args with
    | [a] => .ok (.binop op lhs a)
    | _ => .error .arity
  if name == "contains" then one .contains
  else if name == "containsAll" then one .containsAll
  else if name == "containsAny" then one .containsAny
  else if name == "hasTag" then one .hasTag
  else if name == "getTag" then one .getTag
  else if name == "isEmpty" then (match args with | [] => .ok (.unop .isEmpty lhs) | _ => .error .arity)
  else match extLookup name with
    | none => .error .notMethod
    | some (_, isMethod) => if isMethod then .ok (.call name (lhs :: args)) else .error .functionAsMethod

/-- the loop of `p.member()` around `p.access(lhs)` -/
def accessLoop (E : EP) : Nat → Expr → List Token → PR
  | 0, _, _ => none
  | n + 1, lhs, ts =>
    if (peek ts).text == "." then
      (if (peek (adv ts)).ty != .ident then errP .ident
       else if (peek (adv (adv ts))).text == "(" then
         bindP (exprList E ")" n (adv (adv (adv ts)))) fun r =>
         bindP (some (mkMethod (peek (adv ts)).text lhs r.1)) fun node => accessLoop E n node (adv r.2)
       else accessLoop E n (.access lhs (peek (adv ts)).text) (adv (adv ts)))
    else if (peek ts).text == "[" then
      (if (peek (adv ts)).ty != .string then errP .token
       else
         bindP (some (strVal (peek (adv ts)))) fun name =>
         bindP (some (exact "]" (adv (adv ts)))) fun ts3 => accessLoop E n (.access lhs name) ts3)
    else okP (lhs, ts)

/-- `p.member()` -/
def member (E : EP) (n : Nat) (ts : List Token) : PR :=
  bindP (primary E n ts) fun r => accessLoop E n r.1 r.2

/-- the operator-collecting loop of `p.unary()`: `true` = `-`, `false` = `!` -/
def unaryOps : List Token → List Bool × List Token
  | [] => ([], [])
  | t :: rest =>
    if t.text == "-" then let r := unaryOps rest; (true :: r.1, r.2)
    else if t.text == "!" then let r := unaryOps rest; (false :: r.1, r.2)
    else ([], t :: rest)

/-- the final loop of `p.unary()`: apply the collected operators innermost-last first -/
def applyOps : List Bool → Expr → Expr
  | [], e => e
  | b :: rest, e => if b then .unop .neg (applyOps rest e) else .unop .not (applyOps rest e)

def negIntLit (t : Token) : Except PErr Expr :=
  match negIntValue t.text with
  | some i => .ok (.lit (.long i))
  | none => .error .int

/-- `p.memberAccessFollows()`: the token AFTER the current one is `.` or `[` (`peek (adv [])` is the EOF token,
    whose text is empty) -/
def memberFollows (ts : List Token) : Bool :=
  (peek (adv ts)).text == "." || (peek (adv ts)).text == "["

/-- the negative-literal special case of `p.unary()` applies at `ts` (after a final `-`): an INT token that is
    not the receiver of a member access.  In `-5.foo` the minus negates the whole member expression
    (Unary ::= '-' Member), so `5.foo` is left to `member` (repaired defect `negated-int-receiver`). -/
def negLitAt (ts : List Token) : Bool :=
  (peek ts).ty == .int && !memberFollows ts

/-- `p.unary()` including the special case for negative literals -/
def unary (E : EP) (n : Nat) (ts : List Token) : PR :=
  if (unaryOps ts).1.getLast? == some true && negLitAt (unaryOps ts).2 then
    bindP (some (negIntLit (peek (unaryOps ts).2))) fun e =>
      okP (applyOps (unaryOps ts).1.dropLast e, adv (unaryOps ts).2)
  else
    bindP (member E n (unaryOps ts).2) fun r => okP (applyOps (unaryOps ts).1 r.1, r.2)

def multLoop (E : EP) (m : Nat) : Nat → Expr → List Token → PR
  | 0, _, _ => none
  | n + 1, lhs, ts =>
    if (peek ts).text == "*" then
      bindP (unary E m (adv ts)) fun r => multLoop E m n (.binop .mul lhs r.1) r.2
    else okP (lhs, ts)

/-- `p.mult()` -/
def mult (E : EP) (n : Nat) (ts : List Token) : PR :=
  bindP (unary E n ts) fun r => multLoop E n n r.1 r.2

def addOp (s : String) : Option BinOp :=
  if s == "+" then some .add else if s == "-" then some .sub else none

def addLoop (E : EP) (m : Nat) : Nat → Expr → List Token → PR
  | 0, _, _ => none
  | n + 1, lhs, ts =>
    match addOp (peek ts).text with
    | none => okP (lhs, ts)
    | some op => bindP (mult E m (adv ts)) fun r => addLoop E m n (.binop op lhs r.1) r.2

/-- `p.add()` -/
def add (E : EP) (n : Nat) (ts : List Token) : PR :=
  bindP (mult E n ts) fun r => addLoop E n n r.1 r.2

/-- the chained-attribute loop of `p.has()`: `result`, `currentLHS` -/
def hasPath : Expr → Expr → List Token → Except PErr (Expr × List Token)
  | result, _, [] => .ok (result, [])
  | result, cur, d :: rest =>
    if d.text != "." then .ok (result, d :: rest) else
    match rest with
    | [] => .error .ident
    | t :: rest' =>
      if t.ty != .ident then .error .ident
      else hasPath (.binop .and result (.has cur t.text)) (.access cur t.text) rest'

/-- `p.has(lhs)` -/
def parseHas (lhs : Expr) (ts : List Token) : Except PErr (Expr × List Token) :=
  let t := peek ts
  if t.ty == .ident then hasPath (.has lhs t.text) (.access lhs t.text) (adv ts)
  else if t.ty == .string then
    (match strVal t with
     | .ok s => .ok (.has lhs s, adv ts)
     | .error e => .error e)
  else .error .token

/-- `p.like(lhs)` -/
def parseLike (lhs : Expr) (ts : List Token) : Except PErr (Expr × List Token) :=
  let t := peek ts
  if t.ty != .string then .error .string
  else match parsePattern (trimQuotes t.text.toList) with
    | .ok p => .ok (.like lhs p, adv ts)
    | .error e => .error (.unquote e)

/-- `p.is(lhs)` -/
def parseIs (E : EP) (n : Nat) (lhs : Expr) (ts : List Token) : PR :=
  bindP (some (path ts)) fun p =>
    if (peek p.2).text == "in" then
      bindP (add E n (adv p.2)) fun r => okP (.isIn lhs p.1 r.1, r.2)
    else okP (.is lhs p.1, p.2)

/-- the RELOP `switch` of `p.relation()` -/
def relOp (s : String) : Option BinOp :=
  if s == "<" then some .lt
  else if s == "<=" then some .le
  else if s == ">" then some .gt
  else if s == ">=" then some .ge
  else if s == "!=" then some .ne
  else if s == "==" then some .eq
  else if s == "in" then some .in_
  else none

/-- `p.relation()` after the left operand: has / like / is / RELOP / nothing -/
def relTail (E : EP) (n : Nat) (lhs : Expr) (ts1 : List Token) : PR :=
  if (peek ts1).text == "has" then some (parseHas lhs (adv ts1))
  else if (peek ts1).text == "like" then some (parseLike lhs (adv ts1))
  else if (peek ts1).text == "is" then parseIs E n lhs (adv ts1)
  else match relOp (peek ts1).text with
    | none => okP (lhs, ts1)
    | some op => bindP (add E n (adv ts1)) fun r => okP (.binop op lhs r.1, r.2)

/-- `p.relation()` -/
def relation (E : EP) (n : Nat) (ts : List Token) : PR :=
  bindP (add E n ts) fun r => relTail E n r.1 r.2

def andLoop (E : EP) (m : Nat) : Nat → Expr → List Token → PR
  | 0, _, _ => none
  | n + 1, lhs, ts =>
    if (peek ts).text == "&&" then
      bindP (relation E m (adv ts)) fun r => andLoop E m n (.binop .and lhs r.1) r.2
    else okP (lhs, ts)

/-- `p.and()` -/
def and_ (E : EP) (n : Nat) (ts : List Token) : PR :=
  bindP (relation E n ts) fun r => andLoop E n n r.1 r.2

def orLoop (E : EP) (m : Nat) : Nat → Expr → List Token → PR
  | 0, _, _ => none
  | n + 1, lhs, ts =>
    if (peek ts).text == "||" then
      bindP (and_ E m (adv ts)) fun r => orLoop E m n (.binop .or lhs r.1) r.2
    else okP (lhs, ts)

/-- `p.or()` -/
def or_ (E : EP) (n : Nat) (ts : List Token) : PR :=
  bindP (and_ E n ts) fun r => orLoop E n n r.1 r.2

/-- `p.expression()`; nested expressions are parsed by `E` -/
def expression (E : EP) (n : Nat) (ts : List Token) : PR :=
  if (peek ts).text == "if" then
    bindP (E (adv ts)) fun c =>
    bindP (some (exact "then" c.2)) fun ts2 =>
    bindP (E ts2) fun t =>
    bindP (some (exact "else" t.2)) fun ts4 =>
    bindP (E ts4) fun e => okP (.ite c.1 t.1 e.1, e.2)
  else or_ E n ts

/-- the knot: `expression` with `n` levels of nesting and `n` loop iterations available -/
def exprF : Nat → EP
  | 0 => fun _ => none
  | n + 1 => expression (exprF n) n

/-! ## policies -/

/-- `p.annotations()` / `p.annotation()` -/
def annotations : List String → List Token → Except PErr (List (String × String) × List Token)
  | _, [] => .ok ([], [])
  | known, a :: rest =>
    if a.text != "@" then .ok ([], a :: rest) else
    match rest with
    | [] => .error .ident
    | t :: rest1 =>
      if !(t.ty == .ident || t.ty == .keyword) then .error .ident else
      match rest1 with
      | [] => .error .exact
      | lp :: rest2 =>
        if lp.text != "(" then .error .exact
        else if known.contains t.text then .error .dupAnnotation
        else match rest2 with
          | [] => .error .string
          | s :: rest3 =>
            if s.ty != .string then .error .string else
            match strVal s with
            | .error e => .error e
            | .ok v =>
              match rest3 with
              | [] => .error .exact
              | rp :: rest4 =>
                if rp.text != ")" then .error .exact else
                match annotations (t.text :: known) rest4 with
                | .error e => .error e
                | .ok (anns, ts') => .ok ((t.text, v) :: anns, ts')

/-- `p.effect()` -/
def effect (ts : List Token) : Except PErr (Effect × List Token) :=
  if (peek ts).text == "permit" then .ok (.permit, adv ts)
  else if (peek ts).text == "forbid" then .ok (.forbid, adv ts)
  else .error .effect

/-- the `is` arm shared by `p.principal()` and `p.resource()` -/
def scopeIs (ts : List Token) : Except PErr (Scope × List Token) :=
  match path ts with
  | .error e => .error e
  | .ok (ty, ts1) =>
    if (peek ts1).text == "in" then
      (match entity (adv ts1) with
       | .error e => .error e
       | .ok (u, ts2) => .ok (.isIn ty u, ts2))
    else .ok (.is ty, ts1)

/-- `p.principal()` / `p.resource()` (after the variable name) -/
def scopePR (ts : List Token) : Except PErr (Scope × List Token) :=
  let s := (peek ts).text
  if s == "==" then
    (match entity (adv ts) with | .error e => .error e | .ok (u, ts1) => .ok (.eq u, ts1))
  else if s == "is" then scopeIs (adv ts)
  else if s == "in" then
    (match entity (adv ts) with | .error e => .error e | .ok (u, ts1) => .ok (.in_ u, ts1))
  else .ok (.all, ts)

/-- `p.entlist()`: stops AT the closing `]`.  Fuel-free: every iteration consumes a token. -/
def entlist : Nat → List Token → Except PErr (List UID × List Token)
  | 0, _ => .error .token          -- unreachable with fuel = length + 1
  | n + 1, ts =>
    if (peek ts).text == "]" then .ok ([], ts) else
    match entity ts with
    | .error e => .error e
    | .ok (u, ts1) =>
      if (peek ts1).text == "," then
        (match entlist n (adv ts1) with
         | .error e => .error e
         | .ok (us, ts2) => .ok (u :: us, ts2))
      else if (peek ts1).text == "]" then .ok ([u], ts1)
      else .error .comma

/-- `p.action()` (after the variable name) -/
def scopeA (ts : List Token) : Except PErr (Scope × List Token) :=
  let s := (peek ts).text
  if s == "==" then
    (match entity (adv ts) with | .error e => .error e | .ok (u, ts1) => .ok (.eq u, ts1))
  else if s == "in" then
    (if (peek (adv ts)).text == "[" then
      (match entlist ((adv (adv ts)).length + 1) (adv (adv ts)) with
       | .error e => .error e
       | .ok (us, ts1) => .ok (.inSet us, adv ts1))
     else match entity (adv ts) with | .error e => .error e | .ok (u, ts1) => .ok (.in_ u, ts1))
  else .ok (.all, ts)

/-- `p.condition()` -/
def condition (n : Nat) (ts : List Token) : PR :=
  bindP (some (exact "{" ts)) fun ts1 =>
  bindP (exprF n ts1) fun r =>
  bindP (some (exact "}" r.2)) fun ts3 => okP (r.1, ts3)

/-- `p.conditions()` -/
def conditions (m : Nat) : Nat → List Token → PRL (List (Bool × Expr))
  | 0, _ => none
  | n + 1, ts =>
    if (peek ts).text == "when" || (peek ts).text == "unless" then
      bindP (condition m (adv ts)) fun r =>
      bindP (conditions m n r.2) fun rs => okP (((peek ts).text == "when", r.1) :: rs.1, rs.2)
    else okP ([], ts)

def posOfC07 (t : Token) : Position := { filename := "", offset := t.pos.offset, line := t.pos.line, column := t.pos.column }

/-- everything of `Policy.fromCedar` before the conditions: annotations, effect, scope -/
structure Head where
  annotations : List (String × String)
  effect : Effect
  principal : Scope
  action : Scope
  resource : Scope

/-- sequencing of fuel-free steps -/
def bindE {α β : Type} (a : Except PErr α) (k : α → Except PErr β) : Except PErr β :=
  match a with
  | .error e => .error e
  | .ok v => k v

def policyHead (ts : List Token) : Except PErr (Head × List Token) :=
  bindE (annotations [] ts) fun an =>
  bindE (effect an.2) fun ef =>
  bindE (exact "(" ef.2) fun ts3 =>
  bindE (exact "principal" ts3) fun ts4 =>
  bindE (scopePR ts4) fun pr =>
  bindE (exact "," pr.2) fun ts6 =>
  bindE (exact "action" ts6) fun ts7 =>
  bindE (scopeA ts7) fun ac =>
  bindE (exact "," ac.2) fun ts9 =>
  bindE (exact "resource" ts9) fun ts10 =>
  bindE (scopePR ts10) fun re =>
  bindE (exact ")" (if (peek re.2).text == "," then adv re.2 else re.2)) fun ts13 =>      -- skipAtMostOnce(",")
    .ok (⟨an.1, ef.1, pr.1, ac.1, re.1⟩, ts13)

/-- `Policy.fromCedar` -/
def policy (n : Nat) (ts : List Token) : PRL Policy :=
  bindP (some (policyHead ts)) fun h =>
  bindP (conditions n n h.2) fun cs =>
  bindP (some (exact ";" cs.2)) fun ts15 =>
    okP ({ effect := h.1.effect, annotations := h.1.annotations, principal := h.1.principal, action := h.1.action,
           resource := h.1.resource, conditions := cs.1, position := posOfC07 (peek ts) }, ts15)

/-- fuel that is always sufficient (`C07_parser_total`) -/
def parseFuel (ts : List Token) : Nat := ts.length + 2

/-- `Policy.UnmarshalCedar` on the tokens of the input: `none` = out of fuel (never happens),
    `some (.error _)` = rejected, `some (.ok p)` = parsed (trailing tokens are ignored, as in Go) -/
def parsePolicy (ts : List Token) : Option (Except PErr Policy) :=
  match policy (parseFuel ts) ts with
  | none => none
  | some (.error e) => some (.error e)
  | some (.ok (p, _)) => some (.ok p)

/-- `PolicySlice.UnmarshalCedar`: policies until EOF -/
def policiesLoop (m : Nat) : Nat → List Token → Option (Except PErr (List Policy))
  | 0, _ => none
  | n + 1, ts =>
    if (peek ts).ty == .eof then okP [] else
    bindP (policy m ts) fun r =>
    bindP (policiesLoop m n r.2) fun ps => okP (r.1 :: ps)

def parsePolicies (ts : List Token) : Option (Except PErr (List Policy)) :=
  policiesLoop (parseFuel ts) (parseFuel ts) ts

/-- a single expression followed by nothing (used by tests and theorems) -/
def parseExpr (ts : List Token) : Option (Except PErr (Expr × List Token)) := exprF (parseFuel ts) ts

end CedarGo.Text
