/-
  Model of Go's Cedar text marshaller (`internal/parser/cedar_marshal.go`, `node.go`, and the value
  renderers `types.String/Long/Boolean/EntityUID.MarshalCedar`, `Pattern.MarshalCedar`) — C08.

  The output is a list of `Piece`s: tokens and the white space Go writes between them, so that both the
  exact bytes (`pieceText`) and the token list the parser will see (`pieceToks`) are available.
  Go's precedence table is `goPrec`: a `NodeValue` is ALWAYS `primaryPrecedence`, also a negative long
  that is written `-5`; the RECEIVER of a member access / method call is written by `marshalReceiverNode`
  (`goWrapRecv`), which parenthesises a negative long: `(-5).foo` (repaired defect `negative-literal-receiver`).

  `NodeValue`s holding sets, records and extension values are written by `types.Set/Record/Decimal/IPAddr/
  Datetime/Duration.MarshalCedar` (`marshalValW`): `[m₁, m₂]`, `{"k":v, "l":w}` (keys through the Cedar string
  escapes, ascending), `decimal("1.5")`, `ip("::1/64")`, `datetime("…")`, `duration("…")` with the RAW text of the
  value's `String()` between the quotes.  Go writes the members of a set in hash-slot order; the model writes them
  in the order of the member list (`marshalLit`), and `marshalValW ord` lets the driver apply a canonical order to
  the member renderings so that bytes can be compared with Go's up to member order (op `marshal-value`).

  Not modelled (the driver answers `skip`): method-style extension calls without a receiver
  (function style `f()`, outside the grammar), entity types / annotation keys that are not grammar paths /
  identifiers; at policy level, set values with two or more members (their order is Go's hash-slot order).
-/
import CedarGo.Model.Text.Printer
namespace CedarGo.Text
open CedarGo

inductive Piece where
  | t (tok : Token)
  | s (str : String)
deriving Repr, Inhabited

def pieceToks : List Piece → List Token
  | [] => []
  | .t tok :: rest => tok :: pieceToks rest
  | .s _ :: rest => pieceToks rest

def pieceStr : Piece → String
  | .t tok => tok.text
  | .s str => str

def pieceText (ps : List Piece) : String := String.join (ps.map pieceStr)

/-- `precedenceLevel()` of the marshal node wrapping an AST node -/
def goPrec : Expr → Nat
  | .ite .. => 0
  | .binop op _ _ => binPrec op
  | .has .. | .like .. | .is .. | .isIn .. => 3
  | .unop .not _ | .unop .neg _ => 6
  | .unop .isEmpty _ | .access .. => 7
  | .call _ _ => 7                      -- NodeTypeExtensionCall: accessPrecedence, function or method
  | .lit _ | .var _ | .set _ | .record _ => 8

/-- `marshalChildNode(thisNodePrecedence, child, buf)` given the child's pieces -/
def goWrap (lvl : Nat) (child : Expr) (ps : List Piece) : List Piece :=
  if lvl > goPrec child then .t (opT "(") :: (ps ++ [.t (opT ")")]) else ps

def isNegLong : Expr → Bool
  | .lit (.long n) => decide (n < 0)
  | _ => false

/-- `marshalReceiverNode(thisNodePrecedence, receiver, buf)`: a negative long literal is always parenthesised -/
def goWrapRecv (lvl : Nat) (child : Expr) (ps : List Piece) : List Piece :=
  if isNegLong child then .t (opT "(") :: (ps ++ [.t (opT ")")]) else goWrap lvl child ps

def toksP (ts : List Token) : List Piece := ts.map .t

/-- a string literal token whose body is written RAW (no escaping): `"` + s + `"` -/
def rawStrT (s : String) : Token := ⟨.string, noPos, String.ofList ('"' :: (s.toList ++ ['"']))⟩

/-- `types.Decimal/IPAddr/Datetime/Duration.MarshalCedar`: `name("` + `String()` + `")` -/
def extCallP (fn : String) (arg : String) : List Piece := [.t (idT fn), .t (opT "("), .t (rawStrT arg), .t (opT ")")]

/-- renderings joined by `", "` -/
def joinCommaP : List (List Piece) → List Piece
  | [] => []
  | [x] => x
  | x :: rest => x ++ .t (opT ",") :: .s " " :: joinCommaP rest

mutual
/-- `Value.MarshalCedar()`; `ord` = the order in which a set writes the renderings of its members
    (Go: ascending hash slot; `id` = the order of the member list) -/
def marshalValW (ord : List (List Piece) → List (List Piece)) : Value → List Piece
  | .bool b => [.t (kwT (if b then "true" else "false"))]
  | .long n => if n < 0 then [.t (opT "-"), .t (intT n.natAbs)] else [.t (intT n.toNat)]
  | .str s => [.t (strT s)]
  | .entity ty id => toksP (pathToks ty ++ [opT "::", strT id])
  | .set xs => .t (opT "[") :: (joinCommaP (ord (marshalValsW ord xs)) ++ [.t (opT "]")])
  | .record kvs => .t (opT "{") :: (joinCommaP (marshalKVsW ord kvs) ++ [.t (opT "}")])
  | .decimal d => extCallP "decimal" (Scalars.printDecimal d)
  | .datetime t => extCallP "datetime" (Scalars.printDatetime t)
  | .duration d => extCallP "duration" (Scalars.printDuration d)
  | .ip a => extCallP "ip" (Scalars.printIP a)
def marshalValsW (ord : List (List Piece) → List (List Piece)) : List Value → List (List Piece)
  | [] => []
  | v :: vs => marshalValW ord v :: marshalValsW ord vs
/-- `Record.MarshalCedar`: `key:value` in the order of the (key-sorted) entry list -/
def marshalKVsW (ord : List (List Piece) → List (List Piece)) : List (String × Value) → List (List Piece)
  | [] => []
  | (k, v) :: rest => (.t (strT k) :: .t (opT ":") :: marshalValW ord v) :: marshalKVsW ord rest
end

/-- `Value.MarshalCedar()` with set members in list order -/
def marshalLit (v : Value) : List Piece := marshalValW id v

/-- strictly ascending keys: the entry list of a Go `Record` as `MarshalCedar` visits it -/
def keysAsc : List (String × Value) → Bool
  | [] => true
  | [_] => true
  | (k, _) :: (k', v') :: rest => decide (k < k') && keysAsc ((k', v') :: rest)

mutual
/-- values whose `MarshalCedar` the model covers: entity types that are grammar paths, records listed by strictly
    ascending key -/
def litModelled : Value → Bool
  | .bool _ | .long _ | .str _ => true
  | .entity ty _ => isPathName ty
  | .set xs => litsModelled xs
  | .record kvs => keysAsc kvs && kvLitsModelled kvs
  | .decimal _ | .datetime _ | .duration _ | .ip _ => true
def litsModelled : List Value → Bool
  | [] => true
  | v :: vs => litModelled v && litsModelled vs
def kvLitsModelled : List (String × Value) → Bool
  | [] => true
  | (_, v) :: rest => litModelled v && kvLitsModelled rest
end

mutual
/-- every set inside the value has at most one member: then Go's member order is the model's, and the BYTES of a
    policy containing the value can be compared -/
def setsSmall : Value → Bool
  | .set xs => xs.length ≤ 1 && setsSmallL xs
  | .record kvs => setsSmallKV kvs
  | _ => true
def setsSmallL : List Value → Bool
  | [] => true
  | v :: vs => setsSmall v && setsSmallL vs
def setsSmallKV : List (String × Value) → Bool
  | [] => true
  | (_, v) :: rest => setsSmall v && setsSmallKV rest
end

/-- `canMarshalAsIdent` decides between `.name` / `["name"]` and `has name` / `has "name"` -/
def goAccessP (a : String) : List Piece :=
  if isIdentName a then [.t (opT "."), .t (idT a)] else [.t (opT "["), .t (strT a), .t (opT "]")]

def goAttrP (a : String) : Piece := if isIdentName a then .t (idT a) else .t (strT a)

/-- infix operator text and the precedence levels passed for the left / right child -/
def goInfix : BinOp → Option (Token × Nat × Nat)
  | .or => some (opT "||", 1, 2)
  | .and => some (opT "&&", 2, 3)
  | .eq => some (opT "==", 4, 4)
  | .ne => some (opT "!=", 4, 4)
  | .lt => some (opT "<", 4, 4)
  | .le => some (opT "<=", 4, 4)
  | .gt => some (opT ">", 4, 4)
  | .ge => some (opT ">=", 4, 4)
  | .in_ => some (kwT "in", 4, 4)
  | .add => some (opT "+", 4, 5)
  | .sub => some (opT "-", 4, 5)
  | .mul => some (opT "*", 5, 6)
  | _ => none

def goMethodName : BinOp → String
  | .contains => "contains" | .containsAll => "containsAll" | .containsAny => "containsAny"
  | .getTag => "getTag" | .hasTag => "hasTag" | _ => ""

mutual
/-- `astNodeToMarshalNode(n).marshalCedar(buf)` -/
def marshalExpr : Expr → List Piece
  | .lit v => marshalLit v
  | .var v => [.t (idT (varName v))]
  | .unop .not e => .t (opT "!") :: goWrap 6 e (marshalExpr e)
  | .unop .neg e => .t (opT "-") :: goWrap 6 e (marshalExpr e)
  | .unop .isEmpty e => goWrapRecv 7 e (marshalExpr e) ++ toksP [opT ".", idT "isEmpty", opT "(", opT ")"]
  | .binop op l r =>
    (match goInfix op with
     | some (tok, lp, rp) => goWrap lp l (marshalExpr l) ++ .s " " :: .t tok :: .s " " :: goWrap rp r (marshalExpr r)
     | none =>
       goWrapRecv 7 l (marshalExpr l) ++ .t (opT ".") :: .t (idT (goMethodName op)) :: .t (opT "(") ::
         (goWrap 7 r (marshalExpr r) ++ [.t (opT ")")]))
  | .ite c t e =>
    .t (kwT "if") :: .s " " :: (goWrap 0 c (marshalExpr c) ++ .s " " :: .t (kwT "then") :: .s " " ::
      (goWrap 0 t (marshalExpr t) ++ .s " " :: .t (kwT "else") :: .s " " :: goWrap 0 e (marshalExpr e)))
  | .access e a => goWrapRecv 7 e (marshalExpr e) ++ goAccessP a
  | .has e a => goWrap 4 e (marshalExpr e) ++ [.s " ", .t (kwT "has"), .s " ", goAttrP a]
  | .like e p =>
    goWrap 4 e (marshalExpr e) ++ .s " " :: .t (kwT "like") :: .s " " :: (match patT p with | some t => [.t t] | none => [])
  | .is e ty => goWrap 4 e (marshalExpr e) ++ .s " " :: .t (kwT "is") :: .s " " :: toksP (pathToks ty)
  | .isIn e ty r =>
    goWrap 4 e (marshalExpr e) ++ .s " " :: .t (kwT "is") :: .s " " :: (toksP (pathToks ty) ++
      .s " " :: .t (kwT "in") :: .s " " :: goWrap 4 r (marshalExpr r))
  | .set es => .t (opT "[") :: (marshalArgs 8 es ++ [.t (opT "]")])
  | .record kes => .t (opT "{") :: (marshalKVs kes ++ [.t (opT "}")])
  | .call fn args =>
    if isMethodName fn then
      (match args with
       | [] => [.t (idT fn), .t (opT "("), .t (opT ")")]   -- no receiver (programmatic only): function style `f()`, outside `exprModelled`
       | recv :: rest =>
         goWrapRecv 7 recv (marshalExpr recv) ++ .t (opT ".") :: .t (idT fn) :: .t (opT "(") :: (marshalArgs 7 rest ++ [.t (opT ")")]))
    else .t (idT fn) :: .t (opT "(") :: (marshalArgs 7 args ++ [.t (opT ")")])
/-- children at level `lvl` separated by `", "` -/
def marshalArgs (lvl : Nat) : List Expr → List Piece
  | [] => []
  | [e] => goWrap lvl e (marshalExpr e)
  | e :: rest => goWrap lvl e (marshalExpr e) ++ .t (opT ",") :: .s " " :: marshalArgs lvl rest
def marshalKVs : List (String × Expr) → List Piece
  | [] => []
  | [(k, e)] => .t (strT k) :: .t (opT ":") :: goWrap 8 e (marshalExpr e)
  | (k, e) :: rest => .t (strT k) :: .t (opT ":") :: (goWrap 8 e (marshalExpr e) ++ .t (opT ",") :: .s " " :: marshalKVs rest)
end

mutual
/-- inside the modelled domain of `marshalExpr` -/
def exprModelled : Expr → Bool
  | .lit v => litModelled v && setsSmall v
  | .var _ => true
  | .unop _ e => exprModelled e
  | .binop _ l r => exprModelled l && exprModelled r
  | .ite c t e => exprModelled c && exprModelled t && exprModelled e
  | .access e _ => exprModelled e
  | .has e _ => exprModelled e
  | .like e p => exprModelled e && (patT p).isSome
  | .is e ty => exprModelled e && isPathName ty
  | .isIn e ty r => exprModelled e && isPathName ty && exprModelled r
  | .set es => argsModelled es
  | .record kes => kvsModelled kes
  | .call fn args => isIdentName fn && (!isMethodName fn || !args.isEmpty) && argsModelled args
def argsModelled : List Expr → Bool
  | [] => true
  | e :: rest => exprModelled e && argsModelled rest
def kvsModelled : List (String × Expr) → Bool
  | [] => true
  | (_, e) :: rest => exprModelled e && kvsModelled rest
end

def uidP (u : UID) : List Piece := toksP (uidToks u)

def uidListP : List UID → List Piece
  | [] => []
  | [u] => uidP u
  | u :: rest => uidP u ++ .t (opT ",") :: .s " " :: uidListP rest

/-- `scopeToNode` + `marshalCedar` -/
def marshalScope (v : Var) : Scope → List Piece
  | .all => [.t (idT (varName v))]
  | .eq e => .t (idT (varName v)) :: .s " " :: .t (opT "==") :: .s " " :: uidP e
  | .in_ e => .t (idT (varName v)) :: .s " " :: .t (kwT "in") :: .s " " :: uidP e
  | .inSet es => .t (idT (varName v)) :: .s " " :: .t (kwT "in") :: .s " " :: .t (opT "[") :: (uidListP es ++ [.t (opT "]")])
  | .is ty => .t (idT (varName v)) :: .s " " :: .t (kwT "is") :: .s " " :: toksP (pathToks ty)
  | .isIn ty e =>
    .t (idT (varName v)) :: .s " " :: .t (kwT "is") :: .s " " :: (toksP (pathToks ty) ++ .s " " :: .t (kwT "in") :: .s " " :: uidP e)

def scopeModelled : Scope → Bool
  | .all => true
  | .eq e | .in_ e => isPathName e.1
  | .inSet es => es.all (fun e => isPathName e.1)
  | .is ty => isPathName ty
  | .isIn ty e => isPathName ty && isPathName e.1

def marshalAnnotations : List (String × String) → List Piece
  | [] => []
  | (k, v) :: rest =>
    .t (opT "@") :: .t (if reservedKeywords.contains k then kwT k else idT k) :: .t (opT "(") :: .t (strT v) ::
      .t (opT ")") :: .s "\n" :: marshalAnnotations rest

def marshalConditions : List (Bool × Expr) → List Piece
  | [] => []
  | (w, e) :: rest =>
    .s "\n" :: .t (idT (if w then "when" else "unless")) :: .s " " :: .t (opT "{") :: .s " " ::
      (marshalExpr e ++ .s " " :: .t (opT "}") :: marshalConditions rest)

/-- `Policy.MarshalCedar` -/
def marshalPolicy (p : Policy) : List Piece :=
  marshalAnnotations p.annotations ++
  .t (idT (match p.effect with | .permit => "permit" | .forbid => "forbid")) :: .s " " ::
  ((if p.principal.isAll && p.action.isAll && p.resource.isAll then
      [.t (opT "("), .s " ", .t (idT "principal"), .t (opT ","), .s " ", .t (idT "action"), .t (opT ","), .s " ",
       .t (idT "resource"), .s " ", .t (opT ")")]
    else
      .t (opT "(") :: .s "\n    " :: (marshalScope .principal p.principal ++ .t (opT ",") :: .s "\n    " ::
        (marshalScope .action p.action ++ .t (opT ",") :: .s "\n    " ::
          (marshalScope .resource p.resource ++ [.s "\n", .t (opT ")")]))))
   ++ (marshalConditions p.conditions ++ [.t (opT ";")]))

def policyModelled (p : Policy) : Bool :=
  p.annotations.all (fun kv => isAnnotationKey kv.1) &&
  scopeModelled p.principal && scopeModelled p.action && scopeModelled p.resource &&
  p.conditions.all (fun c => exprModelled c.2)

end CedarGo.Text
