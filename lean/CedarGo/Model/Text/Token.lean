/-
  Tokens of the Cedar policy text scanner (internal/parser/cedar_tokenize.go): shared by the
  scanner/lexer models (C18) and the parser/printer models (C07/C08).
-/
namespace CedarGo.Text

inductive TokType where
  | eof | ident | int | keyword | string | operator | unknown
deriving DecidableEq, Repr, Inhabited

/-- `Position` without the file name: byte offset (from 0), line (from 1), column (from 1, in characters) -/
structure Pos where
  offset : Nat
  line : Nat
  column : Nat
deriving DecidableEq, Repr, Inhabited

/-- `Token`: `text` is the raw source text of the token (string tokens keep their quotes and escapes) -/
structure Token where
  ty : TokType
  pos : Pos
  text : String
deriving DecidableEq, Repr, Inhabited

/-- `reservedKeywords` -/
def reservedKeywords : List String := ["true", "false", "if", "then", "else", "in", "like", "has", "is", "__cedar"]

end CedarGo.Text
