/-
  The decidable fragments on which the round-trip theorems of C07 / C08 are PROVED
  (CedarGoProofs/Properties/C07.lean, C08.lean).  They live in the model library so that the driver can report,
  for every generated case, whether it lies inside the proved domain (op `fragment`).
-/
import CedarGo.Model.Text.Parser
import CedarGo.Model.Text.Marshal
namespace CedarGo.Text
open CedarGo

/-- receiver / known function of an extension call, as `mkMethod` / `checkFunction` accept it -/
def callOK (fn : String) (args : List Expr) : Bool :=
  if isMethodName fn then !args.isEmpty
  else (match checkFunction fn with | .ok _ => true | .error _ => false)

/-- components after the first of a `types.NewPattern` result: all carry a wildcard; an empty literal only in
    last position (the same predicate as `C01L.wfTail`, Lemmas/C01Pattern.lean) -/
def patTailOK : Pattern → Bool
  | [] => true
  | c :: rest => c.wildcard && (!c.literal.isEmpty || rest.isEmpty) && patTailOK rest

/-- the literal chunk is valid UTF-8: it decodes, and the decoded characters encode to the same bytes
    (Go strings with invalid UTF-8 are outside the model) -/
def litUtf8OK (c : PatComp) : Bool :=
  match ofUtf8 c.literal with
  | some l => utf8 l == c.literal
  | none => false

/-- **`NewPattern` normal form** of a pattern literal: at least one component (`ParsePattern` never returns the
    component-less `Pattern{}`: the text `""` is read as the single empty literal), a component without wildcard only
    in first position, an empty literal only in last position (= `WFPattern`, the invariant `types.NewPattern`
    establishes: `C07_patOK_iff`), every literal chunk valid UTF-8 -/
def patOK : Pattern → Bool
  | [] => false
  | c :: rest => (!c.literal.isEmpty || rest.isEmpty) && patTailOK rest && (c :: rest).all litUtf8OK

mutual
/-- the fragment of expressions for which the round trip `parse ∘ render` is PROVED.
    Not in the fragment (`false`): literals of sets / records / extension values, entity types that
    are not paths of identifiers, longs outside int64, records with duplicate keys, unknown
    or receiver-less extension calls, `like` patterns outside `NewPattern` normal form (`patOK`). -/
def inFrag (full : Bool) : Expr → Bool
  | .lit (.bool _) => true
  | .lit (.long n) => decide (-9223372036854775808 ≤ n) && decide (n ≤ 9223372036854775807)
  | .lit (.str _) => true
  | .lit (.entity ty _) => isPathName ty
  | .lit _ => false
  | .var _ => true
  | .unop .not e => inFrag full e
  | .unop .neg e => inFrag full e
  | .unop .isEmpty e => inFrag full e
  | .binop _ l r => inFrag full l && inFrag full r
  | .ite c t e => inFrag full c && inFrag full t && inFrag full e
  | .access e _ => inFrag full e
  | .has e _ => inFrag full e
  | .like e p => inFrag full e && patOK p
  | .is e ty => inFrag full e && isPathName ty
  | .isIn e ty r => inFrag full e && isPathName ty && inFrag full r
  | .set es => inFragList full es
  | .record kes => inFragKVs full kes && decide ((kes.map (·.1)).Nodup)
  | .call fn args => callOK fn args && inFragList full args
def inFragList (full : Bool) : List Expr → Bool
  | [] => true
  | e :: es => inFrag full e && inFragList full es
def inFragKVs (full : Bool) : List (String × Expr) → Bool
  | [] => true
  | (_, e) :: kes => inFrag full e && inFragKVs full kes
end

def uidOK (u : UID) : Bool := isPathName u.1

/-- principal / resource scopes of the grammar -/
def scopePROK : Scope → Bool
  | .all => true
  | .eq e => uidOK e
  | .in_ e => uidOK e
  | .inSet _ => false
  | .is ty => isPathName ty
  | .isIn ty e => isPathName ty && uidOK e

/-- action scopes of the grammar -/
def scopeAOK : Scope → Bool
  | .all => true
  | .eq e => uidOK e
  | .in_ e => uidOK e
  | .inSet es => es.all uidOK
  | .is _ => false
  | .isIn _ _ => false

/-- annotation keys are pairwise different -/
def annsOK : List String → List (String × String) → Bool
  | _, [] => true
  | known, (k, _) :: rest => !known.contains k && annsOK (k :: known) rest

def headOKb (h : Head) : Bool :=
  annsOK [] h.annotations && scopePROK h.principal && scopeAOK h.action && scopePROK h.resource

def headOf (p : Policy) : Head := ⟨p.annotations, p.effect, p.principal, p.action, p.resource⟩

/-- policies covered by the proved round trip of `renderMin` / `renderFull`: distinct annotation keys, scope clauses of the grammar over path-shaped entity types, default position, every
    condition body in `inFrag` -/
def policyOK (full : Bool) (p : Policy) : Bool :=
  headOKb (headOf p) && p.position == {} && p.conditions.all (fun c => inFrag full c.2)

mutual
/-- the domain on which `MarshalCedar` is PROVED to be read back to the identical tree: `inFrag` minus
    `-` applied to a non-negative literal (written `-5`: read back as the literal −5, same meaning, different tree) -/
def inFragGo : Expr → Bool
  | .lit (.bool _) => true
  | .lit (.long n) => decide (-9223372036854775808 ≤ n) && decide (n ≤ 9223372036854775807)
  | .lit (.str _) => true
  | .lit (.entity ty _) => isPathName ty
  | .lit _ => false
  | .var _ => true
  | .unop .not e => inFragGo e
  | .unop .neg e => inFragGo e && !isNonNegLong e
  | .unop .isEmpty e => inFragGo e
  | .binop _ l r => inFragGo l && inFragGo r
  | .ite c t e => inFragGo c && inFragGo t && inFragGo e
  | .access e _ => inFragGo e
  | .has e _ => inFragGo e
  | .like e p => inFragGo e && patOK p
  | .is e ty => inFragGo e && isPathName ty
  | .isIn e ty r => inFragGo e && isPathName ty && inFragGo r
  | .set es => inFragGoList es
  | .record kes => inFragGoKVs kes && decide ((kes.map (·.1)).Nodup)
  | .call fn args => callOK fn args && inFragGoList args
def inFragGoList : List Expr → Bool
  | [] => true
  | e :: es => inFragGo e && inFragGoList es
def inFragGoKVs : List (String × Expr) → Bool
  | [] => true
  | (_, e) :: kes => inFragGo e && inFragGoKVs kes
end

/-- policies on which `MarshalCedar` is proved to round-trip exactly (general head) -/
def policyOKGo (p : Policy) : Bool :=
  headOKb (headOf p) && p.position == {} && p.conditions.all (fun c => inFragGo c.2)

/-! ## C08: `NodeValue`s holding sets, records and extension values

  Such a node has no literal syntax: `MarshalCedar` writes it as a set literal / record literal / constructor call, and
  the parser reads THAT tree back (`valExpr`): not the identical AST, but an expression that evaluates to the value. -/

def inI64B (n : Int) : Bool := decide (-9223372036854775808 ≤ n) && decide (n ≤ 9223372036854775807)

/-- ip values whose text form parses back (`C12_ip_roundtrip_iff`): what `netip` can hold, except the IPv4-mapped block -/
def ipOK (a : IPNet) : Bool :=
  if a.v6 then decide (a.addr < 2 ^ 128) && decide (a.bits ≤ 128) && !(a.addr / 2 ^ 32 == 0xffff)
  else decide (a.addr < 2 ^ 32) && decide (a.bits ≤ 32)

/-- no two members are `Equal` (`seen` = the members before): what `types.NewSet` guarantees -/
def noDupB : List Value → List Value → Bool
  | _, [] => true
  | seen, x :: xs => !Value.memL x seen && noDupB (x :: seen) xs

mutual
/-- values covered by the C08 value theorems: built from booleans, longs (int64), strings, entity uids (type = grammar
    path), duplicate-free sets (in ANY member order), records listed by strictly ascending key, and extension values
    in the range where the C12 round trip `parse (print x) = x` is proved (decimal / duration: int64; datetime: from
    the source's `minDatetime` on; ip: valid, not IPv4-mapped) -/
def valOK : Value → Bool
  | .bool _ => true
  | .long n => inI64B n
  | .str _ => true
  | .entity ty _ => isPathName ty
  | .set xs => valsOK xs && noDupB [] xs
  | .record kvs => kvValsOK kvs && keysAsc kvs
  | .decimal d => inI64B d
  | .duration d => inI64B d
  | .datetime t => decide (Scalars.minDatetimeMs ≤ t) && decide (t ≤ 9223372036854775807)
  | .ip a => ipOK a
def valsOK : List Value → Bool
  | [] => true
  | v :: vs => valOK v && valsOK vs
def kvValsOK : List (String × Value) → Bool
  | [] => true
  | (_, v) :: rest => valOK v && kvValsOK rest
end

mutual
/-- the expression a `NodeValue` is read back as: itself for booleans, longs, strings and entity uids; a set / record
    literal of the members' expressions; the constructor call on the value's text form -/
def valExpr : Value → Expr
  | .bool b => .lit (.bool b)
  | .long n => .lit (.long n)
  | .str s => .lit (.str s)
  | .entity ty id => .lit (.entity ty id)
  | .set xs => .set (valExprs xs)
  | .record kvs => .record (valExprKVs kvs)
  | .decimal d => .call "decimal" [.lit (.str (Scalars.printDecimal d))]
  | .datetime t => .call "datetime" [.lit (.str (Scalars.printDatetime t))]
  | .duration d => .call "duration" [.lit (.str (Scalars.printDuration d))]
  | .ip a => .call "ip" [.lit (.str (Scalars.printIP a))]
def valExprs : List Value → List Expr
  | [] => []
  | v :: vs => valExpr v :: valExprs vs
def valExprKVs : List (String × Value) → List (String × Expr)
  | [] => []
  | (k, v) :: rest => (k, valExpr v) :: valExprKVs rest
end

mutual
/-- every `NodeValue` replaced by the expression it is read back as -/
def desugar : Expr → Expr
  | .lit v => valExpr v
  | .var v => .var v
  | .unop op e => .unop op (desugar e)
  | .binop op l r => .binop op (desugar l) (desugar r)
  | .ite c t e => .ite (desugar c) (desugar t) (desugar e)
  | .access e a => .access (desugar e) a
  | .has e a => .has (desugar e) a
  | .like e p => .like (desugar e) p
  | .is e ty => .is (desugar e) ty
  | .isIn e ty r => .isIn (desugar e) ty (desugar r)
  | .set es => .set (desugarList es)
  | .record kes => .record (desugarKVs kes)
  | .call fn args => .call fn (desugarList args)
def desugarList : List Expr → List Expr
  | [] => []
  | e :: es => desugar e :: desugarList es
def desugarKVs : List (String × Expr) → List (String × Expr)
  | [] => []
  | (k, e) :: kes => (k, desugar e) :: desugarKVs kes
end

def desugarConds : List (Bool × Expr) → List (Bool × Expr)
  | [] => []
  | (w, e) :: rest => (w, desugar e) :: desugarConds rest

def desugarPolicy (p : Policy) : Policy := { p with conditions := desugarConds p.conditions }

mutual
/-- `inFragGo` with every value of `valOK` allowed as a `NodeValue` -/
def inFragGoV : Expr → Bool
  | .lit v => valOK v
  | .var _ => true
  | .unop .not e => inFragGoV e
  | .unop .neg e => inFragGoV e && !isNonNegLong e
  | .unop .isEmpty e => inFragGoV e
  | .binop _ l r => inFragGoV l && inFragGoV r
  | .ite c t e => inFragGoV c && inFragGoV t && inFragGoV e
  | .access e _ => inFragGoV e
  | .has e _ => inFragGoV e
  | .like e p => inFragGoV e && patOK p
  | .is e ty => inFragGoV e && isPathName ty
  | .isIn e ty r => inFragGoV e && isPathName ty && inFragGoV r
  | .set es => inFragGoVList es
  | .record kes => inFragGoVKVs kes && decide ((kes.map (·.1)).Nodup)
  | .call fn args => callOK fn args && inFragGoVList args
def inFragGoVList : List Expr → Bool
  | [] => true
  | e :: es => inFragGoV e && inFragGoVList es
def inFragGoVKVs : List (String × Expr) → Bool
  | [] => true
  | (_, e) :: kes => inFragGoV e && inFragGoVKVs kes
end

/-- policies on which `MarshalCedar` is proved to be read back to `desugarPolicy p` (C08_marshal_parses_values_partial) -/
def policyOKGoV (p : Policy) : Bool :=
  headOKb (headOf p) && p.position == {} && p.conditions.all (fun c => inFragGoV c.2)

end CedarGo.Text
