/-
  The decidable fragments on which the round-trip theorems of C07 / C08 are PROVED
  (CedarGoProofs/Properties/C07.lean, C08.lean).  They live in the model library so that the driver can report,
  for every generated case, whether it lies inside the proved domain (op `fragment`).
-/
import CedarGo.Model.Text.Parser
import CedarGo.Model.Text.Marshal
namespace CedarGo.Text
open CedarGo

def noFFFD (s : String) : Bool := !s.toList.contains replacementChar

/-- the un-parenthesised `renderMin` rendering of `e` starts with an INT token -/
def headInt : Expr → Bool
  | .lit (.long n) => decide (0 ≤ n)
  | .access e _ => decide (7 ≤ prec e) && headInt e
  | .unop .isEmpty e => decide (7 ≤ prec e) && headInt e
  | .binop op l _ =>
    (match binForm op with
     | .method _ => decide (7 ≤ prec l) && headInt l
     | .infixOp _ lp _ => decide (lp ≤ prec l) && headInt l)
  | .has e _ => decide (4 ≤ prec e) && headInt e
  | .is e _ => decide (4 ≤ prec e) && headInt e
  | .isIn e _ _ => decide (4 ≤ prec e) && headInt e
  | .call fn (recv :: _) => isMethodName fn && decide (7 ≤ prec recv) && headInt recv
  | _ => false

/-- receiver / known function of an extension call, as `mkMethod` / `checkFunction` accept it -/
def callOK (fn : String) (args : List Expr) : Bool :=
  if isMethodName fn then !args.isEmpty
  else (match checkFunction fn with | .ok _ => true | .error _ => false)

mutual
/-- the fragment of expressions for which the round trip `parse ∘ render` is PROVED.
    Not in the fragment (`false`): `like`, literals of sets / records / extension values, entity types that
    are not paths of identifiers, strings containing U+FFFD, longs outside int64, records with duplicate keys, unknown
    or receiver-less extension calls, and — for `renderMin` only — a negation whose operand's rendering
    starts with an integer token (`-5.foo`: the known parser defect `negated-int-receiver`). -/
def inFrag (full : Bool) : Expr → Bool
  | .lit (.bool _) => true
  | .lit (.long n) => decide (-9223372036854775808 ≤ n) && decide (n ≤ 9223372036854775807)
  | .lit (.str s) => noFFFD s
  | .lit (.entity ty id) => isPathName ty && noFFFD id
  | .lit _ => false
  | .var _ => true
  | .unop .not e => inFrag full e
  | .unop .neg e => inFrag full e && (full || decide (prec e < 6) || isNonNegLong e || !headInt e)
  | .unop .isEmpty e => inFrag full e
  | .binop _ l r => inFrag full l && inFrag full r
  | .ite c t e => inFrag full c && inFrag full t && inFrag full e
  | .access e a => inFrag full e && noFFFD a
  | .has e a => inFrag full e && noFFFD a
  | .like .. => false
  | .is e ty => inFrag full e && isPathName ty
  | .isIn e ty r => inFrag full e && isPathName ty && inFrag full r
  | .set es => inFragList full es
  | .record kes => inFragKVs full kes && decide ((kes.map (·.1)).Nodup)
  | .call fn args => callOK fn args && inFragList full args
def inFragList (full : Bool) : List Expr → Bool
  | [] => true
  | e :: es => inFrag full e && inFragList full es
def inFragKVs (full : Bool) : List (String × Expr) → Bool
  | [] => true
  | (k, e) :: kes => noFFFD k && inFrag full e && inFragKVs full kes
end

def uidOK (u : UID) : Bool := isPathName u.1 && noFFFD u.2

/-- principal / resource scopes of the grammar -/
def scopePROK : Scope → Bool
  | .all => true
  | .eq e => uidOK e
  | .in_ e => uidOK e
  | .inSet _ => false
  | .is ty => isPathName ty
  | .isIn ty e => isPathName ty && uidOK e

/-- action scopes of the grammar -/
def scopeAOK : Scope → Bool
  | .all => true
  | .eq e => uidOK e
  | .in_ e => uidOK e
  | .inSet es => es.all uidOK
  | .is _ => false
  | .isIn _ _ => false

/-- annotation keys are pairwise different, values are printable -/
def annsOK : List String → List (String × String) → Bool
  | _, [] => true
  | known, (k, v) :: rest => !known.contains k && noFFFD v && annsOK (k :: known) rest

def headOKb (h : Head) : Bool :=
  annsOK [] h.annotations && scopePROK h.principal && scopeAOK h.action && scopePROK h.resource

def headOf (p : Policy) : Head := ⟨p.annotations, p.effect, p.principal, p.action, p.resource⟩

/-- policies covered by the proved round trip of `renderMin` / `renderFull`: distinct annotation keys, values
    without U+FFFD, scope clauses of the grammar over path-shaped entity types, default position, every
    condition body in `inFrag` -/
def policyOK (full : Bool) (p : Policy) : Bool :=
  headOKb (headOf p) && p.position == {} && p.conditions.all (fun c => inFrag full c.2)

def isNegLong : Expr → Bool
  | .lit (.long n) => decide (n < 0)
  | _ => false

/-- the un-parenthesised `MarshalCedar` text of `e` starts with an INT token -/
def goHeadInt : Expr → Bool
  | .lit (.long n) => decide (0 ≤ n)
  | .access e _ => decide (7 ≤ goPrec e) && goHeadInt e
  | .unop .isEmpty e => decide (7 ≤ goPrec e) && goHeadInt e
  | .binop op l _ =>
    (match goInfix op with
     | none => decide (7 ≤ goPrec l) && goHeadInt l
     | some (_, lp, _) => decide (lp ≤ goPrec l) && goHeadInt l)
  | .has e _ => decide (4 ≤ goPrec e) && goHeadInt e
  | .is e _ => decide (4 ≤ goPrec e) && goHeadInt e
  | .isIn e _ _ => decide (4 ≤ goPrec e) && goHeadInt e
  | .call fn (recv :: _) => isMethodName fn && decide (7 ≤ goPrec recv) && goHeadInt recv
  | _ => false

mutual
/-- the domain on which `MarshalCedar` is PROVED to be read back to the identical tree: `inFrag` minus
    * a negative long literal as receiver of a postfix form            (defect: written `-5.foo`)
    * `-` applied to a non-negative literal                            (written `-5`: read back as the literal −5,
                                                                        same meaning, different tree)
    * `-` applied to a postfix chain whose text starts with an integer (parser defect `-5.foo`) -/
def inFragGo : Expr → Bool
  | .lit (.bool _) => true
  | .lit (.long n) => decide (-9223372036854775808 ≤ n) && decide (n ≤ 9223372036854775807)
  | .lit (.str s) => noFFFD s
  | .lit (.entity ty id) => isPathName ty && noFFFD id
  | .lit _ => false
  | .var _ => true
  | .unop .not e => inFragGo e
  | .unop .neg e => inFragGo e && !isNonNegLong e && (decide (goPrec e < 6) || !goHeadInt e)
  | .unop .isEmpty e => inFragGo e && !isNegLong e
  | .binop op l r => inFragGo l && inFragGo r && ((goInfix op).isSome || !isNegLong l)
  | .ite c t e => inFragGo c && inFragGo t && inFragGo e
  | .access e a => inFragGo e && noFFFD a && !isNegLong e
  | .has e a => inFragGo e && noFFFD a
  | .like .. => false
  | .is e ty => inFragGo e && isPathName ty
  | .isIn e ty r => inFragGo e && isPathName ty && inFragGo r
  | .set es => inFragGoList es
  | .record kes => inFragGoKVs kes && decide ((kes.map (·.1)).Nodup)
  | .call fn args => callOK fn args && inFragGoList args &&
      (match args with | recv :: _ => !isMethodName fn || !isNegLong recv | [] => true)
def inFragGoList : List Expr → Bool
  | [] => true
  | e :: es => inFragGo e && inFragGoList es
def inFragGoKVs : List (String × Expr) → Bool
  | [] => true
  | (k, e) :: kes => noFFFD k && inFragGo e && inFragGoKVs kes
end

/-- policies on which `MarshalCedar` is proved to round-trip exactly (general head) -/
def policyOKGo (p : Policy) : Bool :=
  headOKb (headOf p) && p.position == {} && p.conditions.all (fun c => inFragGo c.2)


end CedarGo.Text
