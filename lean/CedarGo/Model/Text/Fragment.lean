/-
  The decidable fragments on which the round-trip theorems of C07 / C08 are PROVED
  (CedarGoProofs/Properties/C07.lean, C08.lean).  They live in the model library so that the driver can report,
  for every generated case, whether it lies inside the proved domain (op `fragment`).
-/
import CedarGo.Model.Text.Parser
import CedarGo.Model.Text.Marshal
namespace CedarGo.Text
open CedarGo

/-- receiver / known function of an extension call, as `mkMethod` / `checkFunction` accept it -/
def callOK (fn : String) (args : List Expr) : Bool :=
  if isMethodName fn then !args.isEmpty
  else (match checkFunction fn with | .ok _ => true | .error _ => false)

mutual
/-- the fragment of expressions for which the round trip `parse ∘ render` is PROVED.
    Not in the fragment (`false`): `like`, literals of sets / records / extension values, entity types that
    are not paths of identifiers, longs outside int64, records with duplicate keys, unknown
    or receiver-less extension calls. -/
def inFrag (full : Bool) : Expr → Bool
  | .lit (.bool _) => true
  | .lit (.long n) => decide (-9223372036854775808 ≤ n) && decide (n ≤ 9223372036854775807)
  | .lit (.str _) => true
  | .lit (.entity ty _) => isPathName ty
  | .lit _ => false
  | .var _ => true
  | .unop .not e => inFrag full e
  | .unop .neg e => inFrag full e
  | .unop .isEmpty e => inFrag full e
  | .binop _ l r => inFrag full l && inFrag full r
  | .ite c t e => inFrag full c && inFrag full t && inFrag full e
  | .access e _ => inFrag full e
  | .has e _ => inFrag full e
  | .like .. => false
  | .is e ty => inFrag full e && isPathName ty
  | .isIn e ty r => inFrag full e && isPathName ty && inFrag full r
  | .set es => inFragList full es
  | .record kes => inFragKVs full kes && decide ((kes.map (·.1)).Nodup)
  | .call fn args => callOK fn args && inFragList full args
def inFragList (full : Bool) : List Expr → Bool
  | [] => true
  | e :: es => inFrag full e && inFragList full es
def inFragKVs (full : Bool) : List (String × Expr) → Bool
  | [] => true
  | (_, e) :: kes => inFrag full e && inFragKVs full kes
end

def uidOK (u : UID) : Bool := isPathName u.1

/-- principal / resource scopes of the grammar -/
def scopePROK : Scope → Bool
  | .all => true
  | .eq e => uidOK e
  | .in_ e => uidOK e
  | .inSet _ => false
  | .is ty => isPathName ty
  | .isIn ty e => isPathName ty && uidOK e

/-- action scopes of the grammar -/
def scopeAOK : Scope → Bool
  | .all => true
  | .eq e => uidOK e
  | .in_ e => uidOK e
  | .inSet es => es.all uidOK
  | .is _ => false
  | .isIn _ _ => false

/-- annotation keys are pairwise different -/
def annsOK : List String → List (String × String) → Bool
  | _, [] => true
  | known, (k, _) :: rest => !known.contains k && annsOK (k :: known) rest

def headOKb (h : Head) : Bool :=
  annsOK [] h.annotations && scopePROK h.principal && scopeAOK h.action && scopePROK h.resource

def headOf (p : Policy) : Head := ⟨p.annotations, p.effect, p.principal, p.action, p.resource⟩

/-- policies covered by the proved round trip of `renderMin` / `renderFull`: distinct annotation keys, scope clauses of the grammar over path-shaped entity types, default position, every
    condition body in `inFrag` -/
def policyOK (full : Bool) (p : Policy) : Bool :=
  headOKb (headOf p) && p.position == {} && p.conditions.all (fun c => inFrag full c.2)

mutual
/-- the domain on which `MarshalCedar` is PROVED to be read back to the identical tree: `inFrag` minus
    `-` applied to a non-negative literal (written `-5`: read back as the literal −5, same meaning, different tree) -/
def inFragGo : Expr → Bool
  | .lit (.bool _) => true
  | .lit (.long n) => decide (-9223372036854775808 ≤ n) && decide (n ≤ 9223372036854775807)
  | .lit (.str _) => true
  | .lit (.entity ty _) => isPathName ty
  | .lit _ => false
  | .var _ => true
  | .unop .not e => inFragGo e
  | .unop .neg e => inFragGo e && !isNonNegLong e
  | .unop .isEmpty e => inFragGo e
  | .binop _ l r => inFragGo l && inFragGo r
  | .ite c t e => inFragGo c && inFragGo t && inFragGo e
  | .access e _ => inFragGo e
  | .has e _ => inFragGo e
  | .like .. => false
  | .is e ty => inFragGo e && isPathName ty
  | .isIn e ty r => inFragGo e && isPathName ty && inFragGo r
  | .set es => inFragGoList es
  | .record kes => inFragGoKVs kes && decide ((kes.map (·.1)).Nodup)
  | .call fn args => callOK fn args && inFragGoList args
def inFragGoList : List Expr → Bool
  | [] => true
  | e :: es => inFragGo e && inFragGoList es
def inFragGoKVs : List (String × Expr) → Bool
  | [] => true
  | (_, e) :: kes => inFragGo e && inFragGoKVs kes
end

/-- policies on which `MarshalCedar` is proved to round-trip exactly (general head) -/
def policyOKGo (p : Policy) : Bool :=
  headOKb (headOf p) && p.position == {} && p.conditions.all (fun c => inFragGo c.2)


end CedarGo.Text
