/-
  Spec-side printers for C07 (they are NOT a model of Go code; the model of Go's `MarshalCedar` is
  `Model/Text/Marshal.lean`): a policy is rendered to a TOKEN LIST in Cedar syntax

  * `renderMin`  — parentheses only where the documented grammar requires them
                   (precedence, left associativity, non-associative relations, the negative-literal rule),
                   attribute names / record keys as identifiers where the grammar allows it;
  * `renderFull` — every operand, argument and element parenthesised, attribute names and record keys
                   always in their string forms;

  and `layout` turns a token list into text with pseudo-random whitespace and comments between tokens.

  Grammar (docs.cedarpolicy.com/policies/syntax-grammar.html), precedence levels used below:
    0 Expr (if-then-else) · 1 Or · 2 And · 3 Relation (non-associative; has/like/is) · 4 Add · 5 Mult ·
    6 Unary · 7 Member (postfix) · 8 Primary
-/
import CedarGo.Model.Text.Token
import CedarGo.Model.Text.Escape
import CedarGo.Model.Policy
namespace CedarGo.Text
open CedarGo

/-! ## tokens -/

def noPos : Pos := ⟨0, 0, 0⟩
def opT (s : String) : Token := ⟨.operator, noPos, s⟩
def kwT (s : String) : Token := ⟨.keyword, noPos, s⟩
def idT (s : String) : Token := ⟨.ident, noPos, s⟩

/-- decimal digits of `n` (most significant first) -/
def natDigitsAux : Nat → Nat → List Char → List Char
  | 0, _, acc => acc
  | fuel + 1, n, acc =>
    if n < 10 then Char.ofNat (48 + n) :: acc else natDigitsAux fuel (n / 10) (Char.ofNat (48 + n % 10) :: acc)

def natDigits (n : Nat) : List Char := natDigitsAux (n + 1) n []

def intT (n : Nat) : Token := ⟨.int, noPos, String.ofList (natDigits n)⟩

/-- string literal token: quote, `EscapeString`, quote -/
def strT (s : String) : Token := ⟨.string, noPos, String.ofList ('"' :: (escapeString s.toList ++ ['"']))⟩

/-- pattern literal token; `none` if a literal chunk is not valid UTF-8 -/
def patT (p : Pattern) : Option Token :=
  match escapePattern p with
  | some cs => some ⟨.string, noPos, String.ofList ('"' :: (cs ++ ['"']))⟩
  | none => none

/-- `isIdentRune` -/
def isIdentChar (c : Char) (first : Bool) : Bool :=
  c == '_' || (65 ≤ c.toNat && c.toNat ≤ 90) || (97 ≤ c.toNat && c.toNat ≤ 122) || (isDecimal c && !first)

def identCharsRest : List Char → Bool
  | [] => true
  | c :: cs => isIdentChar c false && identCharsRest cs

/-- the IDENT token class of the grammar: identifier characters, not a reserved word -/
def isIdentName (s : String) : Bool :=
  (match s.toList with
   | [] => false
   | c :: cs => isIdentChar c true && identCharsRest cs) && !reservedKeywords.contains s

/-- an annotation key may also be a reserved word (cedar_unmarshal.go `annotation`) -/
def isAnnotationKey (s : String) : Bool :=
  isIdentName s || reservedKeywords.contains s

/-- split on `::` -/
def splitPathAux : List Char → List Char → List (List Char)
  | [], cur => [cur.reverse]
  | ':' :: ':' :: rest, cur => cur.reverse :: splitPathAux rest []
  | c :: rest, cur => splitPathAux rest (c :: cur)

def splitPath (ty : String) : List String := (splitPathAux ty.toList []).map String.ofList

/-- a Path of the grammar: `IDENT {'::' IDENT}` -/
def isPathName (ty : String) : Bool := (splitPath ty).all isIdentName

def pathToksOf : List String → List Token
  | [] => []
  | [a] => [idT a]
  | a :: rest => idT a :: opT "::" :: pathToksOf rest

def pathToks (ty : String) : List Token := pathToksOf (splitPath ty)

def varName : Var → String
  | .principal => "principal" | .action => "action" | .resource => "resource" | .context => "context"

/-! ## precedence -/

def isMethodName (fn : String) : Bool :=
  match extLookup fn with
  | some (_, m) => m
  | none => false

inductive BinForm where
  | infixOp (tok : Token) (lp rp : Nat)      -- operand levels
  | method (name : String)

def binForm : BinOp → BinForm
  | .or => .infixOp (opT "||") 1 2
  | .and => .infixOp (opT "&&") 2 3
  | .eq => .infixOp (opT "==") 4 4
  | .ne => .infixOp (opT "!=") 4 4
  | .lt => .infixOp (opT "<") 4 4
  | .le => .infixOp (opT "<=") 4 4
  | .gt => .infixOp (opT ">") 4 4
  | .ge => .infixOp (opT ">=") 4 4
  | .in_ => .infixOp (kwT "in") 4 4
  | .add => .infixOp (opT "+") 4 5
  | .sub => .infixOp (opT "-") 4 5
  | .mul => .infixOp (opT "*") 5 6
  | .contains => .method "contains"
  | .containsAll => .method "containsAll"
  | .containsAny => .method "containsAny"
  | .getTag => .method "getTag"
  | .hasTag => .method "hasTag"

def binPrec : BinOp → Nat
  | .or => 1 | .and => 2
  | .eq | .ne | .lt | .le | .gt | .ge | .in_ => 3
  | .add | .sub => 4
  | .mul => 5
  | .contains | .containsAll | .containsAny | .getTag | .hasTag => 7

/-- syntactic level of the outermost production of the rendering of `e`.
    A NEGATIVE long literal is written `-` INT, which is a Unary, not a Primary. -/
def prec : Expr → Nat
  | .ite .. => 0
  | .binop op _ _ => binPrec op
  | .has .. | .like .. | .is .. | .isIn .. => 3
  | .unop .not _ | .unop .neg _ => 6
  | .unop .isEmpty _ | .access .. => 7
  | .call fn _ => if isMethodName fn then 7 else 8
  | .lit (.long n) => if n < 0 then 6 else 8
  | .lit _ | .var _ | .set _ | .record _ => 8

/-- `-` INT is read back as a literal: the operand of a real negation must not be a bare non-negative literal -/
def isNonNegLong : Expr → Bool
  | .lit (.long n) => n ≥ 0
  | _ => false

def wrapIf (b : Bool) (ts : List Token) : List Token :=
  if b then opT "(" :: (ts ++ [opT ")"]) else ts

def renderLit : Value → List Token
  | .bool b => [kwT (if b then "true" else "false")]
  | .long n => if n < 0 then [opT "-", intT n.natAbs] else [intT n.toNat]
  | .str s => [strT s]
  | .entity ty id => pathToks ty ++ [opT "::", strT id]
  | _ => []        -- sets, records and extension values have no literal syntax (outside `InGrammar`)

/-- attribute access: `.name` when allowed (and not `full`), else `["name"]` -/
def accessToks (full : Bool) (a : String) : List Token :=
  if !full && isIdentName a then [opT ".", idT a] else [opT "[", strT a, opT "]"]

def attrTok (full : Bool) (a : String) : Token :=
  if !full && isIdentName a then idT a else strT a

mutual
/-- tokens of `e`; `full` = parenthesise every operand and use string forms -/
def render (full : Bool) : Expr → List Token
  | .lit v => renderLit v
  | .var v => [idT (varName v)]
  | .unop .not e => opT "!" :: wrapIf (full || prec e < 6) (render full e)
  | .unop .neg e => opT "-" :: wrapIf (full || prec e < 6 || isNonNegLong e) (render full e)
  | .unop .isEmpty e => wrapIf (full || prec e < 7) (render full e) ++ [opT ".", idT "isEmpty", opT "(", opT ")"]
  | .binop op l r =>
    (match binForm op with
     | .infixOp tok lp rp => wrapIf (full || prec l < lp) (render full l) ++ tok :: wrapIf (full || prec r < rp) (render full r)
     | .method name =>
       wrapIf (full || prec l < 7) (render full l) ++ opT "." :: idT name :: opT "(" :: (wrapIf full (render full r) ++ [opT ")"]))
  | .ite c t e =>
    kwT "if" :: (wrapIf full (render full c) ++ kwT "then" :: (wrapIf full (render full t) ++ kwT "else" :: wrapIf full (render full e)))
  | .access e a => wrapIf (full || prec e < 7) (render full e) ++ accessToks full a
  | .has e a => wrapIf (full || prec e < 4) (render full e) ++ [kwT "has", attrTok full a]
  | .like e p =>
    wrapIf (full || prec e < 4) (render full e) ++ (match patT p with | some t => [kwT "like", t] | none => [kwT "like"])
  | .is e ty => wrapIf (full || prec e < 4) (render full e) ++ kwT "is" :: pathToks ty
  | .isIn e ty r =>
    wrapIf (full || prec e < 4) (render full e) ++ kwT "is" :: (pathToks ty ++ kwT "in" :: wrapIf (full || prec r < 4) (render full r))
  | .set es => opT "[" :: (renderArgs full es ++ [opT "]"])
  | .record kes => opT "{" :: (renderKVs full kes ++ [opT "}"])
  | .call fn args =>
    if isMethodName fn then
      (match args with
       | [] => []          -- a method call needs a receiver (outside `InGrammar`)
       | recv :: rest =>
         wrapIf (full || prec recv < 7) (render full recv) ++ opT "." :: idT fn :: opT "(" :: (renderArgs full rest ++ [opT ")"]))
    else idT fn :: opT "(" :: (renderArgs full args ++ [opT ")"])
/-- comma-separated expressions -/
def renderArgs (full : Bool) : List Expr → List Token
  | [] => []
  | [e] => wrapIf full (render full e)
  | e :: rest => wrapIf full (render full e) ++ opT "," :: renderArgs full rest
def renderKVs (full : Bool) : List (String × Expr) → List Token
  | [] => []
  | [(k, e)] => attrTok full k :: opT ":" :: wrapIf full (render full e)
  | (k, e) :: rest => attrTok full k :: opT ":" :: (wrapIf full (render full e) ++ opT "," :: renderKVs full rest)
end

/-! ## policies -/

def uidToks (u : UID) : List Token := pathToks u.1 ++ [opT "::", strT u.2]

def uidListToks : List UID → List Token
  | [] => []
  | [u] => uidToks u
  | u :: rest => uidToks u ++ opT "," :: uidListToks rest

def scopeToks (v : Var) : Scope → List Token
  | .all => [idT (varName v)]
  | .eq e => idT (varName v) :: opT "==" :: uidToks e
  | .in_ e => idT (varName v) :: kwT "in" :: uidToks e
  | .inSet es => idT (varName v) :: kwT "in" :: opT "[" :: (uidListToks es ++ [opT "]"])
  | .is ty => idT (varName v) :: kwT "is" :: pathToks ty
  | .isIn ty e => idT (varName v) :: kwT "is" :: (pathToks ty ++ kwT "in" :: uidToks e)

def annotationToks : List (String × String) → List Token
  | [] => []
  | (k, v) :: rest =>
    opT "@" :: (if reservedKeywords.contains k then kwT k else idT k) :: opT "(" :: strT v :: opT ")" :: annotationToks rest

def conditionToks (full : Bool) : List (Bool × Expr) → List Token
  | [] => []
  | (w, e) :: rest => idT (if w then "when" else "unless") :: opT "{" :: (render full e ++ opT "}" :: conditionToks full rest)

def renderPolicy (full : Bool) (p : Policy) : List Token :=
  annotationToks p.annotations ++
  idT (match p.effect with | .permit => "permit" | .forbid => "forbid") :: opT "(" ::
  (scopeToks .principal p.principal ++ opT "," :: (scopeToks .action p.action ++ opT "," ::
   (scopeToks .resource p.resource ++ opT ")" :: (conditionToks full p.conditions ++ [opT ";"]))))

def renderMin (p : Policy) : List Token := renderPolicy false p
def renderFull (p : Policy) : List Token := renderPolicy true p

/-! ## layout: text of a token list with arbitrary whitespace and comments between tokens -/

def lcg (s : Nat) : Nat := (s * 6364136223846793005 + 1442695040888963407) % 18446744073709551616

def separators : Array String := #[
  "", "", "", " ", " ", " ", "\n", "\t", " \r\n ", "/* c */", " // line comment ;){ \" if\n", "/**/", "  ",
  "/* \" * // */", "\n\n", "//\n", " /* é ∀ */ ", "// ünï 😀\r\n\t"]

def identish (c : Char) : Bool := isIdentChar c false

/-- two adjacent tokens that would be scanned as one if written without a separator -/
def needSep (a b : Token) : Bool :=
  match a.text.toList.getLast?, b.text.toList.head? with
  | some x, some y => identish x && identish y
  | _, _ => false

def pickSep (seed : Nat) (must : Bool) : String :=
  let s := separators[(seed / 65536) % separators.size]!
  if must && s == "" then " " else s

/-- `seed = 0`: one space between tokens; otherwise pseudo-random separators (also before the first
    and after the last token) -/
def layoutAux : Nat → Option Token → List Token → List String → List String
  | seed, _, [], acc => (if seed == 0 then acc else pickSep seed false :: acc)
  | seed, prev, t :: rest, acc =>
    let must := match prev with | some p => needSep p t | none => false
    let sep := if seed == 0 then (if prev.isSome then " " else "") else pickSep seed must
    layoutAux (if seed == 0 then 0 else lcg seed) (some t) rest (t.text :: sep :: acc)

def layout (seed : Nat) (ts : List Token) : String :=
  String.join (layoutAux seed none ts []).reverse

end CedarGo.Text
