/-
  C15 — `typeOf`: transcription of `x/exp/schema/validate/typechecker.go` (`typeOfExpr` and its
  per-node functions), and `validatePolicy` (`policy.go`: scope validation, `validateActionApplication`,
  environment filter + `typecheckConditions`).

  Covered: every node kind —
    literals (Bool/Long/String/EntityUID), the four variables, `&& || ! if` with the True/False singleton
    types and capability propagation, `== !=` (same-variable, literal and disjoint-entity-type folding,
    strict LUB test), `< <= > >=` (both sides the SAME comparable type), `+ - *`, unary minus,
    `has` / `.` on RECORD and ENTITY types (entity LUBs: `lookupEntityAttr` / `hasResultTypeEntity`) with
    required/optional attributes and capabilities keyed by structural access paths, `is` (True/False folding from the
    static entity LUB), `in` (right operand entity or set of entities; static False from the entity-type hierarchy walks
    `isEntityDescendant` / `anyEntityDescendantOf` — an action type may be below any action type —; True/False folding of `action in …` from the schema's action
    hierarchy: `exprToActionEUID(s)`, `isActionInSet`), `is … in` (no folding in the Go code), `hasTag` / `getTag` (tag
    capabilities, `entityHasTags`, `entityTagType`), set and record literals (LUB of element types, strict empty-set
    rule), `contains/containsAll/containsAny/isEmpty`, `like`, every extension function of `extFuncTypes`
    (constructors with the strict literal rule and `validateExtensionValue`), unknown functions (rejected);
    every scope form (`==`, `in`, `is`, `is … in` for principal / resource with `getEntityTypesIn`; `==`, `in`,
    `in [ … ]` for the action with `getActionsInSet`).
  Outside (`unsupported`, which the driver prints as `skip`): set / record / extension VALUES as literals (the parser never
  produces them), and a hierarchy walk that runs out of fuel (the entity walk provably does not:
  `C15_isEntityDescendant_total`; the action walk does not on the acyclic hierarchies schema resolution lets through).

  Only the accept/reject decision is modelled: the Go functions keep collecting errors and compute
  recovery types; every path on which an error was recorded ends in `reject` here (any recorded error
  makes `Validator.Policy` return non-nil).

  `dom = false` is the Go algorithm.  `dom = true` additionally rejects what lies outside the domain
  of `C15_typeOf_sound_partial` (each is either a confirmed defect of the Go code or a part of the
  proof not done): the permissive record LUB that drops an attribute, non-literal constructor arguments, the
  same-variable rule for `context == context`.
  (Comparisons of two DIFFERENT comparable types, unknown functions and attribute names containing `'.'` in
  `has`/`.` used to be on this list; since the repairs of `comparison-mixed-comparable-types` and
  `unknown-function-zero-args` the Go algorithm rejects the first two itself, and since the repair of
  `capability-path-collision` capability keys are access paths compared structurally, so dotted names are harmless.
  `hasTag` / `getTag` on an entity LUB of which some but not all elements declare tags was on it too: since the repair
  of `hastag-lub-mixed-tags` such a `hasTag` is Bool, not False, and `getTag` has the LUB of the declared tag types.)
-/
import CedarGo.Model.Validate.Types
import CedarGo.Model.Policy
namespace CedarGo.Validate
open CedarGo

inductive TErr where
  | reject        -- the validator reports an error
  | unsupported   -- construct outside the modelled fragment
deriving DecidableEq, Repr, Inhabited

abbrev TRes := Except TErr (Ty × Caps)

/-- `typeOfValue` (set/record/extension VALUES — typed like the equivalent expressions since the repair of
    `typeofvalue-non-entity-literal-panic`, see C16 — are outside the fragment) -/
def typeOfValue (Γ : TEnv) : Value → Except TErr Ty
  | .bool true => .ok .tt
  | .bool false => .ok .ff
  | .long _ => .ok .long
  | .str _ => .ok .string
  | .entity t i => match typeOfEntityUID Γ t i with | some ty => .ok ty | none => .error .reject
  | _ => .error .unsupported

def isLitExpr : Expr → Bool | .lit _ => true | _ => false

/-- `hasResultType` on a record type -/
def hasResultRecord (attrs : Attrs) (a : String) : Ty :=
  match lookupAttr a attrs with
  | none => .ff
  | some (_, true) => .tt
  | some (_, false) => .bool

mutual
/-- `validateEntityRefs`: every entity literal of a branch that is NOT type-checked must be known -/
def validRefs (Γ : TEnv) : Expr → Bool
  | .lit (.entity t i) => (typeOfEntityUID Γ t i).isSome
  | .lit _ => true
  | .var _ => true
  | .unop _ e => validRefs Γ e
  | .binop _ l r => validRefs Γ l && validRefs Γ r
  | .ite c t e => validRefs Γ c && validRefs Γ t && validRefs Γ e
  | .access e _ => validRefs Γ e
  | .has e _ => validRefs Γ e
  | .like e _ => validRefs Γ e
  | .is e _ => validRefs Γ e
  | .isIn e _ r => validRefs Γ e && validRefs Γ r
  | .set es => validRefsL Γ es
  | .record kes => validRefsKV Γ kes
  | .call _ args => validRefsL Γ args
def validRefsL (Γ : TEnv) : List Expr → Bool
  | [] => true
  | e :: es => validRefs Γ e && validRefsL Γ es
def validRefsKV (Γ : TEnv) : List (String × Expr) → Bool
  | [] => true
  | (_, e) :: kes => validRefs Γ e && validRefsKV Γ kes
end

/-- the singleton result of a constant-folded (in)equality -/
def foldTy (b negated : Bool) : Ty := if b != negated then .tt else .ff

/-- `typeOfEquality`, general case: disjoint entity types fold to False; strict mode demands a LUB -/
def generalEq (dom : Bool) (Γ : TEnv) (lt rt : Ty) (negated : Bool) : Except TErr Ty :=
  if areTypesDisjoint lt rt then .ok (foldTy false negated)
  else if Γ.strict && !lt.isNil && !rt.isNil && (lub dom Γ.strict lt rt).isNone then .error .reject
  else .ok .bool

/-- result of `typeOfEquality` once both sides type-checked to `lt`, `rt` (no error recorded):
    the same variable on both sides, two literals (`evalLiteralEquality`), then the general case -/
def equalityType (dom : Bool) (Γ : TEnv) (l r : Expr) (lt rt : Ty) (negated : Bool) : Except TErr Ty :=
  match l, r with
  | .var a, .var b =>
    if a == b then (if dom && a == .context then .error .reject else .ok (foldTy true negated))
    else generalEq dom Γ lt rt negated
  | .lit a, .lit b => .ok (foldTy (a.beq b) negated)
  | _, _ => generalEq dom Γ lt rt negated

/-- fold of `typeOfSet` phase 2 over the (non-nil) element types -/
def lubList (dom strict : Bool) : Ty → List Ty → Option Ty
  | acc, [] => some acc
  | acc, t :: ts =>
    if !strictEntityOK strict acc t then none else
    match lub dom strict acc t with
    | none => none
    | some u => lubList dom strict u ts

/-- `validateExtensionValue` applies when a constructor's single argument is a string literal -/
def ctorLiteralOK (ctor : Bool) (fn : String) : List Expr → Bool
  | [.lit (.str s)] => !ctor || validExtLiteral fn s
  | _ => true

/-- argument checks of `typeOfExtensionCall` once the argument types are known -/
def argsOK : List Ty → List Ty → Bool
  | [], [] => true
  | a :: as, s :: ss => isSubtypeArg a s && argsOK as ss
  | _, _ => false

/-- `typeOfComparison` once both sides are type-checked (no error recorded): each side has to be
    "comparable" (`expectComparable`: Long, datetime or duration) AND both sides must have the SAME
    comparable type (`compareCedarType(lt, rt) == 0`).  (Before the repair of the finding
    `comparison-mixed-comparable-types` only the first test existed.)  A `Ty.nil` operand is rejected:
    the Go code no longer produces a nil type without recording an error (see `.call` below). -/
def cmpResult (caps : Caps) (rl rr : TRes) : TRes :=
  match rl with
  | .error e => .error e
  | .ok (lt, _) =>
    match rr with
    | .error e => .error e
    | .ok (rt, _) =>
      if sameComparable lt rt then .ok (.bool, caps) else .error .reject

/-- `typeOfArith` -/
def arithResult (caps : Caps) (rl rr : TRes) : TRes :=
  match rl with
  | .error e => .error e
  | .ok (lt, _) =>
    match rr with
    | .error e => .error e
    | .ok (rt, _) =>
      match lt, rt with
      | .long, .long => .ok (.long, caps)
      | _, _ => .error .reject

/-- `typeOfContainsAllAny` -/
def containsAAResult (dom strict : Bool) (caps : Caps) (rl rr : TRes) : TRes :=
  match rl with
  | .error e => .error e
  | .ok (lt, _) =>
    match rr with
    | .error e => .error e
    | .ok (rt, _) =>
      match lt, rt with
      | .set a, .set b => if strict && (lub dom strict a b).isNone then .error .reject else .ok (.bool, caps)
      | _, _ => .error .reject

/-- `typeOfIs` once the operand has an entity type: the tested type is not an element of the LUB ↦ False, the LUB is
    exactly that type ↦ True -/
def isResult (tys : List String) (ty : String) : Ty :=
  if !tys.contains ty then .ff else if tys == [ty] then .tt else .bool

/-- the special case of `typeOfIn`: the left operand is the `action` variable or an action literal and the right one
    resolves to entity literals: fold from the schema's ACTION hierarchy.  `none` = the special case does not apply -/
def actionInFold (Γ : TEnv) (l r : Expr) : Option (Except TErr Ty) :=
  match exprToActionEUID Γ l with
  | none => none
  | some a =>
    match exprToActionEUIDs Γ r with
    | none => none
    | some us =>
      let acts := us.filter (fun u => Γ.actions.contains u)
      if acts.isEmpty then some (.ok .ff) else
      match isActionInSet Γ a acts with
      | none => some (.error .unsupported)
      | some true => some (.ok .tt)
      | some false => some (.ok .ff)

/-- the entity LUB of the right operand of `in` (`nil` for a set of `Never`) -/
def rhsLub : Ty → Option (List String)
  | .entity r => some r
  | .set (.entity r) => some r
  | _ => none

/-- `typeOfIn` once both sides type-checked (no error recorded) -/
def inResult (Γ : TEnv) (l r : Expr) (lt rt : Ty) : Except TErr Ty :=
  match lt with
  | .entity ltys =>
    if !isEntityOrSetOfEntity rt then .error .reject else
    match actionInFold Γ l r with
    | some res => res
    | none =>
      match rhsLub rt with
      | none => .ok .bool
      | some rtys =>
        -- no element of the left LUB can be a descendant of (or the same type as) an element of the right one ↦ False
        match anyEntityDescendantOf Γ ltys rtys with
        | none => .error .unsupported
        | some true => .ok .bool
        | some false => .ok .ff
  | _ => .error .reject

/-- `typeOfHasTag` once both sides type-checked (no error recorded): False when NO element of the LUB declares tags -/
def hasTagResult (Γ : TEnv) (l r : Expr) (lt rt : Ty) (caps : Caps) : TRes :=
  match lt, rt with
  | .entity tys, .string =>
    if !entityHasTags Γ tys then .ok (.ff, caps) else
    let p := exprCapPath l
    let k := tagCapabilityKey r
    .ok (.bool, if !p.isEmpty && k != "" then caps.addTag p k else caps)
  | _, _ => .error .reject

/-- `typeOfGetTag` once both sides type-checked (no error recorded): the tag type of the LUB, provided the tag
    capability (same access path, string-literal key) is held -/
def getTagResult (dom : Bool) (Γ : TEnv) (l r : Expr) (lt rt : Ty) (caps : Caps) : Except TErr Ty :=
  match lt, rt with
  | .entity tys, .string =>
    match entityTagType dom Γ.strict Γ .never tys with
    | none => .error .reject
    | some tagTy =>
      let p := exprCapPath l
      let k := tagCapabilityKey r
      if !p.isEmpty && k != "" && caps.hasTag p k then .ok tagTy else .error .reject
  | _, _ => .error .reject

mutual
/-- `Validator.typeOfExpr` -/
def typeOf (dom : Bool) (Γ : TEnv) : Expr → Caps → TRes
  | .lit v, caps => match typeOfValue Γ v with | .ok t => .ok (t, caps) | .error e => .error e
  | .var v, caps => .ok (typeOfVar Γ v, caps)
  -- typeOfAnd
  | .binop .and l r, caps =>
    match typeOf dom Γ l caps with
    | .error e => .error e
    | .ok (lt, lCaps) =>
      if !isBoolTy lt then .error .reject else
      match lt with
      | .ff => if validRefs Γ r then .ok (.ff, caps) else .error .reject
      | _ =>
        match typeOf dom Γ r (caps.merge lCaps) with
        | .error e => .error e
        | .ok (rt, rCaps) =>
          if !isBoolTy rt then .error .reject else
          match lt, rt with
          | .tt, _ => .ok (rt, rCaps)
          | _, .ff => .ok (.ff, rCaps)
          | _, _ => .ok (.bool, rCaps)
  -- typeOfOr
  | .binop .or l r, caps =>
    match typeOf dom Γ l caps with
    | .error e => .error e
    | .ok (lt, lCaps) =>
      if !isBoolTy lt then .error .reject else
      match lt with
      | .tt => if validRefs Γ r then .ok (.tt, lCaps) else .error .reject
      | _ =>
        match typeOf dom Γ r caps with
        | .error e => .error e
        | .ok (rt, rCaps) =>
          if !isBoolTy rt then .error .reject else
          match lt, rt with
          | .ff, _ => .ok (rt, rCaps)
          | _, .tt => .ok (.tt, rCaps)
          | _, .ff => .ok (lt, lCaps)
          | _, _ => .ok (.bool, lCaps.intersect rCaps)
  -- typeOfNot
  | .unop .not e, caps =>
    match typeOf dom Γ e caps with
    | .error e => .error e
    | .ok (t, _) =>
      match t with
      | .tt => .ok (.ff, caps)
      | .ff => .ok (.tt, caps)
      | .bool => .ok (.bool, caps)
      | _ => .error .reject
  -- typeOfNegate: `nil` passes (`!ok && t != nil`)
  | .unop .neg e, caps =>
    match typeOf dom Γ e caps with
    | .error e => .error e
    | .ok (t, _) =>
      match t with
      | .long => .ok (.long, caps)
      | .nil => .ok (.long, caps)
      | _ => .error .reject
  -- typeOfIsEmpty
  | .unop .isEmpty e, caps =>
    match typeOf dom Γ e caps with
    | .error e => .error e
    | .ok (t, _) => if isSetTy t then .ok (.bool, caps) else .error .reject
  -- typeOfIfThenElse
  | .ite c t e, caps =>
    match typeOf dom Γ c caps with
    | .error e => .error e
    | .ok (ct, cCaps) =>
      match ct with
      | .ff =>
        if !validRefs Γ t then .error .reject else typeOf dom Γ e caps
      | .tt =>
        if !validRefs Γ e then .error .reject else typeOf dom Γ t (caps.merge cCaps)
      | _ =>
        -- a nil condition type (no error recorded) falls through to "both branches"
        if !(isBoolTy ct || ct.isNil) then .error .reject else
        match typeOf dom Γ t (caps.merge cCaps) with
        | .error e => .error e
        | .ok (tt', tCaps) =>
          match typeOf dom Γ e caps with
          | .error e => .error e
          | .ok (et, eCaps) =>
            if !strictEntityOK Γ.strict tt' et then .error .reject else
            match lub dom Γ.strict tt' et with
            | none => .error .reject
            | some res => .ok (res, tCaps.intersect eCaps)
  -- typeOfEquality
  | .binop .eq l r, caps =>
    match typeOf dom Γ l caps with
    | .error e => .error e
    | .ok (lt, _) =>
      match typeOf dom Γ r caps with
      | .error e => .error e
      | .ok (rt, _) =>
        match equalityType dom Γ l r lt rt false with
        | .ok t => .ok (t, caps)
        | .error e => .error e
  | .binop .ne l r, caps =>
    match typeOf dom Γ l caps with
    | .error e => .error e
    | .ok (lt, _) =>
      match typeOf dom Γ r caps with
      | .error e => .error e
      | .ok (rt, _) =>
        match equalityType dom Γ l r lt rt true with
        | .ok t => .ok (t, caps)
        | .error e => .error e
  -- typeOfComparison: both sides the same comparable type
  | .binop .lt l r, caps => cmpResult caps (typeOf dom Γ l caps) (typeOf dom Γ r caps)
  | .binop .le l r, caps => cmpResult caps (typeOf dom Γ l caps) (typeOf dom Γ r caps)
  | .binop .gt l r, caps => cmpResult caps (typeOf dom Γ l caps) (typeOf dom Γ r caps)
  | .binop .ge l r, caps => cmpResult caps (typeOf dom Γ l caps) (typeOf dom Γ r caps)
  -- typeOfArith
  | .binop .add l r, caps => arithResult caps (typeOf dom Γ l caps) (typeOf dom Γ r caps)
  | .binop .sub l r, caps => arithResult caps (typeOf dom Γ l caps) (typeOf dom Γ r caps)
  | .binop .mul l r, caps => arithResult caps (typeOf dom Γ l caps) (typeOf dom Γ r caps)
  -- typeOfContains
  | .binop .contains l r, caps =>
    match typeOf dom Γ l caps with
    | .error e => .error e
    | .ok (lt, _) =>
      match typeOf dom Γ r caps with
      | .error e => .error e
      | .ok (rt, _) =>
        match lt with
        | .set el =>
          if !el.isNever && Γ.strict && ((lub dom Γ.strict el rt).isNone || !strictEntityOK Γ.strict el rt) then .error .reject
          else .ok (.bool, caps)
        | _ => .error .reject
  -- typeOfContainsAllAny
  | .binop .containsAll l r, caps => containsAAResult dom Γ.strict caps (typeOf dom Γ l caps) (typeOf dom Γ r caps)
  | .binop .containsAny l r, caps => containsAAResult dom Γ.strict caps (typeOf dom Γ l caps) (typeOf dom Γ r caps)
  -- typeOfIn
  | .binop .in_ l r, caps =>
    match typeOf dom Γ l caps with
    | .error e => .error e
    | .ok (lt, _) =>
      match typeOf dom Γ r caps with
      | .error e => .error e
      | .ok (rt, _) =>
        match inResult Γ l r lt rt with
        | .ok t => .ok (t, caps)
        | .error e => .error e
  -- typeOfGetTag
  | .binop .getTag l r, caps =>
    match typeOf dom Γ l caps with
    | .error e => .error e
    | .ok (lt, _) =>
      match typeOf dom Γ r caps with
      | .error e => .error e
      | .ok (rt, _) =>
        match getTagResult dom Γ l r lt rt caps with
        | .ok t => .ok (t, caps)
        | .error e => .error e
  -- typeOfHasTag
  | .binop .hasTag l r, caps =>
    match typeOf dom Γ l caps with
    | .error e => .error e
    | .ok (lt, _) =>
      match typeOf dom Γ r caps with
      | .error e => .error e
      | .ok (rt, _) => hasTagResult Γ l r lt rt caps
  -- typeOfIs
  | .is e ty, caps =>
    match typeOf dom Γ e caps with
    | .error x => .error x
    | .ok (t, _) =>
      match t with
      | .entity tys => .ok (isResult tys ty, caps)
      | _ => .error .reject
  -- typeOfIsIn (no static folding)
  | .isIn e _ r, caps =>
    match typeOf dom Γ e caps with
    | .error x => .error x
    | .ok (lt, _) =>
      match typeOf dom Γ r caps with
      | .error x => .error x
      | .ok (rt, _) =>
        if isEntityTy lt && isEntityOrSetOfEntity rt then .ok (.bool, caps) else .error .reject
  -- typeOfLike
  | .like e _, caps =>
    match typeOf dom Γ e caps with
    | .error e => .error e
    | .ok (t, _) => match t with | .string => .ok (.bool, caps) | _ => .error .reject
  -- typeOfHas
  | .has e a, caps =>
    match typeOf dom Γ e caps with
    | .error e => .error e
    | .ok (t, _) =>
      match t with
      | .record attrs =>
        let p := exprCapPath e
        let caps' := if p.isEmpty then caps else caps.add p a
        -- hasResultType: absent ↦ False, required ↦ True, optional ↦ Bool (True when the capability is already held)
        match lookupAttr a attrs with
        | none => .ok (.ff, caps')
        | some (_, true) => .ok (.tt, caps')
        | some (_, false) => .ok (if !p.isEmpty && caps.has p a then .tt else .bool, caps')
      | .entity tys =>
        let p := exprCapPath e
        let caps' := if p.isEmpty then caps else caps.add p a
        -- hasResultTypeEntity: no element declares it ↦ False, otherwise Bool (True when the capability is already held)
        if anyHasAttr Γ tys a then .ok (if !p.isEmpty && caps.has p a then .tt else .bool, caps')
        else .ok (.ff, caps')
      | _ => .error .reject
  -- typeOfAccess
  | .access e a, caps =>
    match typeOf dom Γ e caps with
    | .error e => .error e
    | .ok (t, _) =>
      match t with
      | .record attrs =>
        match lookupAttr a attrs with
        | none => .error .reject
        | some (aty, req) =>
          let p := exprCapPath e
          if !req && (p.isEmpty || !caps.has p a) then .error .reject else .ok (aty, caps)
      | .entity tys =>
        match lookupEntityAttr dom Γ.strict Γ tys a with
        | none => .error .reject
        | some (aty, req) =>
          let p := exprCapPath e
          if !req && (p.isEmpty || !caps.has p a) then .error .reject else .ok (aty, caps)
      | _ => .error .reject
  -- typeOfSet
  | .set es, caps =>
    if Γ.strict && es.isEmpty then .error .reject else
    match typeOfList dom Γ es caps with
    | .error e => .error e
    | .ok ts =>
      match lubList dom Γ.strict .never (ts.filter (fun t => !t.isNil)) with
      | none => .error .reject
      | some el => .ok (.set el, caps)
  -- typeOfRecord
  | .record kes, caps =>
    match typeOfKVs dom Γ kes caps with
    | .error e => .error e
    | .ok attrs => .ok (.record attrs, caps)
  -- typeOfExtensionCall
  | .call fn args, caps =>
    match extFuncSig fn with
    | none =>
      -- unknown function: "undefined extension function" (before the repair of `unknown-function-zero-args`
      -- the zero signature — 0 expected arguments, nil return type, no error — was used)
      .error .reject
    | some (ctor, sigArgs, ret) =>
      if args.length != sigArgs.length then .error .reject else
      if ctor && (Γ.strict || dom) && !(args.all isLitExpr) then .error .reject else
      match typeOfList dom Γ args caps with
      | .error e => .error e
      | .ok ts =>
        if !argsOK ts sigArgs then .error .reject else
        if ctorLiteralOK ctor fn args then .ok (ret, caps) else .error .reject
/-- element / argument types, left to right (capabilities of elements are discarded) -/
def typeOfList (dom : Bool) (Γ : TEnv) : List Expr → Caps → Except TErr (List Ty)
  | [], _ => .ok []
  | e :: es, caps =>
    match typeOf dom Γ e caps with
    | .error x => .error x
    | .ok (t, _) =>
      match typeOfList dom Γ es caps with
      | .error x => .error x
      | .ok ts => .ok (t :: ts)
/-- `typeOfRecord`: later entries overwrite earlier ones; an entry of nil type sets nothing -/
def typeOfKVs (dom : Bool) (Γ : TEnv) : List (String × Expr) → Caps → Except TErr Attrs
  | [], _ => .ok []
  | (k, e) :: kes, caps =>
    match typeOf dom Γ e caps with
    | .error x => .error x
    | .ok (t, _) =>
      match typeOfKVs dom Γ kes caps with
      | .error x => .error x
      | .ok rest =>
        -- entries are processed left to right in Go; building from the right, an earlier key yields to a later one
        if hasKey k rest || t.isNil then .ok rest else .ok ((k, t, true) :: rest)
end

/-! ## Policy level (`policy.go`) -/

structure ActionDecl where
  uid : UID
  appliesTo : Option (List String × List String × Attrs)   -- principals, resources, context
  parents : List UID := []                                  -- `Entity.Parents`
deriving Repr, Inhabited

structure SchemaLite where
  entityTypes : List String                        -- declared entity types and enum types
  actions : List ActionDecl
  entities : List (String × EntityDecl) := []      -- `schema.Entities`
deriving Repr, Inhabited

/-- what every request environment shares -/
def baseEnv (s : SchemaLite) (strict : Bool) : TEnv :=
  { principalType := "", action := ("", ""), resourceType := "", context := [],
    entityTypes := s.entityTypes, actions := s.actions.map (·.uid), strict := strict,
    entityDecls := s.entities, actionParents := s.actions.map (fun a => (a.uid, a.parents)) }

/-- `generateRequestEnvs` -/
def requestEnvs (s : SchemaLite) (strict : Bool) : List TEnv :=
  s.actions.flatMap fun a =>
    match a.appliesTo with
    | none => []
    | some (ps, rs, ctx) =>
      ps.flatMap fun p => rs.map fun r =>
        { baseEnv s strict with principalType := p, action := a.uid, resourceType := r, context := ctx }

/-- one pass of the `for changed` loop of `getEntityTypesIn` -/
def typesInPass (ents : List (String × EntityDecl)) (result : List String) : List String × Bool :=
  ents.foldl (fun (acc : List String × Bool) e =>
    if acc.1.contains e.1 then acc
    else if e.2.parents.any (fun p => acc.1.contains p) then (acc.1 ++ [e.1], true)
    else acc) (result, false)

def typesInLoop (ents : List (String × EntityDecl)) : Nat → List String → List String
  | 0, res => res
  | fuel + 1, res =>
    match typesInPass ents res with
    | (res', true) => typesInLoop ents fuel res'
    | (res', false) => res'

/-- `getEntityTypesIn`: the target and every declared entity type below it (every pass but the last adds a type, so
    `|entities| + 1` passes suffice) -/
def getEntityTypesIn (s : SchemaLite) (target : String) : List String :=
  typesInLoop s.entities (s.entities.length + 1)
    (target :: (s.entities.filter fun e => e.2.parents.contains target).map (·.1))

/-- `validateScopeEntity` / `validateScopeType` -/
def scopeEntityOK (s : SchemaLite) (u : UID) : Bool := (typeOfEntityUID (baseEnv s true) u.1 u.2).isSome

/-- `validatePrincipalScope` / `validateResourceScope`: `none` = no constraint (Go `nil`) -/
def scopeTypes (s : SchemaLite) : Scope → Except TErr (Option (List String))
  | .all => .ok none
  | .eq u => if scopeEntityOK s u then .ok (some [u.1]) else .error .reject
  | .in_ u => if scopeEntityOK s u then .ok (some (getEntityTypesIn s u.1)) else .error .reject
  | .is t => if s.entityTypes.contains t then .ok (some [t]) else .error .reject
  | .isIn t u =>
    if !s.entityTypes.contains t then .error .reject
    else if !scopeEntityOK s u then .error .reject
    else if (getEntityTypesIn s u.1).contains t then .ok (some [t]) else .ok (some [])
  | .inSet _ => .error .unsupported   -- not a principal / resource scope

/-- `getActionsInSet`: every target followed by the schema actions below it; `none` = the descent ran out of fuel -/
def getActionsInSet (s : SchemaLite) : List UID → Option (List UID)
  | [] => some []
  | u :: us =>
    match (s.actions.map (·.uid)).mapM (fun a =>
        if a == u then some [] else
        match isActionDescendant (baseEnv s true) a u with
        | none => none
        | some true => some [a]
        | some false => some []) with
    | none => none
    | some below =>
      match getActionsInSet s us with
      | none => none
      | some rest => some (u :: below.flatten ++ rest)

/-- `validateAndGetActionUIDs` -/
def scopeActions (s : SchemaLite) : Scope → Except TErr (Option (List UID))
  | .all => .ok none
  | .eq u => if (s.actions.map (·.uid)).contains u then .ok (some [u]) else .error .reject
  | .in_ u =>
    if !(s.actions.map (·.uid)).contains u then .error .reject else
    match getActionsInSet s [u] with
    | none => .error .unsupported
    | some us => .ok (some us)
  | .inSet us =>
    if !us.all (fun u => (s.actions.map (·.uid)).contains u) then .error .reject else
    match getActionsInSet s us with
    | none => .error .unsupported
    | some r => .ok (some r)
  | _ => .error .unsupported   -- not an action scope

/-- `validateActionApplication` -/
def actionApplies (s : SchemaLite) (pts rts : Option (List String)) (acts : Option (List UID)) : Bool :=
  if pts.isNone && rts.isNone && acts.isNone then true else
  let cands := match acts with
    | none => s.actions
    | some us => s.actions.filter (fun a => us.contains a.uid)
  cands.any fun a =>
    match a.appliesTo with
    | none => false
    | some (ps, rs, _) =>
      (match pts with | none => true | some ts => ts.any (fun t => ps.contains t)) &&
      (match rts with | none => true | some ts => ts.any (fun t => rs.contains t))

/-- one condition in one environment: accepted iff no error and the type is nil or boolean -/
def condOK (dom : Bool) (Γ : TEnv) (body : Expr) : Except TErr Bool :=
  match typeOf dom Γ body [] with
  | .error .reject => .ok false
  | .error .unsupported => .error .unsupported
  | .ok (t, _) => .ok (t.isNil || isBoolTy t)

/-- `Validator.Policy`: `true` = no error -/
def validatePolicy (dom : Bool) (s : SchemaLite) (strict : Bool) (p : Policy) : Except TErr Bool := do
  let pts ← scopeTypes s p.principal
  let acts ← scopeActions s p.action
  let rts ← scopeTypes s p.resource
  let envs := (requestEnvs s strict).filter fun Γ =>
    (match pts with | none => true | some ts => ts.contains Γ.principalType) &&
    (match rts with | none => true | some ts => ts.contains Γ.resourceType) &&
    (match acts with | none => true | some us => us.isEmpty || us.contains Γ.action)
  let oks ← p.conditions.mapM fun (c : Bool × Expr) => envs.mapM fun Γ => condOK dom Γ c.2
  .ok (actionApplies s pts rts acts && oks.all (fun l => l.all id))

end CedarGo.Validate
